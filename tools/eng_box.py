"""MsgBox engine: C14 (exactly-once, in-order hand-off across the first-send race) at lock-step granularity.

 1. TLC explores every interleaving (at the verifYield points) of small thread programs on MsgBoxLS.tla and checks NoDup,
    ExactlyOnce, PerSenderOrder, Clean and NoDeadlock (incl. a dispatcher that acknowledges from inside its session lock).
 2. The labelled state graph is dumped; all maximal schedules (small scenarios) / an edge cover + seeded walks (larger ones)
    are replayed on a real msg.Box whose goroutines are gated through the verifYield hook.
 3. TLC validates every recorded run against MsgBoxLSTrace.tla (yield point reached + projected state after every step) and
    evaluates ExactlyOnce / PerSenderOrder / NoDup / NothingLeftBehind / NoPanic / NoDeadlock on the real hand-off log.
"""
import json
import os
import random
import sys

sys.path.insert(0, os.path.dirname(os.path.abspath(__file__)))
import vlib
from vlib import log
from eng_rbc import tla_val, Rec


def M(i, src, topic, ack=False):
    return dict(k="recv", id=i, src=src, topic=topic, ack=ack)


def S(topic):
    return dict(k="send", topic=topic)


TICK = dict(k="tick")


SCENARIOS = {
    # one connection thread delivering two messages of sender 7, one Send
    "A": dict(topics=["T"], threads={"R1": [M(1, 7, "T"), M(2, 7, "T")], "S1": [S("T")]}),
    # two connections (two senders), one Send
    "B": dict(topics=["T"], threads={"R1": [M(1, 7, "T")], "R2": [M(2, 8, "T")], "S1": [S("T")]}),
    # two Sends on the same topic (the second one drains what the first one stranded)
    "C": dict(topics=["T"], threads={"R1": [M(1, 7, "T"), M(2, 7, "T")], "S1": [S("T")], "S2": [S("T")]}),
    # two topics
    "D": dict(topics=["T", "U"], threads={"R1": [M(1, 7, "T"), M(2, 7, "U")], "S1": [S("T")], "S2": [S("U")]}),
    # two Sends in sequence from one thread, three messages
    "E": dict(topics=["T"], threads={"R1": [M(1, 7, "T"), M(2, 7, "T"), M(3, 7, "T")], "S1": [S("T"), S("T")]}),
    # two connections with two messages each and a Send
    "F": dict(topics=["T"], threads={"R1": [M(1, 7, "T"), M(2, 7, "T")], "R2": [M(3, 8, "T"), M(4, 8, "T")], "S1": [S("T")]}),
    # the dispatcher acknowledges from inside its session lock (Send nested in the handler): the pattern of the reliable broadcast
    "G": dict(topics=["T"], threads={"R1": [M(1, 7, "T", True), M(2, 7, "T", True)], "S1": [S("T")]}),
    "H": dict(topics=["T"], threads={"R1": [M(1, 7, "T", True)], "R2": [M(2, 8, "T", True)], "S1": [S("T")]}),
    # acknowledging and plain messages, two Sends
    "I": dict(topics=["T"], threads={"R1": [M(1, 7, "T", True), M(2, 7, "T")], "R2": [M(3, 8, "T")], "S1": [S("T"), S("T")]}),
    # two topics with acknowledgements: sessions are independent
    "J": dict(topics=["T", "U"], threads={"R1": [M(1, 7, "T", True), M(2, 7, "U", True)], "S1": [S("T")], "S2": [S("U")]}),
    # two concurrent Sends, two connections
    "K": dict(topics=["T"], threads={"R1": [M(1, 7, "T"), M(2, 7, "T")], "R2": [M(3, 8, "T", True)], "S1": [S("T")], "S2": [S("T")]}),
    # a longer stream with acknowledgements: arrivals queue up behind a hand-over that itself sends
    "L": dict(topics=["T"], threads={"R1": [M(1, 7, "T", True), M(2, 7, "T", True), M(3, 7, "T"), M(4, 7, "T", True)], "S1": [S("T")]}),
    # three connections
    "M": dict(topics=["T"], threads={"R1": [M(1, 7, "T", True)], "R2": [M(2, 8, "T")], "R3": [M(3, 9, "T"), M(4, 9, "T")], "S1": [S("T")]}),
    # the collector takes part (GCExpire / GCSweep = 2): the topic expires while its hand-over may still be running; a Send on
    # another topic runs the collection
    "N": dict(gc=True, topics=["T", "U"], threads={"R1": [M(1, 7, "T"), M(2, 7, "T")], "S1": [S("T")], "K1": [TICK, TICK, TICK, S("U")]}),
    "O": dict(gc=True, topics=["T", "U"], threads={"R1": [M(1, 7, "T", True), M(2, 7, "T")], "S1": [S("T")], "K1": [TICK, TICK, TICK, S("U")]}),
    "P": dict(gc=True, topics=["T", "U"], threads={"R1": [M(1, 7, "T"), M(2, 7, "T"), M(3, 7, "T")], "S1": [S("T"), TICK, TICK, TICK, S("U")]}),
}


def prog_tla(sc):
    items = []
    for name, ops in sorted(sc["threads"].items()):
        seq = []
        for op in ops:
            if op["k"] == "recv":
                seq.append('[k |-> "recv", m |-> [id |-> %d, src |-> %d, topic |-> "%s", ack |-> %s]]' % (
                    op["id"], op["src"], op["topic"], "TRUE" if op.get("ack") else "FALSE"))
            elif op["k"] == "tick":
                seq.append('[k |-> "tick"]')
            else:
                seq.append('[k |-> "send", t |-> "%s"]' % op["topic"])
        items.append('"%s" :> <<%s>>' % (name, ", ".join(seq)))
    return " @@ ".join(items)


def write_mc(wd, name, sc, trace=None, invariants=()):
    mod = ("T_" if trace else "MC_") + name
    lines = ["---- MODULE %s ----" % mod, "EXTENDS %s" % ("MsgBoxLSTrace" if trace else "MsgBoxLS, Json")]
    lines.append("c_Threads == %s" % tla_val(sorted(sc["threads"])))
    lines.append("c_Prog == %s" % prog_tla(sc))
    lines.append("c_Topics == %s" % tla_val(sc["topics"]))
    if trace:
        lines.append('c_TraceFile == "%s"' % trace)
    else:
        lines.append('EdgeDump == PrintT(<<"EDGE", ToJson([s |-> view, d |-> view\', e |-> ev\'])>>)')
    lines.append("====")
    with open(os.path.join(wd, mod + ".tla"), "w") as f:
        f.write("\n".join(lines) + "\n")
    c = ["CONSTANTS", "  Threads <- c_Threads", "  Prog <- c_Prog", "  Topics <- c_Topics", "  GCOn = %s" % ("TRUE" if sc.get("gc") else "FALSE"), "  Expire = 2"]
    if trace:
        c += ["  TraceFile <- c_TraceFile", "INIT TInit", "NEXT TNext"]
    else:
        c += ["INIT Init", "NEXT Next", "VIEW view", "ACTION_CONSTRAINT EdgeDump"]
        if invariants:
            c.append("INVARIANTS " + " ".join(invariants))
    with open(os.path.join(wd, mod + ".cfg"), "w") as f:
        f.write("\n".join(c) + "\n")
    return mod


def schedules(edges, cap, rng):
    """edges: list of dict(s, d, e). Returns (paths, total_maximal or None, n_states, n_edges); a path is a list of thread names."""
    key = lambda v: json.dumps(v, sort_keys=True)
    succ = {}
    states = set()
    indeg = {}
    for ed in edges:
        s, d = key(ed["s"]), key(ed["d"])
        states.add(s)
        states.add(d)
        succ.setdefault(s, []).append((ed["e"], d))
        indeg[d] = indeg.get(d, 0) + 1
    roots = [s for s in states if indeg.get(s, 0) == 0]
    if len(roots) != 1:
        raise vlib.CheckError("state graph has %d roots" % len(roots))
    root = roots[0]
    # count maximal paths (the graph is a DAG)
    memo = {}

    def count(s):
        if s in memo:
            return memo[s]
        out = succ.get(s, [])
        memo[s] = 1 if not out else sum(count(d) for _, d in out)
        return memo[s]

    sys.setrecursionlimit(100000)
    total = count(root)
    paths = []
    if total <= cap:
        stack = [(root, [])]
        while stack:
            s, p = stack.pop()
            out = succ.get(s, [])
            if not out:
                paths.append(p)
            for e, d in out:
                stack.append((d, p + [e]))
        return paths, total, len(states), len(edges), True
    # edge cover: for every edge a path through it (seeded prefix to its source, seeded completion)
    pred = {}
    for s, out in succ.items():
        for e, d in out:
            pred.setdefault(d, []).append((e, s))

    def to_root(s):
        p = []
        while s != root:
            e, s2 = rng.choice(pred[s])
            p.append(e)
            s = s2
        return p[::-1]

    def to_leaf(s):
        p = []
        while succ.get(s):
            e, s = rng.choice(succ[s])
            p.append(e)
        return p

    seen = set()
    for s, out in sorted(succ.items()):
        for e, d in out:
            p = to_root(s) + [e] + to_leaf(d)
            k = tuple(p)
            if k not in seen:
                seen.add(k)
                paths.append(p)
    while len(paths) < cap:
        p = to_leaf(root)
        k = tuple(p)
        if k in seen:
            if len(seen) >= total:
                break
            continue
        seen.add(k)
        paths.append(p)
    return paths[:cap], total, len(states), len(edges), False


INVARIANTS = ["NoDup", "ExactlyOnce", "PerSenderOrder", "Clean", "NoDeadlock"]
MONITORS = ["ExactlyOnce", "PerSenderOrder", "NoDup", "NothingLeftBehind", "NoPanic", "NoDeadlock"]


def validate_traces(wd, sc_name, tf, n_expected):
    mod = write_mc(wd, sc_name, SCENARIOS[sc_name], trace=os.path.basename(tf))
    r = vlib.run_tlc(mod, mod + ".cfg", ["MsgBoxLS.tla", "MsgBoxLSTrace.tla"], workdir=wd, workers=1, timeout=1800, keep_prints=["VIOL", "END"], heap="8g")
    ends = [o for (tag, o) in r.prints if tag == "END"]
    if len(ends) != n_expected:
        raise vlib.CheckError("box trace validation consumed %d of %d traces of scenario %s\n%s" % (len(ends), n_expected, sc_name, r.out[-2000:]))
    return r, ends


def run(pid):
    tr = vlib.tier()
    wd = vlib.scratch(pid)
    rng = random.Random(vlib.seed())
    verdict = vlib.Verdict(pid)
    capq = dict(A=20000, B=3000, C=3000, D=2000, E=3000, F=1500, G=3000, H=3000, I=2000, J=2000, K=2000, L=2000, M=2000, N=3000, O=3000, P=3000)
    caps = capq if tr == "quick" else {k: 40 * v for k, v in capq.items()}
    job = []
    ev = []
    states = transitions = 0
    exhaustive = {}
    for name in sorted(SCENARIOS):
        sc = SCENARIOS[name]
        mod = write_mc(wd, name, sc, invariants=INVARIANTS)
        r = vlib.run_tlc(mod, mod + ".cfg", ["MsgBoxLS.tla"], workdir=wd, timeout=900, keep_prints=["EDGE"], heap="8g")
        if r.violation:
            raise vlib.CheckError("MsgBoxLS scenario %s violates %s at design level: the model of the buffer does not satisfy C14 any more -- "
                                  "fix spec/MsgBoxLS.tla (or, if the model is right about the code, the code)\n%s" % (
                                      name, r.violation, "".join(r.error_trace[-2:])[:3000]))
        edges = [o for (_, o) in r.prints]
        paths, total, ns, ne, allp = schedules(edges, caps[name], rng)
        states += r.distinct
        transitions += r.generated
        exhaustive[name] = allp
        log("box %s: %r, %d maximal schedules, %d replayed%s" % (name, r, total, len(paths), " (all)" if allp else ""))
        ev.append(dict(scenario=name, threads=sc["threads"], distinct_states=r.distinct, edges=ne, maximal_schedules=total, replayed=len(paths),
                       all_schedules=allp))
        job.append(dict(name=name, gc=bool(sc.get("gc")), threads=sc["threads"], topics=sc["topics"], paths=paths))
    drv = vlib.build_harness()
    jobfile = os.path.join(wd, "boxjob.json")
    with open(jobfile, "w") as f:
        json.dump(dict(scenarios=job, workers=16), f)
    outfile = os.path.join(wd, "box.ndjson")
    rc, _, err = vlib.run_driver(drv, ["box"], stdin_path=jobfile, stdout_path=outfile, timeout=2400)
    if rc != 0:
        raise vlib.CheckError("box driver failed (rc=%d): %s" % (rc, err))
    per = {}
    traces = {}
    cur = None
    with open(outfile) as f:
        for line in f:
            if line.startswith('{"e":"reset"'):
                o = json.loads(line)
                cur = o["t"]
                traces[cur] = []
                per.setdefault(o["sci"], []).append(cur)
            traces[cur].append(line)
    stats = dict(replayed=len(traces), validated=0, drift=0, drift_kinds={}, events=sum(len(v) for v in traces.values()))
    sample = None
    selftest_src = None
    for sci, ts in sorted(per.items()):
        sc = job[sci]
        tf = os.path.join(wd, "btrace_%d.ndjson" % sci)
        with open(tf, "w") as f:
            for t in ts:
                f.writelines(traces[t])
        r, ends = validate_traces(wd, sc["name"], tf, len(ts))
        stats["validated"] += len(ends)
        for o in ends:
            if o["drift"]:
                stats["drift"] += 1
                k = o["drift"].split(" @line")[0]
                stats["drift_kinds"][k] = stats["drift_kinds"].get(k, 0) + 1
        for tag, o in r.prints:
            if tag != "VIOL":
                continue
            t = o["t"]
            evs = [json.loads(x) for x in traces[t]]
            sched = [e["th"] for e in evs if e["e"] == "step"]
            verdict.violation("%s/%s" % (o["mon"], sc["name"]),
                              "C14 monitor %s is false on the real hand-off log of scenario %s under schedule %s" % (o["mon"], sc["name"], " ".join(sched)),
                              dict(property=pid, monitor=o["mon"], scenario=sc["name"], schedule=sched, real_trace=evs))
        if sample is None and ts:
            evs = [json.loads(x) for x in traces[ts[len(ts) // 2]]]
            sample = dict(scenario=sc["name"], schedule=[e["th"] for e in evs if e["e"] == "step"], handed=[e for e in evs if e["e"] == "step"][-1]["handed"])
        if sc["name"] == "F" and ts:
            # a run in which both messages of one sender were handed over, for the binding self-test
            for t in ts:
                evs = [json.loads(x) for x in traces[t]]
                steps = [e for e in evs if e["e"] == "step"]
                if steps and len(steps[-1]["handed"]) == 4:
                    selftest_src = (sc["name"], traces[t])
                    break
    log("box: %d schedules replayed on the real Box (%d steps), drift in %d" % (stats["replayed"], stats["events"], stats["drift"]))
    for k, v in stats["drift_kinds"].items():
        print("DRIFT property=%s count=%d kind=%s" % (pid, v, k))
    st_res = None
    if selftest_src and not verdict.violations:
        st_res = selftest(wd, *selftest_src)
    rc = verdict.finish()
    vlib.write_evidence(pid, "model_checking", dict(
        states=max(states, 1), transitions=max(transitions, 1), traces_validated_against_impl=stats["validated"],
        samples=[sample] if sample else [dict(note="none")], exhaustive=all(exhaustive.values()), scenarios=ev,
        real_steps=stats["events"], drift_traces=stats["drift"], drift_kinds=stats["drift_kinds"],
        model_invariants=INVARIANTS, monitors=MONITORS, binding_selftest=st_res, known_findings_seen=sorted(verdict.known_seen),
        rule="schedules = maximal paths of the lock-step state graph of each thread program (all of them when below the cap, else an edge "
             "cover plus seeded walks); each replayed on a real msg.Box with goroutines gated at the verifYield points",
    ), [
        "yield points sit immediately before every top-level lock acquisition of msg.Box and before every call of the handler; code between "
        "two yield points of one thread is atomic with respect to the other gated threads",
        "the handler of the harness stands for the dispatcher: for flagged messages it acknowledges (Box.Send on the same topic) from inside a "
        "per-topic lock, like threshold's threadSafeRBC around the reliable broadcast",
        "senders stay within the documented limits; the epoch clock does not advance (C15 covers limits and expiry)",
    ], violations=len(verdict.violations))
    return rc


def selftest(wd, sc_name, lines):
    """the trace specification must notice corruptions of a recorded real run (binding self-test)"""
    def corrupt(fn):
        evs = [json.loads(x) for x in lines]
        fn(evs)
        return [json.dumps(e, separators=(",", ":")) + "\n" for e in evs]

    def swap_handed(evs):
        # the two messages of sender 7 (ids 1, 2) handed over in the opposite order, from the step on at which both are in the log
        for e in evs:
            if e["e"] == "step" and 1 in e["handed"] and 2 in e["handed"]:
                h = e["handed"]
                i, j = h.index(1), h.index(2)
                h[i], h[j] = h[j], h[i]

    def drop_handed(evs):
        for e in evs:
            if e["e"] == "step":
                e["handed"] = [x for x in e["handed"] if x != 3]

    def dup_handed(evs):
        for e in evs:
            if e["e"] == "step" and 4 in e["handed"]:
                e["handed"] = e["handed"] + [4]

    def left_behind(evs):
        last = [e for e in evs if e["e"] == "step"][-1]
        last["pend"][0]["has"] = True
        last["pend"][0]["ids"] = [9]

    def wrong_yield(evs):
        st = [e for e in evs if e["e"] == "step"]
        st[len(st) // 2]["next"] = "create"

    def hung(evs):
        evs[-1]["hung"] = True

    res = []
    for label, fn, want_mon, want_drift in (("two messages of one sender swapped in the hand-off log", swap_handed, "PerSenderOrder", True),
                                            ("a message removed from the hand-off log", drop_handed, "ExactlyOnce", True),
                                            ("a message handed over twice", dup_handed, "NoDup", True),
                                            ("a message left in the buffer of a started topic", left_behind, "NothingLeftBehind", True),
                                            ("a yield point renamed", wrong_yield, None, True),
                                            ("the run reported as hung", hung, "NoDeadlock", False)):
        tf = os.path.join(wd, "selftest.ndjson")
        with open(tf, "w") as f:
            f.writelines(corrupt(fn))
        r, ends = validate_traces(wd, sc_name, tf, 1)
        mons = {o["mon"] for (tag, o) in r.prints if tag == "VIOL"}
        drift = bool(ends[0]["drift"])
        ok = (want_mon is None or want_mon in mons) and (not want_drift or drift)
        if not ok:
            raise vlib.CheckError("binding self-test of box: the corruption '%s' of a recorded trace was NOT noticed by the trace specification "
                                  "(monitors %s, drift %r)" % (label, sorted(mons), ends[0]["drift"]))
        log("self-test box: corruption '%s' noticed (monitors=%s, drift=%s)" % (label, sorted(mons), drift))
        res.append(dict(corruption=label, monitors=sorted(mons), drift=drift))
    return res


def replay(pid, path):
    with open(path) as f:
        o = json.load(f)
    wd = vlib.scratch(pid + "r")
    sc = SCENARIOS[o["scenario"]]
    drv = vlib.build_harness()
    rc, out, err = vlib.run_driver(drv, ["box"], stdin_obj=dict(scenarios=[dict(name=o["scenario"], gc=bool(sc.get("gc")), threads=sc["threads"], topics=sc["topics"],
                                                                     paths=[o["schedule"]])], workers=1))
    print(out)
    return 0


if __name__ == "__main__":
    vlib.main_wrapper(lambda: run(sys.argv[1]))
