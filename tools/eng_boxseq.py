"""MsgBox API-level engine: C15 (the silent-mode buffer stays bounded and gives resources back).

 1. TLC checks MsgBoxAt.tla exhaustively with scaled-down constants (limit 2, 1 topic in flight, expiry 2 epochs).
 2. TLC (-simulate, real constants: limit 100) generates operation histories with bursts beyond every limit and idle periods;
    each is extended by a flush (two collections after idle periods longer than the expiry) and a probe by every sender.
 3. The histories run on a real msg.Box (virtual ticker, real constants); TLC validates the recorded states against
    MsgBoxAtTrace.tla (conformance) and evaluates the C15 monitors on the observed state.
"""
import json
import os
import random
import sys

sys.path.insert(0, os.path.dirname(os.path.abspath(__file__)))
import vlib
from vlib import log
from eng_rbc import tla_val

LIMIT = 100         # msg.limitPerSender (a Go constant)
MAXTOPICS = 2
EPOCHS = 3
SENDERS = [1, 2]
WORK = ["T", "U", "V", "W"]
FLUSH = ["F1", "F2"]
PROBE = ["P1", "P2"]


def write_mc(wd, name, consts, trace=None, invariants=(), sim=False):
    mod = ("T_" if trace else "MC_") + name
    lines = ["---- MODULE %s ----" % mod, "EXTENDS %s" % ("MsgBoxAtTrace" if trace else "MsgBoxAt, Json")]
    for k in ("Senders", "Topics", "Bursts"):
        lines.append("c_%s == %s" % (k, tla_val(consts[k])))
    if trace:
        lines.append('c_TraceFile == "%s"' % trace)
        lines.append("c_Old == %s" % tla_val(WORK + FLUSH[:1]))
        lines.append("c_Probe == %s" % tla_val(PROBE))
    else:
        lines.append('PathDumpT == Terminal\' => PrintT(<<"PATH", ToJson(hist\')>>)')
    lines.append("====")
    with open(os.path.join(wd, mod + ".tla"), "w") as f:
        f.write("\n".join(lines) + "\n")
    c = ["CONSTANTS", "  Senders <- c_Senders", "  Topics <- c_Topics", "  Bursts <- c_Bursts"]
    for k in ("Limit", "MaxTopics", "Epochs", "MaxEpoch", "MaxOps"):
        c.append("  %s = %d" % (k, consts[k]))
    if trace:
        c += ["  TraceFile <- c_TraceFile", "  OldTopics <- c_Old", "  ProbeTopics <- c_Probe", "INIT TInit", "NEXT TNext"]
    else:
        c += ["INIT Init", "NEXT Next", "VIEW view"]
        if invariants:
            c.append("INVARIANTS " + " ".join(invariants))
        if sim:
            c.append("ACTION_CONSTRAINT PathDumpT")
    with open(os.path.join(wd, mod + ".cfg"), "w") as f:
        f.write("\n".join(c) + "\n")
    return mod


def extend(h, busy=False):
    """flush: two collections, each after an idle period longer than the expiry -- or (busy) a node that keeps sending once per
    epoch for more than two expiry periods; probe: every sender, one message per probe topic"""
    ops = [dict(e=o["e"], s=o.get("s", 0), t=o.get("t", ""), n=o.get("n", 0), label="") for o in h]
    if busy:
        for i in range(2 * EPOCHS + 2):
            ops.append(dict(e="tick", s=0, t="", n=0, label=""))
            ops.append(dict(e="send", s=0, t=FLUSH[i % 2], n=0, label=""))
    else:
        for f in FLUSH:
            ops += [dict(e="tick", s=0, t="", n=0, label="")] * (EPOCHS + 1)
            ops.append(dict(e="send", s=0, t=f, n=0, label=""))
    ops[-1] = dict(ops[-1], label="flushed")
    for s in SENDERS:
        for p in PROBE:
            ops.append(dict(e="recv", s=s, t=p, n=1, label=""))
    ops[-1] = dict(ops[-1], label="probed")
    return ops


def directed():
    """excess traffic must not keep anything alive: a sender goes over the per-topic limit on a topic that never starts and then keeps
    trickling one (shed) message per epoch while the node stays busy on other topics; another sender has data on the same topic.
    After more than two expiry periods the topic must be gone and nobody may be throttled.  (Same trace specification: the model
    predicts the state after every operation.)"""
    def op(e, s=0, t="", n=0, label=""):
        return dict(e=e, s=s, t=t, n=n, label=label)
    hs = []
    for over in (LIMIT + 1, LIMIT + 2):
        for victims in ([], [("T", 1)], [("T", 2), ("U", 1)]):
            for trickle_on in (["T"], ["T", "U"]):
                ops = []
                for t in trickle_on:
                    ops.append(op("recv", 1, t, over))
                for (t, n) in victims:
                    ops.append(op("recv", 2, t, n))
                # the collector runs every EPOCHS epochs and discards what has been unused for MORE than EPOCHS epochs: data last used in
                # epoch 0 goes in the collection of epoch 2 * EPOCHS -- the (shed) message of that very epoch arrives just before it
                for i in range(2 * EPOCHS):
                    ops.append(op("tick"))
                    for t in trickle_on:
                        ops.append(op("recv", 1, t, 1))
                    ops.append(op("send", 0, FLUSH[i % 2]))
                ops[-1] = dict(ops[-1], label="flushed")
                for sd in SENDERS:
                    for pt in PROBE:
                        ops.append(op("recv", sd, pt, 1))
                ops[-1] = dict(ops[-1], label="probed")
                hs.append(ops)
    return hs


INV = ["CountWithinLimit", "TopicsWithinLimit", "Bookkeeping", "NoStaleAfterGC"]


def run(pid):
    tr = vlib.tier()
    wd = vlib.scratch(pid)
    rng = random.Random(vlib.seed())
    verdict = vlib.Verdict(pid)
    ev = []
    # 1. exhaustive, scaled-down constants
    small = dict(Senders=[1, 2], Topics=["T", "U", "V"], Bursts=[1, 3], Limit=2, MaxTopics=1, Epochs=2, MaxEpoch=5, MaxOps=6 if tr == "quick" else 8)
    mod = write_mc(wd, "small", small, invariants=INV)
    r = vlib.run_tlc(mod, mod + ".cfg", ["MsgBoxAt.tla"], workdir=wd, timeout=2400, heap="14g")
    if r.violation:
        raise vlib.CheckError("MsgBoxAt violates %s at design level\n%s" % (r.violation, "".join(r.error_trace[-2:])[:3000]))
    log("boxseq small: %r" % r)
    states, transitions = r.distinct, r.generated
    ev.append(dict(config="small", constants=small, distinct_states=r.distinct, states_generated=r.generated, depth=r.depth))
    # 2. histories with the real constants
    real = dict(Senders=SENDERS, Topics=WORK, Bursts=[1, 2, LIMIT, LIMIT + 2], Limit=LIMIT, MaxTopics=MAXTOPICS, Epochs=EPOCHS, MaxEpoch=10 ** 6,
                MaxOps=14 if tr == "quick" else 40)
    mod = write_mc(wd, "real", real, sim=True)
    n = 250 if tr == "quick" else 2500
    r2 = vlib.run_tlc(mod, mod + ".cfg", ["MsgBoxAt.tla"], workdir=wd, workers=1, simulate="num=%d" % n, depth=real["MaxOps"] + 1, tlc_seed=vlib.seed(),
                      timeout=900, keep_prints=["PATH"])
    hs = vlib.maximal_paths([p for (_, p) in r2.prints])
    rng.shuffle(hs)
    hs = hs[: (400 if tr == "quick" else 4000)]
    if tr == "thorough":
        # a few very long histories
        ops = [h for h in hs[:200]]
        for k in range(5):
            long = []
            for h in ops[k * 40:(k + 1) * 40]:
                long += h
            hs.append(long)
    histories = [extend(h, busy=(i % 2 == 1)) for i, h in enumerate(hs)] + directed()
    log("boxseq: %d histories generated by TLC (real constants), %d operations" % (len(histories), sum(len(h) for h in histories)))
    drv = vlib.build_harness()
    topics = WORK + FLUSH + PROBE
    jobfile = os.path.join(wd, "seqjob.json")
    with open(jobfile, "w") as f:
        json.dump(dict(maxtopics=MAXTOPICS, epochs=EPOCHS, topics=topics, histories=histories, workers=12), f)
    outfile = os.path.join(wd, "seq.ndjson")
    rc, _, err = vlib.run_driver(drv, ["boxseq"], stdin_path=jobfile, stdout_path=outfile, timeout=2400)
    if rc != 0:
        raise vlib.CheckError("boxseq driver failed (rc=%d): %s" % (rc, err))
    tcons = dict(real, Topics=topics)
    mod = write_mc(wd, "real", tcons, trace="seq.ndjson")
    r3 = vlib.run_tlc(mod, mod + ".cfg", ["MsgBoxAt.tla", "MsgBoxAtTrace.tla"], workdir=wd, workers=1, timeout=2400, keep_prints=["VIOL", "END"], heap="12g")
    ends = [o for (t, o) in r3.prints if t == "END"]
    if len(ends) != len(histories):
        raise vlib.CheckError("boxseq trace validation consumed %d of %d histories\n%s" % (len(ends), len(histories), r3.out[-2500:]))
    drift = {}
    for o in ends:
        if o["drift"]:
            k = o["drift"].split(" @line")[0]
            drift[k] = drift.get(k, 0) + 1
    for t, o in r3.prints:
        if t != "VIOL":
            continue
        h = histories[o["t"]]
        sig = "%s" % o["mon"]
        verdict.violation(sig, "C15 monitor %s is false on the observed state of the real msg.Box in history %d" % (o["mon"], o["t"]),
                          dict(property=pid, monitor=o["mon"], history=h, line=o["l"]))
    for k, v in drift.items():
        print("DRIFT property=%s count=%d kind=%s" % (pid, v, k))
    log("boxseq: %d histories validated, drift in %d" % (len(ends), sum(drift.values())))
    rc = verdict.finish()
    vlib.write_evidence(pid, "model_checking", dict(
        states=max(states, 1), transitions=max(transitions, 1), traces_validated_against_impl=len(ends),
        samples=[dict(history=histories[len(histories) // 2][:30])] if histories else [dict(note="none")], exhaustive=False, configs=ev,
        real_constants=dict(limitPerSender=LIMIT, MaxInFlightTopicsBySender=MAXTOPICS, expiry_epochs=EPOCHS, bursts=real["Bursts"]),
        operations=sum(len(h) for h in histories), drift_traces=sum(drift.values()), drift_kinds=drift,
        monitors=["CountWithinLimit", "TopicsWithinLimit", "ShedsWithoutFailing", "OldDataDiscarded", "BookkeepingReleased", "NotThrottled"],
        known_findings_seen=sorted(verdict.known_seen),
        rule="histories = TLC -simulate walks of MsgBoxAt with the real constants (bursts 1, 2, limit, limit+2) + flush + probe suffix; distinct = distinct walks",
    ), ["sequential use of the Box (C14 covers interleavings)", "virtual ticker: one Tick = one GCSweep period"], violations=len(verdict.violations))
    return rc


def replay(pid, path):
    with open(path) as f:
        o = json.load(f)
    drv = vlib.build_harness()
    rc, out, err = vlib.run_driver(drv, ["boxseq"], stdin_obj=dict(maxtopics=MAXTOPICS, epochs=EPOCHS, topics=WORK + FLUSH + PROBE, histories=[o["history"]], workers=1))
    for line in out.splitlines():
        e = json.loads(line)
        if e["e"] in ("recv", "send", "tick"):
            print(e["e"], e.get("s"), e.get("tp"), e.get("n"), e.get("label"), "panic=%r" % e["panic"], "infl=%s" % e["snap"]["infl"],
                  "pend=%s" % [(p["t"], len(p["msgs"])) for p in e["snap"]["pend"] if p["on"]])
    return 0


if __name__ == "__main__":
    vlib.main_wrapper(lambda: run(sys.argv[1]))
