"""Orch engine: C06 (node-id / party-id translation), C11 (clean failure), C12 (no residue, no interference).

 1. TLC explores spec/Orch.tla: call histories of one node (KeyGen / Sign on two topics, up to three calls) with a catalogue of
    stage outcomes (success, failure at each stage, duplicate party, unusable share data, stages that complete only after
    their call was cancelled), cancellations and injected late / foreign traffic; design-level invariants NoResidue,
    EntriesOwned, OneSessionPerTopic.
 2. Every explored edge's history (quick: a seeded sample) is extended to quiescence (cancel what is live, release what is
    late) and by probe calls (a Sign per topic and a KeyGen whose peers all play along), and executed on a real
    threshold.Scheme (stub synchroniser, scripted back end).
 3. TLC validates the recorded observations against spec/OrchTrace.tla (conformance -> drift) and evaluates the monitors
    of C06 / C11 / C12 on them.  C06 additionally runs fixed-shape sessions for EVERY membership map of a 4-node universe
    onto <= 3 parties and every participant set (enumerated by TLC).
"""
import itertools
import json
import os
import random
import sys

sys.path.insert(0, os.path.dirname(os.path.abspath(__file__)))
import vlib
from vlib import log
from eng_rbc import tla_val, Rec

MON = {
    "C06": ["InitGetsSortedPartyIds", "DuplicatePartyRefused", "OnMsgAttributedToPartyOfSender", "P2PGoesToTheSessionReplica",
            "BroadcastGoesToTheParticipants"],
    "C11": ["CancelReturnsError", "FailureReturnsError", "PreconditionErrorReturned", "NoPanic", "NeverWedged"],
    "C12": ["NoResidueAtReturn", "NoPanic", "ConcurrentSameTopicRefused", "AdmittedAndSucceeds", "AdmittedWhenNoSessionOnTopic", "LaterCallSucceeds",
            "LateTrafficNoEffect", "ForeignNeverReachesInstance", "NeverWedged"],
}

SELF = 11
MEMBERSHIP = {"11": 1, "12": 2, "13": 3, "14": 4, "15": 2}
PARTICIPANTS = [11, 12, 13]
DUP = [11, 12, 15]


def P(s1="ok", prep="ok", s2="ok", be="ok", late="none"):
    return Rec(s1=s1, prep=prep, s2=s2, be=be, late=late)


PLANS = [P(), P(s1="err"), P(prep="dup"), P(prep="share"), P(s2="err"), P(be="err"), P(late="s1"), P(late="reg"), P(late="s2"), P(late="be")]
KINDS = [("kg", "DKG"), ("sg", "T1"), ("sg", "T2")]
INJECTS = [Rec(kind="mpc", topic="T1", **{"from": 12}), Rec(kind="mpc", topic="T1", **{"from": 14}), Rec(kind="sync", topic="T1", **{"from": 12}),
           Rec(kind="sync", topic="T12", **{"from": 12}), Rec(kind="mpc", topic="DKG", **{"from": 12}), Rec(kind="sync", topic="DKG2", **{"from": 13})]


def write_mc(wd, name, consts, trace=None, invariants=(), dump="edges"):
    mod = ("T_" if trace else "MC_") + name
    lines = ["---- MODULE %s ----" % mod, "EXTENDS %s" % ("OrchTrace" if trace else "Orch, Json")]
    for k in ("Calls", "Kinds", "Plans", "Injects", "Participants"):
        lines.append("c_%s == %s" % (k, tla_val(consts[k])))
    if trace:
        lines.append('c_TraceFile == "%s"' % trace)
    else:
        lines.append('PathDump == PrintT(<<"PATH", ToJson([path |-> hist\', cs |-> [c \\in Calls |-> [st |-> calls\'[c].st, late |-> calls\'[c].plan.late, '
                     'z |-> calls\'[c].z, kind |-> calls\'[c].kind, topic |-> calls\'[c].topic]]])>>)')
    if not trace:
        lines.append("PathDumpT == Terminal' => PathDump")
    lines.append("====")
    with open(os.path.join(wd, mod + ".tla"), "w") as f:
        f.write("\n".join(lines) + "\n")
    c = ["CONSTANTS"] + ["  %s <- c_%s" % (k, k) for k in ("Calls", "Kinds", "Plans", "Injects", "Participants")] + ["  MaxOps = %d" % consts["MaxOps"]]
    if trace:
        c += ["  TraceFile <- c_TraceFile", "INIT TInit", "NEXT TNext"]
    else:
        c += ["INIT Init", "NEXT Next", "VIEW view"]
        if dump == "edges":
            c.append("ACTION_CONSTRAINT PathDump")
        elif dump == "terminal":
            c.append("ACTION_CONSTRAINT PathDumpT")
        if invariants:
            c.append("INVARIANTS " + " ".join(invariants))
    with open(os.path.join(wd, mod + ".cfg"), "w") as f:
        f.write("\n".join(c) + "\n")
    return mod


def op(e, **kw):
    d = dict(e=e, c=0, kind="", topic="", plan=dict(P()), expect="none", label="", probe="", to=0)
    d["from"] = 0
    d.update(kw)
    return d


def norm_ops(path):
    ops = []
    for ev in path:
        d = op(ev["e"])
        for k, v in ev.items():
            d[k] = v
        ops.append(d)
    return ops


def quiesce_and_probe(ops, cs, next_id):
    """cs: per call [st, late, z, kind, topic] in the model state at the end of the explored history"""
    topics = set()
    if isinstance(cs, list):          # a function with domain 1..n is printed as a JSON array
        cs = {str(i + 1): v for i, v in enumerate(cs)}
    for c in sorted(cs, key=int):
        k = cs[c]
        if k["kind"]:
            topics.add((k["kind"], k["topic"]))
        if k["st"] in ("s1", "reg", "s2", "be", "stuck"):
            ops.append(op("cancel", c=int(c), expect="ret"))
            if k["late"] == k["st"]:
                ops.append(op("late", c=int(c), label=k["st"], expect="none"))
        elif k["st"] == "ret" and k["z"] != "none":
            ops.append(op("late", c=int(c), label=k["z"], expect="none"))
    topics |= {("sg", "T1"), ("kg", "DKG")}
    for kind, topic in sorted(topics):
        c = next_id
        next_id += 1
        ops.append(op("call", c=c, kind=kind, topic=topic, plan=dict(P()), expect="s1"))
        ops.append(op("step", c=c, label="s1", expect="s2"))
        ops.append(op("step", c=c, label="s2", expect="be"))
        ops.append(op("step", c=c, label="be", expect="ret", probe="end"))
    return ops


def scenario(ops, membership=None, participants=None, dup=None, threshold=2, self_=SELF):
    return dict(self=self_, membership=membership or MEMBERSHIP, participants=participants or PARTICIPANTS, dupparticipants=dup or DUP,
                threshold=threshold, ops=ops)


def c06_scenarios(wd, tr, rng):
    """every map of a 4-node universe onto <= 3 parties x every participant set containing the node under test (sizes 2, 3),
    enumerated by TLC; plus 16-bit identifier variants in the thorough tier"""
    with open(os.path.join(wd, "MC_maps.tla"), "w") as f:
        f.write("""---- MODULE MC_maps ----
EXTENDS Integers, FiniteSets, TLC, Json
Nodes == %s
Parties == %s
VARIABLE done
Init == done = FALSE
Next == /\\ ~done /\\ done' = TRUE
        /\\ \\A m \\in [Nodes -> Parties] : \\A S \\in {X \\in SUBSET Nodes : 11 \\in X /\\ Cardinality(X) \\in %s} :
              PrintT(<<"CASE", ToJson([map |-> [n \\in Nodes |-> m[n]], parts |-> S, dup |-> \\E a, b \\in S : a # b /\\ m[a] = m[b]])>>)
====
""" % (("{11, 12, 13, 14}", "{1, 2, 3}", "{2, 3}") if tr != "thorough" else ("{11, 12, 13, 14, 15}", "{1, 2, 3, 4}", "{2, 3, 4}")))
    with open(os.path.join(wd, "MC_maps.cfg"), "w") as f:
        f.write("INIT Init\nNEXT Next\n")
    r = vlib.run_tlc("MC_maps", "MC_maps.cfg", [], workdir=wd, workers=1, timeout=300, keep_prints=["CASE"])
    cases = [o for (_, o) in r.prints]
    scs = []
    # every case also with identifiers at the ends of the 16-bit range (node 0 / 65535, party 0 / 65535): order-preserving renaming of
    # the nodes (11 -> 0 keeps the node under test the smallest), arbitrary renaming of the parties
    nn = sorted(int(k) for k in cases[0]["map"]) if cases else []
    edge_nodes = dict(zip(nn, [0, 1, 2, 65535] if len(nn) == 4 else [0, 1, 2, 65534, 65535]))
    pp = sorted(set(v for c in cases for v in c["map"].values()))
    edge_parties = dict(zip(pp, [65535, 0, 7] if len(pp) == 3 else [65535, 0, 7, 32768]))
    edged = []
    for cse in cases:
        if tr == "quick" and not cse["dup"] and len(edged) % 4:
            edged.append(None)      # quick: every duplicate-party case, a quarter of the others
            continue
        edged.append(dict(map={str(edge_nodes[int(k)]): edge_parties[v] for k, v in cse["map"].items()},
                          parts=sorted(edge_nodes[p] for p in cse["parts"]), dup=cse["dup"], self=edge_nodes[11]))
    for i, cse in enumerate(cases + [e for e in edged if e]):
        mp = {str(k): v for k, v in cse["map"].items()}
        parts = sorted(cse["parts"])
        if "self" in cse:
            self_ = cse["self"]
        elif tr == "thorough" and i % 3 == 0:
            # the same case with identifiers drawn from the 16-bit range (order-preserving renaming of nodes, arbitrary of parties)
            nodes = sorted(rng.sample(range(256, 65536), 5))
            ren = dict(zip([11, 12, 13, 14, 15], nodes))
            pren = dict(zip([1, 2, 3, 4], rng.sample(range(0, 65536), 4)))
            mp = {str(ren[int(k)]): pren[v] for k, v in mp.items()}
            parts = sorted(ren[p] for p in parts)
            self_ = ren[11]
        else:
            self_ = 11
        others = [p for p in parts if p != self_]
        for kind, topic in (("kg", "DKG"), ("sg", "T1")):
            plan = dict(P(prep="dup")) if cse["dup"] else dict(P())
            ops = [op("call", c=1, kind=kind, topic=topic, plan=plan, expect="s1")]
            if cse["dup"]:
                ops.append(op("step", c=1, label="s1", expect="ret"))
            else:
                ops.append(op("step", c=1, label="s1", expect="s2"))
                ops.append(op("step", c=1, label="s2", expect="be"))
                for o in others:
                    ops.append(op("inject", kind="mpc", topic=topic, **{"from": o}))
                for o in others:
                    ops.append(op("emit", c=1, to=mp[str(o)]))
                ops.append(op("emit", c=1, to=0))
                # a node outside the session, and one that maps to a participant's party but does not participate
                outs = [int(n) for n in mp if int(n) not in parts]
                for o in outs[:2]:
                    ops.append(op("inject", kind="mpc", topic=topic, **{"from": o}))
                ops.append(op("step", c=1, label="be", expect="ret"))
            scs.append(scenario(ops, membership=mp, participants=parts, dup=parts, threshold=len(parts) - 1, self_=self_))
            # the SAME Scheme serves a second session after the application's membership has changed (same nodes, parties permuted): the
            # translation follows the membership of the session, not the one of an earlier session
            if not cse["dup"] and (i % 5 == 0 or tr == "thorough"):
                vals = sorted(set(mp.values()))
                if len(vals) >= 2:
                    perm = dict(zip(vals, vals[1:] + vals[:1]))
                    mp2 = {k: perm[v] for k, v in mp.items()}
                    ops2 = [dict(o) for o in ops]
                    second = []
                    for o in ops:
                        o2 = dict(o)
                        if "c" in o2:
                            o2["c"] = 2
                        if o2.get("e") == "emit":
                            o2["to"] = 0 if o["to"] == 0 else perm[o["to"]]
                        if o2.get("e") == "call":
                            o2["topic"] = topic if kind == "kg" else "T2"
                        if o2.get("e") == "inject" and kind == "sg":
                            o2["topic"] = "T2"
                        second.append(o2)
                    ops2.append(op("setmap", map=mp2))
                    scs.append(scenario(ops2 + second, membership=mp, participants=parts, dup=parts, threshold=len(parts) - 1, self_=self_))
    return scs, len(cases), r


def run(pid):
    tr = vlib.tier()
    wd = vlib.scratch(pid)
    rng = random.Random(vlib.seed())
    verdict = vlib.Verdict(pid)
    ev = []
    scenarios = []
    states = transitions = 0
    exhaustive = False
    if pid == "C06":
        scs, ncases, r = c06_scenarios(wd, tr, rng)
        scenarios += scs
        states += max(r.distinct, 1)
        transitions += max(r.generated, 1)
        ev.append(dict(config="maps", cases=ncases, sessions=len(scs)))
        exhaustive = True
        log("orch C06: %d (map, participants) cases enumerated by TLC, %d sessions" % (ncases, len(scs)))
    # call histories
    consts = dict(Calls=[1, 2, 3], Kinds=KINDS, Plans=PLANS, Injects=INJECTS, Participants=PARTICIPANTS,
                  MaxOps=(4 if tr == "quick" else 5) if pid != "C06" else 3)
    if pid == "C06":
        consts["Plans"] = [P(), P(prep="dup")]
        consts["Injects"] = INJECTS[:2]
    inv = ["NoResidue", "EntriesOwned", "OneSessionPerTopic"]
    # exhaustive design-level check (no dump), then histories: every edge of a shallower graph + seeded walks of the full one
    mod = write_mc(wd, "hist", consts, invariants=inv, dump="none")
    r = vlib.run_tlc(mod, mod + ".cfg", ["Orch.tla"], workdir=wd, timeout=1800, heap="12g")
    if r.violation:
        raise vlib.CheckError("Orch model violates %s at design level\n%s" % (r.violation, "".join(r.error_trace[-2:])[:3000]))
    states += r.distinct
    transitions += r.generated
    recs = []
    shallow = dict(consts, MaxOps=3 if tr == "quick" or pid == "C06" else 4)
    mod = write_mc(wd, "edges", shallow, dump="edges")
    re_ = vlib.run_tlc(mod, mod + ".cfg", ["Orch.tla"], workdir=wd, timeout=1800, keep_prints=["PATH"], heap="12g")
    recs += [o for (_, o) in re_.prints]
    n_edges = len(recs)
    mod = write_mc(wd, "walks", consts, dump="terminal")
    rs = vlib.run_tlc(mod, mod + ".cfg", ["Orch.tla"], workdir=wd, workers=1, simulate="num=%d" % (1200 if tr == "quick" else 30000), depth=consts["MaxOps"] + 1,
                      tlc_seed=vlib.seed(), timeout=1500, keep_prints=["PATH"])
    recs += [o for (_, o) in rs.prints]
    # keep maximal histories only (an edge's history that is a prefix of another one is covered by it)
    keyed = {}
    for o in recs:
        keyed[tuple(json.dumps(e, sort_keys=True) for e in o["path"])] = o
    keys = sorted(keyed)
    maximal = [k for i, k in enumerate(keys) if not (i + 1 < len(keys) and keys[i + 1][:len(k)] == k)]
    cap = {"quick": 2500, "thorough": 60000}[tr] if pid != "C06" else 300
    cap = int(os.environ.get("VERIF_ORCH_CAP", cap))
    total_hist = len(maximal)
    if len(maximal) > cap:
        # stratified: first a few histories of every class (kinds of calls with their plan deviations x kinds of operations), then
        # the rest at random -- a rare class (one plan at one stage) must not depend on the luck of the draw
        rng.shuffle(maximal)
        def cls(k):
            parts = set()
            for e in keyed[k]["path"]:
                if e.get("e") == "call":
                    pl = e.get("plan", {})
                    dev = [a + "=" + str(b) for a, b in sorted(pl.items()) if b not in ("ok", "none")]
                    parts.add(str(e.get("kind")) + "[" + ",".join(dev) + "]")
                else:
                    parts.add(str(e.get("e")) + ":" + str(e.get("label", "")))
            return "+".join(sorted(parts))
        per, first, rest = {}, [], []
        for k in maximal:
            c = cls(k)
            if per.get(c, 0) < 2:
                per[c] = per.get(c, 0) + 1
                first.append(k)
            else:
                rest.append(k)
        maximal = (first + rest)[:max(cap, len(first))] if len(first) <= 2 * cap else first[:2 * cap]
    for k in maximal:
        o = keyed[k]
        ops = quiesce_and_probe(norm_ops(o["path"]), o["cs"], 4)
        scenarios.append(scenario(ops))
    if pid == "C12":
        # two Sign calls on one topic that are truly concurrent: the first is started and held inside the construction of its first
        # synchroniser (where the code checks for a session on the topic), the second runs up to some stage, then the first is released:
        # exactly one session may exist on the topic
        for topic in ("T1", "T2"):
            for upto in ([], ["s1"], ["s1", "s2"]):
                ops = [op("call", c=1, kind="sg", topic=topic, label="held", expect="none"),
                       op("call", c=2, kind="sg", topic=topic, expect="s1")]
                nxt = {"s1": "s2", "s2": "be"}
                for st in upto:
                    ops.append(op("step", c=2, label=st, expect=nxt[st]))
                ops.append(op("release", c=1, expect="ret"))
                ops.append(op("cancel", c=2, expect="ret"))
                scenarios.append(scenario(ops))
    log("orch %s: %r; %d maximal histories, %d executed (+quiescence and probes)" % (pid, r, total_hist, len(maximal)))
    ev.append(dict(config="histories", constants={k: (v if k not in ("Plans", "Injects") else len(v)) for k, v in consts.items()},
                   distinct_states=r.distinct, states_generated=r.generated, maximal_histories=total_hist, executed=len(maximal)))
    stats = execute(pid, scenarios, wd, verdict)
    for k, v in stats["drift_kinds"].items():
        print("DRIFT property=%s count=%d kind=%s" % (pid, v, k))
    log("orch %s: %d scenarios on the real Scheme, drift in %d" % (pid, stats["validated"], stats["drift"]))
    rc = verdict.finish()
    vlib.write_evidence(pid, "model_checking", dict(
        states=max(states, 1), transitions=max(transitions, 1), traces_validated_against_impl=stats["validated"],
        samples=stats["samples"], exhaustive=exhaustive and total_hist == len(maximal), configs=ev, operations=stats["ops"],
        drift_traces=stats["drift"], drift_kinds=stats["drift_kinds"], monitors=MON[pid], known_findings_seen=sorted(verdict.known_seen),
        binding_selftest=stats.get("selftest"),
        rule="scenarios = maximal histories over the explored edges of the Orch model (+ cancel/late to quiescence + probe calls)"
             + ("; plus one keygen and one signing session for every (membership map, participant set) enumerated by TLC" if pid == "C06" else ""),
    ), ["one real threshold.Scheme; peers are played by the stub synchroniser and the scripted back end (their real counterparts: C07, C01/C05)",
        "\"after the call returns\" is evaluated once the call's goroutines have had 2 ms to run their deferred clean-up; a signal the model does not "
        "expect is awaited 40 ms"], violations=len(verdict.violations))
    return rc


def execute(pid, scenarios, wd, verdict):
    drv = vlib.build_harness()
    jobfile = os.path.join(wd, "orchjob.json")
    with open(jobfile, "w") as f:
        json.dump(dict(scenarios=scenarios, workers=16), f)
    outfile = os.path.join(wd, "orch.ndjson")
    rc, _, err = vlib.run_driver(drv, ["orch"], stdin_path=jobfile, stdout_path=outfile, timeout=3000)
    if rc != 0:
        raise vlib.CheckError("orch driver failed (rc=%d): %s" % (rc, err))
    consts = dict(Calls=list(range(1, 9)), Kinds=KINDS, Plans=[P()], Injects=INJECTS[:1], Participants=PARTICIPANTS, MaxOps=0)
    mod = write_mc(wd, "orch", consts, trace="orch.ndjson")
    r = vlib.run_tlc(mod, mod + ".cfg", ["Orch.tla", "OrchTrace.tla"], workdir=wd, workers=1, timeout=3000, keep_prints=["VIOL", "END"], heap="12g")
    ends = [o for (t, o) in r.prints if t == "END"]
    if len(ends) != len(scenarios):
        raise vlib.CheckError("orch trace validation consumed %d of %d scenarios\n%s" % (len(ends), len(scenarios), r.out[-3000:]))
    drift = {}
    for o in ends:
        if o["drift"]:
            k = o["drift"].split(" @line")[0]
            drift[k] = drift.get(k, 0) + 1
    lines_by_t = None
    mine = set(MON[pid])
    for t, o in r.prints:
        if t != "VIOL" or o["mon"] not in mine:
            continue
        if lines_by_t is None:
            lines_by_t = {}
            with open(outfile) as f:
                for line in f:
                    e = json.loads(line)
                    lines_by_t.setdefault(e["t"], []).append(e)
        sc = scenarios[o["t"]]
        verdict.violation("%s/%s" % (o["mon"], shape(sc)), "monitor %s is false on the observations of scenario %d on the real threshold.Scheme" % (o["mon"], o["t"]),
                          dict(property=pid, monitor=o["mon"], scenario=sc, line=o["l"], observations=[
                              {k: v for k, v in e.items() if k in ("e", "c", "kind", "topic", "label", "got", "res", "detail", "tables", "onmsg", "synch", "sends", "panic", "initp", "from", "to")}
                              for e in lines_by_t.get(o["t"], [])]))
    st_res = None
    if not verdict.violations and scenarios:
        def c_res(evs):
            for e in evs:
                if e["e"] == "step" and e.get("probe") == "end" and e["res"] == "ok":
                    e["res"] = "err"
                    return True
            return False

        def c_table(evs):
            for e in evs:
                if e["e"] == "call" and e["got"] == "s1":
                    e["tables"]["syncs"] = []
                    return True
            return False

        def c_init(evs):
            for e in evs:
                if e["e"] == "step" and e.get("label") == "s1" and e["got"] == "s2" and e["initp"]:
                    e["initp"] = list(reversed(e["initp"]))
                    return len(e["initp"]) > 1
            return False

        def c_refused(evs):
            for e in evs:
                if e["e"] == "call" and e["res"] == "refused":
                    e["res"], e["got"] = "none", "s1"
                    return True
            return False

        def validate(path):
            consts2 = dict(Calls=list(range(1, 9)), Kinds=KINDS, Plans=[P()], Injects=INJECTS[:1], Participants=PARTICIPANTS, MaxOps=0)
            mod2 = write_mc(wd, "orchst", consts2, trace=os.path.basename(path))
            r2 = vlib.run_tlc(mod2, mod2 + ".cfg", ["Orch.tla", "OrchTrace.tla"], workdir=wd, workers=1, timeout=1500, keep_prints=["VIOL", "END"], heap="8g")
            return sum(1 for t, _ in r2.prints if t == "VIOL"), sum(1 for t, o in r2.prints if t == "END" and o["drift"])

        head = os.path.join(wd, "orch_st.ndjson")
        with open(outfile) as fi, open(head, "w") as fo:
            n = 0
            for line in fi:
                fo.write(line)
                if '"e":"end"' in line:
                    n += 1
                    if n >= 300:
                        break
        st_res = vlib.binding_selftest("orch", head, [("result of a probe call changed", c_res), ("synchroniser table emptied in a record", c_table),
                                                       ("Init party list reversed", c_init), ("a refused call recorded as admitted", c_refused)], validate)
    return dict(validated=len(ends), drift=sum(drift.values()), drift_kinds=drift, ops=sum(len(s["ops"]) for s in scenarios), selftest=st_res,
                samples=[dict(ops=[{k: v for k, v in o.items() if v not in ("", 0, "none") and k != "plan"} for o in scenarios[len(scenarios) // 2]["ops"]])] if scenarios else [dict(note="none")])


def shape(sc):
    """stable class of a scenario: the kinds of operations and plan deviations it contains"""
    parts = set()
    for o in sc["ops"]:
        if o["e"] == "call" and not o.get("probe") and o["c"] < 4:
            pl = o["plan"]
            dev = [k + "=" + v for k, v in sorted(pl.items()) if v not in ("ok", "none")]
            parts.add(o["kind"] + ("[" + ",".join(dev) + "]" if dev else ""))
        elif o["e"] in ("cancel", "late", "inject", "emit"):
            parts.add(o["e"])
    ident = all(int(k) == v for k, v in sc["membership"].items())
    return ("identity-map:" if ident else "") + "+".join(sorted(parts))


def replay(pid, path):
    with open(path) as f:
        o = json.load(f)
    wd = vlib.scratch(pid + "r")
    verdict = vlib.Verdict(pid)
    stats = execute(pid, [o["scenario"]], wd, verdict)
    log("replayed: %r" % stats["drift_kinds"])
    return verdict.finish()


if __name__ == "__main__":
    vlib.main_wrapper(lambda: run(sys.argv[1]))
