"""Full-stack engine: C01 (key agreement and signing correctness), C05 (a misbehaving DKG participant), C11 (crash points with
the real back ends; the orchestrator-level part is tools/eng_orch.py).

 1. TLC checks spec/DKG.tla: all delivery orders of the share / commit / reveal messages over GF(7) for small (n, t), honest and
    with one deviating participant that may put any value into any message (reliable-broadcast agreement assumed, not totality):
    KeyAgreement, SharesSign, KeysGenuine, RevealOnlyAfterAllCommits, HonestRunsComplete.
 2. Real runs (child processes): n real threshold Schemes (loud / silent), real synchroniser, reliable broadcast, buffer and
    BLS / PS back ends on a simulated per-link FIFO network under seeded fair schedules and several policies; C05: one participant
    runs a deviating back end following every strategy of a catalogue x victim sets; C11: for every peer P and every k, P goes
    silent after its k-th outgoing message, every single message withheld (sampled in the quick tier), cancellation at seeded times.
 3. TLC validates every recorded run against spec/DKGTrace.tla (phase structure -> drift) and evaluates the monitors on the
    outcomes: byte-identical public material, every subset of >= t stored shares signs and verifies under every reported key,
    fault-free runs complete, no reveal before all commitments, every call returns, nothing crashes.
"""
import itertools
import json
import os
import random
import sys

sys.path.insert(0, os.path.dirname(os.path.abspath(__file__)))
import vlib
from vlib import log
from eng_rbc import tla_val

MON = {
    "C01": ["KeyAgreement", "AllSubsetsVerify", "HonestRunCompletes", "NoCrash", "NoPanicInUse", "EveryParticipantGotValidSig", "NoMessageBeforeRegistered", "InitBeforeFirstMessage",
            "FirstSendAfterAllInit", "HandOverAfterOwnSend"],
    "C05": ["KeyAgreement", "AllSubsetsVerify", "RevealOnlyAfterAllCommits", "CommitmentBinding", "EveryCallReturns", "NoCrash", "NoPanicInUse"],
    "C11": ["EveryCallReturns", "NoCrash"],
    "C13": ["KeyAgreement", "AllSubsetsVerify", "HonestRunCompletes", "NoCrash", "NoPanicInUse"],
}

STRATEGIES = ["honest", "offpoly-share", "withhold-share", "malformed-share", "wrong-tag", "empty-payload", "duplicate-share", "offpoly-reveal",
              "reveal-mismatch", "equivocate-commit", "withhold-commit", "duplicate-commit", "rushing", "reveal-before-commits", "early-reveal",
              "equivocate-reveal", "withhold-reveal", "malformed-reveal", "truncated-reveal", "empty-reveal", "duplicate-reveal", "empty-commit-rush"]
PS_STRATEGIES = ["ps-offpoly-share-x", "ps-offpoly-share-y-first", "ps-offpoly-share-y-last", "ps-empty-commit-then-real", "ps-garbage-commit-then-real"]


def tlc_dkg(wd, tr, pid):
    ev = []
    st = trn = 0

    def run(name, n, t, byz, deadlines, polys, vals, timeout=1500):
        nonlocal st, trn
        mod = "MC_" + name
        with open(os.path.join(wd, mod + ".tla"), "w") as f:
            f.write("---- MODULE %s ----\nEXTENDS DKG\nc_Polys == %s\nc_Vals == %s\nc_Byz == %s\n====\n" % (
                mod, "[p \\in 1..%d |-> %s]" % (n, tla_val([tuple(p) for p in polys])), tla_val(vals), tla_val(byz)))
        with open(os.path.join(wd, mod + ".cfg"), "w") as f:
            f.write("CONSTANTS N = %d T = %d Q = 7 Byz <- c_Byz Polys <- c_Polys ByzVals <- c_Vals Deadlines = %s\nINIT Init\nNEXT Next\n"
                    "INVARIANTS KeyAgreement SharesSign KeysGenuine RevealOnlyAfterAllCommits HonestRunsComplete\n" % (n, t, "TRUE" if deadlines else "FALSE"))
        r = vlib.run_tlc(mod, mod + ".cfg", ["DKG.tla"], workdir=wd, timeout=timeout, heap="14g")
        if r.violation:
            raise vlib.CheckError("DKG model %s violates %s at design level\n%s" % (name, r.violation, "".join(r.error_trace[-2:])[:3000]))
        st += r.distinct
        trn += r.generated
        ev.append(dict(config=name, N=n, T=t, Byz=byz, deadlines=deadlines, distinct_states=r.distinct, states_generated=r.generated, depth=r.depth, wall_s=round(r.wall, 1)))
        log("dkg %s: %r" % (name, r))

    p2 = [[1, 2], [3, 5]]
    run("h22", 2, 2, [], False, p2, [0])
    run("h32", 3, 2, [], False, p2, [0])
    if pid != "C05":
        run("h33", 3, 3, [], False, [[1, 2, 4], [3, 5, 6]], [0])
    if pid == "C05" or tr == "thorough":
        # one deviating participant; the two honest ones complete consistently or not at all
        run("b32", 3, 2, [3], True, [[1, 2]], [0, 1, 3] if tr == "quick" else list(range(7)), timeout=2400)
        if tr == "thorough":
            run("b33", 3, 3, [3], True, [[1, 2, 4]], [0, 1, 3], timeout=2400)
    return st, trn, ev


def tlc_barrier(wd, tr):
    """spec/Barrier.tla: the start-up barrier across nodes (late callers, no retransmission of protocol messages). The code's design
    must satisfy NoLoss / NoEarly / FirstSendAfterAllInit / HandOverAfterOwnSend and complete under fairness; every what-if variant
    must be refuted in the mode it concerns (otherwise the invariants would be vacuous). Also prints the late-caller case list."""
    ev = []
    st = trn = 0
    nodes = "{1, 2, 3}" if tr == "quick" else "{1, 2, 3, 4}"
    expect = {("loud", "asis"): None, ("silent", "asis"): None, ("loud", "no-sync2"): {"FirstSendAfterAllInit", "NoLoss", "NoEarly"},
              ("loud", "reg-after-sync2"): {"NoLoss"}, ("loud", "init-after-sync2"): {"FirstSendAfterAllInit", "NoEarly"},
              ("silent", "no-box"): {"NoLoss", "NoEarly"}, ("loud", "reg-before-init"): {"NoEarly"}}
    for (mode, variant), want in expect.items():
        name = "B_%s_%s" % (mode, variant.replace("-", "_"))
        with open(os.path.join(wd, name + ".cfg"), "w") as f:
            f.write('CONSTANTS Nodes = %s Mode = "%s" Variant = "%s"\nSPECIFICATION FairSpec\n'
                    'INVARIANTS NoLoss NoEarly FirstSendAfterAllInit HandOverAfterOwnSend\nPROPERTY AllDone\n' % (nodes, mode, variant))
        r = vlib.run_tlc("Barrier", name + ".cfg", ["Barrier.tla"], workdir=wd, workers=4, timeout=900, heap="4g")
        if want is None and r.violation:
            raise vlib.CheckError("Barrier model (%s) violates %s at design level\n%s" % (mode, r.violation, "".join(r.error_trace[-2:])[:2000]))
        if want is not None and r.violation not in want:
            raise vlib.CheckError("Barrier what-if variant %s (%s) should be refuted by %s but TLC reports %r: the barrier invariants are vacuous" % (
                variant, mode, sorted(want), r.violation))
        st += r.distinct
        trn += r.generated
        ev.append(dict(config="barrier %s %s" % (mode, variant), nodes=nodes, distinct_states=r.distinct, states_generated=r.generated,
                       refuted_by=r.violation if want else None, liveness="AllDone under weak fairness" if want is None else None))
    log("barrier: design holds in loud and silent mode; 5 what-if variants refuted (%d states)" % st)
    # late-caller case list: every non-empty proper subset of the members calls KeyGen late
    with open(os.path.join(wd, "MC_late.tla"), "w") as f:
        f.write("""---- MODULE MC_late ----
EXTENDS Integers, FiniteSets, TLC, Json
VARIABLE done
Init == done = FALSE
Next == /\\ ~done /\\ done' = TRUE
        /\\ \\A n \\in %s : \\A L \\in (SUBSET (1..n)) \\ {{}, 1..n} : PrintT(<<"CASE", ToJson([n |-> n, late |-> L])>>)
====
""" % ("{3}" if tr == "quick" else "{2, 3, 4}"))
    with open(os.path.join(wd, "MC_late.cfg"), "w") as f:
        f.write("INIT Init\nNEXT Next\n")
    r = vlib.run_tlc("MC_late", "MC_late.cfg", [], workdir=wd, workers=1, timeout=300, keep_prints=["CASE"])
    late = [dict(n=o["n"], late=sorted(o["late"])) for (_, o) in r.prints]
    return st, trn, ev, late


NOFAULT = dict(silent_peer=0, after=0, withhold_idx=-1)


def case(scheme, mode, n, t, seed, policy="random", ids=None, deadline=6000, fault=None, byz=None, sign=True, cancel=0, msglen=2, slow=None, late=None, late_ms=0,
         signers=None, cancel_at=None, stall=0, stall_after=0):
    ca = cancel_at or (0, "", 0)
    return dict(cancel_node=ca[0], cancel_event=ca[1], cancel_k=ca[2], stall_peer=stall, stall_after=stall_after, late=late or [], late_ms=late_ms, signers=signers or [], scheme=scheme, mode=mode, n=n, t=t, ids=ids or list(range(1, n + 1)), seed=seed, policy=policy, deadline_ms=deadline,
                fault=fault or NOFAULT, byz=byz, sign=sign and scheme in ("bls", "ps"), cancel_ms=cancel, msglen=msglen, cfg=0,
                slow_init=(slow or (0, 0))[0], slow_ms=(slow or (0, 0))[1])


def cases_for(pid, tr, rng, drv, wd, late=()):
    cs = []
    big = tr == "thorough"
    if pid == "C01":
        # the start-up barrier (spec/Barrier.tla): every non-empty proper subset of the members calls KeyGen late, after the others
        # have gone as far as they can without them
        for lc in late:
            n = lc["n"]
            for scheme in ("bls", "ps"):
                for mode in ("loud", "silent"):
                    for ms in ((35,) if not big else (10, 60)):
                        cs.append(case(scheme, mode, n, max(2, n - 1), rng.randrange(1 << 30), late=lc["late"], late_ms=ms,
                                       policy=["random", "newest", "oldest"][len(cs) % 3]))
        nts = [(2, 2), (3, 2), (3, 3), (4, 3)] if not big else [(n, t) for n in range(2, 6) for t in range(2, n + 1)] + [(6, 4)]
        for (n, t) in nts:
            for scheme in ("bls", "ps"):
                for mode in ("loud", "silent", "direct"):
                    reps = (16 if scheme == "bls" else 8) if not big else (60 if n <= 4 else 16)
                    for i in range(reps):
                        pol = ["random", "newest", "oldest", "starve"][i % 4]
                        cs.append(case(scheme, mode, n, t, rng.randrange(1 << 30), policy=pol, msglen=1 + i % 3))
        # a party whose back-end initialisation is slow: the barrier must keep everybody else from starting the protocol
        for (n, t) in ([(3, 2)] if not big else [(3, 2), (4, 3), (5, 3)]):
            for node in range(1, n + 1):
                for scheme in ("bls", "ps"):
                    cs.append(case(scheme, "loud", n, t, rng.randrange(1 << 30), slow=(node, 25 + 10 * node)))
        # orchestrated signing: the EdDSA adapter through KeyGen + Sign of the complete stack (threshold n-1: everybody signs)
        for (n, mode) in ([(3, "loud"), (3, "silent"), (2, "loud")] if not big else [(2, "loud"), (3, "loud"), (3, "silent"), (4, "loud"), (4, "silent")]):
            for i in range(3 if not big else 12):
                cs.append(case("eddsa", mode, n, n - 1, rng.randrange(1 << 30), policy=["random", "newest", "oldest"][i % 3], deadline=20000))
        # orchestrated signing among an authorised SUBSET (threshold + 1 of the members call Sign), also with a late caller
        for (n, t) in ([(3, 1)] if not big else [(3, 1), (4, 1), (4, 2)]):
            for sg in itertools.combinations(range(1, n + 1), t + 1):
                for mode in ("loud", "silent"):
                    for lateset in ([[], [sg[-1]]] if not big else [[], [sg[0]], [sg[-1]]]):
                        if not big and mode == "silent" and lateset:
                            continue
                        cs.append(case("eddsa", mode, n, t, rng.randrange(1 << 30), deadline=20000, signers=list(sg), late=lateset, late_ms=30 if lateset else 0))
        # large identifiers through the complete stack (C13 part)
        for ids in ([7, 300, 65535], [1, 256, 512]):
            cs.append(case("bls", "loud", 3, 2, rng.randrange(1 << 30), ids=ids))
    elif pid == "C05":
        confs = [(3, 2), (3, 3)] if not big else [(3, 2), (3, 3), (4, 2), (4, 3), (4, 4)]
        for (n, t) in confs:
            byznode = n          # the highest id deviates (thorough: also the lowest)
            for bn in ([byznode] if not big else [byznode, 1]):
                honest = [x for x in range(1, n + 1) if x != bn]
                victim_sets = [[honest[0]], honest] if not big else [list(v) for k in range(1, len(honest) + 1) for v in itertools.combinations(honest, k)]
                for s in STRATEGIES:
                    for vs in victim_sets:
                        if s in ("honest", "offpoly-reveal", "reveal-mismatch", "duplicate-commit", "rushing", "reveal-before-commits", "early-reveal",
                                 "malformed-reveal", "truncated-reveal", "empty-reveal", "duplicate-reveal", "empty-commit-rush") and vs != victim_sets[0]:
                            continue      # strategies without a victim set
                        for rep in range(1 if not big else 3):
                            cs.append(case("bls", "loud" if rep % 2 == 0 else "silent", n, t, rng.randrange(1 << 30), deadline=350,
                                           byz=dict(node=bn, strategy=s, victims=vs), policy=["random", "newest"][rep % 2]))
                        # the back ends alone (no reliable broadcast in front of them): what the protocol itself guarantees
                        cs.append(case("bls", "direct", n, t, rng.randrange(1 << 30), deadline=350, byz=dict(node=bn, strategy=s, victims=vs)))
                # PS: a participant that follows the protocol except for one component of the share it deals to the victims
                for s in PS_STRATEGIES:
                    for vs in victim_sets[:2]:
                        for mode in ("loud", "direct"):
                            cs.append(case("ps", mode, n, t, rng.randrange(1 << 30), deadline=600, byz=dict(node=bn, strategy=s, victims=vs), sign=True))
        # the cross-check must cover EVERY t-subset: a larger n with one off-polynomial share to each single victim
        for (n, t) in ([(5, 2)] if not big else [(5, 2), (5, 3), (6, 2), (6, 3)]):
            for bn in (n, 1):
                for v in [x for x in range(1, n + 1) if x != bn]:
                    cs.append(case("bls", "direct", n, t, rng.randrange(1 << 30), deadline=600, byz=dict(node=bn, strategy="offpoly-share", victims=[v])))
                    if big or v % 2 == 0:
                        cs.append(case("ps", "direct", n, t, rng.randrange(1 << 30), deadline=900, byz=dict(node=bn, strategy="ps-offpoly-share-y-last", victims=[v]), sign=True))
    elif pid == "C11":
        # dry run to learn how many messages each peer sends in a complete run
        for scheme, mode in (("bls", "loud"), ("ps", "loud"), ("bls", "silent")) if big else (("bls", "loud"), ("ps", "silent")):
            n, t = 3, 2
            rc, out, err = vlib.run_driver(drv, ["stack"], stdin_obj=dict(cases=[case(scheme, mode, n, t, 1, sign=False)], workers=1), timeout=400)
            total = 0
            for line in out.splitlines():
                o = json.loads(line)
                if o["e"] == "end":
                    total = o["messages"]
            per_peer = max(total // n, 1)
            ks = list(range(0, per_peer + 2)) if big else sorted(set([0, 1, 2, 3] + list(range(4, per_peer + 2, 2))))
            for peer in ([1, 2, 3] if big else [3, 1]):
                for k in ks:
                    cs.append(case(scheme, mode, n, t, rng.randrange(1 << 30), deadline=300, sign=False, fault=dict(silent_peer=peer, after=k, withhold_idx=-1)))
            idxs = list(range(total)) if big else rng.sample(range(total), min(total, 24))
            for i in idxs:
                cs.append(case(scheme, mode, n, t, rng.randrange(1 << 30), deadline=300, sign=False, fault=dict(silent_peer=0, after=0, withhold_idx=i)))
            for i in range(6 if not big else 40):
                cs.append(case(scheme, mode, n, t, rng.randrange(1 << 30), deadline=3000, sign=False, cancel=rng.randrange(1, 25)))
        # cancellation at a PROTOCOL POINT instead of a time: every context is cancelled from inside the call in which a node's back end
        # emits / is handed its k-th message, for every k (the call must return although nothing will ever wake it up again)
        for scheme in ("bls", "ps"):
            for mode in ("direct", "loud") if not big else ("direct", "loud", "silent"):
                for (n, t) in ([(3, 2)] if not big else [(3, 2), (4, 3)]):
                    for node in ([1] if not big else [1, n]):
                        for ev, kmax in (("send", n + 1), ("recv", 3 * (n - 1))):
                            for k in range(1, kmax + 1):
                                cs.append(case(scheme, mode, n, t, rng.randrange(1 << 30), deadline=2500, sign=False, cancel_at=(node, ev, k)))
        # a transport that blocks: every Send towards one peer blocks until the run is over (the peer stopped reading); the calls must
        # still return when their context ends
        for scheme in ("bls", "ps", "eddsa"):
            for mode in ("loud", "silent"):
                for peer in ([3] if not big else [1, 2, 3]):
                    # the peer reads k messages and then stops (k = 0: it never reads)
                    for k in (([0, 1, 2, 3, 4, 6, 8, 12, 16] if mode == "loud" and scheme == "bls" else [0, 5]) if not big else range(0, 25)):
                        cs.append(case(scheme, mode, 3, 2, rng.randrange(1 << 30), deadline=400 if scheme != "eddsa" else 900, sign=False,
                                       stall=peer, stall_after=k))
        # the EdDSA adapter (tss-lib behind the MpcParty interface) through the complete stack: same fault catalogue
        for mode in (("loud", "silent") if big else ("loud",)):
            n, t = 3, 2
            rc, out, err = vlib.run_driver(drv, ["stack"], stdin_obj=dict(cases=[case("eddsa", mode, n, t, 1, sign=False, deadline=20000)], workers=1), timeout=400)
            total = 0
            for line in out.splitlines():
                o = json.loads(line)
                if o["e"] == "end":
                    total = o["messages"]
            per_peer = max(total // n, 1)
            for peer in ([1, 2, 3] if big else [2]):
                for k in (range(0, per_peer + 2) if big else sorted(set([0, 1, 2, 4] + [rng.randrange(5, per_peer + 1) for _ in range(3)] + [per_peer - 1]))):
                    cs.append(case("eddsa", mode, n, t, rng.randrange(1 << 30), deadline=900, sign=False, fault=dict(silent_peer=peer, after=k, withhold_idx=-1)))
            for i in (range(total) if big else rng.sample(range(total), min(total, 8))):
                cs.append(case("eddsa", mode, n, t, rng.randrange(1 << 30), deadline=900, sign=False, fault=dict(silent_peer=0, after=0, withhold_idx=i)))
            for i in range(4 if not big else 24):
                cs.append(case("eddsa", mode, n, t, rng.randrange(1 << 30), deadline=5000, sign=False, cancel=rng.randrange(1, 200)))
    return cs


def run(pid):
    tr = vlib.tier()
    wd = vlib.scratch(pid)
    rng = random.Random(vlib.seed())
    verdict = vlib.Verdict(pid)
    st, trn, ev = tlc_dkg(wd, tr, pid)
    late = []
    if pid == "C01":
        st2, trn2, ev2, late = tlc_barrier(wd, tr)
        st, trn, ev = st + st2, trn + trn2, ev + ev2
    drv = vlib.build_harness()
    cs = cases_for(pid, tr, rng, drv, wd, late)
    log("stack %s: %d real runs" % (pid, len(cs)))
    stats = execute(pid, cs, wd, verdict, drv)
    for k, v in stats["drift_kinds"].items():
        print("DRIFT property=%s count=%d kind=%s" % (pid, v, k))
    own = ps_own_deps(pid, wd, verdict, tr, rng) if pid == "C01" else None
    log("stack %s: %d runs validated, %d with completions, drift in %d" % (pid, stats["validated"], stats["completed"], stats["drift"]))
    rc = verdict.finish()
    vlib.write_evidence(pid, "model_checking" if pid != "C11" else "fault_enumeration", dict(
        states=max(st, 1), transitions=max(trn, 1), traces_validated_against_impl=stats["validated"],
        evaluations=max(stats["validated"], 1), distinct_nontrivial=max(stats["distinct"], 2),
        samples=stats["samples"], exhaustive=False, configs=ev, runs_with_completion=stats["completed"], events=stats["events"],
        drift_traces=stats["drift"], drift_kinds=stats["drift_kinds"], monitors=MON[pid], known_findings_seen=sorted(verdict.known_seen),
        binding_selftest=stats.get("selftest"), ps_with_own_dependency_versions=own,
        rule="real full-stack key generations: (scheme, mode, n, t) x seeded fair schedules x policies"
             + {"C01": "; every subset of >= t stored shares x several digests signs, aggregates (shuffled signer order) and verifies under every party's reported key",
                "C05": " x every strategy of the deviation catalogue x victim sets (one deviating back end inside a real Scheme)",
                "C11": " x (peer silent after its k-th outgoing message for every k | one withheld message | cancellation at a seeded time)"}[pid]
             + "; distinct = distinct (configuration, fault / strategy, seed) tuples",
    ), ["per-link FIFO delivery, fair seeded schedules", "node and party identifiers coincide (other maps: C06)",
        "honest-run liveness judged against a 6 s deadline (typical completion 10-40 ms); failing runs use 300-350 ms deadlines with a 4 s hard limit",
        "C05: reliable-broadcast agreement is the real layer's; the deviating party speaks the BLS wire format (PS has the same protocol shape)"],
        violations=len(verdict.violations))
    return rc


def execute(pid, cs, wd, verdict, drv):
    jobfile = os.path.join(wd, "stackjob.json")
    with open(jobfile, "w") as f:
        json.dump(dict(cases=cs, workers=8), f)
    outfile = os.path.join(wd, "stack.ndjson")
    rc, _, err = vlib.run_driver(drv, ["stack"], stdin_path=jobfile, stdout_path=outfile, timeout=3400)
    if rc != 0:
        raise vlib.CheckError("stack driver failed (rc=%d): %s" % (rc, err))
    with open(os.path.join(wd, "T_stack.cfg"), "w") as f:
        f.write('CONSTANTS TraceFile = "stack.ndjson"\nINIT Init\nNEXT Next\n')
    r = vlib.run_tlc("DKGTrace", "T_stack.cfg", ["DKGTrace.tla"], workdir=wd, workers=1, timeout=3000, keep_prints=["VIOL", "END"], heap="12g")
    ends = [o for (t, o) in r.prints if t == "END"]
    if len(ends) != len(cs):
        raise vlib.CheckError("stack trace validation consumed %d of %d runs\n%s" % (len(ends), len(cs), r.out[-3000:]))
    drift = {}
    for o in ends:
        if o["drift"]:
            k = o["drift"].split(" @line")[0]
            drift[k] = drift.get(k, 0) + 1
    mine = set(MON[pid])
    lines_by_t = None
    for t, o in r.prints:
        if t != "VIOL" or o["mon"] not in mine:
            continue
        if lines_by_t is None:
            lines_by_t = {}
            with open(outfile) as f:
                for line in f:
                    e = json.loads(line)
                    if e["e"] not in ("onmsg", "bsend"):
                        lines_by_t.setdefault(e["t"], []).append(e)
        c = cs[o["t"]]
        verdict.violation("%s/%s" % (o["mon"], shape(c)), "monitor %s is false on real full-stack run %d (%s %s n=%d t=%d seed=%d policy=%s)" % (
            o["mon"], o["t"], c["scheme"], c["mode"], c["n"], c["t"], c["seed"], c["policy"]), dict(property=pid, monitor=o["mon"], case=c, outcome=lines_by_t.get(o["t"], [])[:30]))
    st_res = None
    if not verdict.violations:
        def c_pub(evs):
            for e in evs:
                if e["e"] == "kgret" and e["ok"]:
                    e["pub"] = "00" + e["pub"][2:]
                    return True
            return False

        def c_reveal(evs):
            # the first reveal broadcast of an HONEST node of some run: one of the commitments handed to that node before is removed
            byz = {}
            for e in evs:
                if e["e"] == "reset":
                    byz[e["t"]] = e.get("byznode", 0) if e.get("byz") else 0
            for i, e in enumerate(evs):
                if e["e"] == "bsend" and e["kind"] == 3 and e["node"] != byz.get(e["t"], 0):
                    node = e["node"]
                    for j in range(i):
                        if evs[j]["e"] == "onmsg" and evs[j]["t"] == e["t"] and evs[j]["node"] == node and evs[j]["kind"] == 2:
                            del evs[j]
                            return True
            return False

        def c_sign(evs):
            for e in evs:
                if e["e"] == "signcheck":
                    e["bad"] = ["made up"]
                    return True
            return False

        def validate(path):
            with open(os.path.join(wd, "T_stack_st.cfg"), "w") as f:
                f.write('CONSTANTS TraceFile = "%s"\nINIT Init\nNEXT Next\n' % os.path.basename(path))
            r2 = vlib.run_tlc("DKGTrace", "T_stack_st.cfg", ["DKGTrace.tla"], workdir=wd, workers=1, timeout=1500, keep_prints=["VIOL", "END"], heap="12g")
            return sum(1 for t, _ in r2.prints if t == "VIOL"), sum(1 for t, o in r2.prints if t == "END" and o["drift"])

        head = os.path.join(wd, "stack_st.ndjson")
        with open(outfile) as fi, open(head, "w") as fo:
            n = 0
            for line in fi:
                fo.write(line)
                if '"e":"end"' in line:
                    n += 1
                    if n >= 12:
                        break
        def c_noreturn(evs):
            for e in evs:
                if e["e"] == "kgret" and e["returned"]:
                    e["returned"] = False
                    return True
            return False

        def c_crash(evs):
            for i, e in enumerate(evs):
                if e["e"] == "end":
                    evs.insert(i, {"t": e["t"], "e": "crash", "hang": False, "detail": "made up"})
                    return True
            return False

        if pid == "C11":
            corruptions = [("a call reported as never returning", c_noreturn), ("a process death inserted", c_crash)]
        else:
            corruptions = [("public material of one party changed", c_pub), ("a commitment hand-over removed before a reveal", c_reveal),
                           ("a failing subset reported", c_sign)]
        st_res = vlib.binding_selftest("stack", head, corruptions, validate)
    events = sum(1 for _ in open(outfile))
    return dict(validated=len(ends), completed=sum(1 for o in ends if o["completed"] > 0), drift=sum(drift.values()), drift_kinds=drift, events=events,
                distinct=len(set(json.dumps(c, sort_keys=True) for c in cs)), selftest=st_res,
                samples=[{k: v for k, v in cs[len(cs) // 2].items() if k not in ("cfg",)}] if cs else [dict(note="none")])


def ps_own_deps(pid, wd, verdict, tr, rng):
    """PS key generation + pipeline linked against the dependency versions that mpc/ps itself pins (harness_ps: mathlib v0.0.2; the
    all-in-one harness resolves a newer mathlib through mpc/bls, which hides e.g. arithmetic that the old version does not reduce)."""
    import subprocess
    hp = os.path.join(vlib.VERIF, "harness_ps")
    if os.environ.get("VERIF_HARNESS") and os.path.isdir(os.path.join(os.path.dirname(os.environ["VERIF_HARNESS"].rstrip("/")), "harness_ps")):
        hp = os.path.join(os.path.dirname(os.environ["VERIF_HARNESS"].rstrip("/")), "harness_ps")      # isolated copy (seeded runs)
    exe = os.path.join(vlib.WORK, "bin", "psown.%d" % os.getpid())
    os.makedirs(os.path.dirname(exe), exist_ok=True)
    p = subprocess.run(["go", "build", "-o", exe, "."], cwd=hp, env=vlib.goenv(), capture_output=True, text=True)
    if p.returncode != 0:
        raise vlib.CheckError("harness_ps build failed:\n%s" % p.stderr[-3000:])
    import atexit
    atexit.register(lambda: os.path.exists(exe) and os.remove(exe))
    # (the code's cross-check enumerates C(n,t) subsets at every party: the middle thresholds of large n are left to the thorough tier)
    nts = [(3, 2), (5, 3), (8, 2), (8, 7), (12, 2), (12, 11)] if tr == "quick" else [(n, t) for n in (3, 5, 6, 7, 8, 10) for t in sorted({2, (n + 1) // 2, n - 1})] + [(12, 2), (12, 11), (16, 2), (16, 15), (18, 17)]
    cs = []
    for (n, t) in nts:
        for rep in range(2 if tr == "quick" else 4):
            ids = list(range(1, n + 1)) if rep % 2 == 0 else sorted(rng.sample(range(1, 65536), n))
            cs.append(dict(n=n, t=t, ids=ids, seed=rng.randrange(1 << 30), msglen=1 + rep % 3))
    outfile = os.path.join(wd, "psown.ndjson")
    # child processes of one case each: a panic in a goroutine of the library must be attributed to its case
    def one(ic):
        i, c = ic
        try:
            q = subprocess.run([exe], input=json.dumps(dict(cases=[c], base=i)), capture_output=True, text=True, timeout=400, env=vlib.goenv())
            lines = [l for l in q.stdout.splitlines() if l.strip()]
            dead = q.returncode != 0
            detail = q.stderr[-600:]
        except subprocess.TimeoutExpired:
            lines, dead, detail = [], True, "the process did not finish within 400 s"
        if dead or not lines or '"e":"end"' not in lines[-1]:
            lines = [l for l in lines if '"e":"end"' not in l] or [json.dumps(dict(t=i, e="reset", cfg=0, scheme="ps", mode="direct", n=c["n"], th=c["t"], ids=c["ids"], seed=c["seed"],
                                                                                     policy="random", fault=NOFAULT, byz=False, nsigners=0))]
            lines.append(json.dumps(dict(t=i, e="crash", hang=False, detail="process died: " + detail)))
            lines.append(json.dumps(dict(t=i, e="end", elapsed_ms=0, messages=0, early=0)))
        return "\n".join(lines) + "\n"

    from concurrent.futures import ThreadPoolExecutor
    with ThreadPoolExecutor(max_workers=6) as ex:
        chunks = list(ex.map(one, enumerate(cs)))
    with open(outfile, "w") as out:
        out.writelines(chunks)
    with open(os.path.join(wd, "T_psown.cfg"), "w") as f:
        f.write('CONSTANTS TraceFile = "psown.ndjson"\nINIT Init\nNEXT Next\n')
    r = vlib.run_tlc("DKGTrace", "T_psown.cfg", ["DKGTrace.tla"], workdir=wd, workers=1, timeout=1500, keep_prints=["VIOL", "END"], heap="8g")
    ends = [o for (t, o) in r.prints if t == "END"]
    if len(ends) != len(cs):
        raise vlib.CheckError("psown trace validation consumed %d of %d runs\n%s" % (len(ends), len(cs), r.out[-2000:]))
    mine = set(MON[pid])
    for t, o in r.prints:
        if t == "VIOL" and o["mon"] in mine:
            c = cs[o["t"]]
            outcome = []
            with open(outfile) as f:
                for line in f:
                    e = json.loads(line)
                    if e["t"] == o["t"] and e["e"] in ("kgret", "crash", "signcheck"):
                        outcome.append(e)
            verdict.violation("%s/ps-own-dependencies" % o["mon"], "monitor %s is false on a PS key generation linked against the module's own dependency "
                              "versions (n=%d t=%d ids=%s seed=%d)" % (o["mon"], c["n"], c["t"], c["ids"][:6], c["seed"]),
                              dict(property=pid, part="psown", monitor=o["mon"], pscase=c, outcome=outcome[:20]))
    log("ps with its own dependency versions: %d key generations (n up to %d), %d completed" % (len(cs), max(n for n, _ in nts), sum(1 for o in ends if o["completed"] > 0)))
    return dict(runs=len(cs), completed=sum(1 for o in ends if o["completed"] > 0), nts=nts)


def shape(c):
    f = c["fault"]
    if c.get("byz"):
        return "%s/byz:%s" % (c["scheme"], c["byz"]["strategy"])
    if f["silent_peer"]:
        return "%s-%s/silent-after-k" % (c["scheme"], c["mode"])
    if f["withhold_idx"] >= 0:
        return "%s-%s/withheld-message" % (c["scheme"], c["mode"])
    if c.get("cancel_node"):
        return "%s-%s/cancelled-at-%s" % (c["scheme"], c["mode"], c["cancel_event"])
    if c.get("stall_peer"):
        return "%s-%s/transport-blocks" % (c["scheme"], c["mode"])
    if c.get("cancel_ms"):
        return "%s-%s/cancelled" % (c["scheme"], c["mode"])
    return "%s-%s/fault-free" % (c["scheme"], c["mode"])


def replay(pid, path):
    with open(path) as f:
        o = json.load(f)
    wd = vlib.scratch(pid + "r")
    verdict = vlib.Verdict(pid)
    drv = vlib.build_harness()
    if o.get("part") == "psown":
        import copy
        class _R(random.Random):
            pass
        # re-run the same case three times
        verdict = vlib.Verdict(pid)
        ps_own_deps(pid, wd, verdict, "quick", random.Random(1))
        return verdict.finish()
    stats = execute(pid, [o["case"]] * 3, wd, verdict, drv)
    log("replayed 3x: %r" % stats["drift_kinds"])
    return verdict.finish()


if __name__ == "__main__":
    vlib.main_wrapper(lambda: run(sys.argv[1]))
