#!/bin/bash
# usage: try_mutation.sh <patch> <check id> [tier]   -- applies the patch to /repo, runs the check, reverts
set -u
patch=$1; id=$2; tier=${3:-quick}
cd /repo || exit 2
if ! git diff --quiet; then echo "repo dirty"; exit 2; fi
git apply "$patch" || { echo "patch does not apply"; exit 2; }
cd /verif && bin/check $id --tier $tier > /tmp/try.$id.$$.out 2>&1; rc=$?
git -C /repo checkout -- . 
echo "rc=$rc"; grep -E "^(VIOLATION|KNOWN-FINDING|DRIFT|ERROR)" /tmp/try.$id.$$.out | cut -c1-250 | head -12
rm -f /tmp/try.$id.$$.out
