"""Sig engine: properties C08 (threshold blind PS signatures are complete for every message vector and signer subset) and
C09 (verification rejects anything altered; verifying is side-effect free).

 1. TLC evaluates spec/Sig.tla, an EXECUTABLE small-field model of mpc/bls and mpc/ps (group elements = discrete logs in GF(46337),
    pairing = product, hashes / Fiat-Shamir oracles = fixed mixing functions, equations transcribed from the Go code):
      C08: the honest pipeline satisfies every equation for all (n,t), signer subsets IN EVERY ORDER (reversed, rotated; thorough: every
           permutation) and message vectors; prints the case list.  The key generation is modelled with its message pool as an UNORDERED
           BAG: TLC checks exhaustively (n <= 4) that every order of deliveries lets every party finish, refutes the strict negation
           ("a public key is accepted only after the sender's commitment"), prints for every (p, r) a schedule in which p's public key
           overtakes p's commitment at r, and samples further orders by random walks;
      C09: evaluates the perturbation catalogue (every field of every object, several kinds, cross-session substitutions) under TWO
           constant sets and prints the expected verdict and first failing equation of each entry ("accept" under both sets = the field
           is not bound by any equation or oracle input).  Attacks on the Fiat-Shamir binding are explicit adversary cases: compensated
           multi-field alterations of genuine proofs / requests, forgeries that compute the challenge first and then solve a verification
           equation for a proof commitment (a proof of knowledge from the public key alone; requests that are not well formed), and the
           sensitivity of the oracles to every argument and to exchanges of arguments.  TLC shows each attack rejected by the model (the
           oracle absorbs the component) and ACCEPTED by its strict negation (component not absorbed).
 2. drv sig executes every selected case / catalogue entry on the REAL library through the exported API and byte encodings
    (in-process DKG: TLC's explicit schedules and seeded FIFO / unordered policies; algebraic perturbations with mathlib on the ASN.1
    encodings); the oracle sensitivity and the challenge-computing forgeries call the library's own oracles through the verif-tag
    wrappers mpc/ps/verif_oracle.go (discovered at run time; skipped with a NOTE when absent); everything is verified / signed twice with
    the same object and once more from the same bytes with fresh instances; serialisations compared before/after.
 3. TLC validates the recorded results against spec/SigTrace.tla, which RECOMPUTES the expectation of every executed case (and replays
    every recorded order of deliveries through the key generation model) and evaluates the property monitors (GenuineAccepted,
    IdenticalPublicMaterial, DkgCompletes, RejectsAltered, ForgeryRejected, ChallengeBindsInput, SameVerdictTwice, BytesUnchanged);
    differences between the model's prediction and the library that do not falsify a monitor are DRIFT.
"""
import collections
import hashlib
import json
import os
import random
import sys

sys.path.insert(0, os.path.dirname(os.path.abspath(__file__)))
import vlib
from vlib import log

SPEC_FILES = ["Sig.tla", "SigTrace.tla"]

ASSUMPTIONS = [
    "the specification evaluates the schemes' equations in GF(46337): group elements are discrete logs, a pairing is a product, SHA-256 / "
    "hash-to-curve / the Fiat-Shamir oracles are fixed mixing functions (injective in each single argument); bn254, SHA-256 and ASN.1 are "
    "evaluated by the real library only, whose verdict is compared with the model's per case",
    "perturbations are algebraic and keep every value well-formed (point + generator, 2*point, scalar + 1, 2*scalar, swap of two entries, "
    "the same field of another session / another proof); malformed encodings belong to C10",
    "party identifiers: PS and BLS run with the party lists 1..n, 5,8,11,.., {2,256,257,65535} (TLC-enumerated) and seeded sorted lists from "
    "1..65535, handed to Init in sorted order; the evaluation point of a party is its rank in that list (model and code); the full "
    "perturbation catalogue is applied with 1..n, the identifier-related entries (witness / share presented under another party, unblinding "
    "under another signer, fewer signers, one alteration per object) with the other lists",
    "DKG runs in-process; C08: the message pool is an unordered bag (explicit schedules from TLC incl. every 'public key overtakes commitment' "
    "pair, seeded random message / newest first / public keys first, and the FIFO policies); C09: per-link FIFO policies; every message is "
    "delivered exactly once to every addressee (agreement and totality of the broadcast are C02-C04); a key generation counts as stuck when "
    "nothing is deliverable, nothing was produced and not everybody finished for 5 s and the same order of deliveries reproduces that with 15 s",
    "Fiat-Shamir binding: the oracle sensitivity and the challenge-computing forgeries need the add-only verif-tag wrappers "
    "mpc/ps/verif_oracle.go; without them only the compensated alterations (exported API) are executed (see oracle_wrappers_present)",
    "a case whose aggregation step panics (a single signer: empty Lagrange product) counts as rejected; crashes as such belong to C10",
]


def tiers(pid):
    tr = vlib.tier()
    if pid == "C08":
        if tr == "quick":
            return dict(MaxN=3, MaxL=3, FullL=3, CatL=[1], Kinds="one")
        return dict(MaxN=4, MaxL=6, FullL=4, CatL=[1], Kinds="all")
    if tr == "quick":
        return dict(MaxN=3, MaxL=3, FullL=3, CatL=[1, 2, 3], Kinds="one")
    return dict(MaxN=4, MaxL=6, FullL=3, CatL=[1, 2, 3, 4, 5, 6], Kinds="all")


def write_cfg(wd, name, consts, init, nxt, invs=(), trace=None, view=None):
    with open(os.path.join(wd, name), "w") as f:
        f.write("CONSTANTS MaxN = %d MaxL = %d FullL = %d CatL = {%s} Kinds = \"%s\" DkgN = {%s} Negate = {%s}\n" % (
            consts["MaxN"], consts["MaxL"], consts["FullL"], ", ".join(map(str, consts["CatL"])), consts["Kinds"],
            ", ".join(map(str, consts.get("DkgN", [2]))), ", ".join('"%s"' % x for x in consts.get("Negate", []))))
        if trace is not None:
            f.write('CONSTANTS TraceFile = "%s"\n' % trace)
        f.write("INIT %s\nNEXT %s\n" % (init, nxt))
        if view:
            f.write("VIEW %s\n" % view)
        for i in invs:
            f.write("INVARIANT %s\n" % i)


def tlc_dkg(wd, consts, exec_ns, walks):
    """Delivery schedules of the key generation (the message pool is an unordered bag).
     (1) exhaustive: for n = 2..4 EVERY order of deliveries ends with every party finished (invariant DkgLive); the same run prints one
         deterministic schedule per (p, r, tie) in which p's public key overtakes p's commitment at r;
     (2) strict negation (a public key is accepted only after the sender's commitment): TLC must find a stuck schedule -- otherwise the
         model could not tell the two behaviours apart (anti-vacuity);
     (3) random walks through the unrestricted model: sampled orders.
    -> (list of TLC results, list of schedules dict(n, pol, sched) to execute, for n in exec_ns)"""
    small = dict(consts, MaxN=2, MaxL=1, FullL=1, CatL=[1], Kinds="one")
    write_cfg(wd, "MC_dkg.cfg", dict(small, DkgN=[2, 3, 4]), "InitD", "NextD", ["DkgLive"], view="ViewD")
    r1 = vlib.run_tlc("Sig", "MC_dkg.cfg", ["Sig.tla"], workdir=wd, timeout=900, keep_prints=["SCHED"], heap="4g")
    if r1.violation:
        raise vlib.CheckError("the model of the key generation does not complete under some delivery order (%s)\n%s" % (
            r1.violation, "\n".join(r1.error_trace)[-3000:]))
    write_cfg(wd, "MC_dkgneg.cfg", dict(small, DkgN=[2, 3], Negate=["reveal-needs-commit"]), "InitD", "NextD", ["DkgLive"], view="ViewD")
    r2 = vlib.run_tlc("Sig", "MC_dkgneg.cfg", ["Sig.tla"], workdir=wd, timeout=900, heap="4g")
    if r2.violation != "DkgLive":
        raise vlib.CheckError("anti-vacuity: the strict-negation variant of the key generation model (public key accepted only after the "
                              "commitment) is not refuted by TLC: %r" % r2)
    write_cfg(wd, "MC_dkgsim.cfg", dict(small, DkgN=sorted(exec_ns)), "InitDAny", "NextD", ["DkgLive"])
    r3 = vlib.run_tlc("Sig", "MC_dkgsim.cfg", ["Sig.tla"], workdir=wd, workers=1, timeout=900, simulate="num=%d" % walks, depth=200,
                      tlc_seed=vlib.seed(), keep_prints=["SCHED"], heap="4g")
    if r3.violation:
        raise vlib.CheckError("the model of the key generation does not complete on a random walk (%s)" % r3.violation)
    scheds, seen = [], set()
    for _, o in r1.prints + r3.prints:
        k = json.dumps(o["sched"])
        if o["n"] in exec_ns and k not in seen:
            seen.add(k)
            scheds.append(o)
    targeted = sum(1 for o in scheds if o["pol"]["kind"] == "target")
    want = sum(n * (n - 1) for n in exec_ns)
    pairs = set((o["n"], o["pol"]["p"], o["pol"]["r"]) for o in scheds if o["pol"]["kind"] == "target")
    if len(pairs) != want:
        raise vlib.CheckError("TLC printed targeted schedules for %d of %d (n, p, r)" % (len(pairs), want))
    log("dkg model: exhaustive %r; negation refuted at depth %d; %d schedules to execute (%d targeted)" % (r1, r2.depth or len(r2.error_trace), len(scheds), targeted))
    return [r1, r2, r3], scheds


def tlc_model(pid, wd, consts):
    """exhaustive evaluation of the model for this property's constants -> (TLCResult, list of printed records)"""
    if pid == "C08":
        write_cfg(wd, "MC_sig08.cfg", consts, "Init08", "Next08", ["Honest08"])
        r = vlib.run_tlc("Sig", "MC_sig08.cfg", ["Sig.tla"], workdir=wd, timeout=1500, keep_prints=["CASE"], heap="8g")
        tag = "CASE"
    else:
        write_cfg(wd, "MC_sig09.cfg", consts, "Init09", "Next09", ["Cat09"])
        r = vlib.run_tlc("Sig", "MC_sig09.cfg", ["Sig.tla"], workdir=wd, timeout=2400, keep_prints=["PERT"], heap="8g")
        tag = "PERT"
    if r.violation:
        raise vlib.CheckError("the small-field model itself fails (%s): a genuine case is not accepted by the transcribed equations or the two "
                              "constant sets disagree on a genuine case -- fix spec/Sig.tla\n%s" % (r.violation, "\n".join(r.error_trace)[-3000:]))
    recs = [o for (t, o) in r.prints if t == tag]
    seen = set()
    out = []
    for o in recs:
        k = json.dumps(o, sort_keys=True)
        if k not in seen:
            seen.add(k)
            out.append(o)
    if not out or 2 * len(out) != r.distinct:
        raise vlib.CheckError("spec/Sig.tla printed %d %s records for %d evaluated cases" % (len(out), tag, r.distinct // 2))
    out.sort(key=lambda o: json.dumps(o, sort_keys=True))
    return r, out


POOL_FIXED = [b"", b"\x00", b"a", b"The truth is not for all men but only for those who seek it.", b"\xff" * 1024]


def concretise(rng):
    """three distinct byte strings for the three alphabet symbols: empty, one byte, long and seeded random strings"""
    pool = list(POOL_FIXED) + [bytes(rng.getrandbits(8) for _ in range(rng.choice([1, 7, 32, 33, 200]))) for _ in range(3)]
    while True:
        pick = rng.sample(pool, 3)
        if len(set(pick)) == 3:
            return [p.hex() for p in pick]


def digests(rng):
    pool = [b"", b"\x01", hashlib.sha256(b"m%d" % rng.getrandbits(30)).digest(), hashlib.sha256(b"n%d" % rng.getrandbits(30)).digest(),
            bytes(rng.getrandbits(8) for _ in range(1024))]
    while True:
        pick = rng.sample(pool, 2)
        if pick[0] != pick[1]:
            return [p.hex() for p in pick]


def reid(c, rng):
    """the same case with a seeded sorted party list (identifiers from 1..65535, not a multiple of 1..n: Lagrange coefficients are
    invariant under scaling of the evaluation points, so such a list could not tell ranks from identifiers)"""
    n = c["n"]
    while True:
        ids = sorted(rng.sample(range(1, 65536), n))
        if ids != list(range(1, n + 1)) and any(ids[i] * 1 != ids[0] * (i + 1) for i in range(n)):
            break
    rank = {p: i for i, p in enumerate(c["ids"])}
    return dict(c, ids=ids, S=[ids[rank[p]] for p in c["S"]])


def seeded_id_cases(cases, rng, count):
    """copies (new ids) of `count` cases that use a non-1..n party list, with seeded party lists"""
    pool = [c for _, c in cases if c["ids"] != list(range(1, c["n"] + 1))]
    nid = max([cid for cid, _ in cases] + [0]) + 1
    out = []
    for c in rng.sample(pool, min(count, len(pool))):
        out.append((nid, reid(c, rng)))
        nid += 1
    return out


def make_groups(cases, rng, chunk, bag=False, scheds=(), next_id=0):
    """cases: list of (id, case record). One group = one DKG session (+ a second one when cross-session entries need it). The PS
    perturbation entries of one signer set share the genuine objects (one group); all other cases are spread over groups of `chunk`.
    bag: the key generations of PS groups may use the unordered delivery policies and are reported (validated by TLC);
    scheds: explicit delivery schedules from TLC: each gets a group of its own with a few of the genuine cases (copies, new ids)."""
    by = collections.OrderedDict()
    for cid, c in cases:
        shared = c["sch"] == "ps" and c["obj"] not in ("none", "fewer")
        key = (c["sch"], c["n"], c["t"], c["L"], tuple(c["ids"]), tuple(c["S"]) if shared else ())
        by.setdefault(key, []).append((cid, c))
    groups = []
    for key, cs in by.items():
        parts = [cs] if key[5] != () else [cs[i:i + chunk] for i in range(0, len(cs), chunk)]
        for part in parts:
            c0 = part[0][1]
            groups.append(dict(gid=len(groups), sch=c0["sch"], n=c0["n"], t=c0["t"], L=c0["L"], ids=c0["ids"], sched=rng.randrange(1 << 40),
                               alpha=concretise(rng), digests=digests(rng), cases=[dict(id=cid, c=c) for cid, c in part]))
    extra = []
    genuine = collections.defaultdict(list)
    for cid, c in cases:
        if c["sch"] == "ps" and c["obj"] == "none":
            genuine[c["n"]].append(c)
    for o in scheds:
        pool = genuine.get(o["n"], [])
        if not pool:
            continue
        c0 = rng.choice(pool)
        same = [c for c in pool if (c["t"], c["L"], c["ids"]) == (c0["t"], c0["L"], c0["ids"])]
        picked = rng.sample(same, min(3, len(same)))
        cs = []
        for c in picked:
            cs.append(dict(id=next_id, c=c))
            extra.append((next_id, c))
            next_id += 1
        groups.append(dict(gid=len(groups), sch="ps", n=c0["n"], t=c0["t"], L=c0["L"], ids=c0["ids"], sched=rng.randrange(1 << 40),
                           alpha=concretise(rng), digests=digests(rng), cases=cs, dkg_sched=o["sched"], dkg_pol=o["pol"]))
    if bag:
        for g in groups:
            if g["sch"] == "ps":
                g["bag"] = True
                g["dkg_id"] = DKG_ID0 + g["gid"]
    return groups, extra


DKG_ID0 = 10 ** 7


def probe_hooks():
    drv = vlib.build_harness()
    rc, out, err = vlib.run_driver(drv, ["sig"], stdin_obj=dict(probe=True), timeout=120)
    if rc != 0:
        raise vlib.CheckError("sig driver failed (rc=%d): %s" % (rc, err))
    return bool(json.loads(out.splitlines()[0]).get("hooks"))


def run_cases(pid, wd, cases, rng, tag, chunk=12, workers=12, bag=False, scheds=()):
    """execute on the real library -> list of result records (one per case, one per reported key generation)"""
    drv = vlib.build_harness()
    groups, extra = make_groups(cases, rng, chunk, bag=bag, scheds=scheds, next_id=max([cid for cid, _ in cases] + [0]) + 1)
    cases = list(cases) + extra
    # large groups first (better load balance)
    groups.sort(key=lambda g: -len(g["cases"]) * (g["L"] + 2))
    jobfile = os.path.join(wd, "sigjob.%s.json" % tag)
    with open(jobfile, "w") as f:
        json.dump(dict(workers=workers, timeout_s=120, grace_s=5, groups=groups), f)
    outfile = os.path.join(wd, "sigout.%s.ndjson" % tag)
    rc, _, err = vlib.run_driver(drv, ["sig"], stdin_path=jobfile, stdout_path=outfile, timeout=3000)
    if rc != 0:
        raise vlib.CheckError("sig driver failed (rc=%d): %s" % (rc, err))
    results, summary = [], None
    with open(outfile) as f:
        for line in f:
            o = json.loads(line)
            if o.get("e") == "summary":
                summary = o
            else:
                results.append(o)
    ndkg = sum(1 for g in groups if "dkg_id" in g)
    if summary is None or len(results) != len(cases) + ndkg:
        raise vlib.CheckError("sig driver returned %d results for %d cases and %d key generations" % (len(results), len(cases), ndkg))
    results.sort(key=lambda o: o["id"])
    gmap = {g["gid"]: g for g in groups}
    return results, summary, gmap


TRACE_KEYS = ("id", "c", "changed", "v1", "v2", "v3", "same", "pubeq", "stage", "eq")


def validate(pid, wd, consts, results, tag):
    """TLC recomputes the expectation of every executed case and evaluates the monitors on the real results"""
    tf = "sigtrace.%s.ndjson" % tag
    with open(os.path.join(wd, tf), "w") as f:
        for o in results:
            f.write(json.dumps({k: o[k] for k in TRACE_KEYS}) + "\n")
    cfg = "MC_sigtrace.%s.cfg" % tag
    # the enumeration constants are not used by the trace specification (the expectation is recomputed from each recorded case)
    write_cfg(wd, cfg, dict(MaxN=2, MaxL=1, FullL=1, CatL=[1], Kinds="one"), "TInit", "TNext", trace=tf)
    r = vlib.run_tlc("SigTrace", cfg, SPEC_FILES, workdir=wd, timeout=2400, keep_prints=["REC"], heap="8g")
    if r.violation:
        raise vlib.CheckError("trace validation failed in TLC (%s)\n%s" % (r.violation, r.out[-3000:]))
    ids = sorted(o["id"] for _, o in r.prints)
    if r.distinct != 2 * len(results) or ids != sorted(o["id"] for o in results):
        raise vlib.CheckError("trace validation consumed %d and reported on %d of %d results\n%s" % (r.distinct // 2, len(ids), len(results), r.out[-2000:]))
    return r


def signature(o):
    if o["sch"] == "dkg":
        return "%s/dkg.%s/%s" % (o["mon"], o["field"], o["kind"])
    s = "%s/%s.%s" % (o["mon"], o["sch"], o["obj"])
    if o["field"]:
        s += "." + o["field"]
    if o["kind"] not in ("none", "twice"):
        s += "/" + o["kind"]
    if o["mon"] == "GenuineAccepted":
        s += "@" + o["stage"]
    return s


MON_TEXT = {
    "GenuineAccepted": "a genuine object (honest pipeline, nothing altered) is rejected",
    "IdenticalPublicMaterial": "the parties report different public material after a fault-free key generation",
    "RejectsAltered": "an altered object is ACCEPTED",
    "SameVerdictTwice": "verifying / signing the same object again gives a different verdict",
    "BytesUnchanged": "verifying / signing modifies the object (its serialisation differs afterwards)",
    "DkgCompletes": "a key generation in which every message was delivered (in some order) did not complete at every party",
    "ForgeryRejected": "a proof / request fabricated or malleated by a Byzantine prover (weak Fiat-Shamir attack) is ACCEPTED",
    "ChallengeBindsInput": "the Fiat-Shamir challenge does not change when a value the oracle lists is altered / two values are exchanged",
}


def describe_case(c):
    if c["sch"] == "dkg":
        return "key generation (%s) n=%d t=%d L=%d policy=%s deliveries (kind, from, to)=%s" % (
            c["back"], c["n"], c["t"], c["L"], "explicit schedule from TLC" if c.get("explicit") else c.get("policy"), c["sched"])
    s = "%s n=%d t=%d" % (c["sch"], c["n"], c["t"])
    if c["sch"] == "ps":
        s += " L=%d mv=%s" % (c["L"], c["mv"])
    s += " signers=%s" % c["S"]
    if c["obj"] != "none":
        s += " %s%s%s kind=%s" % (c["obj"], "." + c["field"] if c["field"] else "", "[%d]" % c["i"] if c["i"] else "", c["kind"])
        if c["who"]:
            s += " at signer #%d" % c["who"]
    return s


def judge(pid, verdict, results, gmap, r):
    """turn TLC's records into verdicts / drift / notes; returns (drift counter, unbound fields, collisions, number of false monitors)"""
    byid = {o["id"]: o for o in results}
    drift = collections.Counter()
    unbound = collections.OrderedDict()
    collisions = 0
    nviol = 0
    for _, o in sorted(r.prints, key=lambda x: x[1]["id"]):
        res = byid[o["id"]]
        c = res["c"]
        name = "%s.%s%s" % (c["sch"], c["obj"], "." + c["field"] if c["field"] else "")
        for mon in sorted(o["viol"]):
            nviol += 1
            g = gmap[res["gid"]]
            if c["sch"] == "dkg":      # re-execute exactly the recorded order of deliveries
                rg = dict(g, cases=[], dkg_sched=c["sched"], dkg_id=res["id"])
            else:
                rg = dict(g, cases=[dict(id=res["id"], c=c)])
                rg.pop("dkg_id", None)
            replay_obj = dict(property=pid, engine="sig", monitor=mon, predicted_by_model_of_code_as_written=mon in o["predicted"],
                              group=rg, result=res)
            verdict.violation(signature(dict(o, mon=mon)), "%s: %s; case: %s; library: v1=%s v2=%s v3=%s same_bytes=%s stage=%s eq=%s %s" % (
                mon, MON_TEXT.get(mon, ""), describe_case(c), res["v1"], res["v2"], res["v3"], res["same"], res["stage"], res["eq"],
                res["err"][:120]), replay_obj)
        for k in o["drift"]:
            drift["%s: %s" % (name, k)] += 1
        if o["unbound"]:
            unbound.setdefault("%s/%s" % (name, c["kind"]), o["real"])
        if o["collide"]:
            collisions += 1
    return drift, unbound, collisions, nviol


def sample_of(res):
    return dict(case=describe_case(res["c"]), accepted=res["v1"], second=res["v2"], reparsed=res["v3"], bytes_unchanged=res["same"],
                stage=res["stage"], eq=res["eq"])


def run(pid):
    if pid not in ("C08", "C09"):
        raise vlib.CheckError("eng_sig serves C08 and C09")
    tr = vlib.tier()
    wd = vlib.scratch(pid)
    rng = random.Random(vlib.seed() * 1000003 + (8 if pid == "C08" else 9))
    verdict = vlib.Verdict(pid)
    consts = tiers(pid)
    r1, recs = tlc_model(pid, wd, consts)
    log("%s model: %r, %d records" % (pid, r1, len(recs)))
    model_notes = {}
    extra_runs, scheds = [], []
    if pid == "C08":
        extra_runs, scheds = tlc_dkg(wd, consts, exec_ns=list(range(2, consts["MaxN"] + 1)), walks=40 if tr == "quick" else 300)
        model_notes = dict(dkg_schedules_from_tlc=len(scheds), dkg_targeted_overtakes=sum(1 for o in scheds if o["pol"]["kind"] == "target"),
                           dkg_exhaustive_states=extra_runs[0].distinct, dkg_negation_refuted=True,
                           signer_orders=len(set(tuple(c["S"]) for c in recs)))
        # every enumerated case is executed; cases with short vectors twice, in different DKG sessions (other delivery schedule) and
        # with another concretisation of the message alphabet
        cases = [(i, c) for i, c in enumerate(recs)]
        cases += [(len(recs) + i, c) for i, c in enumerate(recs) if c["L"] <= 3]
        cases += seeded_id_cases(cases, rng, 60 if tr == "quick" else 600)
        rng.shuffle(cases)
        cases.sort(key=lambda x: (x[1]["n"], x[1]["t"], x[1]["L"]))
    else:
        cases = [(i, o["c"]) for i, o in enumerate(recs)]
        hooks = probe_hooks()
        need = [x for x in cases if x[1]["obj"] in ("oracle", "forge")]
        if not hooks and need:
            print("NOTE property=%s the oracle wrappers (mpc/ps/verif_oracle.go, build tag verif) are absent: %d catalogue entries (oracle "
                  "sensitivity, challenge-computing forgeries) are not executed; the compensated alterations (exported API only) are" % (pid, len(need)))
            cases = [x for x in cases if x[1]["obj"] not in ("oracle", "forge")]
        cases += seeded_id_cases(cases, rng, 120 if tr == "quick" else 1500)
        # what the model says about the catalogue
        nb = collections.Counter()
        for o in recs:
            c, m = o["c"], o["m"]
            if c["obj"] not in ("none", "objsign", "objverify") and m["changed"] and m["v"] == "accept":
                nb["%s.%s%s" % (c["sch"], c["obj"], "." + c["field"] if c["field"] else "")] += 1
        model_notes = dict(
            catalogue_entries=len(recs),
            model_unbound_fields=sorted(nb),
            model_unbound_demanded_by_property=sorted(set("%s.%s%s" % (o["c"]["sch"], o["c"]["obj"], "." + o["c"]["field"] if o["c"]["field"] else "")
                                                          for o in recs if o["must"] and o["m"]["changed"] and o["m"]["v"] == "accept")),
            model_collisions=sum(1 for o in recs if o["m"]["collide"]),
            model_noop_entries=sum(1 for o in recs if o["c"]["obj"] not in ("none", "objsign", "objverify") and not o["m"]["changed"]),
            model_side_effects=sorted(set("%s.%s" % (o["c"]["sch"], o["c"]["obj"]) for o in recs if o["m"]["v2"] != o["m"]["v"] or not o["m"]["same"])),
            fiat_shamir_attacks_in_model=sum(1 for o in recs if o["c"]["obj"] in ("mall", "forge", "oracle") and o["must"]),
            fiat_shamir_attacks_accepted_by_strict_negation=sum(1 for o in recs if o["c"]["obj"] in ("mall", "forge", "oracle") and o["must"]
                                                                and o["m"]["neg"] == "accept"),
            oracle_wrappers_present=hooks, entries_skipped_without_wrappers=0 if hooks else len(need),
        )
        log("%s model notes: %s" % (pid, json.dumps(model_notes)))
    results, summary, gmap = run_cases(pid, wd, cases, rng, "main", chunk=10 if tr == "quick" else 24, bag=(pid == "C08"), scheds=scheds)
    log("%s driver: %r" % (pid, summary))
    r2 = validate(pid, wd, consts, results, "main")
    log("%s validation: %r" % (pid, r2))
    drift, unbound, collisions, nviol_lines = judge(pid, verdict, results, gmap, r2)
    for k, v in sorted(drift.items()):
        print("DRIFT property=%s count=%d kind=%s" % (pid, v, k))
    for k, real in unbound.items():
        print("NOTE property=%s the model says %s is not bound by any equation or oracle input although the property demands it; library verdict: %s"
              % (pid, k, real))
    selftest = self_test(pid, wd, consts, results)
    rcode = verdict.finish()
    accepted = sum(1 for o in results if o["v1"])
    samples = [sample_of(results[i]) for i in sorted(set([0, len(results) // 3, 2 * len(results) // 3, len(results) - 1]))]
    cov = dict(
        states=max(r1.distinct + r2.distinct + sum(x.distinct for x in extra_runs), 1),
        transitions=max(r1.generated + r2.generated + sum(x.generated for x in extra_runs), 1),
        traces_validated_against_impl=len(results), samples=samples,
        exhaustive=len(results) >= len(cases) and len(cases) >= len(recs), cases_enumerated=len(recs),
        key_generations_validated=sum(1 for o in results if o["c"]["sch"] == "dkg"),
        key_generations_with_overtaking_public_key=sum(1 for _, o in r2.prints if o["sch"] == "dkg" and o["kind"] == "reveal-before-commit"),
        configs=[dict(spec="Sig", constants=consts, distinct=r1.distinct, generated=r1.generated),
                 dict(spec="SigTrace", results=len(results), distinct=r2.distinct, generated=r2.generated)],
        cases_executed=len(results), accepted=accepted, rejected=len(results) - accepted, dkg_sessions=summary["dkgs"], dkg_stuck_not_reproduced=summary.get("dkg_stuck_not_reproduced", 0),
        monitor_failures=nviol_lines, drift=dict(drift), collisions_mod_q=collisions,
        known_findings_seen=sorted(verdict.known_seen),
        rule="states/transitions: TLC evaluations of the small-field model (one state per case before and after evaluation, for the enumeration "
             "and again for the validation of the real results); traces_validated_against_impl: cases executed on the real library whose "
             "recorded results TLC checked against the recomputed expectation; exhaustive: every case TLC enumerated for this tier's "
             "constants was executed",
    )
    cov.update(model_notes)
    if selftest is not None:
        cov["self_test"] = selftest
    if pid == "C08":
        cov["party_lists"] = len(set(tuple(o["c"]["ids"]) for o in results))
        cov["nt_pairs"] = sorted(set((o["c"]["n"], o["c"]["t"]) for o in results))
        cov["message_lengths"] = sorted(set(o["c"]["L"] for o in results))
    else:
        cov["fields_perturbed"] = sorted(set("%s.%s%s" % (o["c"]["sch"], o["c"]["obj"], "." + o["c"]["field"] if o["c"]["field"] else "")
                                             for o in results if o["c"]["obj"] != "none"))
        cov["kinds"] = sorted(set(o["c"]["kind"] for o in results))
        cov["party_lists"] = len(set(tuple(o["c"]["ids"]) for o in results))
    vlib.write_evidence(pid, "model_checking", cov, ASSUMPTIONS, violations=len(verdict.violations))
    return rcode


def self_test(pid, wd, consts, results):
    """anti-vacuity: corrupt recorded results and require the monitors to fire (never affects the verdict; failure = machinery error)"""
    want = []
    bad = []

    def pick(pred):
        for o in results:
            if pred(o):
                return json.loads(json.dumps(o))
        return None

    g = pick(lambda o: o["c"]["obj"] == "none" and o["v1"])
    if g:
        x = dict(g, id=900001, v1=False, v2=False, v3=False, stage="verify", eq="PAIR")
        bad.append(x), want.append((900001, "GenuineAccepted"))
        x = dict(g, id=900002, pubeq=False)
        bad.append(x), want.append((900002, "IdenticalPublicMaterial"))
        x = dict(g, id=900003, v2=False)
        bad.append(x), want.append((900003, "SameVerdictTwice"))
        x = dict(g, id=900004, same=False)
        bad.append(x), want.append((900004, "BytesUnchanged"))
    d = pick(lambda o: o["c"]["sch"] == "dkg" and o["v1"])
    if d:
        bad.append(dict(d, id=900010, v1=False, v2=False, v3=False, pubeq=False, eq="stuck"))
        want.append((900010, "DkgCompletes"))
        bad.append(dict(d, id=900011, pubeq=False))
        want.append((900011, "IdenticalPublicMaterial"))
    if pid == "C09":
        for obj, mon in (("mall", "ForgeryRejected"), ("forge", "ForgeryRejected"), ("oracle", "ChallengeBindsInput")):
            p = pick(lambda o: o["c"]["obj"] == obj and not o["v1"] and o["changed"] and o["c"]["kind"] != "gs")
            if p:
                i = 900200 + len(bad)
                bad.append(dict(p, id=i, v1=True, v2=True, v3=True, eq="ok"))
                want.append((i, mon))
        for obj in ("req", "pok", "tpk", "sig", "wit", "share", "assign", "fewer", "msg"):
            p = pick(lambda o: o["c"]["obj"] == obj and not o["v1"] and o["changed"] and not (o["c"]["obj"] == "req" and o["c"]["field"] == "mprime"))
            if p:
                i = 900100 + len(bad)
                bad.append(dict(p, id=i, v1=True, v2=True, v3=True, eq="ok"))
                want.append((i, "RejectsAltered"))
    if not bad:
        raise vlib.CheckError("self test: no result to corrupt")
    r = validate(pid, wd, consts, bad, "selftest")
    got = set((o["id"], mon) for _, o in r.prints for mon in o["viol"])
    missing = [w for w in want if w not in got]
    if missing:
        raise vlib.CheckError("self test: corrupted results were not flagged by the monitors: %r" % missing)
    log("%s self test: %d corrupted results, all flagged" % (pid, len(bad)))
    return dict(corrupted_results=len(bad), flagged=len(want))


def replay(pid, path):
    with open(path) as f:
        o = json.load(f)
    wd = vlib.scratch(pid + "r")
    verdict = vlib.Verdict(pid)
    consts = tiers(pid)
    g = o["group"]
    drv = vlib.build_harness()
    rc, out, err = vlib.run_driver(drv, ["sig"], stdin_obj=dict(workers=1, timeout_s=120, groups=[g]), timeout=600)
    if rc != 0:
        raise vlib.CheckError("sig driver failed (rc=%d): %s" % (rc, err))
    results = [json.loads(l) for l in out.splitlines() if l.strip() and '"e":"summary"' not in l]
    for res in results:
        print("case: %s\n  library: v1=%s v2=%s v3=%s same_bytes=%s stage=%s eq=%s err=%s" % (
            describe_case(res["c"]), res["v1"], res["v2"], res["v3"], res["same"], res["stage"], res["eq"], res["err"]))
    r2 = validate(pid, wd, consts, results, "replay")
    drift, unbound, _, _ = judge(pid, verdict, results, {g["gid"]: g}, r2)
    for k, v in sorted(drift.items()):
        print("DRIFT property=%s count=%d kind=%s" % (pid, v, k))
    return verdict.finish()


if __name__ == "__main__":
    vlib.main_wrapper(lambda: run(sys.argv[1]))
