"""C11: KeyGen and Sign fail cleanly on timeout, cancellation or a vanished peer -- two parts, one verdict:
   (a) orchestrator level (tools/eng_orch.py): TLC-generated call histories with failure of every stage, cancellation, late stages;
   (b) crash points with the real BLS / PS back ends and the EdDSA adapter through the full stack (tools/eng_stack.py): a peer silent
       after its k-th message for every k, single withheld messages, cancellation at seeded times;
   (c) the tss-lib adapters called directly (tools/eng_adapters.py c11_part): vanish / withhold / cancel cases enumerated by TLC on the
       fault extension of spec/Adapters.tla, contexts already expired, deadlines during prime generation, unusable stored share data."""
import json
import os
import sys

sys.path.insert(0, os.path.dirname(os.path.abspath(__file__)))
import vlib
import random

import eng_orch
import eng_stack
import eng_adapters


def run(pid):
    ev_path = os.path.join(vlib.EVIDENCE, pid + ".json")
    rc1 = eng_orch.run(pid)
    with open(ev_path) as f:
        e1 = json.load(f)
    os.environ["VERIF_REPLAY_MODE"] = "1"      # the second part must not delete the replays the first part has just written
    try:
        rc2 = eng_stack.run(pid)
    finally:
        del os.environ["VERIF_REPLAY_MODE"]
    with open(ev_path) as f:
        e2 = json.load(f)
    # (c) adapter level
    os.environ["VERIF_REPLAY_MODE"] = "1"
    try:
        verdict = vlib.Verdict(pid)
    finally:
        del os.environ["VERIF_REPLAY_MODE"]
    wd = vlib.scratch(pid + "a")
    part = eng_adapters.c11_part(wd, vlib.build_harness(), vlib.tier(), random.Random(vlib.seed()))
    for sig, desc, obj in part["violations"]:
        verdict.violation(sig, desc, obj)
    for k, v in part.get("drift", {}).items():
        print("DRIFT property=%s count=%d kind=%s" % (pid, v, k))
    rc3 = verdict.finish()
    cov = e2["coverage"]
    cov["orchestrator_part"] = e1["coverage"]
    cov["adapters_part"] = part.get("coverage", {})
    cov["states"] = cov.get("states", 0) + e1["coverage"].get("states", 0) + part.get("coverage", {}).get("states", 0)
    cov["transitions"] = cov.get("transitions", 0) + e1["coverage"].get("transitions", 0) + part.get("coverage", {}).get("transitions", 0)
    nad = part.get("coverage", {}).get("traces_validated_against_impl", 0)
    cov["traces_validated_against_impl"] = cov.get("traces_validated_against_impl", 0) + e1["coverage"].get("traces_validated_against_impl", 0) + nad
    cov["evaluations"] = cov.get("evaluations", 0) + e1["coverage"].get("traces_validated_against_impl", 0) + nad
    cov["distinct_nontrivial"] = cov.get("distinct_nontrivial", 0) + e1["coverage"].get("traces_validated_against_impl", 0) + nad
    vlib.write_evidence(pid, "fault_enumeration", cov, e1["assumptions"] + e2["assumptions"] + part.get("assumptions", []),
                        violations=e1.get("violations", 0) + e2.get("violations", 0) + len(verdict.violations))
    return 1 if (rc1 or rc2 or rc3) else 0


def replay(pid, path):
    with open(path) as f:
        o = json.load(f)
    if o.get("part") == "adapters":
        verdict = vlib.Verdict(pid)
        part = eng_adapters.c11_replay(path)
        for sig, desc, obj in part["violations"]:
            verdict.violation(sig, desc, obj)
        return verdict.finish()
    return eng_stack.replay(pid, path) if "case" in o else eng_orch.replay(pid, path)


if __name__ == "__main__":
    vlib.main_wrapper(lambda: run(sys.argv[1]))
