"""Wire engine: property C13 (every 16-bit identifier, round and digest survives the wire encodings).

 1. TLC checks the round-trip laws of spec/Wire.tla for every identifier 0..65535 and emits byte vectors.
 2. drv wire: for every identifier the REAL encoders/decoders (verif-tag wrappers) must round-trip (violation otherwise);
    differences to the specification's bytes are layout drift.
 3. Sessions: fault-free reliable-broadcast sessions (RBC model behaviours, keygen and signing) and membership
    synchronisations (Disc) are executed on the real code with identifier triples drawn exhaustively from the byte-boundary set
    and seeded elsewhere; the same trace specifications validate them: they must complete exactly like small-id sessions.
 4. (with the full-stack cluster) BLS/PS DKG, stored data / public parameter serialisation with large identifiers.
"""
import itertools
import json
import os
import random
import sys

sys.path.insert(0, os.path.dirname(os.path.abspath(__file__)))
import vlib
from vlib import log
import eng_rbc
import eng_disc

BOUNDARY = [0, 1, 127, 128, 255, 256, 257, 511, 512, 32767, 32768, 65279, 65280, 65534, 65535]


def tlc_wire(wd):
    with open(os.path.join(wd, "MC_wire.tla"), "w") as f:
        f.write("---- MODULE MC_wire ----\nEXTENDS Wire\nc_Ids == 0..65535\nc_B == {%s}\nc_R == {0, 1, 2, 64, 127}\n"
                "NextAll == Next /\\ PrintT(<<\"ALL\", ToJson([i \\in 1..65536 |-> <<Hi(i - 1), Lo(i - 1)>>])>>)\n====\n" % ", ".join(map(str, BOUNDARY)))
    with open(os.path.join(wd, "MC_wire.cfg"), "w") as f:
        f.write("CONSTANTS Ids <- c_Ids Boundary <- c_B RoundsW <- c_R\nINIT Init\nNEXT NextAll\n")
    r = vlib.run_tlc("MC_wire", "MC_wire.cfg", ["Wire.tla"], workdir=wd, workers=1, timeout=600, keep_prints=["VEC", "ALL"])
    if r.violation:
        raise vlib.CheckError("Wire laws violated in the specification: %s" % r.violation)
    allv = [o for (t, o) in r.prints if t == "ALL"]
    vec = [o for (t, o) in r.prints if t == "VEC"]
    if not allv or not vec:
        raise vlib.CheckError("Wire spec printed no vectors")
    return r, allv[0], vec[0]


def run(pid):
    tr = vlib.tier()
    wd = vlib.scratch(pid)
    rng = random.Random(vlib.seed())
    verdict = vlib.Verdict(pid)
    r, allv, vec = tlc_wire(wd)
    log("wire laws: %r" % r)
    drv = vlib.build_harness()
    rc, out, err = vlib.run_driver(drv, ["wire"], stdin_obj=dict(all=allv, rounds=[0, 1, 2, 64, 127], views=[]), timeout=600)
    if rc != 0:
        raise vlib.CheckError("wire driver failed: %s" % err)
    summary = None
    layout = 0
    for line in out.splitlines():
        o = json.loads(line)
        if o["e"] == "summary":
            summary = o
        elif o["violation"]:
            verdict.violation("roundtrip/%s" % o["kind"], "real encode/decode round trip fails for identifier %d: %s" % (o["id"], o["what"]),
                              dict(property=pid, kind="wire", mismatch=o))
        else:
            layout += 1
    if summary is None:
        raise vlib.CheckError("wire driver printed no summary")
    if summary["layout"]:
        print("DRIFT property=%s count=%d kind=byte layout differs from spec/Wire.tla" % (pid, summary["layout"]))
    log("wire vectors: %r" % summary)

    # ---- sessions with boundary identifiers ----------------------------------------------------------------------
    triples = list(itertools.combinations(BOUNDARY, 3))
    extra = 60 if tr == "quick" else 1500
    for _ in range(extra):
        triples.append(tuple(sorted(rng.sample(range(65536), 3))))
    if tr == "thorough":
        # all pairs of boundary ids with every position of a third seeded id
        for a, b in itertools.combinations(BOUNDARY, 2):
            c = rng.choice([x for x in range(65536) if x not in (a, b)])
            triples.append(tuple(sorted((a, b, c))))
    # (a) reliable broadcast sessions
    base = dict(N=3, Rounds=[1, 2], HonestB=[(1, 1, "a"), (2, 1, "a"), (3, 2, "a")], HonestP=[(3, 1, 2, "a")])
    groups = []
    states = r.distinct
    transitions = r.generated
    for mode in ("keygen", "sign"):
        cfg = dict(base, name="w3" + mode, mode=mode)
        rr, paths = eng_rbc.explore(cfg, ["Totality", "NeverHalted"], "simulate", wd, sim_num=40 if tr == "quick" else 200, sim_depth=60)
        paths = vlib.maximal_paths(paths)
        ps, ids = [], []
        for i, t in enumerate(triples):
            perm = list(t)
            rng.shuffle(perm)        # which abstract party gets which identifier
            ps.append(paths[i % len(paths)])
            ids.append({"1": perm[0], "2": perm[1], "3": perm[2]})
        groups.append((cfg, ps, "ids", ids))
    st = eng_rbc.replay_and_validate(pid, groups, wd, verdict, check_totality=True,
                                     monitors=["Totality", "TotalityQuiescent", "AtMostOnce", "NoPanic", "Agreement", "SentDirectly", "OnlyParticipants"])
    log("rbc sessions with boundary ids: %d replayed, drift in %d" % (st["replayed"], st["drift"]))
    for k, v in st["drift_kinds"].items():
        print("DRIFT property=%s count=%d kind=rbc session: %s" % (pid, v, k))
    # (b) membership synchronisation
    cfg = dict(name="wsync", Members=[1, 2, 3, 4], Starters=[1, 2, 3], E=3)
    cases = []
    for t in triples:
        spare = rng.choice([x for x in range(65536) if x not in t])
        real = sorted(list(t) + [spare])
        starters_real = sorted(t)
        # order-preserving abstract ids: rank among the four configured members
        idmap = {str(i + 1): real[i] for i in range(4)}
        starters = [real.index(x) + 1 for x in starters_real]
        c = dict(members=[1, 2, 3, 4], starters=starters, byz=[], nonmembers=[], e=3, deadline_ms=4000, adv=[], seed=rng.randrange(1 << 30),
                 policy="random", interval_us=1000, idmap=idmap)
        cases.append(c)
    # the TLC constant Starters differs with the position of the spare member: one group per starter set
    dgroups = {}
    for c in cases:
        dgroups.setdefault(tuple(c["starters"]), []).append(c)
    dg = [dict(cfg=dict(cfg, name="wsync%d" % i, Starters=list(k)), expect_all=True, expect_none=False, cases=v) for i, (k, v) in enumerate(sorted(dgroups.items()))]
    ds = eng_disc.run_groups(pid, dg, wd, verdict)
    log("sync runs with boundary ids: %d runs, %d completed, drift in %d" % (ds["runs"], ds["completed_runs"], ds["drift"]))
    for k, v in ds["drift_kinds"].items():
        print("DRIFT property=%s count=%d kind=sync run: %s" % (pid, v, k))
    # (c) the back ends' own encodings: stored share data and public parameters (ASN.1 with the party identifiers) of real BLS / PS
    # key generations among boundary identifiers, reloaded into fresh signers / verifiers: every subset signs and verifies
    import eng_stack
    bt = [t for t in triples if 0 not in t]
    rng.shuffle(bt)
    fs_cases = []
    for i, t in enumerate(bt[:10 if tr == "quick" else 60] + [(32767, 32768, 65535), (255, 256, 65535)]):
        for scheme in ("bls", "ps"):
            if tr == "quick" and scheme == "ps" and i % 2:
                continue
            fs_cases.append(eng_stack.case(scheme, "direct" if i % 3 else "loud", 3, 2, rng.randrange(1 << 30), ids=sorted(t)))
    fs = eng_stack.execute(pid, fs_cases, wd, verdict, drv)
    log("key generations among boundary ids: %d runs, %d completed, drift in %d" % (fs["validated"], fs["completed"], fs["drift"]))
    for k, v in fs["drift_kinds"].items():
        print("DRIFT property=%s count=%d kind=full-stack run: %s" % (pid, v, k))
    rcode = verdict.finish()
    vlib.write_evidence(pid, "model_checking", dict(
        keygen_runs_with_boundary_ids=fs["validated"],
        states=max(states, 1), transitions=max(transitions, 1),
        traces_validated_against_impl=st["validated"] + ds["validated"],
        samples=[dict(kind="wire vectors", ack=vec["ack"].get("65280"), sync_tail=vec["sync"].get("65280", [])[33:], topic_preimage=vec["topic"].get("65280"))]
                + st["samples"] + ds["samples"],
        exhaustive=False,
        identifiers_roundtripped=65536, roundtrip_evaluations=summary["checked"], layout_differences=summary["layout"],
        id_triples=len(triples), boundary_set=BOUNDARY,
        rbc_sessions=st["replayed"], sync_runs=ds["runs"], sync_runs_completed=ds["completed_runs"],
        drift_traces=st["drift"] + ds["drift"],
        known_findings_seen=sorted(verdict.known_seen),
        rule="TLC: round-trip laws for all 65536 identifiers; code: real encode/decode round trip for all 65536 identifiers x 5 rounds x 4 view positions; "
             "sessions: every 3-subset of the boundary set + seeded triples through fault-free RBC sessions (keygen, sign) and membership sync",
    ), [
        "SHA-256 collision freedom for topic names", "sessions use the scripted back end / honest parties (other properties cover faults)",
        "stored-data / public-parameter serialisation with boundary ids: real BLS / PS key generations, reload, every subset signs and verifies",
    ], violations=len(verdict.violations))
    return rcode


def replay(pid, path):
    with open(path) as f:
        o = json.load(f)
    if o.get("kind") == "wire":
        print("re-run bin/check %s (the wire comparison is exhaustive over identifiers)" % pid)
        return run(pid)
    if "case" in o:
        return eng_disc.replay(pid, path)
    wd = vlib.scratch(pid + "r")
    verdict = vlib.Verdict(pid)
    cfg = o["config"]
    cfg["AdvSet"] = []
    cfg["HonestB"] = [tuple(x) for x in cfg.get("HonestB", [])]
    cfg["HonestP"] = [tuple(x) for x in cfg.get("HonestP", [])]
    eng_rbc.replay_and_validate(pid, [(cfg, [o["path"]], "replay", [o.get("ids")])], wd, verdict, check_totality=True,
                                monitors=["Totality", "TotalityQuiescent", "AtMostOnce", "NoPanic", "Agreement"])
    return verdict.finish()


if __name__ == "__main__":
    vlib.main_wrapper(lambda: run(sys.argv[1]))
