"""Disc engine: property C07 (membership synchronisation) — also used by C13 for large identifiers.

 1. TLC checks Disc.tla: safety (ListValid, Agreement) exhaustively with a Byzantine member over a view catalogue,
    liveness (AllDone under fairness) for honest runs, NobodyDone with too few starters.
 2. Real disc.Member objects run on a harness-controlled FIFO network (seeded schedules, several policies), with
    Byzantine raw members whose message sets are enumerated by TLC (every set of <= K messages of the alphabet).
 3. TLC validates every recorded event log against DiscTrace.tla (conformance -> drift) and evaluates the C07
    monitors on the observed outcomes.
"""
import json
import os
import random
import sys

sys.path.insert(0, os.path.dirname(os.path.abspath(__file__)))
import vlib
from vlib import log
from eng_rbc import tla_val, Rec

CONSTS = ["Members", "Starters", "Byz", "NonMembers", "E", "AdvSet", "MaxInject", "Distinct", "Deadlines"]
DEFAULTS = dict(Byz=[], NonMembers=[], AdvSet=[], MaxInject=0, Distinct=False, Deadlines=False)

MONITORS = ["ListValid", "Agreement", "OneCallback", "NoCallbackOnError", "NoPanic", "Returns", "HonestRunCompletes", "TooFewFails"]


def full(cfg):
    c = dict(DEFAULTS)
    c.update(cfg)
    return c


def write_mc(wd, cfg, mode, invariants=(), prop=None, trace=None, expect_all=False, expect_none=False, view="view"):
    cfg = full(cfg)
    name = ("T_" if trace else "MC_") + cfg["name"] + ("_" + mode if not trace else "")
    lines = ["---- MODULE %s ----" % name, "EXTENDS %s" % ("DiscTrace" if trace else "Disc, Json")]
    for k in CONSTS:
        lines.append("c_%s == %s" % (k, tla_val(cfg[k])))
    if trace:
        lines.append('c_TraceFile == "%s"' % trace)
    else:
        lines.append('PathDump == PrintT(<<"PATH", ToJson(hist\')>>)')
    lines.append("====")
    with open(os.path.join(wd, name + ".tla"), "w") as f:
        f.write("\n".join(lines) + "\n")
    c = ["CONSTANTS"] + ["  %s <- c_%s" % (k, k) for k in CONSTS]
    if trace:
        c += ["  TraceFile <- c_TraceFile", "  ExpectAllDone = %s" % tla_val(expect_all), "  ExpectNoneDone = %s" % tla_val(expect_none),
              "INIT TInit", "NEXT TNext"]
    elif mode == "live":
        c += ["SPECIFICATION FairSpec", "VIEW view", "PROPERTY " + prop]
    else:
        c += ["INIT Init", "NEXT Next", "VIEW " + view]
        if invariants:
            c.append("INVARIANTS " + " ".join(invariants))
        if mode == "sets":
            c.append("ACTION_CONSTRAINT PathDump")
    with open(os.path.join(wd, name + ".cfg"), "w") as f:
        f.write("\n".join(c) + "\n")
    return name


def alphabet(byz, nonmembers, targets, honest_ids, lstar, extra, short=False):
    """Byzantine catalogue: message type x tag (own / another member's) x view (relative to the honest full list lstar)."""
    # the full list, one member more, one member REPLACED by another identifier (same size), one member less, reversed, a duplicate
    views = [tuple(lstar), tuple(sorted(set(lstar) | {extra})), tuple(sorted(set(lstar[:-1]) | {extra})), tuple(lstar[:-1]), tuple(reversed(lstar)),
             tuple(list(lstar) + [lstar[-1]])]
    res = []
    for b in byz:
        for m in targets:
            vws = views + [tuple(x for x in lstar if x != m)]
            for t in (("M", "Q", "R") if not short else ("M", "R")):
                for tag in [b] + [h for h in honest_ids if h != m][:1]:
                    for v in (vws if not short else vws[:4]):
                        res.append(Rec(**{"from": b}, to=m, t=t, tag=tag, view=v))
    for x in nonmembers:
        for m in targets:
            for t in ("M", "Q"):
                for tag in [h for h in honest_ids if h != m][:1] + list(byz)[:1]:
                    res.append(Rec(**{"from": x}, to=m, t=t, tag=tag, view=tuple(lstar)))
    return res


def tlc_design(wd, tr):
    """design-level checks of the model; returns (states, transitions, evidence list)"""
    ev = []
    st = trn = 0

    def rec(name, mode, r, consts):
        nonlocal st, trn
        st += r.distinct
        trn += r.generated
        ev.append(dict(config=name, mode=mode, distinct_states=r.distinct, states_generated=r.generated, depth=r.depth,
                       wall_s=round(r.wall, 1), constants=consts))
        log("disc %s %s: %r" % (name, mode, r))

    def run(cfg, mode, invariants=(), prop=None, timeout=900):
        name = write_mc(wd, cfg, mode, invariants, prop)
        r = vlib.run_tlc(name, name + ".cfg", ["Disc.tla"], workdir=wd, timeout=timeout, heap="12g")
        if r.violation:
            raise vlib.CheckError("Disc model %s/%s violates %s at design level:\n%s" % (cfg["name"], mode, r.violation, "".join(r.error_trace[-3:])))
        c = {k: (v if k != "AdvSet" else "%d adversarial messages" % len(v)) for k, v in full(cfg).items() if k != "name"}
        rec(cfg["name"], mode, r, c)

    # liveness, honest, exactly E starters
    run(dict(name="l23", Members=[1, 2, 3], Starters=[1, 2], E=2), "live", prop="AllDone")
    # too few starters: nobody completes; with deadlines: everybody may fail
    run(dict(name="few", Members=[1, 2, 3], Starters=[1, 2], E=3, Deadlines=True), "safe", ["ListValid", "Agreement", "NobodyDone"])
    # too many starters: safety only
    if tr == "thorough":
        # (with deadlines this configuration has 52 M states and needs 13 min on an idle 16-core machine: without them here)
        run(dict(name="many", Members=[1, 2, 3], Starters=[1, 2, 3], E=2, Deadlines=False), "safe", ["ListValid", "Agreement"], timeout=2400)
    # Byzantine member 3 + outsider 9, two honest starters
    a = alphabet([3], [9], [1, 2], [1, 2], [1, 2, 3], 4)
    a2 = alphabet([3], [9], [1, 2], [1, 2], [1, 2], 3)
    if tr == "quick":
        ash = alphabet([3], [9], [1, 2], [1, 2], [1, 2, 3], 4, short=True)
        run(dict(name="b3e3q", Members=[1, 2, 3, 4], Starters=[1, 2], Byz=[3], NonMembers=[9], E=3, AdvSet=ash, MaxInject=2, Deadlines=False), "safe",
            ["ListValid", "Agreement"])
        a2sh = alphabet([3], [9], [1, 2], [1, 2], [1, 2], 3, short=True)
        run(dict(name="b3e2q", Members=[1, 2, 3], Starters=[1, 2], Byz=[3], NonMembers=[9], E=2, AdvSet=a2sh, MaxInject=2, Deadlines=False), "safe",
            ["ListValid", "Agreement"])
    else:
        run(dict(name="b3e3", Members=[1, 2, 3, 4], Starters=[1, 2], Byz=[3], NonMembers=[9], E=3, AdvSet=a, MaxInject=2, Deadlines=True), "safe",
            ["ListValid", "Agreement"])
        run(dict(name="b3e2", Members=[1, 2, 3], Starters=[1, 2], Byz=[3], NonMembers=[9], E=2, AdvSet=a2, MaxInject=2, Deadlines=True), "safe",
            ["ListValid", "Agreement"])
    if tr == "thorough":
        # (liveness with three starters -- 5.6 M states, liveness checking > 30 min on a loaded machine -- is left to the real runs'
        #  HonestRunCompletes; the two-starter liveness configuration above is exhaustive)
        run(dict(name="l34", Members=[1, 2, 3, 4], Starters=[1, 2], E=2), "live", prop="AllDone", timeout=2400)
        # measured and dropped from the tier: b3e3x (MaxInject = 3: 36 M states, 20 min) and b4e3 (four members, three starters, one
        # Byzantine: > 40 min) -- their message sets are covered by the enumerated strategies that run on the real code
    return st, trn, ev


def liars(byz, targets, lstar, extra):
    """directed strategies: a 'consistent liar' -- the Byzantine member behaves like an honest one but with a false view throughout
    (announcement, query and confirmation of the SAME false view to every honest starter).  All messages belong to alphabet()."""
    views = [tuple(sorted(set(lstar) | {extra})), tuple(sorted(set(lstar[:-1]) | {extra})), tuple(lstar[:-1]), tuple(reversed(lstar))]
    res = []
    for b in byz:
        for v in views:
            for kinds in (("M", "Q", "R"), ("M", "R")):
                res.append([{"from": b, "to": m, "t": t, "tag": b, "view": list(v)} for m in targets for t in kinds])
            for m in targets:
                res.append([{"from": b, "to": m, "t": t, "tag": b, "view": list(v)} for t in ("M", "Q", "R")])
    return res


def strategies(wd, cfg, k, cap, rng):
    """every set of <= k adversarial messages (TLC enumerates them via the `injected' view); returns lists of adv records"""
    c = dict(cfg)
    c.update(MaxInject=k, Distinct=True)
    name = write_mc(wd, c, "sets", view="setview")
    r = vlib.run_tlc(name, name + ".cfg", ["Disc.tla"], workdir=wd, timeout=600, keep_prints=["PATH"], heap="8g")
    seen = {}
    for _, p in r.prints:
        advs = [e["a"] for e in p if e["e"] == "inject"]
        key = tuple(sorted(json.dumps(a, sort_keys=True) for a in advs))
        if key and key not in seen:
            seen[key] = advs
    strat = [seen[k2] for k2 in sorted(seen)]
    singles = [s for s in strat if len(s) == 1]
    multi = [s for s in strat if len(s) > 1]
    rng.shuffle(multi)
    return singles + multi[:max(0, cap - len(singles))], len(strat)


def groups_for(pid, tr, wd, rng):
    """returns list of groups: dict(cfg=<TLC constants>, expect_all, expect_none, cases=[driver cases])"""
    groups = []
    big = tr == "thorough"

    def case(cfg, adv=(), seed=0, policy="random", deadline=2500, interval=1000, rounds=0):
        c = full(cfg)
        return dict(members=c["Members"], starters=c["Starters"], byz=c["Byz"], nonmembers=c["NonMembers"], e=c["E"], adv_rounds=rounds,
                    deadline_ms=deadline, adv=[dict(a) for a in adv], seed=seed, policy=policy, interval_us=interval)

    def honest(name, members, starters, e, n, expect_all=True, expect_none=False, deadline=4000):
        cfg = dict(name=name, Members=members, Starters=starters, E=e)
        cases = []
        for i in range(n):
            pol = ["random", "random", "lifo", "starve:%d" % starters[i % len(starters)]][i % 4]
            cases.append(case(cfg, seed=rng.randrange(1 << 30), policy=pol, deadline=deadline, interval=1000 if expect_all else 4000))
        groups.append(dict(cfg=cfg, expect_all=expect_all, expect_none=expect_none, cases=cases))

    if pid == "C07":
        honest("h34", [1, 2, 3, 4], [1, 2, 4], 3, 60 if not big else 600)
        honest("h22", [1, 2], [1, 2], 2, 20 if not big else 200)
        honest("h55", [1, 2, 3, 4, 5], [1, 2, 3, 4, 5], 5, 30 if not big else 300)
        honest("h58", [3, 7, 20, 21, 22, 40, 41, 60], [3, 20, 22, 41, 60], 5, 20 if not big else 200)
        honest("hbig", [7, 300, 65535, 256], [7, 300, 65535], 3, 20 if not big else 100)
        # identifiers that agree in one byte (low bytes equal: 2, 258, 65282; high bytes equal; low byte zero): the per-topic tags and
        # the wire form of a view must depend on the whole 16-bit identifier
        honest("hcong", [2, 258, 514, 65282, 3], [2, 258, 65282], 3, 16 if not big else 100)
        honest("hcong2", [2, 258, 514, 770], [2, 258, 514, 770], 4, 8 if not big else 60)
        honest("hlow0", [256, 512, 768, 1024, 0], [256, 512, 1024], 3, 12 if not big else 60)
        honest("few", [1, 2, 3, 4], [1, 3], 3, 16 if not big else 100, expect_all=False, expect_none=True, deadline=120)
        honest("many", [1, 2, 3, 4], [1, 2, 3, 4], 3, 30 if not big else 300, expect_all=False, deadline=150)
        # a message handled exactly BETWEEN two steps of Synchronize (the model's Snap / Check / Query / Done are separate actions): the
        # member is held at one of its debug lines (decision taken / completion) while everything a held-back sender has for it arrives
        cfgm = dict(name="manyg", Members=[1, 2, 3, 4], Starters=[1, 2, 3, 4], E=3)
        gcases = []
        for key in ("Learned about", "Synchronized on"):
            for p_ in (1, 2, 3, 4):
                for x in (1, 2, 3, 4):
                    if x != p_ and (big or (p_ + x) % 2 == 1 or key == "Learned about"):
                        gcases.append(case(cfgm, seed=rng.randrange(1 << 30), policy="gate:%d:%d:%s" % (p_, x, key), deadline=200, interval=4000))
        groups.append(dict(cfg=cfgm, expect_all=False, expect_none=False, cases=gcases))
        # Byzantine member 4 (+ outsider 9); three honest starters, E = 3 (the Byzantine member is one too many) and E = 4 (it is needed)
        for name, e, lstar in (("bz3", 3, [1, 2, 3]), ("bz4", 4, [1, 2, 3, 4])):
            cfg = dict(name=name, Members=[1, 2, 3, 4, 5], Starters=[1, 2, 3], Byz=[4], NonMembers=[9], E=e,
                       AdvSet=alphabet([4], [9], [1, 2, 3], [1, 2, 3], lstar, 5))
            strat, total = strategies(wd, cfg, 2, 260 if not big else 6000, rng)
            log("disc %s: %d adversarial message sets enumerated by TLC, %d executed" % (name, total, len(strat)))
            cases = []
            for s in strat:
                cases.append(case(cfg, adv=s, seed=rng.randrange(1 << 30), deadline=100, interval=4000))
            for s in liars([4], [1, 2, 3], lstar, 5):        # the liar retransmits like an honest member
                cases.append(case(cfg, adv=s, seed=rng.randrange(1 << 30), deadline=200, interval=4000, rounds=40))
            groups.append(dict(cfg=cfg, expect_all=False, expect_none=False, cases=cases, enumerated=total))
        # one honest starter, one honest member that never invokes, a Byzantine member speaking for itself and for the absent one:
        # every set of <= 4 messages of a focused alphabet (announcement / query / confirmation x own tag / the absent member's tag)
        foc = [Rec(**{"from": 2}, to=1, t=t, tag=tag, view=(1, 2, 3)) for t in ("M", "Q", "R") for tag in (2, 3)]
        cfg = dict(name="bzabs", Members=[1, 2, 3], Starters=[1], Byz=[2], E=3, AdvSet=foc)
        strat, total = strategies(wd, cfg, 4, 80 if not big else 400, rng)
        log("disc bzabs: %d adversarial message sets enumerated by TLC, %d executed" % (total, len(strat)))
        groups.append(dict(cfg=cfg, expect_all=False, expect_none=False, enumerated=total,
                           cases=[case(cfg, adv=s, seed=rng.randrange(1 << 30), deadline=100, interval=4000) for s in strat for _ in range(2 if big else 1)]))
        # two honest starters that can only complete together with the Byzantine member
        cfg = dict(name="bz2", Members=[1, 2, 3], Starters=[1, 2], Byz=[3], NonMembers=[9], E=3, AdvSet=alphabet([3], [9], [1, 2], [1, 2], [1, 2, 3], 4))
        # (sets of three over this alphabet are > 10^5 and TLC's dump of them does not finish in 10 min: pairs + the directed liars)
        strat, total = strategies(wd, cfg, 2, 200 if not big else 8000, rng)
        log("disc bz2: %d adversarial message sets enumerated by TLC, %d executed" % (total, len(strat)))
        groups.append(dict(cfg=cfg, expect_all=False, expect_none=False, enumerated=total,
                           cases=[case(cfg, adv=s, seed=rng.randrange(1 << 30), deadline=100, interval=4000) for s in strat]
                                 + [case(cfg, adv=s, seed=rng.randrange(1 << 30), deadline=200, interval=4000, rounds=40) for s in liars([3], [1, 2], [1, 2, 3], 4)]))
    if pid == "C07":
        # ONE honest starter that needs exactly one more member, and a Byzantine member: whatever that member claims (also a view in which
        # it replaces itself by a stranger, consistently and retransmitted), the starter completes with [1, 3] or not at all
        cfg = dict(name="bz1", Members=[1, 2, 3], Starters=[1], Byz=[3], NonMembers=[9], E=2, AdvSet=alphabet([3], [9], [1], [1], [1, 3], 4))
        strat, total = strategies(wd, cfg, 3, 120 if not big else 2000, rng)
        log("disc bz1: %d adversarial message sets enumerated by TLC, %d executed" % (total, len(strat)))
        groups.append(dict(cfg=cfg, expect_all=False, expect_none=False, enumerated=total,
                           cases=[case(cfg, adv=s, seed=rng.randrange(1 << 30), deadline=100, interval=4000) for s in strat]
                                 + [case(cfg, adv=s, seed=rng.randrange(1 << 30), deadline=200, interval=4000, rounds=40) for s in liars([3], [1], [1, 3], 4)]))
        # the same Byzantine message sets with every identifier in the UTF-16 surrogate range (0xD800-0xDFFF) / at 0xFFFD: views must be
        # compared by value whatever the identifiers are (order-preserving renaming of the abstract members)
        SUR = {"1": 0xD800, "2": 0xD9AB, "3": 0xDABC, "4": 0xDC00, "5": 0xDFFF, "9": 0xFFFD}
        for g in list(groups):
            if not g["cfg"].get("Byz"):
                continue
            extra = []
            for i, c in enumerate(g["cases"]):
                if big or i % 3 == 0 or len(c["adv"]) >= 3:
                    extra.append(dict(c, idmap=SUR, seed=rng.randrange(1 << 30)))
            groups.append(dict(g, cases=extra, cfg=dict(g["cfg"], name=g["cfg"]["name"] + "sur")))
    return groups


def run_groups(pid, groups, wd, verdict, workers=16):
    drv = vlib.build_harness()
    cases = []
    owner = []
    for gi, g in enumerate(groups):
        for c in g["cases"]:
            c = dict(c)
            c["cfg"] = gi
            cases.append(c)
            owner.append(gi)
    jobfile = os.path.join(wd, "discjob.json")
    with open(jobfile, "w") as f:
        json.dump(dict(cases=cases, workers=workers), f)
    outfile = os.path.join(wd, "disc.ndjson")
    rc, _, err = vlib.run_driver(drv, ["disc"], stdin_path=jobfile, stdout_path=outfile, timeout=2400)
    if rc != 0:
        raise vlib.CheckError("disc driver failed (rc=%d): %s" % (rc, err))
    traces = {}
    cur = None
    with open(outfile) as f:
        for line in f:
            o = json.loads(line)
            if o["e"] == "reset":
                cur = o["t"]
                traces[cur] = []
            traces[cur].append(line)
    stats = dict(runs=len(traces), events=sum(len(v) for v in traces.values()), validated=0, drift=0, drift_kinds={}, completed_runs=0, samples=[])
    per = {}
    for t in traces:
        per.setdefault(owner[t], []).append(t)
    for gi, ts in sorted(per.items()):
        g = groups[gi]
        tf = os.path.join(wd, "dtrace_%d.ndjson" % gi)
        with open(tf, "w") as f:
            for t in ts:
                f.writelines(traces[t])
        name = write_mc(wd, g["cfg"], "trace", trace=os.path.basename(tf), expect_all=g["expect_all"], expect_none=g["expect_none"])
        r = vlib.run_tlc(name, name + ".cfg", ["Disc.tla", "DiscTrace.tla"], workdir=wd, workers=1, timeout=1200, keep_prints=["VIOL", "END"], heap="8g")
        ends = [o for (tag, o) in r.prints if tag == "END"]
        if len(ends) != len(ts):
            raise vlib.CheckError("disc trace validation consumed %d of %d traces of group %s:\n%s" % (len(ends), len(ts), g["cfg"]["name"], r.out[-1500:]))
        stats["validated"] += len(ends)
        for o in ends:
            if o["done"] > 0:
                stats["completed_runs"] += 1
            if o["drift"]:
                stats["drift"] += 1
                kind = o["drift"].split(" @line")[0]
                stats["drift_kinds"][kind] = stats["drift_kinds"].get(kind, 0) + 1
        for (tag, o) in r.prints:
            if tag != "VIOL":
                continue
            t = o["t"]
            c = cases[t]
            sig = "%s/%s/%s" % (o["mon"], g["cfg"]["name"], adv_signature(c["adv"]))
            verdict.violation(sig, "monitor %s is false on the outcome of real disc.Member run %d (group %s, seed %d, policy %s)" % (
                o["mon"], t, g["cfg"]["name"], c["seed"], c["policy"]),
                dict(property=pid, monitor=o["mon"], group=dict(cfg=full(g["cfg"]), expect_all=g["expect_all"], expect_none=g["expect_none"]),
                     case=c, real_trace=[json.loads(x) for x in traces[t]][:400]))
    if traces:
        k = sorted(traces)[len(traces) // 2]
        stats["samples"] = [dict(group=groups[owner[k]]["cfg"]["name"], case={kk: vv for kk, vv in cases[k].items()}, real_events=len(traces[k]))]
    if not verdict.violations and per:
        gi = sorted(per)[0]
        g = groups[gi]
        tf = os.path.join(wd, "dselftest.ndjson")
        with open(tf, "w") as f:
            for t in per[gi][:40]:
                f.writelines(traces[t])

        def c_list(evs):
            for e in evs:
                if e["e"] == "done":
                    e["list"] = e["list"][:-1] + [e["list"][-1] + 1000]
                    return True
            return False

        def c_query(evs):
            for e in evs:
                if e["e"] == "out" and e["ty"] == "Q":
                    e["view"] = e["view"][:-1]
                    return True
            return False

        def c_err(evs):
            for e in evs:
                if e["e"] == "ret" and e["err"] == "":
                    e["err"] = "made up"
                    return True
            return False

        def validate(path):
            name = write_mc(wd, dict(g["cfg"], name=g["cfg"]["name"] + "_st"), "trace", trace=os.path.basename(path), expect_all=g["expect_all"], expect_none=g["expect_none"])
            r = vlib.run_tlc(name, name + ".cfg", ["Disc.tla", "DiscTrace.tla"], workdir=wd, workers=1, timeout=900, keep_prints=["VIOL", "END"], heap="8g")
            return sum(1 for t, _ in r.prints if t == "VIOL"), sum(1 for t, o in r.prints if t == "END" and o["drift"])

        stats["selftest"] = vlib.binding_selftest("disc", tf, [("agreed list changed", c_list), ("queried view truncated", c_query),
                                                               ("successful return turned into an error", c_err)], validate)
    return stats


def adv_signature(adv):
    return ",".join(sorted(set("%s%s" % (a["t"], "-foreign-tag" if a["tag"] != a["from"] else "") for a in adv))) or "honest"


def run(pid):
    tr = vlib.tier()
    wd = vlib.scratch(pid)
    rng = random.Random(vlib.seed())
    verdict = vlib.Verdict(pid)
    st, trn, ev = tlc_design(wd, tr)
    groups = groups_for(pid, tr, wd, rng)
    stats = run_groups(pid, groups, wd, verdict)
    log("disc: %d real runs (%d events), %d with a completion, drift in %d" % (stats["runs"], stats["events"], stats["completed_runs"], stats["drift"]))
    for k, v in stats["drift_kinds"].items():
        print("DRIFT property=%s count=%d kind=%s" % (pid, v, k))
    rc = verdict.finish()
    vlib.write_evidence(pid, "model_checking", dict(
        states=max(st, 1), transitions=max(trn, 1), traces_validated_against_impl=stats["validated"],
        samples=stats["samples"] or [dict(note="none")], exhaustive=False, configs=ev,
        groups=[dict(group=g["cfg"]["name"], runs=len(g["cases"]), adversarial_sets_enumerated=g.get("enumerated", 0),
                     expect_all_done=g["expect_all"], expect_none_done=g["expect_none"]) for g in groups],
        real_events=stats["events"], runs_with_completion=stats["completed_runs"], drift_traces=stats["drift"], drift_kinds=stats["drift_kinds"],
        monitors=MONITORS, known_findings_seen=sorted(verdict.known_seen), binding_selftest=stats.get("selftest"),
        rule="real disc.Member runs on a harness-controlled per-link FIFO network: seeded schedules x policies x (honest | too few | too many | "
             "Byzantine message sets enumerated by TLC); every event log validated by TLC against DiscTrace.tla",
    ), [
        "per-link FIFO delivery (what the bundled TLS transport provides)",
        "HMAC-SHA256 tags are unforgeable without the topic; a Byzantine configured member knows the topic",
        "honest-run liveness is judged with a 4 s deadline against typical completion in a few ms",
    ], violations=len(verdict.violations))
    return rc


def replay(pid, path):
    with open(path) as f:
        o = json.load(f)
    wd = vlib.scratch(pid + "r")
    verdict = vlib.Verdict(pid)
    g = o["group"]
    cfg = g["cfg"]
    cfg["AdvSet"] = []
    grp = dict(cfg=cfg, expect_all=g["expect_all"], expect_none=g["expect_none"], cases=[o["case"]] * 5)
    stats = run_groups(pid, [grp], wd, verdict)
    log("replayed: %r" % {k: v for k, v in stats.items() if k != "samples"})
    return verdict.finish()


if __name__ == "__main__":
    vlib.main_wrapper(lambda: run(sys.argv[1]))
