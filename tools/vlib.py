"""Common machinery for the /verif checks (python3 stdlib only).

 * scratch directories under /verif/.work (removed at exit)
 * running TLC (exhaustive / simulate / trace validation) and parsing its output
 * extracting behaviours (paths of events) that a spec printed with PrintT(<<"PATH", ToJson(hist')>>)
 * building the Go conformance harness from /repo's working tree with -tags verif
 * evidence files, known findings, verdict lines and exit codes

Exit codes used by every check:  0 property held on everything explored (KNOWN-FINDING lines allowed)
                                 1 VIOLATION (a property monitor is false on events produced by the real code)
                                 2 ERROR (machinery problem: build failure, TLC crash/timeout, dead driver)
"""
import atexit
import glob
import json
import os
import re
import shutil
import signal
import subprocess
import sys
import tempfile
import time

VERIF = os.path.dirname(os.path.dirname(os.path.abspath(__file__)))
REPO = os.environ.get("VERIF_REPO", "/repo")
SPEC = os.path.join(VERIF, "spec")
# (the overrides exist for tools/seeded_run.py, which runs the checks against a mutated scratch copy of the repository)
HARNESS = os.environ.get("VERIF_HARNESS", os.path.join(VERIF, "harness"))
WORK = os.path.join(VERIF, ".work")
EVIDENCE = os.environ.get("VERIF_EVIDENCE", os.path.join(VERIF, "evidence"))
REPLAYS = os.environ.get("VERIF_REPLAYS", os.path.join(VERIF, "replays"))
KNOWN = os.path.join(VERIF, "known_findings.json")

GOENV = dict(GOFLAGS="-mod=mod", GOPROXY="off", GOSUMDB="off", GOTOOLCHAIN="local")

_T0 = time.time()
_scratch_dirs = []


class CheckError(Exception):
    """machinery failure -> exit 2"""


def seed():
    try:
        return int(os.environ.get("VERIF_SEED", "1"))
    except ValueError:
        return 1


def tier(default="quick"):
    t = os.environ.get("VERIF_TIER", default)
    return t if t in ("quick", "thorough") else default


def log(*a):
    print("[%6.1fs]" % (time.time() - _T0), *a, file=sys.stderr, flush=True)


_swept = []


def _sweep_stale():
    """scratch directories / harness binaries of runs that were killed (their process is gone) are removed"""
    if _swept:
        return
    _swept.append(1)
    for base in (WORK, os.path.join(WORK, "bin")):
        try:
            names = os.listdir(base)
        except OSError:
            continue
        for name in names:
            parts = name.split(".")
            if len(parts) < 2 or not parts[1].isdigit() or os.path.exists("/proc/%s" % parts[1]):
                continue
            path = os.path.join(base, name)
            if os.path.isdir(path):
                shutil.rmtree(path, ignore_errors=True)
            else:
                try:
                    os.remove(path)
                except OSError:
                    pass


def scratch(tag):
    os.makedirs(WORK, exist_ok=True)
    _sweep_stale()
    d = tempfile.mkdtemp(prefix="%s.%d." % (tag, os.getpid()), dir=WORK)
    _scratch_dirs.append(d)
    return d


def _cleanup():
    if os.environ.get("VERIF_KEEP"):
        return
    for d in _scratch_dirs:
        shutil.rmtree(d, ignore_errors=True)


atexit.register(_cleanup)


# --------------------------------------------------------------------------------------------
# TLC
# --------------------------------------------------------------------------------------------

class TLCResult:
    def __init__(self):
        self.ok = False            # finished without error
        self.generated = 0
        self.distinct = 0
        self.depth = 0
        self.violation = None      # name of violated invariant / property, or "deadlock", "assert"
        self.error_trace = []      # list of state texts
        self.out = ""
        self.wall = 0.0
        self.prints = []           # parsed PrintT tuples <<"TAG", "json">> -> (tag, obj)
        self.coverage_zero = []
        self.timed_out = False

    def __repr__(self):
        return "TLC(ok=%s gen=%d distinct=%d depth=%d viol=%s wall=%.1fs)" % (
            self.ok, self.generated, self.distinct, self.depth, self.violation, self.wall)


_PRINT_RE = re.compile(r'^<<"([A-Z]+)", "(.*)">>$')


def parse_prints(text, tags=None):
    """PrintT(<<"TAG", ToJson(v)>>) lines -> [(tag, obj)]"""
    res = []
    if '<< "' in text:
        # TLC pretty-prints long tuples over several lines: << "TAG",\n  "json" >>
        for m in re.finditer(r'^<< "([A-Z]+)",\s*"((?:[^"\\]|\\.)*)"\s*>>', text, re.M):
            if tags and m.group(1) not in tags:
                continue
            try:
                res.append((m.group(1), json.loads(json.loads('"' + m.group(2) + '"'))))
            except Exception:
                continue
    for line in text.splitlines():
        if not line.startswith('<<"'):
            continue
        m = _PRINT_RE.match(line)
        if not m:
            continue
        tag = m.group(1)
        if tags and tag not in tags:
            continue
        try:
            s = json.loads('"' + m.group(2) + '"')
            res.append((tag, json.loads(s)))
        except Exception:
            continue
    return res


def run_tlc(module, cfg, files, workdir=None, workers=None, timeout=600, simulate=None, depth=None,
            tlc_seed=None, coverage=False, deadlock=False, extra=None, dfs=False, heap=None, keep_prints=None,
            stdout_path=None):
    """Run TLC on spec/<module>.tla with spec/<cfg>. `files`: names in SPEC (or absolute paths) copied to the
    scratch dir. Returns TLCResult. Raises CheckError on crash/timeouts (never interpreted as a violation)."""
    wd = workdir or scratch("tlc")
    for f in files:
        src = f if os.path.isabs(f) else os.path.join(SPEC, f)
        dst = os.path.join(wd, os.path.basename(f))
        if os.path.abspath(src) != os.path.abspath(dst):
            shutil.copy(src, dst)
    meta = tempfile.mkdtemp(prefix="meta.", dir=wd)
    cmd = ["java", "-XX:+UseParallelGC"]
    if heap:
        cmd.append("-Xmx%s" % heap)
    cmd += ["-Xss64m"]
    if dfs:
        cmd.append("-Dtlc2.tool.queue.IStateQueue=StateDeque")
    cmd += ["-cp", "/opt/veriftools/tla/tla2tools.jar:/opt/veriftools/tla/CommunityModules-deps.jar", "tlc2.TLC"]
    cmd += ["-metadir", meta, "-config", cfg]
    if workers is None:
        workers = "auto"
    cmd += ["-workers", str(workers)]
    if not deadlock:
        cmd += ["-deadlock"]
    if simulate:
        cmd += ["-simulate", simulate]
        if depth:
            cmd += ["-depth", str(depth)]
    if tlc_seed is not None:
        cmd += ["-seed", str(tlc_seed)]
    if coverage:
        cmd += ["-coverage", "1"]
    if extra:
        cmd += extra
    cmd.append(module)
    t0 = time.time()
    res = TLCResult()
    outp = stdout_path or os.path.join(wd, "tlc.%s.out" % os.path.splitext(os.path.basename(cfg))[0])
    with open(outp, "w") as fo:
        p = subprocess.Popen(cmd, cwd=wd, stdout=fo, stderr=subprocess.STDOUT, start_new_session=True)
        try:
            p.wait(timeout=timeout)
        except subprocess.TimeoutExpired:
            os.killpg(p.pid, signal.SIGKILL)
            p.wait()
            res.timed_out = True
    res.wall = time.time() - t0
    shutil.rmtree(meta, ignore_errors=True)
    shutil.rmtree(os.path.join(wd, "states"), ignore_errors=True)
    with open(outp, errors="replace") as fi:
        out = fi.read()
    res.out = out if len(out) < 4_000_000 else out[:100_000] + "\n...\n" + out[-400_000:]
    if keep_prints:
        res.prints = parse_prints(out, keep_prints)
    m = None
    for m in re.finditer(r"(\d+) states generated, (\d+) distinct states found", out):
        pass
    if m:
        res.generated, res.distinct = int(m.group(1)), int(m.group(2))
    m = re.search(r"depth of the complete state graph search is (\d+)", out)
    if m:
        res.depth = int(m.group(1))
    if res.timed_out and not simulate:
        raise CheckError("TLC timed out after %ds on %s/%s" % (timeout, module, cfg))
    if "Invariant " in out and " is violated" in out:
        res.violation = re.search(r"Invariant (\S+) is violated", out).group(1)
    elif "Temporal properties were violated" in out:
        res.violation = "temporal"
    elif "Action property " in out and "is violated" in out:
        res.violation = re.search(r"Action property (\S+) is violated", out).group(1)
    elif "Deadlock reached" in out:
        res.violation = "deadlock"
    elif "The first argument of Assert evaluated to FALSE" in out or "Assumption " in out and "is false" in out:
        res.violation = "assert"
    elif re.search(r"Evaluating POSTCONDITION|The postcondition .* (is false|was violated)|POSTCONDITION.*false", out, re.I) and \
            re.search(r"postcondition.*(false|violated)", out, re.I):
        res.violation = "postcondition"
    if res.violation:
        res.error_trace = re.findall(r"^State \d+:.*?(?=^State \d+:|\Z|^\d+ states generated)", out, re.S | re.M)
    finished = ("Model checking completed. No error has been found." in out) or \
               (simulate and (res.timed_out or "Finished in" in out or "The number of states generated" in out))
    if coverage:
        res.coverage_zero = re.findall(r"^<(\w+) line \d+, col \d+ to line \d+, col \d+ of module \w+>: 0:0", out, re.M)
    res.ok = bool(finished) and not res.violation
    if not res.ok and not res.violation:
        tail = out[-3000:]
        raise CheckError("TLC failed on %s/%s:\n%s" % (module, cfg, tail))
    return res


def maximal_paths(paths):
    """Drop every path that is a proper prefix of (or equal to) another one. paths: list of lists of json objects."""
    keyed = sorted(((tuple(json.dumps(e, sort_keys=True) for e in p)), p) for p in paths)
    res = []
    for i, (k, p) in enumerate(keyed):
        if i + 1 < len(keyed):
            nk = keyed[i + 1][0]
            if len(nk) >= len(k) and nk[:len(k)] == k:
                continue
        res.append(p)
    return res


def chosen_walks(paths, rng, extensions=1):
    """TLC -simulate evaluates the ACTION_CONSTRAINT (which prints the path) for every candidate successor, not only for the
    one it follows. Keep the walks actually followed (maximal among the paths that were extended) plus `extensions` of the
    candidate last steps of each."""
    keyed = {}
    for p in paths:
        keyed[tuple(json.dumps(e, sort_keys=True) for e in p)] = p
    children = {}
    for k in keyed:
        if k:
            children.setdefault(k[:-1], []).append(k)
    res = []
    for k in sorted(children):
        kids = sorted(children[k])
        if any(c in children for c in kids):
            continue                      # the walk went on from one of the candidates
        rng.shuffle(kids)
        for c in kids[:extensions]:
            res.append(keyed[c])
    return res or maximal_paths(paths)


# --------------------------------------------------------------------------------------------
# Go harness
# --------------------------------------------------------------------------------------------

_built = {}


def goenv():
    env = dict(os.environ)
    env.update(GOENV)
    return env


def build_harness(target="./cmd/drv", name="drv", race=False):
    """(Re)build the harness binary from /repo's *current working tree* with hooks enabled (-tags verif)."""
    key = (target, race)
    if key in _built:
        return _built[key]
    os.makedirs(os.path.join(WORK, "bin"), exist_ok=True)
    out = os.path.join(WORK, "bin", "%s.%d%s" % (name, os.getpid(), ".race" if race else ""))
    cmd = ["go", "build", "-tags", "verif", "-o", out]
    if race:
        cmd.append("-race")
    cmd.append(target)
    t0 = time.time()
    p = subprocess.run(cmd, cwd=HARNESS, env=goenv(), capture_output=True, text=True)
    if p.returncode != 0:
        raise CheckError("harness build failed (the tree under %s does not compile with -tags verif?):\n%s" % (REPO, p.stderr[-4000:]))
    log("built harness %s in %.1fs" % (target, time.time() - t0))
    _built[key] = out
    atexit.register(lambda: os.path.exists(out) and os.remove(out))
    return out


def run_driver(binary, args, stdin_obj=None, stdin_path=None, timeout=600, stdout_path=None, env_extra=None):
    """Run the harness driver; returns (returncode, stdout_text or path, stderr_tail)."""
    env = goenv()
    env["VERIF_SEED"] = str(seed())
    if env_extra:
        env.update(env_extra)
    inp = None
    fin = None
    if stdin_obj is not None:
        inp = json.dumps(stdin_obj)
    elif stdin_path:
        fin = open(stdin_path)
    fout = open(stdout_path, "w") if stdout_path else subprocess.PIPE
    try:
        p = subprocess.run([binary] + args, input=inp, stdin=fin, stdout=fout, stderr=subprocess.PIPE, text=True,
                           timeout=timeout, env=env)
    except subprocess.TimeoutExpired as e:
        raise CheckError("driver %s timed out after %ds" % (" ".join(args), timeout))
    finally:
        if fin:
            fin.close()
        if stdout_path:
            fout.close()
    return p.returncode, (stdout_path if stdout_path else p.stdout), (p.stderr or "")[-6000:]


# --------------------------------------------------------------------------------------------
# Evidence, known findings, verdicts
# --------------------------------------------------------------------------------------------

def write_evidence(pid, level, coverage, assumptions, violations=0, extra=None):
    os.makedirs(EVIDENCE, exist_ok=True)
    ev = {
        "property_id": pid,
        "tier": tier(),
        "seed": seed(),
        "level": level,
        "coverage": coverage,
        "assumptions": assumptions,
        "wall_s": round(time.time() - _T0, 2),
        "violations": violations,
    }
    if extra:
        ev.update(extra)
    path = os.path.join(EVIDENCE, "%s.json" % pid)
    tmp = path + ".tmp.%d" % os.getpid()
    with open(tmp, "w") as f:
        json.dump(ev, f, indent=1, sort_keys=True)
        f.write("\n")
    os.replace(tmp, path)
    return path


def load_known():
    if not os.path.exists(KNOWN):
        return {"findings": [], "fixed": []}
    with open(KNOWN) as f:
        return json.load(f)


def known_for(pid):
    return [k for k in load_known().get("findings", []) if k.get("property") == pid]


def save_replay(pid, name, obj):
    os.makedirs(REPLAYS, exist_ok=True)
    path = os.path.join(REPLAYS, "%s.%s.json" % (pid, name))
    with open(path, "w") as f:
        json.dump(obj, f, indent=1)
        f.write("\n")
    return path


class Verdict:
    """Collects violations found on the real code, classifies them against known_findings.json."""

    def __init__(self, pid):
        self.pid = pid
        # replays of earlier runs of this check are stale (not while one of them is being replayed)
        for f in ([] if os.environ.get("VERIF_REPLAY_MODE") else glob.glob(os.path.join(REPLAYS, "%s.*.json" % pid))):
            try:
                os.remove(f)
            except OSError:
                pass
        self.violations = []      # (signature, description, replay_path)
        self.known_seen = {}      # finding id -> description
        self.more = {}

    def violation(self, signature, description, replay_obj):
        """signature: short stable string identifying the failing input / history class."""
        for k in known_for(self.pid):
            if k.get("signature") == signature:
                self.known_seen[k["id"]] = k.get("what", description)
                return
        n = sum(1 for v in self.violations if v[0] == signature)
        if n >= 2:
            self.more[signature] = self.more.get(signature, 0) + 1
            return
        path = save_replay(self.pid, re.sub(r"[^A-Za-z0-9_.-]", "_", signature)[:80] + ".%d" % n, replay_obj)
        self.violations.append((signature, description, path))

    def finish(self):
        for fid, what in sorted(self.known_seen.items()):
            print("KNOWN-FINDING: property=%s %s [%s]" % (self.pid, what, fid))
        for sig, desc, path in self.violations[:20]:
            print("VIOLATION property=%s replay=%s" % (self.pid, path))
            print("  signature=%s: %s%s" % (sig, desc, " (+%d more with this signature)" % self.more[sig] if sig in self.more else ""))
        sys.stdout.flush()
        return 1 if self.violations else 0


def binding_selftest(name, trace_path, corruptions, validate):
    """Anti-vacuity: every corruption of an ACCEPTED recorded trace must be noticed by the trace specification.
    corruptions: list of (label, fn(list_of_event_dicts) -> bool) that modify the events in place (return False if not applicable);
    validate(path) -> (n_viol, n_drift) runs the trace validation on a file. Raises CheckError when a corruption goes unnoticed."""
    with open(trace_path) as f:
        lines = [json.loads(x) for x in f if x.strip()]
    results = []
    for label, fn in corruptions:
        evs = json.loads(json.dumps(lines))
        if not fn(evs):
            results.append(dict(corruption=label, applicable=False))
            continue
        path = trace_path + ".corrupt"
        with open(path, "w") as f:
            for e in evs:
                f.write(json.dumps(e) + "\n")
        nv, nd = validate(path)
        results.append(dict(corruption=label, applicable=True, violations=nv, drift=nd))
        if nv + nd == 0:
            raise CheckError("binding self-test of %s: the corruption '%s' of a recorded trace was NOT noticed by the trace specification" % (name, label))
        log("self-test %s: corruption '%s' noticed (violations=%d, drift=%d)" % (name, label, nv, nd))
    return results


def main_wrapper(fn):
    try:
        rc = fn()
    except CheckError as e:
        print("ERROR %s" % e, file=sys.stderr)
        sys.exit(2)
    except KeyboardInterrupt:
        sys.exit(2)
    sys.exit(rc or 0)
