"""Adapters engine: property C19 (tss-lib adapters mpc/binance/{ecdsa,eddsa}: receiver-side classification, sender binding,
signed digest = requested digest).

 1. TLC checks spec/Adapters.tla: the table-level laws (distinct rounds among the broadcast-class types of a phase, class =
    library routing, digest laws over a small universe) and, exhaustively, a small protocol model (emission step by step,
    receiver-side classification, a pin-per-(sender, round) broadcast layer, attribution to the transport sender, Byzantine
    members / outsiders re-sending captured content with or without an embedded sender claim).  Mutated variants of the model
    (two broadcast types sharing a round, a misclassified type, attribution to the embedded claim) must be REJECTED by TLC
    (the invariants can fail); so must a party index found by lower-bound search without equality check.
 2. The REAL adapters are driven through their exported API (harness/cmd/drv/adapters.go): complete EdDSA key generations and
    signings for several (n, t), ECDSA signings from a stored key (quick) / after a real key generation (thorough), the
    sender-binding probes and the seeded digests; ClassifyMsg on hand-built envelopes for every URL of the spec tables.
 3. TLC validates every recorded event log against spec/AdaptersTrace.tla, which evaluates the C19 monitors on the observed
    events (VIOL / END records); differences to the spec tables or the digest model with all monitors true are drift.
"""
import concurrent.futures
import json
import os
import random
import sys

sys.path.insert(0, os.path.dirname(os.path.abspath(__file__)))
import vlib
from vlib import log

MONITORS = ["ClassifiedAsRouted", "ClassificationFollowsLibrary", "DistinctRounds", "ClassifiedAlike", "SenderAttribution", "EmbeddedMismatchDropped", "NonMemberRejected", "ProbeNoEffect",
            "RunCompletes", "KeyAgreement", "SignedDigestIsRequested", "NoPanic"]
OUTCOME_MONITORS = ("RunCompletes", "ProbeNoEffect")
URL_PREFIX = "type.googleapis.com/binance.tsslib."
FIXTURE = os.path.join(vlib.HARNESS, "internal", "adfix", "ecdsa_p256_n3_t1.json")
P256N = "ffffffff00000000ffffffffffffffffbce6faada7179e84f3b9cac2fc632551"
BULKY = ("txt", "stack", "sigh", "what")


# ------------------------------------------------------------------------------------------------------------------
# TLC: laws and the protocol model
# ------------------------------------------------------------------------------------------------------------------

def tla(v):
    if isinstance(v, bool):
        return "TRUE" if v else "FALSE"
    if isinstance(v, int):
        return str(v)
    if isinstance(v, str):
        return '"%s"' % v
    if isinstance(v, (list, set, tuple)):
        return "{" + ", ".join(tla(x) for x in v) + "}"
    raise ValueError(v)


def write_model(wd, name, consts, table_expr, invariants, extra_defs="", init="Init", nxt="Next"):
    """MC module for the protocol model; table_expr is a TLA+ expression over the spec's tables."""
    lines = ["---- MODULE %s ----" % name, "EXTENDS Adapters"]
    for k, v in consts.items():
        lines.append("c_%s == %s" % (k, tla(v)))
    lines.append("c_Table == %s" % table_expr)
    if extra_defs:
        lines.append(extra_defs)
    lines.append("====")
    with open(os.path.join(wd, name + ".tla"), "w") as f:
        f.write("\n".join(lines) + "\n")
    c = ["CONSTANTS"] + ["  %s <- c_%s" % (k, k) for k in list(consts) + ["Table"]]
    c += ["INIT " + init, "NEXT " + nxt]
    if invariants:
        c.append("INVARIANTS " + " ".join(invariants))
    with open(os.path.join(wd, name + ".cfg"), "w") as f:
        f.write("\n".join(c) + "\n")
    return name


_ENCODINGS = []        # the catalogue of hand-crafted encodings as printed by the spec (filled by tlc_laws)


def tlc_laws(wd):
    """table laws + digest laws; returns (TLCResult, tables as printed by the spec)"""
    name = "MC_ad_laws"
    with open(os.path.join(wd, name + ".tla"), "w") as f:
        f.write("""---- MODULE %s ----
EXTENDS Adapters, Json
c_Parties == {1}
c_Empty == {}
LawsOK == /\\ TableLaws(EdDSATable) /\\ TableLaws(ECDSATable)
          /\\ DigestLaws({0, 1, 255}, 3, 2, <<255, 1>>)
          /\\ DigestLaws({0, 7}, 4, 3, <<7, 0, 7>>)
          /\\ StrippedVariantFails({0, 1, 255}, 3, 2, <<255, 1>>)   \\* the digest clause can fail (behaviour before the repair)
          /\\ EncodingLaws      \\* classification follows the library for every hand-crafted encoding; 'first type_url wins' does not
LNext == /\\ Assert(LawsOK, "table / digest laws of spec/Adapters.tla violated")
         /\\ PrintT(<<"TAB", ToJson([eddsa |-> EdDSATable, ecdsa |-> ECDSATable])>>)
         /\\ PrintT(<<"ENC", ToJson(EncodingCases)>>)
         /\\ UNCHANGED vars
====
""" % name)
    with open(os.path.join(wd, name + ".cfg"), "w") as f:
        f.write("CONSTANTS Parties <- c_Parties Byz <- c_Empty Outsiders <- c_Empty Table <- c_Empty MaxSpoof = 0 TrustEmbedded = FALSE NearestIndex = FALSE IgnoreCtx = FALSE\n"
                "INIT Init\nNEXT LNext\n")
    r = vlib.run_tlc(name, name + ".cfg", ["Adapters.tla"], workdir=wd, workers=1, timeout=300, keep_prints=["TAB", "ENC"])
    if r.violation:
        raise vlib.CheckError("the laws of spec/Adapters.tla do not hold (%s):\n%s" % (r.violation, r.out[-1500:]))
    tabs = [o for (t, o) in r.prints if t == "TAB"]
    encs = [o for (t, o) in r.prints if t == "ENC"]
    if not tabs or not encs:
        raise vlib.CheckError("spec/Adapters.tla printed no tables / encodings:\n%s" % r.out[-1500:])
    _ENCODINGS[:] = sorted(encs[0], key=lambda e: (len(e["items"]), e["items"]))
    return r, tabs[0]


def tlc_model(wd, tr):
    """exhaustive bounded checks of the protocol model + the must-fail variants; returns (states, transitions, configs).
    The configurations are independent: they run three at a time (TLC with 5 workers each), concurrently with the real runs."""
    inv_byz = ["SenderBinding", "HonestNotImpersonated", "NoFalseEquivocation", "NoBroadcastOnP2PPath"]
    inv_hon = inv_byz + ["Totality"]
    jobs = []

    def run(name, consts, table, invariants, expect=None, timeout=900):
        jobs.append((name, consts, table, invariants, expect, timeout))

    def do(job):
        name, consts, table, invariants, expect, timeout = job
        write_model(wd, name, consts, table, invariants)
        r = vlib.run_tlc(name, name + ".cfg", ["Adapters.tla"], workdir=wd, timeout=timeout, heap="6g", workers=5)
        log("adapters model %s: %r" % (name, r))
        if expect is None and r.violation:
            raise vlib.CheckError("Adapters model %s violates %s at design level:\n%s" % (name, r.violation, "".join(r.error_trace[-3:])))
        if expect is not None and r.violation not in expect:
            raise vlib.CheckError("anti-vacuity: the mutated model %s should violate one of %s but TLC says %s" % (name, expect, r.violation))
        return r, dict(config=name, table=table, constants=consts, invariants=invariants, distinct_states=r.distinct,
                       states_generated=r.generated, depth=r.depth, wall_s=round(r.wall, 1), expected_violation=expect, result=r.violation or "holds")

    hon = dict(Parties=[1, 2, 3], Byz=[], Outsiders=[], MaxSpoof=0, TrustEmbedded=False, NearestIndex=False, IgnoreCtx=False)
    byz = dict(hon, Byz=[3], MaxSpoof=1)
    byzo = dict(byz, Outsiders=[9])
    hon2 = dict(hon, Parties=[1, 2])
    byz2 = dict(byzo, Parties=[1, 2], Byz=[2], Outsiders=[0])     # an outsider below every participant
    # largest first
    if tr == "thorough":
        run("ec_kg_b", byzo, 'PhaseOf(ECDSATable, "keygen")', inv_byz, timeout=2400)
        run("ed_sg_b2x", dict(byz, MaxSpoof=2), 'PhaseOf(EdDSATable, "sign")', inv_byz, timeout=2400)
        run("ec_sg_h", hon, 'PhaseOf(ECDSATable, "sign")', inv_hon, timeout=1800)
    run("ed_kg_b", byz if tr == "quick" else byzo, 'PhaseOf(EdDSATable, "keygen")', inv_byz)
    run("ed_sg_b", byz if tr == "quick" else byzo, 'PhaseOf(EdDSATable, "sign")', inv_byz)
    run("ec_sg_b2", byz2, 'PhaseOf(ECDSATable, "sign")', inv_byz)
    run("ed_kg_h", hon, 'PhaseOf(EdDSATable, "keygen")', inv_hon)
    run("ed_sg_h", hon, 'PhaseOf(EdDSATable, "sign")', inv_hon)
    run("ed_sg_o2", dict(byz2, Byz=[]), 'PhaseOf(EdDSATable, "sign")', inv_byz)
    run("ed_kg_b2", byz2, 'PhaseOf(EdDSATable, "keygen")', inv_byz)
    run("ec_kg_h", hon, 'PhaseOf(ECDSATable, "keygen")', inv_hon)
    run("ec_sg_h2", hon2, 'PhaseOf(ECDSATable, "sign")', inv_hon)
    run("ec_kg_b2", byz2, 'PhaseOf(ECDSATable, "keygen")', inv_byz)
    # the invariants can fail: (a) two broadcast types of one phase share a round, (b) a broadcast type classified
    # point-to-point, (c) attribution to the embedded claim
    same_round = ('{IF x.url = "eddsa.keygen.KGRound2Message2" THEN [x EXCEPT !.round = 1] ELSE x : x \\in PhaseOf(EdDSATable, "keygen")}')
    run("mut_round", hon, same_round, inv_hon, expect=["NoFalseEquivocation", "Totality"])
    misclass = ('{IF x.url = "eddsa.signing.SignRound2Message" THEN [x EXCEPT !.bcast = FALSE] ELSE x : x \\in PhaseOf(EdDSATable, "sign")}')
    run("mut_class", hon, misclass, inv_hon, expect=["NoBroadcastOnP2PPath", "Totality"])
    run("mut_embed", dict(byzo, TrustEmbedded=True), 'PhaseOf(EdDSATable, "keygen")', inv_byz, expect=["SenderBinding", "HonestNotImpersonated"])
    # (d) party index by lower-bound search without equality check: a non-participant between / below the participants is filed
    #     under a participant
    run("mut_index", dict(hon, Parties=[1, 3], Outsiders=[2], MaxSpoof=1, NearestIndex=True), 'PhaseOf(EdDSATable, "sign")', inv_byz,
        expect=["SenderBinding", "HonestNotImpersonated"])
    run("ed_sg_gap", dict(hon, Parties=[1, 3, 5], Outsiders=[0, 4], MaxSpoof=1), 'PhaseOf(EdDSATable, "sign")', inv_byz)
    ev = []
    st = trn = 0
    with concurrent.futures.ThreadPoolExecutor(max_workers=3) as ex:
        for r, e in ex.map(do, jobs):
            st += r.distinct
            trn += r.generated
            ev.append(e)
    return st, trn, ev


# ------------------------------------------------------------------------------------------------------------------
# cases
# ------------------------------------------------------------------------------------------------------------------

def digest_cases(rng, ad, tr):
    """[(label, hex digest, timeout_ms or 0)] — 32 bytes, short (incl. leading zero bytes), long, boundary"""
    rb = lambda n: bytes(rng.randrange(1, 256) if i == 0 else rng.randrange(256) for i in range(n))
    res = [("32", rb(32)), ("32-lead0", b"\x00" + rb(31)), ("32-lead00", b"\x00\x00" + rb(30)), ("1", rb(1)), ("31", rb(31)),
           ("short", rb(rng.randrange(2, 31))), ("short-lead0", b"\x00" + rb(rng.randrange(1, 30))), ("33", rb(33)), ("64", rb(64)),
           ("long", rb(rng.randrange(34, 64))), ("long-lead0", b"\x00" + rb(rng.randrange(33, 63))), ("zero32", bytes(32)), ("zero1", b"\x00")]
    if tr == "thorough":
        res += [("32b", rb(32)), ("32c-lead0", b"\x00" + rb(31)), ("short2", rb(rng.randrange(2, 31))), ("long2", rb(rng.randrange(34, 64))),
                ("ff32", b"\xff" * 31 + b"\xfe"), ("empty", b"")]
    n = int(P256N, 16)
    # ECDSA: the library refuses integers >= N and Sign then waits for its context: keep that wait short
    out = [(lab, d.hex(), 6000 if ad == "ecdsa" and len(d) >= 32 and int.from_bytes(d[:32], "big") >= n else 0) for lab, d in res]
    if ad == "ecdsa":
        out.append(("N-1", "%064x" % (n - 1), 0))
        # the library refuses integers >= N: Sign never returns a signature (it waits for its context), keep the wait short
        out.append(("N", P256N, 6000))
        if tr == "thorough":
            out.append(("ff32>=N", "ff" * 32, 6000))
    return out


def other_digests(rng, dhex):
    d = bytes.fromhex(dhex)
    cand = [d.lstrip(b"\x00"), b"\x00" + d, d[:32], d + b"\x01", d[:-1], bytes(rng.randrange(256) for _ in range(32))]
    if d:
        cand.append(d[:-1] + bytes([d[-1] ^ 1]))
        cand.append(bytes([d[0] ^ 0x80]) + d[1:])
    res = []
    for c in cand:
        if c != d and c.hex() not in res:
            res.append(c.hex())
    return res


def probe_cases(urls, ids, rng, share, cap=0):
    """every (claimed/captured a, transport b) pair at every receiver for every type of the phase; `share` = fraction kept;
    cap > 0: at most that many cases, spread evenly over the probe kinds"""
    res = []
    n = len(ids)
    outsiders = [x for x in (99, 65535, 40000) if x not in ids]
    for u in urls:
        for b in ids:
            for p in ids:
                if p == b:
                    continue
                for a in ids:
                    if a == b:
                        continue
                    for flag in (True, False):
                        res.append(dict(kind="wrapped", at=p, url=u, a=a, b=b, flag=flag))
                        if n >= 3:
                            res.append(dict(kind="replay", at=p, url=u, a=a, b=b, flag=flag))
        for p in ids:
            for a in ids:
                if a == p:
                    continue
                for x in outsiders[:2]:
                    res.append(dict(kind="outsider", at=p, url=u, a=a, b=x, flag=rng.random() < 0.5))
        # control: the embedded sender equals the transport sender
        b = rng.choice(ids)
        p = rng.choice([x for x in ids if x != b])
        res.append(dict(kind="wrapped", at=p, url=u, a=b, b=b, flag=True))
    if share < 1.0:
        # keep every (kind, type, a, b) combination, thin out receivers / flags
        keep = []
        groups = {}
        for c in res:
            groups.setdefault((c["kind"], c["url"], c["a"], c["b"]), []).append(c)
        for k in sorted(groups):
            lst = groups[k]
            rng.shuffle(lst)
            keep += lst[:max(1, int(round(len(lst) * share)))]
        res = keep
    if cap and len(res) > cap:
        kinds = {}
        for c in res:
            kinds.setdefault(c["kind"], []).append(c)
        for k in kinds:
            rng.shuffle(kinds[k])
        res = []
        while len(res) < cap and any(kinds.values()):
            for k in sorted(kinds):
                if kinds[k] and len(res) < cap:
                    res.append(kinds[k].pop())
    return res


def standin_cases(entries, ids, rng, cap=0):
    """a NON-member x stands in for member M at receiver p with a message of type T produced by another party a: every type of
    the phase x every gap of the committee (below the smallest member, strictly between members, above the largest) x the
    neighbouring members as victims x receivers"""
    ids = sorted(ids)
    steps = {}
    for e in entries:
        steps.setdefault(e["step"], []).append(e["url"])
    xs = []                                   # (outsider id, [victims])
    if ids[0] > 0:
        xs.append((0, [ids[0]]))
        if ids[0] > 1:
            xs.append((ids[0] - 1, [ids[0]]))
    for lo, hi in zip(ids, ids[1:]):
        if hi - lo > 1:
            cand = sorted(set([lo + 1, hi - 1, (lo + hi) // 2]))
            for x in cand[:2] if hi - lo > 2 else cand[:1]:
                xs.append((x, [hi, lo]))      # the next larger member first (what a lower-bound search would return)
    if ids[-1] < 65535:
        xs.append((ids[-1] + 1, [ids[-1]]))
    res = []
    for e in sorted(entries, key=lambda z: z["url"]):
        nxt = sorted(steps.get(e["step"] + 1, []))
        for x, victims in xs:
            for m in victims:
                for p in ids:
                    if p == m:
                        continue
                    others = [a for a in ids if a != m]          # content of another party (may be the receiver's own)
                    a = rng.choice([a for a in others if a != p] or others)
                    res.append(dict(kind="standin", at=p, url=e["url"], a=a, b=x, m=m, flag=bool(e["lib"]),
                                    step_urls=sorted(steps[e["step"]]), next_urls=nxt))
    if cap and len(res) > cap:
        # keep the spread over types and gaps: round-robin over (type, outsider)
        groups = {}
        for c in res:
            groups.setdefault((c["url"], c["b"]), []).append(c)
        for k in groups:
            rng.shuffle(groups[k])
        keys = sorted(groups)
        rng.shuffle(keys)
        keep = []
        while len(keep) < cap and any(groups.values()):
            for k in keys:
                if groups[k] and len(keep) < cap:
                    # prefer the next larger member as victim
                    groups[k].sort(key=lambda c: c["m"] < c["b"])
                    keep.append(groups[k].pop(0))
        res = keep
    return res


class Plan:
    def __init__(self):
        self.sessions = []
        self.tags = []       # per session
        self.meta = {}       # trace id -> dict
        self.next_t = 1

    def tid(self, **kw):
        t = self.next_t
        self.next_t += 1
        self.meta[t] = kw
        return t

    def session(self, ad, ids, thr, keygen_probe=None, signs=(), shares_in=None, shares_out=None, tag=""):
        s = dict(adapter=ad, ids=list(ids), thr=thr, keygen=shares_in is None, keygen_probe=keygen_probe, signs=[])
        si = len(self.sessions)
        if shares_in:
            s["shares_in"] = shares_in
        else:
            s["keygen_t"] = self.tid(session=si, ad=ad, ids=list(ids), thr=thr, phase="keygen", probe=keygen_probe, tag=tag)
        if shares_out:
            s["shares_out"] = shares_out
        for sg in signs:
            t = self.tid(session=si, ad=ad, ids=list(ids), thr=thr, phase="sign", probe=sg.get("probe"), digest=sg["digest"],
                         label=sg.get("label", ""), tag=tag)
            s["signs"].append(dict(t=t, digest=sg["digest"], others=sg.get("others", []), probe=sg.get("probe"), timeout_ms=sg.get("timeout_ms", 0)))
        self.sessions.append(s)
        self.tags.append(tag)
        return si


def chunks(lst, n):
    return [lst[i:i + n] for i in range(0, len(lst), n)] or [[]]


def plan_for(tr, rng, tabs, wd):
    plan = Plan()
    urls = {ad: {ph: sorted(e["url"] for e in tabs[ad] if e["phase"] == ph) for ph in ("keygen", "sign")} for ad in tabs}
    big = tr == "thorough"
    # ---- EdDSA: complete key generations + signings -------------------------------------------------------------
    # party identifiers: 1..n, the byte-boundary identifiers incl. 65535 (must complete like small-id sessions), seeded ones
    configs = [([1, 2], 1), ([1, 2, 3], 1), ([1, 3, 5], 2), ([2, 256, 65535], 1), ([255, 65280, 65534], 2),
               (sorted(rng.sample(range(1, 65536), 3)), 1)]
    ents = {ad: {ph: [e for e in tabs[ad] if e["phase"] == ph] for ph in ("keygen", "sign")} for ad in tabs}
    if big:
        configs += [([1, 2, 3], 2), ([1, 256, 65535], 1), ([1, 2, 3, 4], 3), ([1, 2, 3, 4], 2), ([1, 256, 65280, 65535], 2), ([65535, 127], 1), ([128, 257, 32768], 1),
                    ([511, 512, 32767, 65279], 3), (sorted(rng.sample(range(1, 65536), 4)), 2)]
    for ids, thr in configs:
        dcs = digest_cases(rng, "eddsa", tr)
        if ids != [1, 2, 3] and not big:
            dcs = dcs[:3]
        signs = [dict(digest=d, others=other_digests(rng, d), label=lab, timeout_ms=ms) for lab, d, ms in dcs]
        plan.session("eddsa", ids, thr, signs=signs, tag="baseline")
        small = ids == list(range(1, len(ids) + 1))
        if big:
            share = 1.0 if len(ids) <= 3 and small or (ids, thr) == ([1, 2, 3, 4], 3) else (0.6 if ids == [1, 2, 3, 4] else (0.35 if len(ids) <= 3 else 0.15))
        else:
            share = 1.0 if ids == [1, 2] else (0.5 if (ids, thr) == ([1, 2, 3], 1) else (0.25 if small else 0.12))
        cap = 0 if (big or small) else 9
        kp = probe_cases(urls["eddsa"]["keygen"], ids, rng, share, cap)
        sp = probe_cases(urls["eddsa"]["sign"], ids, rng, share, cap)
        scap = (0 if len(ids) <= 3 else 60) if big else (12 if ids in ([1, 2, 3], [1, 3, 5], [2, 256, 65535]) else 5)
        kp += standin_cases(ents["eddsa"]["keygen"], ids, rng, scap)
        sp += standin_cases(ents["eddsa"]["sign"], ids, rng, scap)
        d0 = digest_cases(rng, "eddsa", "quick")[0][1]
        per = max(1, (len(sp) + max(1, len(kp)) - 1) // max(1, len(kp)))
        spc = chunks(sp, per)
        for i in range(max(len(kp), len(spc))):
            signs = [dict(digest=d0, others=[], probe=p, label="32") for p in (spc[i] if i < len(spc) else [])]
            plan.session("eddsa", ids, thr, keygen_probe=kp[i] if i < len(kp) else None, signs=signs, tag="probe")
    # ---- ECDSA ------------------------------------------------------------------------------------------------------
    ids, thr = [1, 2, 3], 1
    have_fixture = os.path.exists(FIXTURE)
    dcs = digest_cases(rng, "ecdsa", tr)
    if not big:
        keep = {"32", "32-lead0", "short-lead0", "64", "N"}
        dcs = [c for c in dcs if c[0] in keep]
    sp = probe_cases(urls["ecdsa"]["sign"], ids, rng, 1.0)
    rng.shuffle(sp)
    kinds = {}
    for p in sp:
        kinds.setdefault(p["kind"], []).append(p)
    sp = kinds["wrapped"][:2 if not big else 14] + kinds["replay"][:2 if not big else 14] + kinds["outsider"][:1 if not big else 8]
    sp += standin_cases(ents["ecdsa"]["sign"], ids, rng, 3 if not big else 16)
    d0 = digest_cases(rng, "ecdsa", "quick")[0][1]
    sign_list = [dict(digest=d, others=other_digests(rng, d), label=lab, timeout_ms=ms) for lab, d, ms in dcs] + \
                [dict(digest=d0, others=[], probe=p, label="32") for p in sp]
    if big:
        # one real key generation, its shares feed the signing sessions (second driver invocation)
        shares = os.path.join(wd, "ecdsa_shares.json")
        plan.session("ecdsa", ids, thr, signs=[sign_list[0]], shares_out=shares, tag="dkg")
        kp = probe_cases(urls["ecdsa"]["keygen"], ids, rng, 1.0)
        rng.shuffle(kp)
        seen = set()
        kp += standin_cases(ents["ecdsa"]["keygen"], ids, rng, 1)
        for p in kp:
            if p["kind"] not in seen:
                seen.add(p["kind"])
                plan.session("ecdsa", ids, thr, keygen_probe=p, signs=[], tag="dkg-probe")
        plan.ecdsa_second = (shares, sign_list[1:])
    elif have_fixture:
        for part in chunks(sign_list, 2):
            plan.session("ecdsa", ids, thr, signs=part, shares_in=FIXTURE, tag="fixture")
        plan.ecdsa_second = None
    else:
        plan.ecdsa_second = None
    plan.have_fixture = have_fixture
    # ---- ClassifyMsg on hand-built envelopes: every URL of the spec tables, unknown URLs, garbage -----------------
    cls = []
    for ad in ("ecdsa", "eddsa"):
        for e in sorted(tabs[ad], key=lambda x: x["url"]):
            for var in ("", "empty-value", "value-first"):
                cls.append(dict(adapter=ad, kind="table", url=URL_PREFIX + e["url"], variant=var))
        other = "eddsa" if ad == "ecdsa" else "ecdsa"
        unknown = [URL_PREFIX + tabs[other][0]["url"], URL_PREFIX + ad + ".keygen.KGRound9Message", "", "type.googleapis.com/google.protobuf.Empty",
                   URL_PREFIX + ad + ".resharing.DGRound1Message", (URL_PREFIX + sorted(tabs[ad], key=lambda x: x["url"])[0]["url"]).upper()]
        for u in unknown:
            cls.append(dict(adapter=ad, kind="unknown", url=u, variant=""))
        garbage = ["", "ff", "0a", "0aff", "0a05" + "41" * 3, "ffffffffffffffffffff01", "12", "0a80808080808080808001"]
        for _ in range(8 if not big else 64):
            garbage.append(bytes(rng.randrange(256) for _ in range(rng.randrange(1, 48))).hex())
        for g in garbage:
            cls.append(dict(adapter=ad, kind="garbage", raw=g, url="", variant=""))
    plan.classify = cls
    # hand-crafted encodings (catalogue enumerated by TLC) for every message type of both adapters x decoys: another type of the same
    # phase with a different (round, class), a type of the other phase, a type of the other adapter
    enc = []
    for ad in ("ecdsa", "eddsa"):
        other_ad = "eddsa" if ad == "ecdsa" else "ecdsa"
        for e in sorted(tabs[ad], key=lambda x: x["url"]):
            same = [x for x in tabs[ad] if x["phase"] == e["phase"] and (x["round"], x["bcast"]) != (e["round"], e["bcast"])]
            diff = [x for x in tabs[ad] if x["phase"] != e["phase"]]
            decoys = [rng.choice(sorted(same, key=lambda x: x["url"])), rng.choice(sorted(diff + tabs[other_ad], key=lambda x: x["url"]))]
            if big:
                decoys += [rng.choice(sorted(same, key=lambda x: x["url"])), rng.choice(sorted(tabs[other_ad], key=lambda x: x["url"])),
                           rng.choice(sorted(diff, key=lambda x: x["url"]))]
            seen = set()
            for d in decoys:
                if d["url"] in seen:
                    continue
                seen.add(d["url"])
                for c in _ENCODINGS:
                    enc.append(dict(adapter=ad, t=URL_PREFIX + e["url"], d=URL_PREFIX + d["url"], items=c["items"]))
    plan.encodings = enc
    plan.classify_t = plan.tid(session=-1, ad="both", phase="table", probe=None, tag="table")
    return plan


# ------------------------------------------------------------------------------------------------------------------
# driver + trace validation
# ------------------------------------------------------------------------------------------------------------------

_retried = []
_retried_info = {}


def run_driver(job, wd, tag, timeout):
    """returns {t: [event dicts]} and the list of trace ids that were begun but never ended (driver died)"""
    drv = vlib.build_harness()
    jobfile = os.path.join(wd, "adjob_%s.json" % tag)
    with open(jobfile, "w") as f:
        json.dump(job, f)
    outfile = os.path.join(wd, "ad_%s.ndjson" % tag)
    rc, _, err = vlib.run_driver(drv, ["adapters"], stdin_path=jobfile, stdout_path=outfile, timeout=timeout)
    traces, begun, skipped, retried = {}, [], [], []
    with open(outfile) as f:
        for line in f:
            try:
                o = json.loads(line)
            except ValueError:
                continue           # a line cut short by a dying driver
            if o["e"] == "begin":
                begun.append(o["t"])
            elif o["e"] == "skipped":
                skipped.append(o["t"])
            elif o["e"] == "retried":
                retried.append(o["t"])
                _retried_info[o["t"]] = {k: o.get(k) for k in ("ph", "ad", "finished", "emits", "handed")}
            else:
                traces.setdefault(o["t"], []).append(o)
    complete = {t: ev for t, ev in traces.items() if ev and ev[0]["e"] == "reset" and ev[-1]["e"] == "end"}
    dead = [t for t in begun if t not in complete]
    if rc != 0 and not dead:
        raise vlib.CheckError("adapters driver failed (rc=%d): %s" % (rc, err[-3000:]))
    _retried.extend(retried)
    return complete, dead, skipped, err


def slim(o):
    return {k: v for k, v in o.items() if k not in BULKY}


def validate(traces, wd, tag, par=4, chunk_lines=12000):
    """TLC evaluates the monitors on the recorded events; returns (viols, ends, states, transitions)"""
    order = sorted(traces)
    parts, cur, n = [], [], 0
    for t in order:
        if cur and n + len(traces[t]) > chunk_lines:
            parts.append(cur)
            cur, n = [], 0
        cur.append(t)
        n += len(traces[t])
    if cur:
        parts.append(cur)

    def one(i):
        d = os.path.join(wd, "val_%s_%d" % (tag, i))
        os.makedirs(d, exist_ok=True)
        tf = "trace.ndjson"
        with open(os.path.join(d, tf), "w") as f:
            for t in parts[i]:
                for o in traces[t]:
                    f.write(json.dumps(slim(o)) + "\n")
        name = "T_ad"
        with open(os.path.join(d, name + ".tla"), "w") as f:
            f.write('---- MODULE %s ----\nEXTENDS AdaptersTrace\nc_Parties == {1}\nc_Empty == {}\nc_TraceFile == "%s"\n====\n' % (name, tf))
        with open(os.path.join(d, name + ".cfg"), "w") as f:
            f.write("CONSTANTS Parties <- c_Parties Byz <- c_Empty Outsiders <- c_Empty Table <- c_Empty MaxSpoof = 0 TrustEmbedded = FALSE NearestIndex = FALSE IgnoreCtx = FALSE\n"
                    "  TraceFile <- c_TraceFile\nINIT TInit\nNEXT TNext\n")
        r = vlib.run_tlc(name, name + ".cfg", ["Adapters.tla", "AdaptersTrace.tla"], workdir=d, workers=1, timeout=1500,
                         keep_prints=["VIOL", "END"], heap="4g")
        if r.violation:
            raise vlib.CheckError("trace validation stopped with %s:\n%s" % (r.violation, r.out[-2000:]))
        ends = [o for (tg, o) in r.prints if tg == "END"]
        if sorted(o["t"] for o in ends) != sorted(parts[i]):
            raise vlib.CheckError("trace validation consumed %d of %d traces (chunk %d):\n%s" % (len(ends), len(parts[i]), i, r.out[-2500:]))
        return r

    viols, ends, st, trn = [], {}, 0, 0
    with concurrent.futures.ThreadPoolExecutor(max_workers=par) as ex:
        for r in ex.map(one, range(len(parts))):
            st += r.distinct
            trn += r.generated
            for tg, o in r.prints:
                if tg == "VIOL":
                    viols.append(o)
                else:
                    ends[o["t"]] = o
    return viols, ends, st, trn


def signature(v, m):
    mon = v["mon"]
    ad = m.get("ad", v.get("ad", ""))
    pk = (m.get("probe") or {}).get("kind", "none")
    if mon in ("ClassifiedAsRouted", "ClassificationFollowsLibrary"):
        return "%s/%s" % (mon, v["cls"])
    if mon == "SignedDigestIsRequested":
        return "SignedDigestIsRequested/%s/%s" % (ad, v["cls"])
    if mon == "NoPanic":
        return "NoPanic/%s/%s/%s" % (ad, m.get("phase", ""), pk)
    if mon in ("ProbeNoEffect", "SenderAttribution", "EmbeddedMismatchDropped", "NonMemberRejected"):
        return "%s/%s/%s/%s" % (mon, ad, m.get("phase", ""), pk)
    if mon in ("DistinctRounds", "ClassifiedAlike", "RunCompletes"):
        return "%s/%s/%s" % (mon, ad, m.get("phase", ""))
    return "%s/%s" % (mon, ad)


def session_for(plan, t):
    """a self-contained driver session that re-runs trace t alone (used for retries and replay files)"""
    m = plan.meta[t]
    if m["phase"] == "table":
        return None
    s = plan.sessions[m["session"]]
    one = dict(adapter=s["adapter"], ids=s["ids"], thr=s["thr"], keygen=True, keygen_probe=None, signs=[], keygen_t=1)
    ec = s["adapter"] == "ecdsa"
    if m["phase"] == "keygen":
        one["keygen_probe"] = s.get("keygen_probe")
        one["keygen_timeout_ms"] = 400000 if ec else 10000      # alone: typical 15 s / 0.1 s
    else:
        sg = [x for x in s["signs"] if x["t"] == t][0]
        one["signs"] = [dict(sg, t=2, timeout_ms=sg.get("timeout_ms") or (30000 if ec else 10000))]   # alone: typical 1.5 s / 0.1 s
        if s["adapter"] == "ecdsa" and s["ids"] == [1, 2, 3] and s["thr"] == 1 and os.path.exists(FIXTURE):
            one["keygen"] = False
            one["shares_in"] = FIXTURE
            del one["keygen_t"]
    return one


def rerun_alone(one, wd, tag, want_phase):
    """run a single-case session in its own driver process; returns (viols, ends, trace events of the wanted phase, st, trn)"""
    job = dict(sessions=[one], classify=[], classify_t=0, workers=1)
    traces, dead, _, err = run_driver(job, wd, tag, timeout=2400)
    t_want = 1 if want_phase == "keygen" else 2
    if dead:
        ev = [dict(t=t_want, e="reset", ad=one["adapter"], ph=want_phase, ids=one["ids"], thr=one["thr"], dg=[], pk="", pp=0, pa=0, pb=0, pf=False, purl="", pm=0),
              dict(t=t_want, e="panic", p=0, where="process", what=err[-1500:]), dict(t=t_want, e="end", hung=True, setup=True, fired=True)]
        traces[t_want] = ev
    if t_want not in traces:
        raise vlib.CheckError("re-run of a single case produced no trace for phase %s: %s" % (want_phase, err[-1500:]))
    viols, ends, st, trn = validate(traces, wd, tag, par=1)
    return [v for v in viols if v["t"] == t_want], ends.get(t_want), traces[t_want], st, trn


def execute(pid, plan, wd, verdict, tr):
    stats = dict(traces=0, events=0, drift={}, retries=0, samples=[], st=0, trn=0, observed={}, completed=0, refused=0, unaligned=0,
                 crashed_cases=0, skipped=0)
    all_traces = {}
    heavy = [i for i, tg in enumerate(plan.tags) if tg in ("dkg", "dkg-probe")]
    light = [i for i in range(len(plan.sessions)) if i not in heavy]
    jobs = [("a", dict(sessions=[plan.sessions[i] for i in light], classify=plan.classify, classify_t=plan.classify_t,
                       encodings=plan.encodings, fixture=FIXTURE if plan.have_fixture else "", workers=10))]
    if heavy:
        jobs.append(("dkg", dict(sessions=[plan.sessions[i] for i in heavy], classify=[], classify_t=0, workers=2)))
    dead_all = []
    ji = 0
    while ji < len(jobs):
        tag, job = jobs[ji]
        ji += 1
        traces, dead, skipped, err = run_driver(job, wd, tag, timeout=3000)
        log("adapters: driver job %s: %d sessions, %d traces" % (tag, len(job["sessions"]), len(traces)))
        all_traces.update(traces)
        dead_all += dead
        stats["skipped"] += len(skipped)
        if tag == "dkg" and getattr(plan, "ecdsa_second", None):
            shares, sign_list = plan.ecdsa_second
            if os.path.exists(shares):
                n0 = len(plan.sessions)
                for part in chunks(sign_list, max(1, (len(sign_list) + 7) // 8)):
                    plan.session("ecdsa", [1, 2, 3], 1, signs=part, shares_in=shares, tag="after-dkg")
                jobs.append(("b", dict(sessions=plan.sessions[n0:], classify=[], classify_t=0, workers=4)))
            else:
                log("adapters: the ECDSA key generation produced no shares; signing sessions skipped")
    log("adapters: %d real traces recorded (%d events), %d cases cut short by a dying driver" % (
        len(all_traces), sum(len(v) for v in all_traces.values()), len(dead_all)))
    viols, ends, st, trn = validate(all_traces, wd, "main")
    stats["st"] += st
    stats["trn"] += trn
    # cases during which the driver process died: re-run each alone to attribute the crash
    for t in dead_all:
        one = session_for(plan, t)
        if one is None:
            raise vlib.CheckError("the driver died while classifying hand-built envelopes")
        v2, e2, ev2, st2, trn2 = rerun_alone(one, wd, "dead%d" % t, plan.meta[t]["phase"])
        stats["st"] += st2
        stats["trn"] += trn2
        stats["crashed_cases"] += 1
        all_traces[t] = [dict(o, t=t) for o in ev2]
        if e2:
            ends[t] = dict(e2, t=t)
        viols += [dict(v, t=t) for v in v2]
    if dead_all and not any(v["mon"] == "NoPanic" and v["t"] in dead_all for v in viols):
        raise vlib.CheckError("the driver process died during %d case(s) but none of them crashes when re-run alone; the sessions that "
                              "had not started were lost" % len(dead_all))
    # outcome monitors are load-sensitive (a run that does not finish; the driver has already repeated it once): confirm by a
    # re-run alone; once two such failures have reproduced the others are accepted as they are
    confirmed = []
    reruns = {}          # class -> [reproduced?]
    for v in viols:
        if v["mon"] in OUTCOME_MONITORS and v["t"] not in dead_all:
            key = signature(v, plan.meta[v["t"]])
            hist = reruns.setdefault(key, [])
            total = [x for h in reruns.values() for x in h]
            if not (len(total) >= 2 and all(total)):
                one = session_for(plan, v["t"])
                v2, e2, ev2, st2, trn2 = rerun_alone(one, wd, "retry%d" % v["t"], plan.meta[v["t"]]["phase"])
                stats["st"] += st2
                stats["trn"] += trn2
                stats["retries"] += 1
                again = any(x["mon"] == v["mon"] for x in v2)
                hist.append(again)
                if not again:
                    log("adapters: %s of trace %d did not reproduce when re-run alone (load); dropped" % (v["mon"], v["t"]))
                    k = "an outcome monitor failed once and held when the case was re-run alone"
                    stats["drift"][k] = stats["drift"].get(k, 0) + 1
                    stats["unreproduced"] = stats.get("unreproduced", 0) + 1
                    continue
        confirmed.append(v)
    if stats["skipped"] and not any(v["mon"] in OUTCOME_MONITORS or v["mon"] == "NoPanic" for v in confirmed):
        raise vlib.CheckError("%d cases were skipped because runs did not finish, but no such failure reproduced when re-run alone "
                              "(overloaded machine?)" % stats["skipped"])
    # the log-based count monitor needs the hand-over log of undisturbed runs to line up with the OnMsg calls
    base_unaligned = [t for t, e in ends.items() if not (plan.meta[t].get("probe")) and plan.meta[t]["phase"] != "table"
                      and e.get("completed") and not e.get("aligned")]
    stats["unaligned"] = len(base_unaligned)
    no_handovers = [t for t, e in ends.items() if plan.meta[t]["phase"] != "table" and e.get("completed") and e.get("nh", 0) == 0]
    # NonMemberRejected reads the library's rejection from the injected Logger: it is evaluated only if this tree reports such
    # rejections at all (some hand-over attributed to a non-participant was followed by one)
    calibrated = any(e.get("cal") for e in ends.values())
    for v in confirmed:
        m = plan.meta[v["t"]]
        if v["mon"] == "NonMemberRejected" and not calibrated:
            k = "library rejections not observable through the injected Logger (NonMemberRejected disabled)"
            stats["drift"][k] = stats["drift"].get(k, 0) + 1
            continue
        if v["mon"] == "EmbeddedMismatchDropped" and base_unaligned:
            stats["drift"]["hand-over log not aligned with OnMsg calls (count monitor disabled)"] = \
                stats["drift"].get("hand-over log not aligned with OnMsg calls (count monitor disabled)", 0) + 1
            continue
        sig = signature(v, m)
        desc = "monitor %s is false on events of the real %s adapter (trace %d: %s n=%d t=%d ids=%s%s%s)" % (
            v["mon"], m.get("ad"), v["t"], m.get("phase"), len(m.get("ids", [])), m.get("thr", 0), m.get("ids"),
            ", probe %s" % json.dumps(m["probe"], sort_keys=True) if m.get("probe") else "",
            ", digest %s (%s)" % (m.get("digest"), m.get("label")) if m.get("phase") == "sign" else "")
        verdict.violation(sig, desc, dict(property=pid, monitor=v["mon"], cls=v.get("cls"), signature=sig, meta=m,
                                          session=session_for(plan, v["t"]),
                                          classify=plan.classify if m["phase"] == "table" else None,
                                          encodings=plan.encodings if m["phase"] == "table" else None,
                                          real_trace=[slim(o) for o in all_traces.get(v["t"], [])][:600]))
    if no_handovers:
        stats["drift"]["attribution not observable through the injected Logger"] = len(no_handovers)
    for t, e in ends.items():
        if e.get("drift"):
            k = e["drift"]
            stats["drift"][k] = stats["drift"].get(k, 0) + 1
        if e.get("completed"):
            stats["completed"] += 1
        if e.get("refuses"):
            stats["refused"] += 1
        m = plan.meta[t]
        for o in e.get("obs", []):
            src = "handbuilt" if m["phase"] == "table" else "real"
            stats["observed"].setdefault(o["url"], set()).add(src)
    recovered = [t for t in _retried if ends.get(t, {}).get("completed")]
    if recovered:
        stats["drift"]["a run did not finish at its first attempt and completed when the driver repeated it"] = len(recovered)
    by_n, retried_by_n = {}, {}
    for t in all_traces:
        m = plan.meta[t]
        if m["phase"] in ("keygen", "sign") and not m.get("timeout_ms"):
            k = "%s n=%d" % (m["ad"], len(m["ids"]))
            by_n[k] = by_n.get(k, 0) + 1
    for t in _retried:
        m = plan.meta.get(t)
        if m:
            k = "%s n=%d" % (m["ad"], len(m["ids"]))
            retried_by_n[k] = retried_by_n.get(k, 0) + 1
    idsets = {}
    for t in all_traces:
        m = plan.meta[t]
        if m["phase"] in ("keygen", "sign"):
            k = "%s %s t=%d" % (m["ad"], m["ids"], m["thr"])
            e = idsets.setdefault(k, dict(runs=0, completed=0))
            e["runs"] += 1
            e["completed"] += 1 if ends.get(t, {}).get("completed") else 0
    stats["id_sets"] = idsets
    # first attempts in which some party had finished while others starved (the signature of lost messages) vs. nobody finished
    some_finished = [t for t in _retried if _retried_info.get(t, {}).get("finished")]
    stats["retry_statistics"] = dict(runs=by_n, first_attempt_unfinished=retried_by_n,
                                     of_which_completed_when_repeated=len(recovered),
                                     first_attempts_where_a_party_had_finished=len(some_finished),
                                     first_attempts_where_nobody_had_finished=len(_retried) - len(some_finished),
                                     details=[dict(_retried_info.get(t, {}), trace=t, ids=(plan.meta.get(t) or {}).get("ids")) for t in _retried][:12])
    log("adapters: runs by adapter/size %s; first attempt unfinished %s" % (by_n, retried_by_n or "never"))
    stats["traces"] = len(all_traces)
    stats["events"] = sum(len(v) for v in all_traces.values())
    stats["selftest"], st3, trn3 = selftest(all_traces, plan, wd)
    stats["st"] += st3
    stats["trn"] += trn3
    # samples: a signing trace with a leading-zero digest if present, and a probe trace
    pick = ([t for t in sorted(all_traces) if plan.meta[t].get("label") == "32-lead0"][:1] +
            [t for t in sorted(all_traces) if (plan.meta[t].get("probe") or {}).get("kind") == "wrapped"][:1]) or sorted(all_traces)[:1]
    for t in pick:
        ev = all_traces[t]
        ex = [o for o in ev if o["e"] in ("emit", "cls")][:4] + [o for o in ev if o["e"] == "on" and o.get("prb")][:1] + \
             [o for o in ev if o["e"] in ("sig", "pk")][:1] + [o for o in ev if o["e"] in ("ret", "end")][-2:]
        ex = [{k: (v if k != "oth" else [dict(d=bytes(x["d"]).hex(), v=x["v"]) for x in v]) for k, v in slim(o).items()} for o in ex]
        stats["samples"].append(dict(trace=t, meta=plan.meta[t], events=len(ev), excerpt=ex))
    return stats


def selftest(all_traces, plan, wd):
    """anti-vacuity: corrupt one field / drop one event of accepted real traces; TLC must report the corresponding monitor"""
    import copy
    cases = []           # (expected monitor, events)

    def find(pred):
        for t in sorted(all_traces):
            if pred(plan.meta[t], all_traces[t]):
                return copy.deepcopy(all_traces[t])
        return None

    def first(ev, pred):
        for i, o in enumerate(ev):
            if pred(o):
                return i
        return None

    base_kg = find(lambda m, ev: m["phase"] == "keygen" and not m.get("probe") and len(m["ids"]) == 3)
    base_sg = find(lambda m, ev: m["phase"] == "sign" and not m.get("probe") and m.get("label") == "32" and any(o["e"] == "sig" for o in ev))
    wrapped = find(lambda m, ev: (m.get("probe") or {}).get("kind") == "wrapped" and (m["probe"]["a"] != m["probe"]["b"]) and ev[-1].get("fired"))
    table = find(lambda m, ev: m["phase"] == "table")
    if not (base_kg and base_sg and wrapped and table):
        # only possible when the real runs failed (violations are reported for them); nothing to corrupt
        return {"skipped": "no complete baseline key generation / signing / wrapped probe / table trace recorded"}, 0, 0
    ev = copy.deepcopy(base_kg)
    i = first(ev, lambda o: o["e"] == "cls")
    ev[i]["bc"] = not ev[i]["bc"]
    cases.append(("ClassifiedAsRouted", ev))
    ev = copy.deepcopy(base_kg)
    rounds = {o["url"]: o["r"] for o in ev if o["e"] == "cls" and o["bc"]}
    u1, u2 = sorted(rounds)[:2]
    for o in ev:
        if o["e"] == "cls" and o["url"] == u2:
            o["r"] = rounds[u1]
    cases.append(("DistinctRounds", ev))
    ev = copy.deepcopy(base_kg)
    i = first(ev, lambda o: o["e"] == "cls")
    j = first(ev[i + 1:], lambda o: o["e"] == "cls" and o["url"] == ev[i]["url"])
    ev[i + 1 + j]["r"] += 7
    cases.append(("ClassifiedAlike", ev))
    ev = copy.deepcopy(base_kg)
    i = first(ev, lambda o: o["e"] == "handed")
    ev[i]["from"] = 77
    cases.append(("SenderAttribution", ev))
    ev = copy.deepcopy(wrapped)
    pr = plan.meta[ev[0]["t"]]["probe"]
    i = first(ev, lambda o: o["e"] == "end")
    ev.insert(i, dict(t=ev[0]["t"], e="handed", p=pr["at"], **{"from": pr["b"]}))
    cases.append(("EmbeddedMismatchDropped", ev))
    ev = copy.deepcopy(wrapped)
    i = first(ev, lambda o: o["e"] == "ret")
    del ev[i]
    cases.append(("ProbeNoEffect", ev))
    ev = copy.deepcopy(base_kg)
    i = first(ev, lambda o: o["e"] == "ret")
    ev[i]["ok"] = False
    cases.append(("RunCompletes", ev))
    ev = copy.deepcopy(base_kg)
    i = first(ev, lambda o: o["e"] == "pk")
    ev[i]["pkh"] = "00" + ev[i]["pkh"][2:] if not ev[i]["pkh"].startswith("00") else "11" + ev[i]["pkh"][2:]
    cases.append(("KeyAgreement", ev))
    ev = copy.deepcopy(base_sg)
    i = first(ev, lambda o: o["e"] == "sig")
    ev[i]["vr"] = False
    cases.append(("SignedDigestIsRequested", ev))
    ev = copy.deepcopy(base_sg)
    i = first(ev, lambda o: o["e"] == "sig" and o["oth"])
    ev[i]["oth"][-1]["v"] = True
    cases.append(("SignedDigestIsRequested", ev))
    ev = copy.deepcopy(base_sg)
    i = first(ev, lambda o: o["e"] == "end")
    ev.insert(i, dict(t=ev[0]["t"], e="panic", p=1, where="OnMsg"))
    cases.append(("NoPanic", ev))
    standin = find(lambda m, ev: (m.get("probe") or {}).get("kind") == "standin" and ev[-1].get("fired")
                   and any(o["e"] == "warn" and o.get("path") == "proto" for o in ev))
    if standin:
        ev = [o for o in copy.deepcopy(standin) if not (o["e"] == "warn" and o.get("path") == "proto")]
        cases.append(("NonMemberRejected", ev))
    ev = copy.deepcopy(table)
    i = first(ev, lambda o: o["e"] == "tcls" and o["k"] == "table" and o["url"].startswith("ecdsa."))
    ev[i]["bc"] = not ev[i]["bc"]
    cases.append(("ClassifiedAsRouted", ev))
    traces = {}
    for k, (mon, ev) in enumerate(cases):
        traces[900000 + k] = [dict(o, t=900000 + k) for o in ev]
    viols, ends, st, trn = validate(traces, wd, "selftest", par=1)
    fired = {}
    for k, (mon, ev) in enumerate(cases):
        ok = any(v["t"] == 900000 + k and v["mon"] == mon for v in viols)
        fired["%02d %s" % (k, mon)] = ok
        if not ok:
            raise vlib.CheckError("self-test: corrupted trace %d did not make monitor %s false (reported: %s)" % (
                k, mon, sorted(set(v["mon"] for v in viols if v["t"] == 900000 + k))))
    return fired, st, trn


def finish(pid, tr, verdict, st, trn, configs, tabs, plan, stats):
    for k, v in sorted(stats["drift"].items()):
        print("DRIFT property=%s count=%d kind=%s" % (pid, v, k))
    table_urls = sorted(e["url"] for ad in tabs for e in tabs[ad])
    missing = [u for u in table_urls if "real" not in stats["observed"].get(u, ())]
    if tr == "thorough" and missing:
        print("DRIFT property=%s count=%d kind=spec table entries never observed in a real run: %s" % (pid, len(missing), ",".join(missing)))
    rc = verdict.finish()
    real = sorted(u for u, s in stats["observed"].items() if "real" in s)
    cov = dict(table_entries=len(table_urls), observed_in_real_runs=[u for u in table_urls if u in real],
               only_handbuilt=[u for u in table_urls if u not in real and u in stats["observed"]],
               never_observed=[u for u in table_urls if u not in stats["observed"]],
               observed_but_not_in_table=[u for u in real if u not in table_urls])
    vlib.write_evidence(pid, "model_checking", dict(
        states=max(st + stats["st"], 1), transitions=max(trn + stats["trn"], 1),
        traces_validated_against_impl=stats["traces"], samples=stats["samples"] or [dict(note="none")], exhaustive=False,
        configs=configs, real_events=stats["events"], runs_completed=stats["completed"], sign_runs_the_library_refuses=stats["refused"],
        sessions=len(plan.sessions), handbuilt_classifications=len(plan.classify), handcrafted_encodings=len(plan.encodings),
        encoding_catalogue=len(_ENCODINGS), table_coverage=cov,
        every_table_entry_observed_in_real_runs=not cov["only_handbuilt"] and not cov["never_observed"],
        ecdsa_stored_key_used=bool(plan.have_fixture) and tr == "quick",
        selftest_corrupted_traces_rejected=stats["selftest"], retry_statistics=stats["retry_statistics"],
        party_id_sets=stats["id_sets"],
        drift=stats["drift"], retries=stats["retries"], crashed_cases=stats["crashed_cases"], cases_skipped_after_failed_keygen=stats["skipped"],
        monitors=MONITORS, known_findings_seen=sorted(verdict.known_seen),
        rule="real adapter objects driven through NewParty/Init/OnMsg/KeyGen/Sign/SetShareData/ThresholdPK/ClassifyMsg with an in-process "
             "router; every emitted message classified by every receiver; probes: every (embedded/captured sender, transport sender) pair x "
             "receiver x type x flag; seeded digests (32 bytes, short, long, leading zeros, order boundary); every event log validated "
             "by TLC against spec/AdaptersTrace.tla",
    ), [
        "the library's routing flag is observed at the sendMsg callback (real runs) or taken from the spec table transcribed from the "
        "tss-lib message constructors (hand-built envelopes)",
        "what the adapter hands to the library is observed through the injected Logger (a refactoring that silences it degrades the "
        "attribution monitors to drift, the outcome monitors remain)",
        "EdDSA signatures are verified with crypto/ed25519, ECDSA signatures with crypto/ecdsa.VerifyASN1 (standard verifiers)",
        "quick tier: ECDSA key generation is not run (safe primes); signing uses a stored P-256 key generated by this adapter",
        "outcome monitors use deadlines >= 40x the typical duration; an unfinished run is repeated once by the driver and confirmed by a re-run alone",
        "party identifier 0 is not exercised (tss-lib uses the identifier as the Shamir evaluation point)",
    ], violations=len(verdict.violations))
    return rc


# ------------------------------------------------------------------------------------------------------------------
# property C11 at the adapter level: fault catalogue on KeyGen / Sign of the real adapters (called by tools/eng_c11.py)
# ------------------------------------------------------------------------------------------------------------------

C11_MONITORS = ["CallReturnsAfterCtxEnd", "ErrorUnlessCompleted", "NoPanic", "ProbeServedAfterwards"]
C11_LOAD_SENSITIVE = ("CallReturnsAfterCtxEnd", "ProbeServedAfterwards")
C11_HON = dict(Parties=[1, 2], Byz=[], Outsiders=[], MaxSpoof=0, TrustEmbedded=False, NearestIndex=False, IgnoreCtx=False)
C11_INV = ["EveryEndedCallReturned", "ErrorUnlessCompletedM", "ErrorOnlyAfterCtxEnd", "FaultFreeCompletes"]


def c11_fault_cases(wd):
    """the case list comes from the spec: FaultCases(table of the phase, 1..n) for the model's message count"""
    name = "MC_ad_fcases"
    combos = [("eddsa", "keygen", n) for n in (2, 3, 4)] + [("eddsa", "sign", n) for n in (2, 3, 4)] + [("ecdsa", "keygen", 3), ("ecdsa", "sign", 3)]
    fields = ", ".join('%s_%s_%d |-> FaultCases(PhaseOf(%s, "%s"), 1..%d)' % (ad, ph, n, "EdDSATable" if ad == "eddsa" else "ECDSATable", ph, n)
                       for ad, ph, n in combos)
    with open(os.path.join(wd, name + ".tla"), "w") as f:
        f.write("""---- MODULE %s ----
EXTENDS Adapters, Json
c_Parties == {1}
c_Empty == {}
LNext == /\\ PrintT(<<"FC", ToJson([%s])>>)
         /\\ UNCHANGED vars
====
""" % (name, fields))
    with open(os.path.join(wd, name + ".cfg"), "w") as f:
        f.write("CONSTANTS Parties <- c_Parties Byz <- c_Empty Outsiders <- c_Empty Table <- c_Empty MaxSpoof = 0 TrustEmbedded = FALSE "
                "NearestIndex = FALSE IgnoreCtx = FALSE\nINIT Init\nNEXT LNext\n")
    r = vlib.run_tlc(name, name + ".cfg", ["Adapters.tla"], workdir=wd, workers=1, timeout=300, keep_prints=["FC"])
    fc = [o for (t, o) in r.prints if t == "FC"]
    if r.violation or not fc:
        raise vlib.CheckError("spec/Adapters.tla printed no fault cases:\n%s" % r.out[-1500:])
    return r, fc[0]


def c11_model(wd, tier):
    """exhaustive check of the fault extension of the protocol model (every fault case x every interleaving x contexts ending at any
    point) + the must-fail variant (a receive loop that ignores its context)"""
    jobs = []

    def add(name, consts, table, expect=None, timeout=900):
        jobs.append((name, consts, table, expect, timeout))

    add("f_ed_sg2", C11_HON, 'PhaseOf(EdDSATable, "sign")')
    add("f_ed_kg2", C11_HON, 'PhaseOf(EdDSATable, "keygen")')
    add("f_ec_kg2", C11_HON, 'PhaseOf(ECDSATable, "keygen")')
    add("f_mut_ctx", dict(C11_HON, IgnoreCtx=True), 'PhaseOf(EdDSATable, "sign")', expect=["EveryEndedCallReturned"])
    if tier == "thorough":
        add("f_ed_sg3", dict(C11_HON, Parties=[1, 2, 3]), 'PhaseOf(EdDSATable, "sign")', timeout=1800)
        add("f_ec_sg2", C11_HON, 'PhaseOf(ECDSATable, "sign")', timeout=1800)

    def do(job):
        name, consts, table, expect, timeout = job
        write_model(wd, name, consts, table, C11_INV, init="FInit", nxt="FNext")
        r = vlib.run_tlc(name, name + ".cfg", ["Adapters.tla"], workdir=wd, timeout=timeout, heap="6g", workers=4)
        log("adapters fault model %s: %r" % (name, r))
        if expect is None and r.violation:
            raise vlib.CheckError("Adapters fault model %s violates %s at design level:\n%s" % (name, r.violation, "".join(r.error_trace[-3:])))
        if expect is not None and r.violation not in expect:
            raise vlib.CheckError("anti-vacuity: the fault model %s should violate one of %s but TLC says %s" % (name, expect, r.violation))
        return r, dict(config=name, table=table, constants=consts, invariants=C11_INV, distinct_states=r.distinct, states_generated=r.generated,
                       depth=r.depth, wall_s=round(r.wall, 1), expected_violation=expect, result=r.violation or "holds")

    st = trn = 0
    ev = []
    with concurrent.futures.ThreadPoolExecutor(max_workers=3) as ex:
        for r, e in ex.map(do, jobs):
            st += r.distinct
            trn += r.generated
            ev.append(e)
    return st, trn, ev


def c11_cases(fc, tier, rng):
    """concrete driver cases: the spec's fault cases mapped onto real committees + what the model has no message for (a context that
    has expired at call time, unusable stored share data)"""
    big = tier == "thorough"
    cases = []
    digest = bytes(rng.randrange(1, 256) for _ in range(32)).hex()

    def base(ad, ids, thr, phase):
        ec = ad == "ecdsa"
        return dict(adapter=ad, ids=list(ids), thr=thr, phase=phase, fault="none", p=0, k=0, ws=0, wu="", wr=0, at_ms=0, variant="",
                    deadline_ms=(5000 if big else 4000) if ec else 600, bound_ms=2000, hard_ms=6000, shares_in=FIXTURE if ec else "",
                    digest=digest, probe=True)

    def from_spec(ad, ids, thr, phase, share_v, share_w, ncancel):
        recs = fc["%s_%s_%d" % (ad, phase, len(ids))]
        van = [r for r in recs if r["kind"] == "vanish"]
        wh = [r for r in recs if r["kind"] == "withhold"]
        can = [r for r in recs if r["kind"] == "cancel"]
        rng.shuffle(van)
        rng.shuffle(wh)
        kmax = max(r["k"] for r in van)
        # always keep the boundary points k = 0 and k = all for some peer
        keep_v = [r for r in van if r["k"] in (0, kmax)][:2] if share_v < 1 else []
        keep_v += [r for r in van if r not in keep_v][:max(0, int(round(len(van) * share_v)) - len(keep_v))]
        b = base(ad, ids, thr, phase)
        typical = 1500 if ad == "ecdsa" else 150
        out = [dict(b)]
        for r in keep_v:
            out.append(dict(b, fault="vanish", p=ids[r["p"] - 1], k=r["k"]))
        for r in wh[:max(1, int(round(len(wh) * share_w)))]:
            out.append(dict(b, fault="withhold", ws=ids[r["s"] - 1], wu=r["u"], wr=ids[r["r"] - 1]))
        for r in can:
            for i in range(ncancel):
                at = [0, rng.randrange(1, 10), rng.randrange(10, typical), rng.randrange(typical, 2 * typical)][i % 4]
                out.append(dict(b, fault="cancel", p=ids[r["p"] - 1], at_ms=at))
        return out

    def extras(ad, ids, thr, phase, variants, nparty):
        b = base(ad, ids, thr, phase)
        out = [dict(b, fault="expired", p=0)]
        for p in rng.sample(ids, nparty):
            out.append(dict(b, fault="expired", p=p))
        if phase == "sign":
            for v in variants:
                for p in rng.sample(ids, nparty):
                    out.append(dict(b, fault="baddata", p=p, variant=v))
        return out

    ED_VARIANTS = ["empty", "truncated", "garbage", "emptyobj", "null", "other-party", "foreign", "nodata"]
    EC_VARIANTS = ["empty", "truncated", "garbage", "emptyobj", "null", "other-party", "foreign", "nodata"]
    if big:
        for ids, thr in (([1, 2, 3], 1), ([1, 2, 3, 4], 2), ([1, 2], 1), ([2, 256, 65535], 2)):
            full = len(ids) <= 4
            for ph in ("keygen", "sign"):
                cases += from_spec("eddsa", ids, thr, ph, 1.0 if full else 0.5, 1.0, 4 if ids == [1, 2, 3] else 1)
                cases += extras("eddsa", ids, thr, ph, ED_VARIANTS, len(ids) if ids == [1, 2, 3] else 1)
        cases += from_spec("ecdsa", [1, 2, 3], 1, "sign", 1.0, 1.0, 2)
        cases += extras("ecdsa", [1, 2, 3], 1, "sign", EC_VARIANTS, 1)
    else:
        for ph in ("keygen", "sign"):
            cases += from_spec("eddsa", [1, 2, 3], 1, ph, 1.0, 0.34, 1)
            cases += extras("eddsa", [1, 2, 3], 1, ph, ED_VARIANTS, 1)
            cases += from_spec("eddsa", [1, 2], 1, ph, 0.5, 0.5, 0)[1:]
            cases += from_spec("eddsa", [2, 256, 65535], 2, ph, 0.2, 0.1, 0)[1:]
        cases += from_spec("ecdsa", [1, 2, 3], 1, "sign", 0.13, 0.05, 0)
        cases += [c for c in extras("ecdsa", [1, 2, 3], 1, "sign", EC_VARIANTS, 1) if c["fault"] != "expired" or c["p"] == 0]
        cases.append(dict(base("ecdsa", [1, 2, 3], 1, "sign"), fault="cancel", p=rng.choice([1, 2, 3]), at_ms=rng.randrange(50, 1200)))
    # ECDSA key generation: the context ends before / while the safe primes are generated
    kb = base("ecdsa", [1, 2, 3], 1, "keygen")
    cases.append(dict(kb, fault="expired", p=0))
    cases.append(dict(kb, fault="shortdeadline", deadline_ms=300, variant="during-prime-generation"))
    if big:
        # no deadline: the adapter gives the prime generation its default five minutes; the contexts are cancelled while it runs
        cases.append(dict(kb, fault="cancel", p=0, at_ms=500, hard_ms=50000, variant="during-prime-generation"))
    return cases


def c11_signature(mon, c):
    tail = c["fault"] + ("/" + c["variant"] if c.get("variant") and (c["fault"] in ("baddata", "shortdeadline") or c["variant"] == "during-prime-generation") else "")
    return "adapters/%s/%s/%s/%s" % (mon, c["adapter"], c["phase"], tail)


def c11_describe(c):
    d = "%s %s ids=%s t=%d, " % (c["adapter"], c["phase"], c["ids"], c["thr"])
    if c["fault"] == "vanish":
        d += "peer %d silent after its message no. %d" % (c["p"], c["k"])
    elif c["fault"] == "withhold":
        d += "the message %s from %d to %d withheld" % (c["wu"], c["ws"], c["wr"])
    elif c["fault"] == "cancel":
        d += "context of %s cancelled after %d ms%s" % ("every party" if c["p"] == 0 else "party %d" % c["p"], c["at_ms"],
                                                            " (%s)" % c["variant"] if c.get("variant") else "")
    elif c["fault"] == "expired":
        d += "context of %s already expired at call time" % ("every party" if c["p"] == 0 else "party %d" % c["p"])
    elif c["fault"] == "baddata":
        d += "unusable stored share data (%s) at party %d" % (c["variant"], c["p"])
    elif c["fault"] == "shortdeadline":
        d += "deadline shorter than the call needs (%s)" % c["variant"]
    else:
        d += "no fault"
    return d + " (deadline %d ms)" % c["deadline_ms"]


def c11_run_cases(cases, wd, drv, tag, workers, chunk):
    """runs the cases in child processes; returns {index: [events]} with a complete reset line first"""
    jobfile = os.path.join(wd, "afjob_%s.json" % tag)
    with open(jobfile, "w") as f:
        json.dump(dict(cases=cases, workers=workers, chunk=chunk), f)
    outfile = os.path.join(wd, "af_%s.ndjson" % tag)
    rc, _, err = vlib.run_driver(drv, ["adfault"], stdin_path=jobfile, stdout_path=outfile, timeout=3000)
    if rc != 0:
        raise vlib.CheckError("adfault driver failed (rc=%d): %s" % (rc, err[-3000:]))
    traces = {}
    with open(outfile) as f:
        for line in f:
            try:
                o = json.loads(line)
            except ValueError:
                continue
            traces.setdefault(o["t"], []).append(o)
    for t, c in enumerate(cases):
        ev = traces.get(t)
        if not ev:
            raise vlib.CheckError("adfault produced nothing for case %d: %s" % (t, err[-1500:]))
        if "fk" not in ev[0]:
            # the child died before it could print the case: rebuild the header from the case
            ev[0] = dict(t=t, e="reset", fk=c["fault"], ad=c["adapter"], ph=c["phase"], ids=c["ids"], thr=c["thr"], fp=c["p"], k=c["k"], ws=c["ws"],
                         wu=c["wu"], wr=c["wr"], at=c["at_ms"], var=c["variant"], dl=c["deadline_ms"], bound=c["bound_ms"], probe=c["probe"])
    return traces


def c11_slim(o):
    return {k: v for k, v in o.items() if k not in ("txt", "what", "detail")}


def c11_validate(traces, wd, tag):
    slimmed = {t: [c11_slim(o) for o in ev] for t, ev in traces.items()}
    # validate() strips BULKY fields itself; keys and chunking as for the C19 traces
    return validate(slimmed, wd, tag, par=2, chunk_lines=20000)


def c11_part(wd, drv, tier, rng):
    """fault catalogue on the real adapters; returns dict(violations=[(signature, description, replay_obj)], drift, coverage, assumptions)"""
    os.makedirs(wd, exist_ok=True)
    r0, fc = c11_fault_cases(wd)
    cases = c11_cases(fc, tier, rng)
    log("adapters/C11: %d fault cases (%s)" % (len(cases), ", ".join("%s %d" % (k, sum(1 for c in cases if c["fault"] == k))
                                                                       for k in ("none", "vanish", "withhold", "cancel", "expired", "shortdeadline", "baddata"))))
    drift = {}
    with concurrent.futures.ThreadPoolExecutor(max_workers=1) as ex:
        model = ex.submit(c11_model, wd, tier)
        # cheap cases first would leave the expensive ECDSA ones for the end: interleave by shuffling (seeded)
        order = list(range(len(cases)))
        rng.shuffle(order)
        order.sort(key=lambda i: cases[i]["adapter"] != "ecdsa")          # the long ones first
        run_cases = [cases[i] for i in order]
        traces = c11_run_cases(run_cases, wd, drv, "main", workers=10, chunk=3)
        viols, ends, st, trn = c11_validate(traces, wd, "f_main")
        mst, mtrn, configs = model.result()
    # load-sensitive monitors are confirmed by running the case alone
    confirmed = []
    reruns = 0
    for v in viols:
        c = run_cases[v["t"]]
        if v["mon"] in C11_LOAD_SENSITIVE:
            again = True
            if reruns < 6:
                reruns += 1
                tr2 = c11_run_cases([c], wd, drv, "re%d" % v["t"], workers=1, chunk=1)
                v2, e2, st2, trn2 = c11_validate(tr2, wd, "f_re%d" % v["t"])
                st += st2
                trn += trn2
                again = any(x["mon"] == v["mon"] for x in v2)
            if not again:
                k = "a load-sensitive monitor (%s) failed once and held when the case was re-run alone" % v["mon"]
                drift[k] = drift.get(k, 0) + 1
                continue
        confirmed.append(v)
    violations = []
    for v in confirmed:
        c = run_cases[v["t"]]
        sig = c11_signature(v["mon"], c)
        ev = traces[v["t"]]
        detail = [o for o in ev if o["e"] in ("panic", "crash", "noret") or (o["e"] == "setdata" and o.get("panic"))][:2]
        for o in detail:
            if o["e"] == "setdata":
                o["what"] = "SetShareData panicked: " + o["panic"]
        hint = ""
        if detail:
            hint = "; " + str(detail[0].get("what") or detail[0].get("detail") or detail[0])[:300].replace("\n", " ")
        violations.append((sig, "monitor %s is false on the real %s adapter: %s%s" % (v["mon"], c["adapter"], c11_describe(c), hint),
                           dict(part="adapters", property="C11", monitor=v["mon"], signature=sig, case=c, real_trace=ev[:80])))
    for t, e in ends.items():
        if e.get("drift"):
            k = e["drift"]
            if k.startswith("the set-up"):
                why = next((o.get("why", "") for o in traces[t] if o["e"] == "setupfail"), "")
                k += ": %s [%s]" % (why[:120], c11_describe(run_cases[t]))
            drift[k] = drift.get(k, 0) + 1
    by = {}
    for c in cases:
        k = "%s %s %s" % (c["adapter"], c["phase"], c["fault"])
        by[k] = by.get(k, 0) + 1
    sample_t = next((t for t in sorted(traces) if run_cases[t]["fault"] == "vanish"), 0)
    coverage = dict(states=r0.distinct + st + mst, transitions=r0.generated + trn + mtrn, traces_validated_against_impl=len(traces),
                    adapter_fault_cases=by, configs=configs, monitors=C11_MONITORS, reruns_of_load_sensitive_cases=reruns,
                    calls_returned_without_error=sum(e.get("nok", 0) for e in ends.values()),
                    calls_returned=sum(e.get("nret", 0) for e in ends.values()),
                    children_that_died=sum(1 for e in ends.values() if e.get("crash")),
                    samples=[dict(case=run_cases[sample_t], events=[c11_slim(o) for o in traces[sample_t]][:12])],
                    rule="spec/Adapters.tla Part 4 enumerates Vanish(p, k) for k = 0 .. all, Withhold(s, type, r) and Cancel(p) for the model's "
                         "message count; each case runs on real adapter objects (KeyGen / Sign called directly, in-process router) in a child "
                         "process, followed by a fresh honest session; plus contexts already expired and unusable stored share data; TLC "
                         "evaluates the monitors on the recorded return times / values (spec/AdaptersTrace.tla)")
    assumptions = [
        "adapter level: a call must return at most 2 s after its context ended (observed: a few ms); the harness waits 6 s before it calls a call blocked; "
        "timing verdicts are confirmed by a re-run alone",
        "'k-th outgoing message' counts sendMsg calls (a point-to-point message to each receiver counts separately, a broadcast once)",
        "a result returned without error counts as completed only if it is real: key generation -> the share data load and all such parties "
        "report one public key; signing -> the signature verifies for the digest under the stored key",
        "ECDSA signing uses the stored P-256 key (n=3, t=1); ECDSA key generation is exercised only with contexts that end before / while the "
        "safe primes are generated",
    ]
    return dict(violations=violations, drift=drift, coverage=coverage, assumptions=assumptions)


def c11_replay(path):
    """re-runs the case of a replay object written for a violation of c11_part; same result structure"""
    with open(path) as f:
        o = json.load(f)
    wd = vlib.scratch("C11ad_r")
    drv = vlib.build_harness()
    c = o["case"]
    traces = c11_run_cases([c], wd, drv, "replay", workers=1, chunk=1)
    viols, ends, st, trn = c11_validate(traces, wd, "f_replay")
    violations = [(c11_signature(v["mon"], c), "monitor %s is false when the recorded case is re-run: %s" % (v["mon"], c11_describe(c)),
                   dict(o, real_trace=traces[0][:80])) for v in viols]
    for t, e in ends.items():
        log("replayed: %r" % e)
    return dict(violations=violations, drift={}, coverage=dict(states=st, transitions=trn, traces_validated_against_impl=1), assumptions=[])


def run(pid):
    tr = vlib.tier()
    wd = vlib.scratch(pid)
    rng = random.Random(vlib.seed())
    verdict = vlib.Verdict(pid)
    r, tabs = tlc_laws(wd)
    log("adapters laws: %r" % r)
    plan = plan_for(tr, rng, tabs, wd)
    log("adapters: %d sessions, %d traces planned, %d hand-built classifications" % (len(plan.sessions), plan.next_t - 1, len(plan.classify)))
    with concurrent.futures.ThreadPoolExecutor(max_workers=1) as ex:
        model = ex.submit(tlc_model, wd, tr)         # design-level checks run while the real code is exercised
        stats = execute(pid, plan, wd, verdict, tr)
        st, trn, configs = model.result()
    st += r.distinct
    trn += r.generated
    log("adapters: %d traces validated, %d runs completed, drift kinds %d, retries %d" % (
        stats["traces"], stats["completed"], len(stats["drift"]), stats["retries"]))
    return finish(pid, tr, verdict, st, trn, configs, tabs, plan, stats)


def replay(pid, path):
    with open(path) as f:
        o = json.load(f)
    wd = vlib.scratch(pid + "r")
    verdict = vlib.Verdict(pid)
    m = o["meta"]
    if m["phase"] == "table":
        job = dict(sessions=[], classify=o["classify"], classify_t=1, workers=1, encodings=o.get("encodings") or [],
                   fixture=FIXTURE if os.path.exists(FIXTURE) else "")
        traces, dead, _, err = run_driver(job, wd, "replay", timeout=600)
        viols, ends, _, _ = validate(traces, wd, "replay", par=1)
    else:
        viols, e, ev, _, _ = rerun_alone(o["session"], wd, "replay", m["phase"])
        log("replayed: %d events, end record %r" % (len(ev), e))
    for v in viols:
        sig = signature(v, m)
        verdict.violation(sig, "monitor %s is false when the recorded case is re-run on the real adapter" % v["mon"], o)
    if not viols:
        print("replay: all monitors hold on the re-run")
    return verdict.finish()


if __name__ == "__main__":
    vlib.main_wrapper(lambda: run(sys.argv[1]))
