#!/usr/bin/env python3
"""Rebuild seeded/RESULTS.md from the "lead" records that tools/seeded_run.py leaves in every seeded/<id>/meta.json."""
import glob
import json
import os
import subprocess

VERIF = os.path.dirname(os.path.dirname(os.path.abspath(__file__)))
head = subprocess.run("git -C /repo log --format=%h -1", shell=True, capture_output=True, text=True).stdout.strip()
rows = []
for d in sorted(glob.glob(os.path.join(VERIF, "seeded", "c*"))):
    mp = os.path.join(d, "meta.json")
    if not os.path.isfile(mp):
        continue
    m = json.load(open(mp))
    l = m.get("lead", {})
    det = "yes" if l.get("detected") else ("patch does not apply" if l.get("applied") is False else "NO (rc=%s)" % l.get("exit_code"))
    rows.append("| %s | %s | %s | %s | %s | %s | %s | %s |" % (
        os.path.basename(d), m.get("property"), l.get("check", "").replace("bin/check ", "").replace(" --tier quick", ""), det, l.get("violations", ""),
        ", ".join(l.get("signatures", [])[:3]).replace("|", "/"), l.get("repo_head", ""), m.get("summary", "")[:110].replace("|", "/").replace("\n", " ")))
with open(os.path.join(VERIF, "seeded", "RESULTS.md"), "w") as f:
    f.write("# Seeded mutations vs. quick checks (isolated copies; repo HEAD now %s)\n\n"
            "| seed | property | detecting check | detected | violations | signatures | repo HEAD of the run | what the change does |\n|---|---|---|---|---|---|---|---|\n" % head)
    f.write("\n".join(rows) + "\n")
print(len(rows), "seeds;", sum(1 for r in rows if "| yes |" in r), "detected")
