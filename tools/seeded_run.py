#!/usr/bin/env python3
"""Run the quick check of each seeded mutation's property against an ISOLATED mutated copy of the repository and record whether
it is detected.  usage: tools/seeded_run.py [seed-id ...]      (default: all of /verif/seeded/*)

Isolation: a scratch git worktree of /repo's HEAD under /tmp/verif-mut/repo with the patch applied, a copy of the harness whose
go.mod replace directives point at that worktree, evidence / replays redirected to /tmp/verif-mut.  /repo itself is never touched.
Results are written to seeded/<id>/meta.json (key "lead") and seeded/RESULTS.md."""
import glob
import json
import os
import shutil
import subprocess
import sys
import time

VERIF = os.path.dirname(os.path.dirname(os.path.abspath(__file__)))
MUT = "/tmp/verif-mut.%d" % os.getpid()


def sh(cmd, **kw):
    return subprocess.run(cmd, shell=True, capture_output=True, text=True, **kw)


def prepare():
    shutil.rmtree(MUT, ignore_errors=True)
    os.makedirs(MUT)
    sh("git -C /repo worktree prune")
    r = sh("git -C /repo worktree add --detach %s/repo HEAD" % MUT)
    if r.returncode != 0:
        sys.exit("cannot create worktree: " + r.stderr)
    shutil.copytree(os.path.join(VERIF, "harness"), MUT + "/harness")
    # a driver file may be in the middle of an edit: fall back to the committed harness when the working copy does not build
    r = sh("cd %s/harness && GOFLAGS=-mod=mod GOPROXY=off GOSUMDB=off GOTOOLCHAIN=local go build -tags verif -o /dev/null ./cmd/drv" % MUT)
    if r.returncode != 0:
        print("working-tree harness does not compile: using the committed one", flush=True)
        shutil.rmtree(MUT + "/harness")
        sh("git -C %s archive HEAD harness | tar -x -C %s" % (VERIF, MUT))
    gm = open(MUT + "/harness/go.mod").read().replace("=> /repo", "=> %s/repo" % MUT)
    open(MUT + "/harness/go.mod", "w").write(gm)
    shutil.copytree(os.path.join(VERIF, "harness_ps"), MUT + "/harness_ps")
    gm = open(MUT + "/harness_ps/go.mod").read().replace("=> /repo", "=> %s/repo" % MUT)
    open(MUT + "/harness_ps/go.mod", "w").write(gm)


def cleanup():
    sh("git -C /repo worktree remove --force %s/repo" % MUT)
    shutil.rmtree(MUT, ignore_errors=True)
    sh("git -C /repo worktree prune")


def main():
    ids = sys.argv[1:] or sorted(os.path.basename(d) for d in glob.glob(os.path.join(VERIF, "seeded", "*")) if os.path.isfile(os.path.join(d, "meta.json")))
    head = sh("git -C /repo log --format=%h -1").stdout.strip()
    prepare()
    rows = []
    try:
        for sid in ids:
            d = os.path.join(VERIF, "seeded", sid)
            meta = json.load(open(os.path.join(d, "meta.json")))
            pid = meta["property"]
            sh("git -C %s/repo reset --hard -q && git -C %s/repo clean -fdq" % (MUT, MUT))
            r = sh("git -C %s/repo apply %s/patch.diff" % (MUT, d))
            if r.returncode != 0:
                r = sh("git -C %s/repo apply -3 %s/patch.diff" % (MUT, d))
                if r.returncode != 0 or sh("git -C %s/repo diff --name-only --diff-filter=U" % MUT).stdout.strip():
                    # a failed three-way merge leaves conflict markers behind: never build that
                    sh("git -C %s/repo reset --hard -q && git -C %s/repo clean -fdq" % (MUT, MUT))
                    r.returncode = 1
            applied = r.returncode == 0
            out, rc, wall = "", None, 0
            if applied:
                env = dict(os.environ, VERIF_HARNESS=MUT + "/harness", VERIF_EVIDENCE=MUT + "/evidence", VERIF_REPLAYS=MUT + "/replays", VERIF_TIER="quick")
                t0 = time.time()
                p = subprocess.run([os.path.join(VERIF, "bin", "check"), pid, "--tier", "quick"], capture_output=True, text=True, env=env, timeout=3000)
                rc = p.returncode
                out = p.stdout
                # a mutation may belong to a neighbouring property's check as well (meta.json "also_checks")
                for other in meta.get("also_checks", []):
                    if rc == 1:
                        break
                    p = subprocess.run([os.path.join(VERIF, "bin", "check"), other, "--tier", "quick"], capture_output=True, text=True, env=env, timeout=3000)
                    if p.returncode == 1:
                        rc, out, pid = 1, p.stdout, other
                wall = time.time() - t0
            viol = [l for l in out.splitlines() if l.startswith("VIOLATION")]
            sigs = sorted(set(l.strip().split(":")[0].replace("signature=", "") for l in out.splitlines() if l.strip().startswith("signature=")))
            drift = [l for l in out.splitlines() if l.startswith("DRIFT")]
            meta["lead"] = dict(repo_head=head, applied=applied, check="bin/check %s --tier quick" % pid, exit_code=rc, detected=bool(rc == 1 and viol),
                                violations=len(viol), signatures=sigs[:6], drift=[x[:160] for x in drift[:4]], wall_s=round(wall, 1),
                                confirmed="patch applies, builds, existing tests of the touched module pass, demo fails with the patch and passes without it "
                                          "(tools/confirm_seed.sh in a scratch worktree)",
                                when=time.strftime("%Y-%m-%d %H:%M"))
            json.dump(meta, open(os.path.join(d, "meta.json"), "w"), indent=1)
            rows.append((sid, pid, applied, rc, len(viol), ", ".join(sigs[:3]), meta.get("summary", "")[:110]))
            print(sid, pid, "applied" if applied else "DOES NOT APPLY", "rc=%s" % rc, "violations=%d" % len(viol), flush=True)
    finally:
        cleanup()
    path = os.path.join(VERIF, "seeded", "RESULTS.md")
    old = {}
    if os.path.exists(path):
        for line in open(path):
            if line.startswith("| c"):
                old[line.split("|")[1].strip()] = line
    for sid, pid, applied, rc, nv, sigs, summ in rows:
        old[sid] = "| %s | %s | %s | %s | %s | %s |\n" % (sid, pid, "yes" if rc == 1 and nv else ("patch does not apply" if not applied else "NO (rc=%s)" % rc), nv, sigs, summ.replace("|", "/"))
    with open(path, "w") as f:
        f.write("# Seeded mutations vs. quick checks (repo HEAD %s)\n\n| seed | property | detected | violations | signatures | what the change does |\n|---|---|---|---|---|---|\n" % head)
        for k in sorted(old):
            f.write(old[k])


if __name__ == "__main__":
    main()
