"""RBC engine: properties C02 (agreement), C03 (integrity), C04 (totality).

 1. TLC checks RBC.tla exhaustively on bounded configurations (design level).
 2. Behaviours of the model (every edge of the small graphs via the history variable, seeded random walks of the
    large ones) are replayed through threshold.Scheme.HandleMessage of real Schemes inside a live session
    (harness/cmd/drv/rbc.go); honest parties' messages are the ones the real code produced (closed loop).
 3. The recorded real event logs are validated by TLC against RBCTrace.tla, which evaluates the property monitors on
    the observed hand-overs and reports drift between model and code.
"""
import json
import os
import random
import sys

sys.path.insert(0, os.path.dirname(os.path.abspath(__file__)))
import vlib
from vlib import log

MONITORS = {
    "C02": ["Agreement"],
    "C03": ["OnlyParticipants", "SentDirectly", "AtMostOnce", "ClassRespected", "NeverNil"],
    "C04": ["Totality", "TotalityQuiescent", "AtMostOnce"],
}

INVARIANTS = {
    "C02": ["Agreement"],
    "C03": ["OnlyParticipants", "SentDirectly", "AtMostOnce", "ClassRespected", "NeverNil"],
    "C04": ["Totality", "NeverHalted", "AtMostOnce", "NeverNil"],
}


def tla_set(items):
    return "{" + ", ".join(items) + "}"


def tla_val(v):
    if isinstance(v, bool):
        return "TRUE" if v else "FALSE"
    if isinstance(v, int):
        return str(v)
    if isinstance(v, str):
        return '"%s"' % v
    if isinstance(v, Rec):
        return "[" + ", ".join("%s |-> %s" % (k, tla_val(x)) for k, x in v.items()) + "]"
    if isinstance(v, tuple):
        return "<<" + ", ".join(tla_val(x) for x in v) + ">>"
    if isinstance(v, (list, set, frozenset)):
        return tla_set([tla_val(x) for x in v])
    raise ValueError(v)


DEFAULTS = dict(Byz=[], Outsiders=[], Rounds=[1], Contents=["a"], HonestB=[], HonestP=[], MaxInject=0, AdvSet=[], MaxCopies=0,
                Deliveries=True, DevSelfAck=False, DevReforward=False, mode="keygen")

CONSTS = ["N", "Byz", "Outsiders", "Rounds", "Contents", "HonestB", "HonestP", "MaxInject", "AdvSet", "MaxCopies", "Deliveries",
          "DevSelfAck", "DevReforward"]


class Rec(dict):
    """a TLA+ record"""


def PL(cls, r, x):
    return Rec(cls=cls, r=r, x=x)


def alphabet(N, byz, honest, contents, rounds=(1,), msgB=True, msgP=(), ack_about=None, ack_from=None, msg_from=None, mismatch=False):
    """The adversary's alphabet: messages from Byzantine participants / outsiders to honest parties."""
    res = []
    for b in (msg_from if msg_from is not None else byz):
        for p in honest:
            if msgB:
                for r in rounds:
                    for x in contents:
                        res.append(Rec(k="msg", **{"from": b}, to=p, pl=PL("B", r, x)))
            for x in msgP:
                res.append(Rec(k="msg", **{"from": b}, to=p, pl=PL("P", rounds[0], x)))
    for b in (ack_from if ack_from is not None else byz):
        for p in honest:
            for s_ in (ack_about if ack_about is not None else range(1, N + 1)):
                for r in rounds:
                    for x in contents:
                        res.append(Rec(k="ack", **{"from": b}, to=p, s=s_, r=r, d=PL("B", r, x)))
                        if mismatch:
                            for r2 in rounds:
                                if r2 != r:
                                    res.append(Rec(k="ack", **{"from": b}, to=p, s=s_, r=r2, d=PL("B", r, x)))
    return res


def full(cfg):
    c = dict(DEFAULTS)
    c.update(cfg)
    return c


def write_mc(wd, cfg, invariants, pathdump, trace=None, check_totality=False, view="view"):
    """Write MC_<name>.tla/.cfg for an exhaustive/simulation run, or the trace-validation variant when trace is given."""
    cfg = full(cfg)
    name = ("T_" if trace else "MC_") + cfg["name"]
    base = "RBCTrace" if trace else "RBC"
    lines = ["---- MODULE %s ----" % name, "EXTENDS %s%s" % (base, "" if trace else ", Json")]
    for k in CONSTS:
        lines.append("c_%s == %s" % (k, tla_val(cfg[k])))
    if trace:
        lines.append('c_TraceFile == "%s"' % trace)
    else:
        lines.append('PathDump == PrintT(<<"PATH", ToJson(hist\')>>)')
        lines.append('PathDumpT == Terminal\' => PrintT(<<"PATH", ToJson(hist\')>>)')
    lines.append("====")
    with open(os.path.join(wd, name + ".tla"), "w") as f:
        f.write("\n".join(lines) + "\n")
    c = ["CONSTANTS"]
    for k in CONSTS:
        c.append("  %s <- c_%s" % (k, k))
    if trace:
        c.append("  TraceFile <- c_TraceFile")
        c.append("  CheckTotality = %s" % tla_val(check_totality))
        c += ["INIT TInit", "NEXT TNext"]
    else:
        c += ["INIT Init", "NEXT Next", "VIEW " + view]
        if invariants:
            c.append("INVARIANTS " + " ".join(invariants))
        if pathdump:
            c.append("ACTION_CONSTRAINT " + ("PathDumpT" if pathdump == "terminal" else "PathDump"))
    with open(os.path.join(wd, name + ".cfg"), "w") as f:
        f.write("\n".join(c) + "\n")
    return name


def job_cfg(cfg):
    cfg = full(cfg)
    return dict(mode=cfg["mode"], n=cfg["N"], byz=cfg["Byz"], outsiders=cfg["Outsiders"], ids=cfg.get("ids", {}),
                rounds=cfg["Rounds"], contents=cfg["Contents"], echo=dict(name=cfg["name"]))


def explore(cfg, invariants, how, wd, sim_num=0, sim_depth=30, timeout=600, workers=None):
    """how: 'edges' (exhaustive + every edge's path), 'exhaustive' (invariants only), 'simulate' (random walks)."""
    name = write_mc(wd, cfg, invariants if how != "sets" else None, pathdump=(False if how == "exhaustive" else "terminal" if how == "simulate" else "all"), view="setview" if how == "sets" else "view")
    if how == "simulate":
        r = vlib.run_tlc(name, name + ".cfg", ["RBC.tla"], workdir=wd, workers=1, simulate="num=%d" % sim_num, depth=sim_depth,
                         tlc_seed=vlib.seed(), timeout=timeout, keep_prints=["PATH"])
    else:
        r = vlib.run_tlc(name, name + ".cfg", ["RBC.tla"], workdir=wd, workers=workers, timeout=timeout,
                         keep_prints=["PATH"] if how in ("edges", "sets") else None, heap="12g")
    paths = [p for (_, p) in r.prints]
    return r, paths


def replay_and_validate(pid, groups, wd, verdict, check_totality=False, workers=16, monitors=None):
    """groups: list of (cfg, paths, tag). Replays every path on the real code and validates the recorded traces with TLC.
    Returns dict with counts."""
    drv = vlib.build_harness()
    cfgs, paths, pathcfg, tags, pathids = [], [], [], [], []
    for gi, g in enumerate(groups):
        cfg, ps, tag = g[0], g[1], g[2]
        ids = g[3] if len(g) > 3 else None      # optional: one identifier map per path
        cfgs.append(job_cfg(cfg))
        for pi, p in enumerate(ps):
            paths.append(p)
            pathcfg.append(gi)
            tags.append(tag)
            pathids.append(ids[pi] if ids else None)
    job = dict(cfgs=cfgs, paths=paths, pathcfg=pathcfg, tags=tags, workers=workers, pathids=pathids)
    jobfile = os.path.join(wd, "job.json")
    with open(jobfile, "w") as f:
        json.dump(job, f)
    outfile = os.path.join(wd, "real.ndjson")
    rc, _, err = vlib.run_driver(drv, ["rbc"], stdin_path=jobfile, stdout_path=outfile, timeout=1200)
    if rc != 0:
        raise vlib.CheckError("rbc driver failed (rc=%d): %s" % (rc, err))
    # split by configuration (TLC constants are per run)
    per = {}
    traces = {}
    cur = None
    with open(outfile) as f:
        for line in f:
            o = json.loads(line)
            if o["e"] == "reset":
                cur = o["t"]
                traces[cur] = []
            traces[cur].append(line)
    for t, ls in traces.items():
        per.setdefault(pathcfg[t], []).append(t)
    stats = dict(replayed=len(traces), events=sum(len(v) for v in traces.values()), drift=0, drift_kinds={}, validated=0, samples=[])
    viols = []
    for gi, ts in sorted(per.items()):
        cfg = groups[gi][0]
        tf = os.path.join(wd, "trace_%d.ndjson" % gi)
        with open(tf, "w") as f:
            for t in ts:
                f.writelines(traces[t])
        name = write_mc(wd, cfg, None, False, trace=os.path.basename(tf), check_totality=check_totality)
        r = vlib.run_tlc(name, name + ".cfg", ["RBC.tla", "RBCTrace.tla"], workdir=wd, workers=1, timeout=900,
                         keep_prints=["VIOL", "END"], heap="8g")
        ends = [o for (tag, o) in r.prints if tag == "END"]
        if len(ends) != len(ts):
            raise vlib.CheckError("trace validation consumed %d of %d traces of config %s" % (len(ends), len(ts), cfg["name"]))
        stats["validated"] += len(ends)
        for o in ends:
            if o["drift"]:
                stats["drift"] += 1
                stats["drift_kinds"][o["drift"][:60]] = stats["drift_kinds"].get(o["drift"][:60], 0) + 1
        for (tag, o) in r.prints:
            if tag == "VIOL":
                viols.append((gi, o))
    mine = set(monitors or MONITORS[pid])
    for gi, o in viols:
        if o["mon"] not in mine:
            continue
        t = o["t"]
        events = [json.loads(x) for x in traces[t]]
        sig = "%s/%s" % (o["mon"], signature(events[:o["l"] - first_line(traces, per[gi], t) + 1]))
        verdict.violation(sig, "monitor %s is false on the real hand-over log of replayed behaviour %d (config %s)" % (
            o["mon"], t, groups[gi][0]["name"]) + (" ids=%s" % pathids[t] if pathids[t] else ""),
            dict(property=pid, monitor=o["mon"], config=full(groups[gi][0]), path=paths[t], ids=pathids[t], real_trace=events))
    if traces:
        k = sorted(traces)[len(traces) // 2]
        stats["samples"] = [dict(config=groups[pathcfg[k]][0]["name"], behaviour=paths[k], real_events=len(traces[k]))]
    if not viols and per:
        stats["selftest"] = selftest(wd, groups, per, traces, check_totality)
    return stats


def selftest(wd, groups, per, traces, check_totality):
    """corrupt one recorded field of accepted traces: a hand-over's payload, a hand-over's sender, a dropped acknowledgement"""
    gi = sorted(per)[0]
    cfg = groups[gi][0]
    tf = os.path.join(wd, "selftest.ndjson")
    with open(tf, "w") as f:
        for t in per[gi][:200]:
            f.writelines(traces[t])

    def first_fwd(evs):
        for e in evs:
            if e.get("fwd"):
                return e
        return None

    def c_payload(evs):
        e = first_fwd(evs)
        if not e:
            return False
        e["fwd"][0]["pl"]["x"] = "zz"
        return True

    def c_sender(evs):
        e = first_fwd(evs)
        if not e:
            return False
        e["fwd"][0]["s"] = 77
        return True

    def c_dropack(evs):
        for e in evs:
            if e.get("out") and any(o.get("k") == "ack" for o in e["out"]):
                e["out"] = [o for o in e["out"] if o.get("k") != "ack"]
                return True
        return False

    def c_double(evs):
        e = first_fwd(evs)
        if not e or not e["fwd"][0]["bc"]:
            return False
        e["fwd"].append(dict(e["fwd"][0]))
        return True

    def validate(path):
        name = write_mc(wd, dict(cfg, name=cfg["name"] + "_st"), None, False, trace=os.path.basename(path), check_totality=check_totality)
        r = vlib.run_tlc(name, name + ".cfg", ["RBC.tla", "RBCTrace.tla"], workdir=wd, workers=1, timeout=900, keep_prints=["VIOL", "END"], heap="8g")
        return sum(1 for t, _ in r.prints if t == "VIOL"), sum(1 for t, o in r.prints if t == "END" and o["drift"])

    return vlib.binding_selftest("rbc", tf, [("hand-over payload changed", c_payload), ("hand-over attributed to another sender", c_sender),
                                              ("acknowledgement removed from the record", c_dropack), ("hand-over duplicated", c_double)], validate)


def first_line(traces, ts, t):
    n = 1
    for x in ts:
        if x == t:
            return n
        n += len(traces[x])
    return n


def signature(events):
    """Abstract class of a violating history: the multiset of event shapes that lead to the violation, ids erased."""
    shapes = []
    for e in events:
        if e["e"] in ("inject", "deliver"):
            m = e["m"]
            if m["k"] == "ack":
                shapes.append("%s-ack%s" % (e["e"], "-self" if m["from"] == m["s"] else ""))
            else:
                shapes.append("%s-%s" % (e["e"], m["pl"]["cls"] if m["k"] == "msg" else m["k"]))
    return ",".join(sorted(set(shapes)))


# --------------------------------------------------------------------------------------------------------
# configurations
# --------------------------------------------------------------------------------------------------------

def configs(pid, tr):
    """returns list of (cfg, how, params); how is a '+'-separated list of
         edges      exhaustive BFS, every explored edge replayed (all interleavings, state-merged)
         sets       every set of <= MaxInject adversarial messages (MaxCopies > 0), replayed with the real network drained
                    after every step / at the end / in reversed order
         exhaustive exhaustive BFS, invariants only
         simulate   seeded random walks"""
    res = []
    if pid in ("C02", "C03"):
        a3 = alphabet(3, [1], [2, 3], ["a", "b"], msgP=["a"])
        res.append((dict(name="n3sets", N=3, Byz=[1], Contents=["a", "b"], AdvSet=a3, MaxInject=4, MaxCopies=1, Deliveries=False), "sets", {}))
        a3o = alphabet(3, [1], [2, 3], ["a", "b"], ack_from=[9], ack_about=[1]) + alphabet(3, [9], [2, 3], ["a"], ack_from=[])
        res.append((dict(name="n3out", N=3, Byz=[1], Outsiders=[9], Contents=["a", "b"], AdvSet=a3o, MaxInject=4, MaxCopies=1, Deliveries=False,
                         mode="sign"), "sets", {}))
        res.append((dict(name="n3outk", N=3, Byz=[1], Outsiders=[9], Contents=["a", "b"], AdvSet=a3o, MaxInject=4, MaxCopies=1, Deliveries=False),
                    "sets", {}))
        a3d = alphabet(3, [1], [2, 3], ["a", "b"], ack_about=[1, 2])
        res.append((dict(name="n3dup", N=3, Byz=[1], Contents=["a", "b"], HonestB=[(2, 1, "a")], AdvSet=a3d, MaxInject=3, MaxCopies=2,
                         Deliveries=False), "sets", {}))
        # a two-party session (one voucher suffices): acknowledgements about the receiver, the sender and a node outside the session
        a2 = alphabet(2, [1], [2], ["a", "b"], msgP=["a"], ack_about=[1, 2, 9])
        res.append((dict(name="n2ack", N=2, Byz=[1], Outsiders=[9], Contents=["a", "b"], AdvSet=a2, MaxInject=3, MaxCopies=2, Deliveries=False,
                         mode="sign"), "sets", {}))
        # three parties, two of them deviating: acknowledgements about an outsider from both
        a3b2 = alphabet(3, [1, 2], [3], ["a"], ack_about=[1, 2, 9], msg_from=[1])
        res.append((dict(name="n3b2out", N=3, Byz=[1, 2], Outsiders=[9], Contents=["a"], AdvSet=a3b2, MaxInject=3, MaxCopies=1, Deliveries=False),
                    "sets", {}))
        # two rounds of one Byzantine sender: payloads only (the honest parties acknowledge), every set of <= 5
        a3r = alphabet(3, [1], [2, 3], ["a", "b"], rounds=(1, 2), ack_from=[])
        res.append((dict(name="n3r2", N=3, Byz=[1], Contents=["a", "b"], Rounds=[1, 2], AdvSet=a3r, MaxInject=5, MaxCopies=1, Deliveries=False), "sets", {}))
        a3m = alphabet(3, [1], [2, 3], ["a", "b"], ack_from=[])
        res.append((dict(name="n3dup4", N=3, Byz=[1], Contents=["a", "b"], AdvSet=a3m, MaxInject=4, MaxCopies=2, Deliveries=False), "sets", {}))
        a3e = alphabet(3, [1], [2, 3], ["a", "b"])
        res.append((dict(name="n3edges", N=3, Byz=[1], Contents=["a", "b"], HonestB=[(2, 1, "a")], AdvSet=a3e, MaxInject=2), "edges", {}))
        a4 = alphabet(4, [1], [2, 3, 4], ["a", "b"])
        res.append((dict(name="n4b1", N=4, Byz=[1], Contents=["a", "b"], AdvSet=a4, MaxInject=3 if tr == "quick" else 5), "exhaustive+simulate",
                    dict(num=300, depth=25)))
        if tr == "thorough":
            a42 = alphabet(4, [1, 2], [3, 4], ["a", "b"], msg_from=[1])
            res.append((dict(name="n4b2", N=4, Byz=[1, 2], Contents=["a", "b"], HonestB=[(3, 1, "a")], AdvSet=a42, MaxInject=5),
                        "exhaustive+simulate", dict(num=2000, depth=30)))
            res.append((dict(name="n4b2sets", N=4, Byz=[1, 2], Contents=["a", "b"], AdvSet=a42, MaxInject=4, MaxCopies=1, Deliveries=False),
                        "sets", dict(cap=60000)))
            a42d = alphabet(4, [1, 2], [3, 4], ["a", "b"], msg_from=[1], ack_about=[1])
            res.append((dict(name="n4b2dup", N=4, Byz=[1, 2], Contents=["a", "b"], AdvSet=a42d, MaxInject=6, MaxCopies=2, Deliveries=False),
                        "sets", dict(cap=60000)))
            a3r = alphabet(3, [1], [2, 3], ["a", "b"], rounds=(1, 2), mismatch=True)
            res.append((dict(name="n3r2", N=3, Byz=[1], Rounds=[1, 2], Contents=["a", "b"], HonestB=[(2, 1, "a")], HonestP=[(2, 3, 1, "a")],
                             AdvSet=a3r, MaxInject=3), "exhaustive+simulate", dict(num=3000, depth=25)))
            a5 = alphabet(5, [1], [2, 3, 4, 5], ["a", "b"])
            res.append((dict(name="n5b1", N=5, Byz=[1], Contents=["a", "b"], HonestB=[(2, 1, "a")], AdvSet=a5, MaxInject=8),
                        "simulate", dict(num=3000, depth=40)))
    if pid == "C04":
        res.append((dict(name="h2", N=2, HonestB=[(1, 1, "a"), (2, 1, "a")], HonestP=[(1, 2, 1, "a")]), "edges", {}))
        res.append((dict(name="h3", N=3, HonestB=[(1, 1, "a"), (2, 1, "a")], HonestP=[(1, 2, 1, "a")]), "edges", {}))
        res.append((dict(name="h3s", N=3, Rounds=[1, 2], HonestB=[(1, 1, "a"), (1, 2, "a"), (2, 1, "a")], HonestP=[(3, 1, 2, "a")],
                         mode="sign"), "simulate", dict(num=200, depth=60)))
        # the same sessions with sparse / large node identifiers (values that collide modulo 64, 256; both bytes used)
        idsets = [[3, 67, 131], [256, 512, 1], [65535, 255, 511], [300, 44, 45]]
        rng = random.Random(vlib.seed())
        idsets.append(sorted(rng.sample(range(0, 65536), 3)))
        for k, ids in enumerate(idsets):
            res.append((dict(name="h3id%d" % k, N=3, Rounds=[1, 2], HonestB=[(1, 1, "a"), (2, 1, "a"), (3, 2, "a")], HonestP=[(3, 1, 2, "a")],
                             ids={"1": ids[0], "2": ids[1], "3": ids[2]}, mode="sign" if k % 2 else "keygen"), "simulate", dict(num=40, depth=60)))
        res.append((dict(name="h4", N=4, Rounds=[1, 2], HonestB=[(1, 1, "a"), (2, 1, "a"), (1, 2, "a")], HonestP=[(3, 1, 1, "a")]),
                    "simulate", dict(num=200, depth=80)))
        if tr == "thorough":
            res.append((dict(name="h4x", N=4, HonestB=[(1, 1, "a"), (2, 1, "a")], HonestP=[(3, 1, 1, "a")]), "exhaustive+simulate",
                        dict(num=2000, depth=80)))
            res.append((dict(name="h5", N=5, Rounds=[1, 2], HonestB=[(1, 1, "a"), (2, 1, "a"), (3, 1, "a"), (1, 2, "a")],
                             HonestP=[(4, 5, 1, "a")]), "simulate", dict(num=1500, depth=200)))
    return res


def one_per_set(paths):
    """one behaviour per distinct set of events (sets mode explores orders only as far as the VIEW distinguishes them)"""
    seen = {}
    for p in paths:
        k = tuple(sorted(json.dumps(e, sort_keys=True) for e in p))     # multiset of events
        if k not in seen:
            seen[k] = p
    return [seen[k] for k in sorted(seen)]


def set_variants(paths):
    """For 'sets' behaviours (injections and honest sends only): let the harness drain the real network after every step, only
    at the end, and after every step with the order reversed. Any order is a behaviour of the model (Inject is always enabled)."""
    res = []
    for p in paths:
        eager = []
        for e in p:
            eager += [e, {"e": "drain"}]
        res.append(eager)
        if len(p) > 1:
            res.append(list(p))
            sends = [e for e in p if e["e"] != "inject"]
            injs = [e for e in p if e["e"] == "inject"]
            rev = []
            for e in sends + injs[::-1]:
                rev += [e, {"e": "drain"}]
            res.append(rev)
            if len(injs) >= 3:
                # nothing is drained before everything has been injected, in two more orders: reversed, and "crossed" (successive
                # receivers get the injected messages in opposite orders: a sender that shows its payloads to two parties in opposite orders)
                res.append(sends + injs[::-1])
                by_to = {}
                for e in injs:
                    by_to.setdefault(json.dumps(e["m"].get("to"), sort_keys=True), []).append(e)
                crossed = []
                for i, k in enumerate(sorted(by_to)):
                    grp = sorted(by_to[k], key=lambda e: json.dumps(e["m"], sort_keys=True))
                    crossed += grp if i % 2 == 0 else grp[::-1]
                res.append(sends + crossed)
                # drained after every step, one content after the other (a sender that finishes one payload, moves on to later rounds and
                # then comes back with another payload for an earlier round), and one round after the other
                def pl(e):
                    m = e["m"]
                    return m.get("pl") or m.get("d") or {}
                for key in (lambda e: (str(pl(e).get("x")), pl(e).get("r", 0), json.dumps(e["m"], sort_keys=True)),
                            lambda e: (pl(e).get("r", 0), str(pl(e).get("x")), json.dumps(e["m"], sort_keys=True))):
                    v = []
                    for e in sends + sorted(injs, key=key):
                        v += [e, {"e": "drain"}]
                    res.append(v)
    return res


def run(pid):
    tr = vlib.tier()
    wd = vlib.scratch(pid)
    verdict = vlib.Verdict(pid)
    states = transitions = 0
    groups = []
    cfg_evidence = []
    exhaustive_all = True
    for cfg, how, prm in configs(pid, tr):
        inv = INVARIANTS[pid]
        paths = []
        for h in how.split("+"):
            r, ps = explore(cfg, inv, h, wd, sim_num=prm.get("num", 0), sim_depth=prm.get("depth", 30), timeout=1500)
            if h == "sets":
                ps = set_variants(one_per_set(ps))
            elif h == "simulate":
                ps = vlib.maximal_paths(ps)
            if r.violation:
                # a counterexample of the model alone is never a verdict: replay it below (the path that violates is among the paths
                # when how == edges); report as machinery error otherwise
                raise vlib.CheckError("model %s violates %s at design level; the specification no longer represents the code "
                                      "(or a deviation constant is on):\n%s" % (cfg["name"], r.violation, "".join(r.error_trace[-2:])))
            if h not in ("simulate", "sets"):
                states += r.distinct
                transitions += r.generated
            cfg_evidence.append(dict(config=cfg["name"], how=h, constants={k: (v if k != "AdvSet" else "%d adversarial messages" % len(v)) for k, v in full(cfg).items() if k != "name"},
                                     distinct_states=r.distinct, states_generated=r.generated, depth=r.depth, wall_s=round(r.wall, 1)))
            log("%s %s: %r paths=%d" % (cfg["name"], h, r, len(ps)))
            paths += ps
            if h == "simulate":
                exhaustive_all = False
        paths = vlib.maximal_paths(paths)
        if len(paths) > prm.get("cap", 40000):
            random.Random(vlib.seed()).shuffle(paths)
            paths = paths[:prm.get("cap", 40000)]
            exhaustive_all = False
        groups.append((cfg, paths, how))
    stats = replay_and_validate(pid, groups, wd, verdict, check_totality=(pid == "C04"))
    log("replayed %d behaviours (%d events), drift in %d" % (stats["replayed"], stats["events"], stats["drift"]))
    if pid == "C02":
        atomicity = atomic_part(wd, verdict, tr)
        cfg_evidence.append(atomicity)
    for k, v in stats["drift_kinds"].items():
        print("DRIFT property=%s count=%d kind=%s" % (pid, v, k))
    rc = verdict.finish()
    vlib.write_evidence(pid, "model_checking", dict(
        states=max(states, 1), transitions=max(transitions, 1),
        traces_validated_against_impl=stats["validated"],
        samples=stats["samples"] or [dict(note="no behaviour replayed")],
        exhaustive=False,
        configs=cfg_evidence,
        real_events=stats["events"],
        drift_traces=stats["drift"], drift_kinds=stats["drift_kinds"], binding_selftest=stats.get("selftest"),
        monitors=MONITORS[pid] + (["OneMessageAtATime"] if pid == "C02" else []),
        known_findings_seen=sorted(verdict.known_seen),
        rule="behaviours = maximal paths of the history variable over every explored edge of the bounded model (edges configs) and "
             "seeded random walks (simulate configs); each is replayed through threshold.Scheme.HandleMessage on real Schemes in a live "
             "session; distinct = distinct maximal paths",
    ), [
        "hash (SHA-256) is injective on the payload alphabet",
        "the transport authenticates the source id handed to HandleMessage (C16)",
        "bounded model: constants listed per config; the network is a bag (superset of per-link FIFO)",
        "scripted back end and stub synchroniser stand in for the MPC protocol and membership sync (covered by C01/C05/C07)",
    ], violations=len(verdict.violations))
    return rc




def atomic_part(wd, verdict, tr, only=None):
    """spec/RBCAtomic.tla: the lemma 'Receive must be atomic per instance' (holds with Atomic = TRUE, refuted with FALSE) and the
    probe that binds the assumption to the code (harness/cmd/drv/rbcser.go)."""
    for atomic, want in (("TRUE", None), ("FALSE", "ConflictDetected")):
        name = "A_%s" % atomic
        with open(os.path.join(wd, name + ".cfg"), "w") as f:
            f.write('CONSTANTS Atomic = %s TraceFile = ""\nINIT Init\nNEXT Next\nINVARIANT ConflictDetected\n' % atomic)
        r = vlib.run_tlc("RBCAtomic", name + ".cfg", ["RBCAtomic.tla"], workdir=wd, workers=1, timeout=300)
        if r.violation != want:
            raise vlib.CheckError("RBCAtomic with Atomic = %s: expected %r, TLC reports %r" % (atomic, want, r.violation))
    cases = only or [dict(mode=m, second=x) for m in ("keygen", "sign") for x in ("conflict", "same", "ack", "p2p", "other-round")] * (1 if tr == "quick" else 5)
    drv = vlib.build_harness()
    out = os.path.join(wd, "serial.ndjson")
    rc, _, err = vlib.run_driver(drv, ["rbcser"], stdin_obj=dict(cases=cases), stdout_path=out, timeout=600)
    if rc != 0:
        raise vlib.CheckError("rbcser driver failed (rc=%d): %s" % (rc, err))
    with open(os.path.join(wd, "A_trace.cfg"), "w") as f:
        f.write('CONSTANTS Atomic = TRUE TraceFile = "serial.ndjson"\nINIT TInit\nNEXT TNext\n')
    r = vlib.run_tlc("RBCAtomic", "A_trace.cfg", ["RBCAtomic.tla"], workdir=wd, workers=1, timeout=300, keep_prints=["VIOL", "DRIFT", "END"])
    ends = [o for (t, o) in r.prints if t == "END"]
    if not ends or ends[0]["n"] != len(cases):
        raise vlib.CheckError("RBCAtomic validation did not consume all %d probe results\n%s" % (len(cases), r.out[-1500:]))
    nd = 0
    for t, o in r.prints:
        if t == "VIOL":
            verdict.violation("OneMessageAtATime/%s/%s" % (o["mode"], o["second"]),
                              "a second message (%s) of a live %s session entered the reliable-broadcast instance while the first one was still being "
                              "processed in it: Receive is not atomic per instance (the assumption under which RBC.tla proves Agreement)" % (o["second"], o["mode"]),
                              dict(property="C02", part="atomicity", case=cases[o["t"]]))
        elif t == "DRIFT":
            nd += 1
    if nd:
        print("DRIFT property=C02 count=%d kind=atomicity probe could not be set up" % nd)
    log("atomicity: lemma holds with Atomic, refuted without; %d probes on real Schemes" % len(cases))
    return dict(config="RBCAtomic", how="lemma + probe", probes=len(cases), probe_setup_failures=nd)


def replay(pid, path):
    """re-execute a saved violating behaviour on the current tree"""
    with open(path) as f:
        o = json.load(f)
    if o.get("part") == "atomicity":
        verdict = vlib.Verdict(pid)
        atomic_part(vlib.scratch(pid + "r"), verdict, "quick", only=[o["case"]] * 3)
        return verdict.finish()
    cfg = {k: v for k, v in o["config"].items()}
    cfg["AdvSet"] = []
    cfg["HonestB"] = [tuple(x) for x in cfg.get("HonestB", [])]
    cfg["HonestP"] = [tuple(x) for x in cfg.get("HonestP", [])]
    wd = vlib.scratch(pid + "r")
    verdict = vlib.Verdict(pid)
    stats = replay_and_validate(pid, [(cfg, [o["path"]], "replay")], wd, verdict, check_totality=(pid == "C04"))
    log("replayed: %r" % {k: v for k, v in stats.items() if k != "samples"})
    return verdict.finish()


if __name__ == "__main__":
    vlib.main_wrapper(lambda: run(sys.argv[1]))
