#!/bin/bash
# usage: confirm_seed.sh <out dir with patch.diff demo_test.go meta.json> <seed name> [test pkgs...]
# Confirms in a scratch worktree: patch applies + builds + existing tests of the touched module pass; demo fails with the patch, passes without.
set -u
export GOFLAGS=-mod=mod GOPROXY=off GOSUMDB=off GOTOOLCHAIN=local
src=$1; name=$2
wt=/tmp/wt/confirm.$$
git -C /repo worktree add --detach $wt HEAD -q || exit 2
trap 'git -C /repo worktree remove --force $wt' EXIT
demo_dir=$(python3 -c "import json;print(json.load(open('$src/meta.json'))['demo_dir'])")
demo_run=$(python3 -c "import json;print(json.load(open('$src/meta.json'))['demo_run'])")
moddir=$wt
case "$demo_dir" in mpc/bls*) moddir=$wt/mpc/bls;; mpc/ps*) moddir=$wt/mpc/ps;; mpc/binance/ecdsa*) moddir=$wt/mpc/binance/ecdsa;; mpc/binance/eddsa*) moddir=$wt/mpc/binance/eddsa;; esac
cp $src/demo_test.go $wt/$demo_dir/zz_demo_test.go
cd $moddir
echo "== demo WITHOUT patch"; (eval "$demo_run") > /tmp/confirm.$$.a 2>&1; a=$?; tail -3 /tmp/confirm.$$.a
cd $wt && git apply $src/patch.diff || { echo "PATCH DOES NOT APPLY"; exit 1; }
cd $moddir
echo "== demo WITH patch"; (eval "$demo_run") > /tmp/confirm.$$.b 2>&1; b=$?; grep -E "^\s+--- FAIL|FAIL|panic" /tmp/confirm.$$.b | head -5
rm -f $wt/$demo_dir/zz_demo_test.go
echo "== existing tests WITH patch"; (go build ./... && go vet ./... >/dev/null 2>&1; go test -count=1 ./... ) > /tmp/confirm.$$.c 2>&1; c=$?; tail -8 /tmp/confirm.$$.c
echo "RESULT demo_without=$a (want 0) demo_with=$b (want !=0) tests_with=$c (want 0)"
if [ $a -eq 0 ] && [ $b -ne 0 ] && [ $c -eq 0 ]; then
  mkdir -p /verif/seeded/$name && cp $src/patch.diff $src/demo_test.go $src/meta.json /verif/seeded/$name/ && echo "KEPT /verif/seeded/$name"
fi
rm -f /tmp/confirm.$$.*
