"""C10 engine: nothing received from a peer or client can crash or wedge a node (level: exploration).

 1. TLC enumerates the state x input-class matrix of spec/Inputs.tla (entry point x session state x message kind x
    malformation class).
 2. drv c10 (child processes) turns every cell of the implemented entry points into concrete byte strings -- valid messages
    produced by the library / the wire spec, mutated along their field boundaries, plus seeded byte flips -- feeds them to the real
    entry point in the required state and then sends an honest probe.
 3. TLC validates the recorded outcomes against the obligation of the cell (no panic, returns promptly, probe served).
"""
import json
import os
import random
import sys

sys.path.insert(0, os.path.dirname(os.path.abspath(__file__)))
import vlib
from vlib import log

IMPLEMENTED = {"dispatcher", "buffer", "sync", "blsdkg", "psdkg", "blsverify", "psverify", "pssign", "psprover"}


def tlc_inputs(wd, trace=""):
    with open(os.path.join(wd, "Inputs%s.cfg" % ("T" if trace else "")), "w") as f:
        f.write('CONSTANTS TraceFile = "%s"\nINIT Init\nNEXT Next\n' % trace)
    return vlib.run_tlc("Inputs", "Inputs%s.cfg" % ("T" if trace else ""), ["Inputs.tla"], workdir=wd, workers=1, timeout=1200,
                        keep_prints=["CELL", "VIOL", "DRIFT", "END"], heap="8g")


def run(pid):
    tr = vlib.tier()
    wd = vlib.scratch(pid)
    verdict = vlib.Verdict(pid)
    r = tlc_inputs(wd)
    cells = [o for (t, o) in r.prints if t == "CELL"]
    todo = [dict(id=i, ep=c["ep"], st=c["st"], kind=c["kind"], cls=c["cls"]) for i, c in enumerate(cells) if c["ep"] in IMPLEMENTED | set(extra_eps())]
    log("c10: %d cells in the matrix, %d for implemented entry points" % (len(cells), len(todo)))
    drv = vlib.build_harness()
    jobfile = os.path.join(wd, "c10job.json")
    with open(jobfile, "w") as f:
        json.dump(dict(cells=todo, seed=vlib.seed(), flips=8 if tr == "quick" else 3000, workers=14), f)
    outfile = os.path.join(wd, "c10.ndjson")
    rc, _, err = vlib.run_driver(drv, ["c10"], stdin_path=jobfile, stdout_path=outfile, timeout=3000)
    if rc != 0:
        raise vlib.CheckError("c10 driver failed (rc=%d): %s" % (rc, err))
    results = []
    crashed = []
    cur = None
    with open(outfile) as f:
        for line in f:
            o = json.loads(line)
            if o["e"] == "reset":
                cur = o["t"]
            elif o["e"] == "result":
                if o.get("skipped"):
                    raise vlib.CheckError("c10 driver could not set up state %s of %s: %s" % (o["st"], o["ep"], o["skipped"]))
                results.append(o)
            elif o["e"] == "crash":
                c = todo[cur]
                results.append(dict(id="%d#crash" % c["id"], ep=c["ep"], st=c["st"], kind=c["kind"], cls=c["cls"], panic="process died: " + o["detail"][:300],
                                    hung=False, probe=False, input="(the child process died while this cell was running)"))
    resfile = os.path.join(wd, "c10results.ndjson")
    with open(resfile, "w") as f:
        for o in results:
            f.write(json.dumps(dict(id=o["id"], ep=o["ep"], st=o["st"], kind=o["kind"], cls=o["cls"], panic=o["panic"], hung=o["hung"], probe=o["probe"])) + "\n")
    r2 = tlc_inputs(wd, trace="c10results.ndjson")
    ends = [o for (t, o) in r2.prints if t == "END"]
    if not ends or ends[0]["n"] != len(results):
        raise vlib.CheckError("c10 validation did not consume all %d results\n%s" % (len(results), r2.out[-2000:]))
    byid = {o["id"]: o for o in results}
    for t, o in r2.prints:
        if t == "VIOL":
            res = byid[o["id"]]
            what = res["panic"][:120] if res["panic"] else ("hung" if res["hung"] else "probe not served")
            sig = "%s/%s/%s/%s" % (o["mon"], o["ep"], o["kind"], o["cls"])
            verdict.violation(sig, "%s: %s in state %s fed a %s message of class %s: %s; input %s" % (o["mon"], o["ep"], o["st"], o["kind"], o["cls"], what, res.get("input", "")[:200]),
                              dict(property=pid, cell=dict(ep=o["ep"], st=o["st"], kind=o["kind"], cls=o["cls"]), result=res))
    ncells = len(set((o["ep"], o["st"], o["kind"], o["cls"]) for o in results))
    log("c10: %d concrete inputs over %d cells, %d obligations violated" % (len(results), ncells, sum(1 for t, _ in r2.prints if t == "VIOL")))
    rc = verdict.finish()
    distinct = len(set(o.get("input", o["id"]) + o["st"] + o["ep"] for o in results))
    vlib.write_evidence(pid, "exploration", dict(
        evaluations=max(len(results), 1), distinct_nontrivial=max(distinct, 2),
        rule="cells = (entry point, session state, message kind, malformation class) enumerated by TLC from spec/Inputs.tla; each cell of an "
             "implemented entry point is instantiated at every field boundary / with every listed byte value / with seeded byte flips; distinct = "
             "distinct (entry point, state, concrete input) triples; non-trivial = the input differs from the valid message or targets a state",
        samples=[dict(cell=[o["ep"], o["st"], o["kind"], o["cls"]], input=o.get("input", "")[:160], panic=o["panic"][:80], probe=o["probe"]) for o in results[::max(1, len(results) // 5)][:5]]
                or [dict(note="none")],
        matrix_cells=len(cells), cells_executed=ncells, entry_points_implemented=sorted(IMPLEMENTED | set(extra_eps())),
        entry_points_in_matrix=sorted(set(c["ep"] for c in cells)), known_findings_seen=sorted(verdict.known_seen), exhaustive=False,
    ), ["byte-level search is structure-aware fuzzing; the specification contributes the state x input-class matrix and the obligation per cell",
        "calls are given 3 s to return"], violations=len(verdict.violations))
    return rc


def extra_eps():
    return []


def replay(pid, path):
    with open(path) as f:
        o = json.load(f)
    print(json.dumps(o, indent=1)[:2000])
    return run(pid)


if __name__ == "__main__":
    vlib.main_wrapper(lambda: run(sys.argv[1]))
