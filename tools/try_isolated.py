#!/usr/bin/env python3
"""Run one check against an ISOLATED copy of the repository with a patch applied (never touches /repo).
usage: tools/try_isolated.py <patch.diff> <Cxx> [quick|thorough]      prints the tail of the check's output and its exit code."""
import os
import shutil
import subprocess
import sys

VERIF = os.path.dirname(os.path.dirname(os.path.abspath(__file__)))


def sh(cmd):
    return subprocess.run(cmd, shell=True, capture_output=True, text=True)


def main():
    patch, pid = os.path.abspath(sys.argv[1]), sys.argv[2]
    tier = sys.argv[3] if len(sys.argv) > 3 else "quick"
    mut = "/tmp/verif-try.%d" % os.getpid()
    shutil.rmtree(mut, ignore_errors=True)
    os.makedirs(mut)
    try:
        r = sh("git -C /repo worktree add --detach %s/repo HEAD" % mut)
        if r.returncode != 0:
            sys.exit("cannot create worktree: " + r.stderr)
        r = sh("git -C %s/repo apply %s" % (mut, patch))
        if r.returncode != 0:
            sys.exit("patch does not apply: " + r.stderr)
        shutil.copytree(os.path.join(VERIF, "harness"), mut + "/harness")
        if sh("cd %s/harness && GOFLAGS=-mod=mod GOPROXY=off GOSUMDB=off GOTOOLCHAIN=local go build -tags verif -o /dev/null ./cmd/drv" % mut).returncode != 0:
            shutil.rmtree(mut + "/harness")
            sh("git -C %s archive HEAD harness | tar -x -C %s" % (VERIF, mut))
        gm = open(mut + "/harness/go.mod").read().replace("=> /repo", "=> %s/repo" % mut)
        open(mut + "/harness/go.mod", "w").write(gm)
        shutil.copytree(os.path.join(VERIF, "harness_ps"), mut + "/harness_ps")
        gm = open(mut + "/harness_ps/go.mod").read().replace("=> /repo", "=> %s/repo" % mut)
        open(mut + "/harness_ps/go.mod", "w").write(gm)
        env = dict(os.environ, VERIF_HARNESS=mut + "/harness", VERIF_EVIDENCE=mut + "/evidence", VERIF_REPLAYS=mut + "/replays", VERIF_TIER=tier)
        p = subprocess.run([os.path.join(VERIF, "bin", "check"), pid, "--tier", tier], capture_output=True, text=True, env=env, timeout=7200)
        print("\n".join((p.stdout + p.stderr).splitlines()[-25:]))
        print("rc=%d" % p.returncode)
    finally:
        sh("git -C /repo worktree remove --force %s/repo" % mut)
        shutil.rmtree(mut, ignore_errors=True)
        sh("git -C /repo worktree prune")


if __name__ == "__main__":
    main()
