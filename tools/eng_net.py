"""Net engine: properties C16 (transport attributes traffic only to peers that proved their registered identity) and
C17 (transport frames faithfully and isolates a failing peer).  Code under test: /repo/net/net.go.

C16  1. TLC explores the handshake part of spec/Net.tla: every variant of the catalogue (domain x binding x identity x timestamp x
        signing key x signed bytes x encoding) on the attacker's connection interleaved with an honest connection; invariants
        AttributedOnlyIfProved / NoCrash / HonestServed (modulo the named deviations of the current code); it prints one CASE record
        per variant with the model's verdict.
     2. drv net-hs executes the cases against the REAL comm.Listen + comm.ServiceConnections over loopback TLS: raw TLS client =
        attacker, real comm.SocketRemoteParties = honest peers (one frame before on a long-lived connection, one after on a fresh
        connection), one frame after every handshake.  Child processes: should a case kill the process, the cases in flight are
        re-run one per process.
     3. TLC evaluates the monitors of spec/NetTrace.tla on the observed outcomes (messages that appeared on the channel returned by
        ServiceConnections with their From / Domain, process death) and compares them with the model (difference = drift).

C17  1. TLC explores the framing part of spec/Net.tla (sending goroutines -> bounded queue -> writer -> stream -> reader; peers down,
        late, stalled, garbling) for every interleaving of small programs, checks FIFO / exactly-once / oversize / fault isolation /
        copies given up only towards unresponsive peers, the frame encoding laws for every type and boundary size, and prints the
        scenario shapes (SCEN) and the shapes in which the model reaches the enqueue timeout (DROP).
     2. drv net-fr runs the shapes on real parties over loopback TLS with boundary payload sizes, every legal type/topic combination
        and several sending goroutines, recording Send calls / returns and InMsg arrivals under one global sequence.
     3. TLC validates the recorded traces against spec/NetTrace.tla whose monitors are the invariants above.
"""
import concurrent.futures
import json
import os
import random
import re
import sys

sys.path.insert(0, os.path.dirname(os.path.abspath(__file__)))
import vlib
from vlib import log
from eng_rbc import tla_val, Rec

HS_FIELDS = ["dom", "bind", "ident", "ts", "by", "over", "enc"]
DIMS = dict(dom=["d1", "d2", "e", "dx", "dn", "dnl"], bind=["own", "other", "rand", "empty", "short"],
            ident=["A", "B", "U", "Rr", "Ru", "Er", "Eu", "Ajunk", "nlA", "nonpem", "noncert", "empty"], ts=["now", "old"],
            by=["own", "kA", "kB", "kU", "none", "garbage"], over=["sent", "otherconn", "origA", "junk"])
DOM_CONCRETE = {"d1": "d1", "d2": "d2", "e": "", "dx": "dx", "dn": "dn", "dnl": "dn\n"}
DOM_ABSTRACT = {v: k for k, v in DOM_CONCRETE.items()}
REGISTERED = [dict(node=1, dom="d1", ident="A"), dict(node=2, dom="d1", ident="B"), dict(node=3, dom="d2", ident="B"),
              dict(node=4, dom="e", ident="A"), dict(node=5, dom="d1", ident="Rr"), dict(node=6, dom="d1", ident="Er"),
              dict(node=7, dom="dnl", ident="A")]
HONEST_PRE, HONEST_POST = REGISTERED[1], REGISTERED[2]

NET_CONSTS = ["Part", "CatMode", "Sample", "Progs", "Faults", "QCap", "WCap", "SyncAccept"]
HS_MONITORS = ["AttributedOnlyIfProved", "NoCrash", "HonestServed", "NoSpurious"]
FR_MONITORS = ["Unmodified", "ExactlyOnce", "FIFO", "SendOrder", "OversizeRefused", "NoPanic", "Delivered", "FaultIsolated"]

LIMIT = 20 * 1024 * 1024
HS_ACTIONS = ("HInit", "Dial", "SendHS", "Auth", "Frame", "HNext")     # actions of the other part of the module


def write_mc(wd, name, consts, invariants=(), trace=None, kind=None):
    base = "NetTrace" if trace else "Net"
    lines = ["---- MODULE %s ----" % name, "EXTENDS %s" % base]
    for k in NET_CONSTS:
        lines.append("c_%s == %s" % (k, tla_val(consts[k])))
    if trace:
        lines.append('c_TraceFile == "%s"' % trace)
    lines.append("====")
    with open(os.path.join(wd, name + ".tla"), "w") as f:
        f.write("\n".join(lines) + "\n")
    c = ["CONSTANTS"] + ["  %s <- c_%s" % (k, k) for k in NET_CONSTS]
    if trace:
        c += ["  TraceFile <- c_TraceFile", '  Kind = "%s"' % kind, "INIT TInit", "NEXT TNext"]
    else:
        c += ["INIT Init", "NEXT Next"]
        if invariants:
            c.append("INVARIANTS " + " ".join(invariants))
    with open(os.path.join(wd, name + ".cfg"), "w") as f:
        f.write("\n".join(c) + "\n")
    return name


def base_consts(**kw):
    c = dict(Part="hs", CatMode="near", Sample=[], Progs=[()], Faults=["none"], QCap=1, WCap=1, SyncAccept=False)
    c.update(kw)
    return c


def run_children(drv, sub, jobs, wd, tag, par, timeout):
    """run driver children in parallel; jobs: list of job dicts; returns list of (rc, events, stderr)"""
    def one(ix):
        jf = os.path.join(wd, "%s.%d.job.json" % (tag, ix))
        of = os.path.join(wd, "%s.%d.ndjson" % (tag, ix))
        with open(jf, "w") as f:
            json.dump(jobs[ix], f)
        rc, _, err = vlib.run_driver(drv, [sub], stdin_path=jf, stdout_path=of, timeout=timeout)
        evs = []
        with open(of) as f:
            for line in f:
                try:
                    evs.append(json.loads(line))
                except ValueError:
                    continue            # a line torn by the death of the process
        os.remove(of)
        os.remove(jf)
        return rc, evs, err
    with concurrent.futures.ThreadPoolExecutor(max_workers=par) as ex:
        return list(ex.map(one, range(len(jobs))))


def crash_info(rc, err):
    """(died_in_code_under_test, what). Exit code 2 + a Go panic whose stack is inside github.com/IBM/TSS = the real code crashed."""
    if rc == 0:
        return False, ""
    m = re.search(r"^(panic: .*|fatal error: .*)$", err, re.M)
    # the stack of the panicking goroutine is the first one printed
    first = "\n\n".join(err[m.start():m.start() + 6000].split("\n\n")[:2]) if m else ""
    if rc == 2 and m and "github.com/IBM/TSS/" in first:
        frame = re.search(r"github\.com/IBM/TSS/[^\s(]+", first)
        return True, "%s @ %s" % (m.group(1)[:160], frame.group(0) if frame else "?")
    raise vlib.CheckError("net driver died outside the code under test (rc=%d): %s" % (rc, err[-2500:]))


def make_material(drv, wd):
    path = os.path.join(wd, "material.json")
    rc, _, err = vlib.run_driver(drv, ["net-mat"], stdout_path=path, timeout=120)
    if rc != 0:
        raise vlib.CheckError("net-mat failed: %s" % err)
    return path


# ======================================================================================================================
# C16
# ======================================================================================================================

def hs_key(c):
    return tuple(c[f] for f in HS_FIELDS)


def tlc_hs(wd, tr, rng, forced=None):
    sample = [Rec(**{f: c[f] for f in HS_FIELDS}) for c in (forced or [])]
    if forced:
        tr = "quick"
    elif tr == "quick":
        seen = set()
        while len(sample) < 4000:
            c = {f: rng.choice(DIMS[f]) for f in DIMS}
            if rng.random() < 0.5:
                c["bind"] = "own"           # half of the sample gets past the binding comparison, to the later checks
            c["enc"] = "ok"
            if hs_key(c) not in seen:
                seen.add(hs_key(c))
                sample.append(Rec(**c))
    consts = base_consts(Part="hs", CatMode="near" if tr == "quick" else "full", Sample=sample)
    name = write_mc(wd, "MC_hs", consts, ["AttributedOnlyIfProved", "NoCrash", "HonestServed"])
    r = vlib.run_tlc(name, name + ".cfg", ["Net.tla"], workdir=wd, timeout=1500, keep_prints=["CASE"], deadlock=True, heap="12g")
    if r.violation:
        raise vlib.CheckError("Net model (handshake part) violates %s at design level:\n%s" % (r.violation, "".join(r.error_trace[-2:])))
    if not forced:
        # falsifiability of the invariant: without the named deviation the model of the current code must violate it
        for inv in ("StrictAttributed",):
            n2 = write_mc(wd, "MC_hs_" + inv, base_consts(Part="hs", CatMode="near"), [inv])
            r2 = vlib.run_tlc(n2, n2 + ".cfg", ["Net.tla"], workdir=wd, timeout=600, deadlock=True, heap="8g")
            if r2.violation != inv:
                raise vlib.CheckError("Net model: %s is not falsified although the model contains the deviation (vacuous invariant?)" % inv)
    cases = {}
    for _, o in r.prints:
        cases[hs_key(o)] = o
    cases = [cases[k] for k in sorted(cases)]
    for i, c in enumerate(cases):
        c["id"] = i
    if not cases:
        raise vlib.CheckError("Net model printed no handshake cases")
    return r, cases, consts


def hs_job(material, cases, workers=32, listeners=8, grace=40, final=700):
    return dict(material=material, registered=REGISTERED, cases=[{k: c[k] for k in HS_FIELDS + ["id"]} for c in cases],
                workers=workers, listeners=listeners, grace_ms=grace, final_ms=final, honest_pre=HONEST_PRE, honest_post=HONEST_POST)


def hs_execute(drv, material, cases, wd, singles, par_batches=2, batch=1200):
    """returns {case id: outcome}; outcome = dict(attr, hpre, hpost, crashed, served, spurious, what)"""
    out = {}
    byid = {c["id"]: c for c in cases}
    pending = [c for c in cases if c["id"] not in singles]
    alone = [c for c in cases if c["id"] in singles]
    rounds = 0
    while pending:
        rounds += 1
        if rounds > 12 or batch <= 30:
            alone += pending             # the batches keep dying: decide every remaining case in its own process
            pending = []
            break
        chunks = [pending[i:i + batch] for i in range(0, len(pending), batch)]
        res = run_children(drv, "net-hs", [hs_job(material, ch) for ch in chunks], wd, "hs%d" % rounds, par_batches, 1500)
        pending = []
        any_died = False
        for ch, (rc, evs, err) in zip(chunks, res):
            died, what = crash_info(rc, err)
            any_died = any_died or died
            started = set(e["c"] for e in evs if e["e"] == "start")
            ended = {e["c"]: e for e in evs if e["e"] == "end"}
            if not died and not any(e["e"] == "done" for e in evs):
                raise vlib.CheckError("net-hs ended without completing its batch: %s" % err[-1500:])
            ins = {}
            spurious = 0
            for e in evs:
                if e["e"] == "in":
                    if e["c"] < 0:
                        spurious += 1
                    else:
                        ins.setdefault(e["c"], []).append(e)
            for c in ch:
                cid = c["id"]
                if cid in ended and not died:
                    out[cid] = hs_outcome(ins.get(cid, []), ended[cid], False, "")
                elif cid in ended or cid in started:
                    alone.append(c)            # in flight (or finished shortly before) when the process died: decide alone
                else:
                    pending.append(c)
            done_here = [c["id"] for c in ch if c["id"] in out]
            if spurious and not died and done_here:
                out[min(done_here)]["spurious"] += spurious
        if any_died:
            batch = max(batch // 5, 30)      # a crash the model did not predict: smaller batches lose less per crash
            par_batches = 6
    if len(alone) > 6000:
        raise vlib.CheckError("%d handshake cases would have to run one per process; giving up" % len(alone))
    if alone:
        res = run_children(drv, "net-hs", [hs_job(material, [c], workers=1, listeners=1, grace=150, final=150) for c in alone], wd, "hs1", 8, 300)
        for c, (rc, evs, err) in zip(alone, res):
            died, what = crash_info(rc, err)
            ins = [e for e in evs if e["e"] == "in" and e["c"] == c["id"]]
            end = next((e for e in evs if e["e"] == "end"), None)
            if not died and end is None:
                raise vlib.CheckError("net-hs (single case) ended without result: %s" % err[-1500:])
            out[c["id"]] = hs_outcome(ins, end or {}, died, what)
            out[c["id"]]["spurious"] += sum(1 for e in evs if e["e"] == "in" and e["c"] != c["id"])
    return out


def hs_outcome(ins, end, crashed, what):
    def pick(role):
        return [dict(**{"from": e["from"]}, dom=DOM_ABSTRACT.get(e["dom"], "??"), intact=bool(e["intact"])) for e in ins if e["role"] == role]
    if end.get("err"):
        raise vlib.CheckError("handshake case could not be executed: %s" % end["err"])
    return dict(attr=pick("atk"), hpre=pick("hpre"), hpost=pick("hpost"), crashed=crashed, served=bool(end.get("honest_served", False)),
                spurious=0, what=what)


def hs_validate(pid, cases, outcomes, wd, verdict, consts, tag="hs"):
    tf = os.path.join(wd, "%s_trace.ndjson" % tag)
    lines = []
    for c in cases:
        o = outcomes[c["id"]]
        lines.append(dict(c=c["id"], **{f: c[f] for f in HS_FIELDS}, attr=o["attr"], hpre=o["hpre"], hpost=o["hpost"], crashed=o["crashed"],
                          served=o["served"], spurious=o["spurious"]))
    with open(tf, "w") as f:
        for ln in lines:
            f.write(json.dumps(ln) + "\n")
    name = write_mc(wd, "T_" + tag, consts, trace=os.path.basename(tf), kind="hs")
    r = vlib.run_tlc(name, name + ".cfg", ["Net.tla", "NetTrace.tla"], workdir=wd, workers=1, timeout=1500, keep_prints=["VIOL", "END"], heap="8g")
    ends = {o["c"]: o for (t, o) in r.prints if t == "END"}
    if len(ends) != len(lines):
        raise vlib.CheckError("handshake trace validation consumed %d of %d cases:\n%s" % (len(ends), len(lines), r.out[-1500:]))
    byid = {c["id"]: c for c in cases}
    stats = dict(validated=len(ends), drift=0, drift_kinds={}, attributed=0, accepted_model=0, crashed=0, allowed=0)
    violating = set(o["c"] for (t, o) in r.prints if t == "VIOL")
    for cid, e in ends.items():
        if e["drift"] and cid not in violating:       # drift = the model differs while the monitors hold
            stats["drift"] += 1
            stats["drift_kinds"][e["drift"]] = stats["drift_kinds"].get(e["drift"], 0) + 1
        stats["attributed"] += 1 if e["attributed"] else 0
        stats["accepted_model"] += 1 if e["model"] == "accept" else 0
        stats["allowed"] += 1 if e["allowed"] else 0
        stats["crashed"] += 1 if outcomes[cid]["crashed"] else 0
    for (t, o) in r.prints:
        if t != "VIOL":
            continue
        c = byid[o["c"]]
        oc = outcomes[o["c"]]
        sig = "%s/%s" % (o["mon"], o["cls"])
        desc = "monitor %s is false on the real transport for handshake variant %s: %s" % (
            o["mon"], {f: c[f] for f in HS_FIELDS},
            ("process died: " + oc["what"]) if oc["crashed"] else "frames on the channel: attacker %s, honest before %s, after %s" % (oc["attr"], oc["hpre"], oc["hpost"]))
        verdict.violation(sig, desc, dict(property=pid, kind="hs", monitor=o["mon"], cls=o["cls"], case={f: c[f] for f in HS_FIELDS}, outcome=oc))
    return stats, r


def hs_selftest(pid, cases, outcomes, wd, consts):
    """anti-vacuity: corrupt recorded outcomes and require the monitors to fire (never touches the verdict of the run)"""
    byk = {hs_key(c): c for c in cases}
    probes = []

    def fake(c, **kw):
        o = json.loads(json.dumps(outcomes[c["id"]]))
        o.update(kw)
        probes.append((c, o))
    rej = next((c for c in cases if c["model"] == "reject" and c["why"] == "binding" and not outcomes[c["id"]]["attr"]), None)
    acc = next((c for c in cases if c["model"] == "accept" and c["dev"] == "" and c["enc"] == "ok" and len(outcomes[c["id"]]["attr"]) == 1), None)
    if rej is None or acc is None:
        raise vlib.CheckError("self-test: no rejected / accepted case to corrupt")
    fake(rej, attr=[{"from": 1, "dom": "d1", "intact": True}])                              # attributed although not proved
    other = 2 if acc["node"] != 2 else 1
    fake(acc, attr=[{"from": other, "dom": acc["dom"], "intact": True}])                    # attributed to another node
    fake(acc, attr=[{"from": acc["node"], "dom": "d2" if acc["dom"] != "d2" else "d1", "intact": True}])   # wrong domain reported
    fake(acc, hpost=[])                                                                      # honest connection not served
    fake(acc, crashed=True, attr=[], hpre=[], hpost=[])                                      # process died
    fake(acc, attr=outcomes[acc["id"]]["attr"] * 2)                                          # delivered twice
    expect = ["AttributedOnlyIfProved", "AttributedOnlyIfProved", "AttributedOnlyIfProved", "HonestServed", "NoCrash", "NoSpurious"]
    fcases, fout = [], {}
    for i, (c, o) in enumerate(probes):
        cc = dict(c)
        cc["id"] = i
        fcases.append(cc)
        fout[i] = o
    v = vlib.Verdict(pid + "-selftest")
    v.violation = lambda sig, desc, obj: v.violations.append((sig, desc, None))       # nothing is written
    hs_validate(pid, fcases, fout, wd, v, consts, tag="hsself")
    fired = [s for (s, _, _) in v.violations]
    for i, m in enumerate(expect):
        if not any(s.startswith(m + "/") for s in fired):
            raise vlib.CheckError("self-test: corrupted outcome %d did not make monitor %s fire (fired: %s)" % (i, m, fired))
    return len(probes)


def run_c16(pid, only_cases=None):
    tr = vlib.tier()
    wd = vlib.scratch(pid)
    rng = random.Random(vlib.seed())
    verdict = vlib.Verdict(pid)
    r, cases, consts = tlc_hs(wd, tr, rng, forced=only_cases)
    log("net hs model: %r, %d handshake variants" % (r, len(cases)))
    enumerated = len(cases)
    if only_cases is not None:
        wanted = set(hs_key(c) for c in only_cases)
        cases = [c for c in cases if hs_key(c) in wanted]
        if not cases:
            raise vlib.CheckError("the replayed handshake variant is not in the catalogue")
    # no variant is expected to end the process any more; should one do so, the cases in flight are re-run one per process
    # (hs_execute) and the death is reported by the NoCrash monitor
    singles = set()
    drv = vlib.build_harness()
    material = make_material(drv, wd)
    outcomes = hs_execute(drv, material, cases, wd, singles)
    log("net hs: executed %d variants on the real transport (%d one per process)" % (len(outcomes), len(singles)))
    stats, _ = hs_validate(pid, cases, outcomes, wd, verdict, consts)
    # the self-test needs an accepted baseline; a run that found violations reports them and nothing else
    nself = hs_selftest(pid, cases, outcomes, wd, consts) if only_cases is None and not verdict.violations else 0
    log("net hs: %d validated, attributed in %d, model accepts %d, crashed %d, drift %d" % (
        stats["validated"], stats["attributed"], stats["accepted_model"], stats["crashed"], stats["drift"]))
    for k, v in sorted(stats["drift_kinds"].items()):
        print("DRIFT property=%s count=%d kind=%s" % (pid, v, k))
    rc = verdict.finish()
    if only_cases is not None:
        return rc
    sample = [c for c in cases if c["model"] == "accept"][:1] + [c for c in cases if c["why"] == "binding"][:1] + [c for c in cases if c["dev"]][:2]
    vlib.write_evidence(pid, "model_checking", dict(
        states=max(r.distinct, 1), transitions=max(r.generated, 1), traces_validated_against_impl=stats["validated"],
        samples=[dict(case={f: c[f] for f in HS_FIELDS}, model=c["model"], why=c["why"], allowed_nodes=c["allowed"],
                      real=dict(outcomes[c["id"]])) for c in sample],
        exhaustive=(len(cases) == enumerated and tr == "thorough"),
        configs=[dict(part="hs", catalogue=consts["CatMode"], seeded_sample=len(consts["Sample"]), distinct_states=r.distinct,
                      states_generated=r.generated, depth=r.depth, wall_s=round(r.wall, 1))],
        variants_enumerated=enumerated, variants_executed=len(cases), executed_one_per_process=len(singles),
        model_verdicts={k: sum(1 for c in cases if c["model"] == k) for k in ("accept", "reject")},
        model_reject_reasons={k: sum(1 for c in cases if c["why"] == k) for k in sorted(set(c["why"] for c in cases))},
        deviations_in_model={k: sum(1 for c in cases if c["dev"] == k) for k in ("concat",)},
        real_attributions=stats["attributed"], real_crashes=stats["crashed"], variants_with_proved_identity=stats["allowed"],
        drift_cases=stats["drift"], drift_kinds=stats["drift_kinds"], selftest_corrupted_outcomes_detected=nself,
        monitors=HS_MONITORS, known_findings_seen=sorted(verdict.known_seen),
        rule="variants = TLC-enumerated catalogue (quick: every single-field alteration of every valid handshake + replays from the other "
             "connection + model deviations + every encoding alteration and 16 byte-offset truncations of the valid handshakes + 4000 seeded "
             "variants of the product; thorough: the whole product + every encoding alteration of every near-valid variant + truncation "
             "at 64 evenly spread byte offsets (length prefix consistent / stream cut) of every valid handshake); each executed over loopback TLS against "
             "comm.Listen + comm.ServiceConnections with an honest frame before (long-lived connection) and after (fresh connection)",
    ), [
        "TLS 1.3 itself is trusted: the exporter value is unique per connection and unknown to third parties",
        "ECDSA / SHA-256 are unforgeable / collision free; an attacker holds the keys of its own identities only (the harness, holding "
        "all keys, also plays insiders that sign altered handshakes)",
        "trailing bytes after a complete handshake, extra SEQUENCE elements and alternative ASN.1 string types are not counted as malformed "
        "(the signature is verified over the canonical re-encoding)",
        "freshness of the timestamp is not demanded by the property (the code only logs a warning)",
        "'no attributed message' is observed until the end of the batch (>= 0.7 s after the last case); frames carry the case id",
    ], violations=len(verdict.violations))
    return rc


# ======================================================================================================================
# C17
# ======================================================================================================================

PROGS_QUICK = [
    # goroutine 1 floods receiver 3 (runs into the enqueue timeout in the model when 3 is down / stalled), goroutine 2 only talks to receiver 2
    ((Rec(id=1, to=(2, 3)), Rec(id=2, to=(3,)), Rec(id=3, to=(3,)), Rec(id=4, to=(3, 2))),
     (Rec(id=5, to=(2,)), Rec(id=6, to=(2,)))),
    # three goroutines, crossing destinations
    ((Rec(id=1, to=(2,)), Rec(id=2, to=(3,))),
     (Rec(id=3, to=(3,)), Rec(id=4, to=(2,))),
     (Rec(id=5, to=(2, 3)),)),
]
PROGS_THOROUGH = PROGS_QUICK + [
    ((Rec(id=1, to=(3, 2)), Rec(id=2, to=(2,)), Rec(id=3, to=(2,)), Rec(id=4, to=(2,))),
     (Rec(id=5, to=(3,)), Rec(id=6, to=(3,))),
     (Rec(id=7, to=(2, 3)),)),
]
FAULTS = ["none", "down", "late", "stalled", "garble", "install"]
STALL_KINDS = ["notls", "nohs", "halfhs", "halfframe"]
TYPES_TOPIC = [1, 2]
TYPES_PLAIN = [0, 3, 7, 255]


VECTORS = {}


def shape_key(o):
    return json.dumps([o["fault"], o["victim"], o.get("kind", "-"), o["progs"]], sort_keys=True)


def tlc_fr(wd, tr):
    progs = PROGS_QUICK if tr == "quick" else PROGS_THOROUGH
    res = []
    shapes, panics = {}, set()
    for (qc, wc) in ([(1, 1)] if tr == "quick" else [(1, 1), (2, 1)]):
        consts = base_consts(Part="fr", Progs=list(progs), Faults=FAULTS, QCap=qc, WCap=wc)
        name = write_mc(wd, "MC_fr%d%d" % (qc, wc), consts, ["PrefixFIFO", "NoSpurious", "OversizeRefused", "DeliveredAtQuiescence", "FaultIsolated", "DropsOnlyToUnresponsive"])
        r = vlib.run_tlc(name, name + ".cfg", ["Net.tla"], workdir=wd, timeout=2400, keep_prints=["SCEN", "DROP", "VEC"], deadlock=True, heap="12g",
                         coverage=(tr == "thorough" and (qc, wc) == (1, 1)))
        if r.violation:
            raise vlib.CheckError("Net model (framing part) violates %s at design level:\n%s" % (r.violation, "".join(r.error_trace[-2:])))
        for t, o in r.prints:
            if t == "VEC":
                VECTORS.update(o)
                continue
            k = shape_key(o)
            if t == "SCEN":
                shapes[k] = o
            else:
                panics.add(k)
        res.append((consts, r))
    if not panics:
        raise vlib.CheckError("Net model: no scenario shape reaches the enqueue timeout (the flood scenarios would be vacuous)")
    # falsifiability: an accept loop that completes a connection's TLS handshake itself before accepting the next one must get
    # stuck behind an inbound peer that never sends its ClientHello
    n2 = write_mc(wd, "MC_fr_syncaccept", base_consts(Part="fr", Progs=list(progs)[:1], Faults=["install"], QCap=1, WCap=1, SyncAccept=True),
                  ["DeliveredAtQuiescence", "FaultIsolated"])
    r2 = vlib.run_tlc(n2, n2 + ".cfg", ["Net.tla"], workdir=wd, timeout=600, deadlock=True, heap="8g")
    if r2.violation != "deadlock":
        raise vlib.CheckError("Net model: the what-if 'accept loop waits for the TLS handshake' is not refuted (vacuous isolation check?)")
    if not shapes:
        raise vlib.CheckError("Net model printed no scenario shapes")
    return res, [shapes[k] for k in sorted(shapes)], panics


class ScenarioGen:
    def __init__(self, rng, tr):
        self.rng = rng
        self.tr = tr
        self.sizes = [0, 1, 7, 8, 65535, 65536, 65537]
        self.si = 0
        self.ti = 0
        self.scenarios = []

    def msg(self, gi, to, size=None, pause=0):
        """the next size class / type class in rotation; tiny topic-less payloads cannot carry an id: goroutine 0 only"""
        if size is None:
            size = self.sizes[self.si % len(self.sizes)] if self.rng.random() < 0.6 else self.rng.choice([9, 100, 1500, 16384, 70000, 200000])
            self.si += 1
        combos = [(t, True) for t in TYPES_TOPIC] + [(t, False) for t in TYPES_PLAIN]
        ty, topic = combos[self.ti % len(combos)]
        self.ti += 1
        if size < 8 and not topic and gi != 0:
            ty, topic = self.rng.choice(TYPES_TOPIC), True
        return dict(ty=ty, topic=topic, size=size, to=list(to), pause_us=pause)

    def add(self, **kw):
        s = dict(id=len(self.scenarios), n=4, dom=self.rng.choice(["d1", "e", "d2"]), progs=[], raw=[], slow_us=0, late_ms=0, timeout_ms=60000,
                 grace_ms=120, flood=False, expect_drop=False, shape=None, layout=[], stall=[])
        s.update(kw)
        self.scenarios.append(s)
        return s

    def from_shape(self, shape, fault=None, burst=3, big=None, flood_g=None):
        """concretise a scenario shape of the model: node 1 runs the model's goroutines (every abstract message becomes a burst of
        concrete messages of rotating size / type classes), node 4 adds concurrent traffic, the victim is the model's"""
        fault = fault or shape["fault"]
        v = shape["victim"]
        progs = []
        for gi, g in enumerate(shape["progs"]):
            msgs = []
            for m in g:
                for _ in range(burst):
                    msgs.append(self.msg(gi, m["to"]))
            progs.append(dict(node=1, msgs=msgs, flood=0))
        if big:
            progs[0]["msgs"].insert(len(progs[0]["msgs"]) // 2, self.msg(0, [2, 3], size=big))
        sends = fault not in ("down", "stalled", "rec")
        others = [n for n in (2, 3, 4) if n != v or sends]
        for node in others:      # the other parties talk too (node 4: two goroutines)
            dests = [d for d in (1, 2, 3, 4) if d != node]
            for gi in range(2 if node == 4 else 1):
                progs.append(dict(node=node, flood=0, msgs=[self.msg(gi, self.rng.sample(dests, self.rng.randint(1, len(dests)))) for _ in range(2 * burst)]))
        s = self.add(fault=fault, victim=v, progs=progs, shape=shape)
        if fault == "late":
            s["late_ms"] = 250
        if fault == "slow":
            s["slow_us"] = 1500
        if fault == "rec":
            s["layout"] = [v]
        if fault == "install":
            for pr in progs:         # every other party sends to the party the stalling peer latched on to
                if pr["node"] != v and not any(v in m["to"] for m in pr["msgs"]):
                    pr["msgs"][0]["to"].append(v)
            # the model's stalling inbound peer (it connects to the victim before anybody dials); delivery is demanded within 20 s
            s["stall"] = [shape.get("kind", "notls")]
            s["timeout_ms"] = 20000
        if fault == "garble":
            kinds = ["oversize", "oversizemax", "trunc", "shorttopic", "hdrstall", "eof"]
            self.rng.shuffle(kinds)
            for ci, to in enumerate([n for n in (1, 2, 3, 4) if n != v] * 2):
                k = kinds[ci % len(kinds)]
                frames = [dict(kind="valid", ty=2, topic=True, size=self.rng.choice([8, 300, 65536]))] + \
                         [dict(kind=k, ty=2 if k != "eof" else 0, topic=(k != "eof"), size=5000)]
                s["raw"].append(dict(to=to, prehs="", frames=frames))
            s["raw"].append(dict(to=others[0], prehs="garbage", frames=[]))
            s["raw"].append(dict(to=others[-1], prehs="none", frames=[dict(kind="eof", ty=0, topic=False, size=0)]))
        return s

    def flood(self, shape, g):
        """the model reaches the enqueue timeout in this shape: goroutine g of node 1 keeps sending to the victim until the queue
        (1000) and the socket buffers are full and a call has waited for the timeout (the copy is given up, reported, nobody
        panics). Meanwhile other goroutines and the other parties keep talking to the healthy peers"""
        v = shape["victim"]
        h = 5 - v
        size = 1 << 20 if shape["fault"] == "stalled" else 64
        progs = [dict(node=1, flood=1100, msgs=[dict(ty=2, topic=True, size=size, to=[v], pause_us=0)]),
                 # 3 s later (the queue is full by then, the flooding call is waiting) another goroutine sends one message to the
                 # unresponsive AND a healthy peer: it waits for the timeout, gives the first copy up, the healthy peer gets its copy
                 dict(node=1, flood=0, msgs=[dict(ty=2, topic=True, size=300, to=[v, h], pause_us=3000000),
                                             dict(ty=1, topic=True, size=17, to=[h, 4], pause_us=0)]),
                 dict(node=1, flood=0, msgs=[self.msg(1, [h, 4], pause=900000) for _ in range(15)]),
                 dict(node=4, flood=0, msgs=[self.msg(0, [h, 1], pause=700000) for _ in range(19)]),
                 dict(node=h, flood=0, msgs=[self.msg(0, [1, 4], pause=1100000) for _ in range(12)])]
        return self.add(fault=shape["fault"], victim=v, progs=progs, shape=shape, flood=True, expect_drop=True, timeout_ms=120000)


def fr_scenarios(shapes, panics, rng, tr):
    g = ScenarioGen(rng, tr)
    big = tr == "thorough"
    reps = 2 if tr == "quick" else 16
    flooded = set()
    for sh in shapes:
        k = shape_key(sh)
        if k in panics and (sh["fault"], sh["victim"] if big else 0) not in flooded:
            flooded.add((sh["fault"], sh["victim"] if big else 0))
            g.flood(sh, 0)
    for rep in range(reps):
        for sh in shapes:
            if sh["fault"] == "install" and rep >= (6 if big else 1):
                continue                 # every (victim, stall kind, program set) once in the quick tier, six times in the thorough one
            g.from_shape(sh, burst=3 if tr == "quick" else 6)
            if sh["fault"] == "none":
                g.from_shape(sh, fault="slow", burst=4)
                g.from_shape(sh, fault="rec", burst=3)
    # every party in turn with all kinds of stalling inbound peers at once (and several silent TCP connections)
    ins = [sh for sh in shapes if sh["fault"] == "install"]
    for v in (1, 2, 3, 4) if ins else ():
        for _ in range(1 if not big else 4):
            s = g.from_shape(dict(rng.choice(ins), victim=v), burst=2 if not big else 4)
            s["stall"] = ["notls"] * 3 + STALL_KINDS + ["notls"]
    if big:
        none = [sh for sh in shapes if sh["fault"] == "none"]
        g.from_shape(none[0], big=LIMIT)
        g.from_shape(none[-1], big=LIMIT - 1)
        g.from_shape(none[0], fault="rec", big=LIMIT)
        gar = [sh for sh in shapes if sh["fault"] == "garble"]
        s = g.from_shape(gar[0], big=LIMIT)
        # a frame that announces limit+1 bytes and delivers all of them, followed by nothing: must never be handed over
        for to in [n for n in (1, 2, 3, 4) if n != s["victim"]][:2]:
            s["raw"].append(dict(to=to, prehs="", frames=[dict(kind="valid", ty=1, topic=True, size=64), dict(kind="oversizefull", ty=2, topic=True, size=0)]))
    return g.scenarios


def fr_job(material, scs, workers):
    keys = ["id", "fault", "victim", "n", "dom", "progs", "raw", "slow_us", "late_ms", "timeout_ms", "grace_ms", "stall"]
    return dict(material=material, workers=workers, vectors=VECTORS, scenarios=[{k: s[k] for k in keys} for s in scs])


def fr_execute(drv, material, scs, wd, tag="fr"):
    """returns {scenario id: [events]} (a synthesised crash event if the process died in the code under test)"""
    traces = {}
    floods = [s for s in scs if s["flood"]]
    rest = [s for s in scs if not s["flood"]]
    chunks = []
    if floods:
        chunks.append(floods)
    per = 16
    chunks += [rest[i:i + per] for i in range(0, len(rest), per)]
    alone = []
    res = run_children(drv, "net-fr", [fr_job(material, ch, workers=max(6, len(ch)) if ch is floods else 6) for ch in chunks], wd, tag, 3, 1500)
    for ch, (rc, evs, err) in zip(chunks, res):
        died, what = crash_info(rc, err)
        fin = set(e["t"] for e in evs if e["e"] == "fin")
        if not died and not any(e["e"] == "done" for e in evs):
            raise vlib.CheckError("net-fr ended without completing its batch: %s" % err[-1500:])
        for s in ch:
            if s["id"] in fin:
                traces[s["id"]] = [e for e in evs if e.get("t") == s["id"] and e["e"] not in ("start", "fin")]
            else:
                alone.append(s)
    if alone:
        res = run_children(drv, "net-fr", [fr_job(material, [s], 1) for s in alone], wd, tag + "1", 4, 1500)
        for s, (rc, evs, err) in zip(alone, res):
            died, what = crash_info(rc, err)
            tr_ = [e for e in evs if e.get("t") == s["id"] and e["e"] not in ("start", "fin")]
            if died:
                tr_ = [e for e in tr_ if e["e"] != "end"]
                tr_.append(dict(e="crash", t=s["id"], what=what))
                tr_.append(dict(e="end", t=s["id"], complete=False, inconclusive=""))
            elif not any(e["e"] == "end" for e in tr_):
                raise vlib.CheckError("net-fr (single scenario) ended without result: %s" % err[-1500:])
            traces[s["id"]] = tr_
    return traces


def fr_lines(s, evs):
    """normalise the driver's events into the lines NetTrace.tla reads (every key present on every line of a kind)"""
    recv = [n for n in range(1, s["n"] + 1) if not (s["fault"] in ("down", "stalled") and n == s["victim"])]
    out = []
    for e in evs:
        k = e["e"]
        if k == "reset":
            out.append(dict(e="reset", t=s["id"], fault=s["fault"], victim=s["victim"], stall=s.get("stall", []), dom=s["dom"], recv=recv, layout=s["layout"],
                            expect_drop=s["expect_drop"], flood=s["flood"]))
        elif k == "call":
            out.append(dict(e="call", g=e["g"], k=e["k"], **{"from": e["from"]}, to=e["to"], m=e["m"], raw=bool(e.get("raw", False))))
        elif k == "ret":
            out.append(dict(e="ret", g=e["g"], k=e["k"], panic=e.get("panic", "")))
        elif k == "in":
            out.append(dict(e="in", at=e["at"], **{"from": e["from"]}, dom=DOM_ABSTRACT.get(e["dom"], "??"), m=e["m"], rec=bool(e.get("rec", False))))
        elif k == "drop":
            out.append(dict(e="drop", **{"from": e["from"]}, to=e["to"]))
        elif k == "crash":
            out.append(dict(e="crash", what=e["what"]))
        elif k == "end":
            out.append(dict(e="end", complete=bool(e.get("complete", False)), inconclusive=e.get("inconclusive", "")))
        elif k in ("rawbad", "up", "note", "stall"):
            out.append(dict(e=k))
    return out


def fr_validate(pid, scs, traces, wd, tag="fr"):
    """returns (viols: {scenario id: [VIOL]}, ends: {scenario id: END}, tlc result)"""
    tf = os.path.join(wd, "%s_trace.ndjson" % tag)
    n = 0
    with open(tf, "w") as f:
        for s in scs:
            for ln in fr_lines(s, traces[s["id"]]):
                f.write(json.dumps(ln) + "\n")
                n += 1
    name = write_mc(wd, "T_" + tag, base_consts(), trace=os.path.basename(tf), kind="fr")
    r = vlib.run_tlc(name, name + ".cfg", ["Net.tla", "NetTrace.tla"], workdir=wd, workers=1, timeout=2400, keep_prints=["VIOL", "END"], heap="12g")
    ends = {o["t"]: o for (t, o) in r.prints if t == "END"}
    if len(ends) != len(scs):
        raise vlib.CheckError("framing trace validation consumed %d of %d scenarios:\n%s" % (len(ends), len(scs), r.out[-2000:]))
    viols = {}
    for (t, o) in r.prints:
        if t == "VIOL":
            viols.setdefault(o["t"], []).append(o)
    return viols, ends, n


def fr_signature(s, mon):
    return "%s/%s%s%s" % (mon, s["fault"], "-flood" if s["flood"] else "", ("-" + "+".join(sorted(set(s["stall"])))) if s.get("stall") else "")


def fr_selftest(pid, scs, traces, wd):
    """anti-vacuity: corrupt an accepted real trace in six ways and require the corresponding monitor to fire"""
    base = next((s for s in scs if s["fault"] == "none" and not s["layout"]), None)
    if base is None:
        return 0
    evs = traces[base["id"]]
    ins = [i for i, e in enumerate(evs) if e["e"] == "in"]
    variants = []

    def mk(name, mon, f):
        ev = json.loads(json.dumps(evs))
        f(ev)
        variants.append((name, mon, ev))
    i0 = next(i for i in ins[len(ins) // 2:] + ins if evs[i]["m"]["n"] >= 8)
    mk("drop one delivery", "Delivered", lambda ev: ev.pop(i0))
    mk("duplicate one delivery", "ExactlyOnce", lambda ev: ev.insert(i0, dict(ev[i0])))
    mk("alter one digest", "Unmodified", lambda ev: ev[i0]["m"].update(dg="000000000000"))
    mk("alter the type", "Unmodified", lambda ev: ev[i0]["m"].update(ty=(ev[i0]["m"]["ty"] + 1) % 256))
    mk("misattribute the sender", "Unmodified", lambda ev: ev[i0].update({"from": ev[i0]["from"] % 4 + 1}))

    def swap(ev):      # two consecutive deliveries of one goroutine at one receiver, swapped
        calls = {}
        for e in ev:
            if e["e"] == "call":
                calls[json.dumps(e["m"], sort_keys=True) + str(e["from"])] = (e["g"], e["k"])
        seen = {}
        for i in ins:
            e = ev[i]
            g = calls.get(json.dumps(e["m"], sort_keys=True) + str(e["from"]))
            if g is None:
                continue
            key = (e["at"], g[0])
            if key in seen and ev[seen[key]]["m"] != e["m"]:
                j = seen[key]
                ev[i], ev[j] = ev[j], ev[i]
                return
            seen[key] = i
        raise vlib.CheckError("self-test: no two deliveries of one goroutine to swap")
    mk("swap two deliveries of one goroutine", "FIFO", swap)
    mk("a Send that panics", "NoPanic", lambda ev: next(e for e in ev if e["e"] == "ret").update(panic="bla"))
    mk("an oversized delivery", "OversizeRefused", lambda ev: ev[i0]["m"].update(n=LIMIT + 1))
    fscs, ftr = [], {}
    for i, (name, mon, ev) in enumerate(variants):
        s = dict(base)
        s["id"] = i
        for e in ev:
            e["t"] = i
        fscs.append(s)
        ftr[i] = ev
    viols, ends, _ = fr_validate(pid, fscs, ftr, wd, tag="frself")
    for i, (name, mon, ev) in enumerate(variants):
        if mon not in [o["mon"] for o in viols.get(i, [])]:
            raise vlib.CheckError("self-test: corruption '%s' did not make monitor %s fire (fired: %s)" % (name, mon, [o["mon"] for o in viols.get(i, [])]))
    return len(variants)


def run_c17(pid, only=None):
    tr = vlib.tier()
    wd = vlib.scratch(pid)
    rng = random.Random(vlib.seed())
    verdict = vlib.Verdict(pid)
    mres, shapes, panics = tlc_fr(wd, tr)
    for consts, r in mres:
        log("net fr model QCap=%d WCap=%d: %r" % (consts["QCap"], consts["WCap"], r))
    scs = fr_scenarios(shapes, panics, rng, tr) if only is None else only
    log("net fr: %d scenario shapes from the model (%d reach the enqueue timeout), %d concrete scenarios" % (len(shapes), len(panics), len(scs)))
    drv = vlib.build_harness()
    material = make_material(drv, wd)
    traces = fr_execute(drv, material, scs, wd)
    log("net fr: scenarios executed on the real transport")
    viols, ends, nlines = fr_validate(pid, scs, traces, wd)
    log("net fr: %d recorded events validated by TLC" % nlines)
    # load-sensitive classes (something not delivered by the deadline) and inconclusive set-ups are decided by a second run, alone
    retry = []
    for s in scs:
        incon = any(e["e"] == "end" and e.get("inconclusive") for e in traces[s["id"]])
        lostonly = viols.get(s["id"]) and all(o["mon"] in ("Delivered", "FaultIsolated") for o in viols[s["id"]])
        if incon or lostonly:
            retry.append(s)
    if sum(1 for s in retry if viols.get(s["id"])) > 4:
        # missing deliveries in many scenarios are not a matter of load: no second chance (and no hours of re-runs)
        retry = [s for s in retry if not viols.get(s["id"])]
    retried = 0
    skipped = []
    for s in retry:
        s2 = dict(s, timeout_ms=2 * s["timeout_ms"])
        t2 = fr_execute(drv, material, [s2], wd, tag="frretry%d" % s["id"])
        v2, e2, _ = fr_validate(pid, [s2], t2, wd, tag="frretry%d" % s["id"])
        retried += 1
        traces[s["id"]] = t2[s["id"]]
        ends[s["id"]] = e2[s["id"]]
        if any(e["e"] == "end" and e.get("inconclusive") for e in t2[s["id"]]):
            skipped.append(s["id"])
            viols.pop(s["id"], None)
            log("scenario %d could not be set up twice (%s): skipped" % (s["id"], s["fault"]))
        elif v2.get(s["id"]):
            viols[s["id"]] = v2[s["id"]]
        else:
            viols.pop(s["id"], None)
            log("scenario %d (%s): deliveries missing at the deadline in the batch run, complete when run alone (load): not a violation" % (s["id"], s["fault"]))
    byid = {s["id"]: s for s in scs}
    drift_kinds = {}
    delivered = panics_seen = drops_seen = 0
    for sid, e in ends.items():
        delivered += e["delivered"]
        panics_seen += e["panics"]
        drops_seen += e["drops"]
        if e["drift"]:
            drift_kinds[e["drift"]] = drift_kinds.get(e["drift"], 0) + 1
    for sid, vs in sorted(viols.items()):
        s = byid[sid]
        for o in vs:
            verdict.violation(fr_signature(s, o["mon"]),
                              "monitor %s is false on the real transport in scenario %d (fault %s, victim %d%s): %s" % (
                                  o["mon"], sid, s["fault"], s["victim"], ", flood" if s["flood"] else "", o["detail"]),
                              dict(property=pid, kind="fr", monitor=o["mon"], scenario=s, real_trace=fr_lines(s, traces[sid])[:3000]))
    clean = [s for s in scs if s["id"] not in viols and not ends[s["id"]]["drift"] and ends[s["id"]]["complete"]]
    nself = fr_selftest(pid, clean, traces, wd) if only is None and not verdict.violations else 0
    for k, v in sorted(drift_kinds.items()):
        print("DRIFT property=%s count=%d kind=%s" % (pid, v, k))
    rc = verdict.finish()
    if only is not None:
        return rc
    sizes = sorted(set(m["size"] for s in scs for p in s["progs"] for m in p["msgs"]))
    combos = sorted(set((m["ty"], m["topic"]) for s in scs for p in s["progs"] for m in p["msgs"]))
    sample_s = next(s for s in scs if s["fault"] == "garble")
    vlib.write_evidence(pid, "model_checking", dict(
        states=max(sum(r.distinct for _, r in mres), 1), transitions=max(sum(r.generated for _, r in mres), 1),
        traces_validated_against_impl=len(ends) - len(skipped),
        samples=[dict(scenario={k: sample_s[k] for k in ("fault", "victim", "dom", "raw")}, goroutines=len(sample_s["progs"]),
                      first_events=fr_lines(sample_s, traces[sample_s["id"]])[:12])],
        exhaustive=False,
        configs=[dict(part="fr", QCap=c["QCap"], WCap=c["WCap"], faults=FAULTS, program_sets=len(c["Progs"]), distinct_states=r.distinct,
                      states_generated=r.generated, depth=r.depth, wall_s=round(r.wall, 1)) for c, r in mres],
        coverage_zero_actions=sorted(set(a for _, r in mres for a in r.coverage_zero if a not in HS_ACTIONS)),
        frame_length_vectors_checked=len(VECTORS),
        scenario_shapes=len(shapes), shapes_reaching_enqueue_timeout_in_model=len(panics), scenarios=len(scs),
        scenarios_by_fault={f: sum(1 for s in scs if s["fault"] == f) for f in sorted(set(s["fault"] for s in scs))},
        flood_scenarios=sum(1 for s in scs if s["flood"]), payload_sizes=sizes, type_topic_combinations=[list(c) for c in combos],
        real_events=nlines, real_deliveries=delivered, real_panics=panics_seen, real_enqueue_timeouts_reported=drops_seen, retried_alone=retried, skipped_inconclusive=skipped,
        drift_kinds=drift_kinds, selftest_corrupted_traces_detected=nself, monitors=FR_MONITORS, known_findings_seen=sorted(verdict.known_seen),
        rule="scenario = model shape (fault x victim x goroutine programs, enumerated by TLC) concretised with rotating boundary payload sizes "
             "and every legal type/topic combination, 4 real parties over loopback TLS, 2-3 sending goroutines on node 1 plus concurrent "
             "traffic of the other parties; flood scenarios drive the queue of a down / stalled peer to its capacity and through the enqueue timeout, "
             "then send one message to the unresponsive AND a healthy peer",
    ), [
        "TLS / TCP deliver a connection's bytes in order and unmodified",
        "a peer that is down or stalled for the whole run receives nothing; exactly-once is demanded for peers that are up (or come up late)",
        "a copy that Send reports as timed out (full queue for 10 s) was not accepted for sending; it is identified by the report through "
        "the injected Logger and exempted from Delivered; the other copies of that Send call are demanded",
        "20 MiB payloads in the thorough tier only; the 10 s enqueue timeout is reached by the flood scenarios",
        "a delivery missing at the deadline (60 s) is re-checked once with the scenario run alone before it counts",
    ], violations=len(verdict.violations))
    return rc


def run(pid):
    if pid == "C16":
        return run_c16(pid)
    if pid == "C17":
        return run_c17(pid)
    raise vlib.CheckError("eng_net serves C16 and C17")


def replay(pid, path):
    with open(path) as f:
        o = json.load(f)
    if o.get("kind") == "hs":
        return run_c16(pid, only_cases=[o["case"]])
    if o.get("kind") == "fr":
        s = o["scenario"]
        s["id"] = 0
        return run_c17(pid, only=[s])
    raise vlib.CheckError("not a replay file of the net engine")


if __name__ == "__main__":
    vlib.main_wrapper(lambda: run(sys.argv[1]))
