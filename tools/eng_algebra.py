"""Algebra engine: property C18 (secret sharing algebra: any t shares reconstruct; all t-subsets cross-checked).

 1. TLC checks the laws of spec/Algebra.tla (module AlgebraMC) in GF(q), q in {7, 11, 13, 46337}, for all 2 <= t <= n <= MaxN:
    ChooseSeq (transcribed from choose.go) enumerates every k-subset exactly once; for every polynomial of degree < t (all q^t of
    them while q <= 13 and q^t <= FullMax; unit polynomials, the all-(q-1) polynomial and a seeded sample otherwise) EVERY subset of at least t
    points reconstructs P(0); the all-subsets cross-check accepts keys on one polynomial and detects a single off-polynomial key
    at EVERY position exactly when t < n (t = n: one subset only, inherently undetectable); the Lagrange coefficients as exact
    rationals interpolate exactly.  It prints the vectors: ChooseSeq(n, k), Lagrange num/den, the DKG case list with verdicts.
 2. drv algebra executes every vector / case on the REAL code (both copies, mpc/bls and mpc/ps): chooseKoutOfN,
    lagrangeCoefficient, SSS.Gen + Shares.reconstruct over all subsets, and -- public API only -- real DKGs (TBLS / TPS) with all
    parties real or with one party played by the harness (on / off the polynomial), followed by aggregation + verification of the
    partial signatures of every subset under the reported threshold key.
 3. TLC validates the recorded results against spec/AlgebraTrace.tla, which recomputes every expected value and evaluates the
    C18 monitors (VIOL), conformance differences (DRIFT) and harness inconsistencies (BAD -> error).
 4. Self-test (anti-vacuity, every run): accepted records are corrupted one field at a time and the trace specification must
    report each of them.
"""
import itertools
import json
import os
import random
import sys

sys.path.insert(0, os.path.dirname(os.path.abspath(__file__)))
import vlib
from vlib import log

PRIMES = [7, 11, 13, 46337]
MODELQ = 46337
SPEC_FILES = ["Algebra.tla", "AlgebraMC.tla", "AlgebraTrace.tla"]
MC_INVARIANTS = ["ChooseLaws", "ChooseEarlyReturn", "RationalLaw", "FieldLagrangeLaw", "ReconstructLaw", "AcceptLaw", "DetectLaw",
                 "TranscriptionLaw", "BelowThresholdLaw"]


def params(tr):
    if tr == "quick":
        return dict(MaxN=6, VecN=8, FullMax=1400, nsample=4, RecN=8, rec_reps=2, DkgN=5, dkg_reps=2, ps_all_subsets_n=5, ps_sample=10, workers=8)
    return dict(MaxN=6, VecN=8, FullMax=120000, nsample=12, RecN=8, rec_reps=8, DkgN=6, dkg_reps=8, ps_all_subsets_n=6, ps_sample=0, workers=8)


def tla_seq(xs):
    return "<<" + ", ".join(tla_seq(x) if isinstance(x, (list, tuple)) else str(x) for x in xs) + ">>"


# ------------------------------------------------------------------------------------------------------------------------------
# step 1: laws + vectors

def tlc_laws(wd, p, rng):
    sample = [[rng.randrange(0, MODELQ) for _ in range(max(p["VecN"], 8))] for _ in range(p["nsample"])]
    with open(os.path.join(wd, "MC_algebra.tla"), "w") as f:
        f.write("---- MODULE MC_algebra ----\nEXTENDS AlgebraMC\nc_Primes == {%s}\nc_Sample == %s\n====\n"
                % (", ".join(map(str, PRIMES)), tla_seq(sample)))
    with open(os.path.join(wd, "MC_algebra.cfg"), "w") as f:
        f.write("CONSTANTS Primes <- c_Primes MaxN = %d VecN = %d FullMax = %d Sample <- c_Sample ModelQ = %d\nINIT Init\nNEXT Next\n"
                "INVARIANTS %s\n" % (p["MaxN"], p["VecN"], p["FullMax"], MODELQ, " ".join(MC_INVARIANTS)))
    r = vlib.run_tlc("MC_algebra", "MC_algebra.cfg", SPEC_FILES[:2], workdir=wd, timeout=1500, keep_prints=["CHOOSE", "LAG", "DKGC"])
    if r.violation:
        raise vlib.CheckError("a law of spec/Algebra.tla is violated in the specification itself (%s); this is not a verdict about "
                              "the code:\n%s" % (r.violation, "\n".join(r.error_trace)[:3000]))
    choose = [o for (t, o) in r.prints if t == "CHOOSE"]
    lag = [o for (t, o) in r.prints if t == "LAG"]
    dkgc = [o for (t, o) in r.prints if t == "DKGC"]
    if not choose or not lag or not dkgc:
        raise vlib.CheckError("AlgebraMC printed no vectors")
    # the polynomial ModelVerdict used (same formula as AlgebraMC.EmitVectors)
    modelp = [(c % (MODELQ - 1)) + 1 for c in sample[0]]
    return r, choose, lag, dkgc, modelp, sample


# ------------------------------------------------------------------------------------------------------------------------------
# step 2: job for the driver

def subsets_at_least(n, lo):
    res = []
    for k in range(lo, n + 1):
        res += [list(c) for c in itertools.combinations(range(1, n + 1), k)]
    return res


def rec_subsets(n, t, rng):
    """every subset of size >= t, plus (canaries, conformance only) those of size t-1 when that is at least 2; a third of them in a
    seeded order of the points (the order given to reconstruct must not matter)"""
    subs = subsets_at_least(n, max(2, t - 1))
    out = []
    for i, s in enumerate(subs):
        s = list(s)
        if i % 3 == 1:
            rng.shuffle(s)
        out.append(s)
    return out


def build_job(p, choose, lag, dkgc, rng):
    job = dict(workers=p["workers"], seed=rng.randrange(1 << 30), timeout_ms=60000)
    job["choose"] = [dict(n=c["n"], k=c["k"]) for c in choose]
    job["lag"] = [dict(pts=c["pts"], i=c["i"], num=c["num"], den=c["den"]) for c in lag]
    rec = []
    for pkg in ("bls", "ps"):
        for n in range(2, p["RecN"] + 1):
            for t in range(2, n + 1):
                for mode in ("crypto", "seeded", "small"):
                    for _ in range(p["rec_reps"]):
                        rec.append(dict(pkg=pkg, mode=mode, n=n, t=t, subs=rec_subsets(n, t, rng), exh=True, seed=rng.randrange(1 << 30),
                                        cmax=999 if n <= 6 else 99))
    job["rec"] = rec
    dkg = []
    for scheme in ("bls", "ps"):
        for rep in range(p["dkg_reps"]):
            for c in dkgc:
                n, t = c["n"], c["t"]
                if n > p["DkgN"]:
                    continue
                case = dict(scheme=scheme, n=n, t=t, pos=c["pos"], off=c["off"], expect=c["expect"], comp=0, ids=[], subs=[], exh=False,
                            msglen=1, seed=rng.randrange(1 << 30))
                if scheme == "bls" and (rep % 2 == 1 or rng.random() < 0.3):
                    # TBLS / bls.Verifier take evaluation points from the POSITION in the party list: any ascending identifiers do
                    case["ids"] = sorted(rng.sample(range(1, 2000), n))
                if scheme == "ps":
                    case["msglen"] = 1 + (rep + n) % 2
                    case["comp"] = rng.randrange(0, case["msglen"] + 2)     # which component of the PS key is moved off
                if not c["off"]:
                    allsubs = subsets_at_least(n, max(2, t - 1))
                    if scheme == "bls" or n <= p["ps_all_subsets_n"]:
                        case["subs"], case["exh"] = allsubs, True
                    else:
                        must = [s for s in allsubs if len(s) == n]
                        rest = [s for s in allsubs if len(s) != n]
                        rng.shuffle(rest)
                        case["subs"] = must + rest[:p["ps_sample"]]
                dkg.append(case)
    job["dkg"] = dkg
    return job


def job_fragments(job):
    """record index (0-based, in the order the driver emits) -> job fragment that reproduces that record"""
    frags = []
    for pkg in ("bls", "ps"):
        for c in job["choose"]:
            frags.append(dict(choose=[c]))
    for pkg in ("bls", "ps"):
        for c in job["lag"]:
            frags.append(dict(lag=[c]))
            frags.append(dict(lag=[c]))
    for c in job["rec"]:
        frags.append(dict(rec=[c]))
    for c in job["dkg"]:
        frags.append(dict(dkg=[c]))
    return frags


# ------------------------------------------------------------------------------------------------------------------------------
# steps 2-3: run the real code, validate with TLC

def run_driver(drv, job, wd, name):
    jp = os.path.join(wd, name + ".job.json")
    with open(jp, "w") as f:
        json.dump(job, f)
    outp = os.path.join(wd, name + ".ndjson")
    last = None
    for attempt in range(2):
        rc, _, err = vlib.run_driver(drv, ["algebra"], stdin_path=jp, timeout=1500, stdout_path=outp)
        if rc == 0:
            break
        last = err
        log("algebra driver failed (attempt %d): %s" % (attempt + 1, err[-500:]))
    else:
        raise vlib.CheckError("algebra driver failed: %s" % last)
    recs = []
    with open(outp) as f:
        for line in f:
            if line.strip():
                recs.append(json.loads(line))
    return recs, outp


def validate(wd, trace_path, modelp, name):
    with open(os.path.join(wd, "AT_%s.tla" % name), "w") as f:
        f.write("---- MODULE AT_%s ----\nEXTENDS AlgebraTrace\nc_P == %s\n====\n" % (name, tla_seq(modelp)))
    with open(os.path.join(wd, "AT_%s.cfg" % name), "w") as f:
        f.write('CONSTANTS TraceFile = "%s" ModelQ = %d ModelP <- c_P\nINIT TInit\nNEXT TNext\n' % (os.path.basename(trace_path), MODELQ))
    r = vlib.run_tlc("AT_%s" % name, "AT_%s.cfg" % name, SPEC_FILES, workdir=wd, workers=1, timeout=1500,
                     keep_prints=["VIOL", "DRIFT", "BAD", "END"])
    if r.violation:
        raise vlib.CheckError("trace validation stopped: %s\n%s" % (r.violation, r.out[-2000:]))
    return r


def expected_counts(job):
    return dict(choose=2 * len(job.get("choose", [])), lag=4 * len(job.get("lag", [])), rec=len(job.get("rec", [])), dkg=len(job.get("dkg", [])))


def execute(drv, job, wd, modelp, name, retry_unusable=True):
    """run the job on the real code and validate; returns (records, tlc result, viols, drifts)"""
    recs, path = run_driver(drv, job, wd, name)
    want = expected_counts(job)
    got = {}
    for r in recs:
        got[r["k"]] = got.get(r["k"], 0) + 1
    for k, v in want.items():
        if got.get(k, 0) != v:
            raise vlib.CheckError("algebra driver returned %d %s records, expected %d" % (got.get(k, 0), k, v))
    # load-sensitive part: a DKG that timed out (60 s for a run that takes milliseconds) is re-run once alone (systemic timeouts are not)
    unusable = [i for i, r in enumerate(recs) if r["k"] == "dkg" and (r["timeout"] or r["harness"])]
    if unusable and len(unusable) <= 3 and retry_unusable:
        frags = job_fragments(job)
        for i in unusable:
            log("re-running unusable DKG case alone: %s" % json.dumps(frags[i])[:300])
            sub = dict(workers=1, seed=job["seed"], timeout_ms=job["timeout_ms"])
            sub.update(frags[i])
            r2, _ = run_driver(drv, sub, wd, "%s.retry%d" % (name, i))
            r2[0]["id"] = recs[i]["id"]
            recs[i] = r2[0]
        with open(path, "w") as f:
            for r in recs:
                f.write(json.dumps(r) + "\n")
    if os.environ.get("VERIF_ALG_INJECT") and name == "main":
        inject(recs, os.environ["VERIF_ALG_INJECT"])
        with open(path, "w") as f:
            for r in recs:
                f.write(json.dumps(r) + "\n")
    tr = validate(wd, path, modelp, name)
    ends = [o for (t, o) in tr.prints if t == "END"]
    if len(ends) != 1 or ends[0]["n"] != len(recs):
        raise vlib.CheckError("trace validation did not reach the end of the %d records: %s" % (len(recs), tr.out[-1500:]))
    bad = [o for (t, o) in tr.prints if t == "BAD"]
    viols = [o for (t, o) in tr.prints if t == "VIOL"]
    drifts = [o for (t, o) in tr.prints if t == "DRIFT"]
    if bad:
        byid = {r["id"]: r for r in recs}
        msg = "harness results not usable (%d): %s" % (len(bad), "; ".join(
            "%s [%s]" % (b["what"], json.dumps(byid.get(b["id"], {}))[:400]) for b in bad[:3]))
        badids = {b["id"] for b in bad}
        viols = [v for v in viols if v["id"] not in badids]
        if not viols:
            raise vlib.CheckError(msg)
        # monitors that are false on OTHER, usable records of real behaviour stand on their own
        log("WARNING " + msg)
    return recs, tr, viols, drifts


def inject(recs, what):
    """DEVELOPMENT ONLY (end-to-end test of the verdict path, never set in a real check): falsify one recorded real result so that the
    run must end with VIOLATION / exit 1; the written replay file, re-executed on the real code, must then show no violation."""
    print("WARNING: VERIF_ALG_INJECT=%s -- one recorded result is falsified on purpose, the verdict of this run is meaningless" % what)
    for r in recs:
        if what == "choose" and r["k"] == "choose" and r["n"] == 5 and r["kk"] == 3 and r["pkg"] == "ps":
            r["seq"] = r["seq"][:4] + r["seq"][5:]
            return
        if what == "lag" and r["k"] == "lag" and r["pts"] == [1, 3, 4] and r["i"] == 3:
            r["num"], r["match"] = r["num"] + 1, False
            return
        if what == "rec" and r["k"] == "rec" and r["n"] == 5 and r["t"] == 3 and r["mode"] == "crypto":
            r["eqs"][-1] = False
            return
        if what == "accept" and r["k"] == "dkg" and r["n"] == 4 and r["t"] == 3 and r["pos"] == 2 and not r["off"]:
            r["errs"][0], r["errtxt"] = True, "injected"
            return
        if what == "aggregate" and r["k"] == "dkg" and r["n"] == 4 and r["t"] == 2 and r["signed"] and r["scheme"] == "ps":
            r["oks"][3] = False
            return
        if what == "detect" and r["k"] == "dkg" and r["n"] == 4 and r["t"] == 3 and r["pos"] == 4 and r["off"]:
            r["errs"] = [False] * len(r["errs"])
            return
    raise vlib.CheckError("VERIF_ALG_INJECT: nothing to falsify for %r" % what)


def describe(v):
    d = v.get("detail", {})
    m = v["mon"]
    if m == "ChooseCoversEveryKSubset":
        return "real chooseKoutOfN(%s, %s) does not enumerate exactly the k-subsets of 1..n: %s missing, %s foreign %s" % (
            d.get("n"), d.get("k"), d.get("missing"), d.get("foreign"), d.get("panic") or "")
    if m == "LagrangeCoefficient":
        return "real lagrangeCoefficient(%s, %s) = %s/%s (0x%s), the interpolating coefficient is %s/%s %s" % (
            d.get("i"), d.get("pts"), d.get("got", [0, 0])[0], d.get("got", [0, 0])[1], d.get("value"), d.get("want", [0, 0])[0],
            d.get("want", [0, 0])[1], d.get("panic") or "")
    if m == "ReconstructsDealtSecret":
        return "shares dealt by the real SSS.Gen (n=%s, t=%s, %s reader) do not reconstruct the dealt secret from the points %s %s" % (
            d.get("n"), d.get("t"), d.get("mode"), d.get("pts"), d.get("panic") or "")
    if m == "OnPolynomialKeysAccepted":
        return "real DKG n=%s t=%s (harness party at position %s, on the polynomial) was not accepted by every party: %s" % (
            d.get("n"), d.get("t"), d.get("pos"), d.get("err"))
    if m == "SharesAggregateToThresholdKey":
        return "after a real DKG n=%s t=%s the partial signatures of the subsets %s do not aggregate to a signature under the reported " \
               "threshold key %s" % (d.get("n"), d.get("t"), d.get("failing"), d.get("err") or "")
    if m == "OffPolynomialKeyDetected":
        return "real DKG n=%s t=%s: the party at position %s revealed a key off the common polynomial and was %s" % (
            d.get("n"), d.get("t"), d.get("pos"), d.get("err"))
    return json.dumps(v)


# ------------------------------------------------------------------------------------------------------------------------------
# step 4: self-test of the monitors

def selftest(wd, recs, modelp):
    """corrupt accepted records one field at a time; the trace specification must report every one of them"""
    def first(pred):
        for r in recs:
            if pred(r):
                return json.loads(json.dumps(r))
        return None
    muts = []   # (record, expected monitor)

    r = first(lambda r: r["k"] == "choose" and r["kk"] >= 2 and r["n"] > r["kk"])
    if r:
        r["seq"] = r["seq"][:-1]
        muts.append((r, "ChooseCoversEveryKSubset"))
    r = first(lambda r: r["k"] == "choose" and r["kk"] >= 2 and r["n"] > r["kk"] and r["pkg"] == "ps")
    if r:
        r["seq"][0] = r["seq"][1]
        muts.append((r, "ChooseCoversEveryKSubset"))
    r = first(lambda r: r["k"] == "lag" and len(r["pts"]) >= 3)
    if r:
        r["num"], r["match"] = -r["num"], False
        muts.append((r, "LagrangeCoefficient"))
    r = first(lambda r: r["k"] == "lag" and r["pkg"] == "ps" and r["den"] > 1)
    if r:
        r["den"], r["match"] = r["den"] + 1, False
        muts.append((r, "LagrangeCoefficient"))
    for mode in ("crypto", "seeded"):
        r = first(lambda r: r["k"] == "rec" and r["mode"] == mode and r["n"] >= 4)
        if r:
            m = max(i for i, s in enumerate(r["subs"]) if len(s) >= r["t"])
            r["eqs"][m] = False
            muts.append((r, "ReconstructsDealtSecret"))
    for scheme in ("bls", "ps"):
        r = first(lambda r: r["k"] == "dkg" and r["scheme"] == scheme and r["expect"] == "accept" and r["signed"])
        if r:
            r["errs"][0] = True
            muts.append((r, "OnPolynomialKeysAccepted"))
        r = first(lambda r: r["k"] == "dkg" and r["scheme"] == scheme and r["expect"] == "accept" and r["signed"] and r["pos"] > 0)
        if r:
            m = max(i for i, s in enumerate(r["subs"]) if len(s) >= r["t"])
            r["oks"][m] = False
            muts.append((r, "SharesAggregateToThresholdKey"))
        r = first(lambda r: r["k"] == "dkg" and r["scheme"] == scheme and r["expect"] == "detect")
        if r:
            r["errs"][-1] = False
            muts.append((r, "OffPolynomialKeyDetected"))
    if len(muts) < 10:
        raise vlib.CheckError("self-test could not build its corrupted records (%d)" % len(muts))
    path = os.path.join(wd, "selftest.ndjson")
    with open(path, "w") as f:
        for i, (r, _) in enumerate(muts):
            r["id"] = i + 1
            f.write(json.dumps(r) + "\n")
    tr = validate(wd, path, modelp, "selftest")
    seen = {(o["id"], o["mon"]) for (t, o) in tr.prints if t == "VIOL"}
    missed = [(i + 1, mon) for i, (_, mon) in enumerate(muts) if (i + 1, mon) not in seen]
    if missed:
        raise vlib.CheckError("self-test: the trace specification did not report corrupted records %s" % missed)
    return len(muts), tr


# ------------------------------------------------------------------------------------------------------------------------------

def summarise(recs):
    s = dict(choose=0, lag=0, dealings=0, reconstructions=0, dkg_runs=0, dkg_with_harness_party=0, dkg_off_polynomial=0,
             dkg_detected=0, dkg_undetectable_t_eq_n=0, aggregations=0, below_threshold_canaries=0)
    for r in recs:
        if r["k"] == "choose":
            s["choose"] += 1
        elif r["k"] == "lag":
            s["lag"] += 1
        elif r["k"] == "rec":
            s["dealings"] += 1
            s["reconstructions"] += sum(1 for x in r["subs"] if len(x) >= r["t"])
            s["below_threshold_canaries"] += sum(1 for x in r["subs"] if len(x) < r["t"])
        elif r["k"] == "dkg":
            s["dkg_runs"] += 1
            s["dkg_with_harness_party"] += 1 if r["pos"] > 0 else 0
            if r["off"]:
                s["dkg_off_polynomial"] += 1
                if r["expect"] == "detect" and all(r["errs"]):
                    s["dkg_detected"] += 1
                if r["expect"] == "undetectable":
                    s["dkg_undetectable_t_eq_n"] += 1
            s["aggregations"] += sum(1 for x in r["subs"] if len(x) >= r["t"])
            s["below_threshold_canaries"] += sum(1 for x in r["subs"] if len(x) < r["t"])
    return s


def slim(r):
    r = dict(r)
    for k in ("subs", "eqs", "oks", "recs"):
        if k in r and len(r[k]) > 6:
            r[k] = r[k][:6] + ["... %d more" % (len(r[k]) - 6)]
    return r


def run(pid):
    tr = vlib.tier()
    p = params(tr)
    wd = vlib.scratch(pid)
    rng = random.Random(vlib.seed())
    verdict = vlib.Verdict(pid)

    mc, choose, lag, dkgc, modelp, sample = tlc_laws(wd, p, rng)
    log("laws: %r; vectors: %d choose, %d lagrange, %d dkg cases" % (mc, len(choose), len(lag), len(dkgc)))
    job = build_job(p, choose, lag, dkgc, rng)
    drv = vlib.build_harness()
    recs, tv, viols, drifts = execute(drv, job, wd, modelp, "main")
    log("real code: %d records validated by TLC (%r): %d violations, %d drift" % (len(recs), tv, len(viols), len(drifts)))
    frags = job_fragments(job)
    byid = {r["id"]: (i, r) for i, r in enumerate(recs)}
    for v in viols:
        i, r = byid[v["id"]]
        frag = dict(frags[i])
        verdict.violation(v["sig"], "%s: %s" % (v["mon"], describe(v)),
                          dict(property=pid, kind="algebra", monitor=v["mon"], signature=v["sig"], detail=v.get("detail"),
                               job=dict(frag, seed=job["seed"], workers=1, timeout_ms=job["timeout_ms"]), modelp=modelp, record=slim(r)))
    kinds = {}
    for d in drifts:
        kinds[d["kind"]] = kinds.get(d["kind"], 0) + 1
    for k, n in sorted(kinds.items()):
        print("DRIFT property=%s count=%d kind=%s" % (pid, n, k))
    nmut, st = selftest(wd, recs, modelp)
    log("self-test: %d corrupted records, all reported by the trace specification" % nmut)

    rcode = verdict.finish()
    s = summarise(recs)
    samples = []
    for pred in (lambda r: r["k"] == "choose" and r["n"] == 4 and r["kk"] == 2,
                 lambda r: r["k"] == "lag" and len(r["pts"]) == 4 and r["den"] > 1,
                 lambda r: r["k"] == "rec" and r["mode"] == "small" and r["n"] == 4 and r["t"] == 3,
                 lambda r: r["k"] == "rec" and r["mode"] == "crypto" and r["n"] == 5 and r["t"] == 2,
                 lambda r: r["k"] == "dkg" and r["off"] and r["expect"] == "detect" and r["n"] == 4,
                 lambda r: r["k"] == "dkg" and r["off"] and r["expect"] == "undetectable" and r["scheme"] == "ps",
                 lambda r: r["k"] == "dkg" and r["signed"] and r["pos"] > 0 and r["n"] == 4 and r["t"] == 3):
        for r in recs:
            if pred(r):
                samples.append(slim(r))
                break
    if not samples:
        samples.append(slim(recs[0]))
    vlib.write_evidence(pid, "model_checking", dict(
        states=max(mc.distinct + tv.distinct + st.distinct, 1),
        transitions=max(mc.generated + tv.generated + st.generated, 1),
        traces_validated_against_impl=len(recs),
        samples=samples,
        exhaustive=False,
        exhaustive_parts="complete: every (n,k) with n <= %d, every (S,i) with S in 1..%d, every (n,t,position,on/off) DKG case with n <= %d, "
                         "every subset of >= t points per dealing (n <= %d) and per BLS DKG; sampled: polynomials (random by nature)"
                         % (p["VecN"], p["VecN"], p["DkgN"], p["RecN"]),
        configs=dict(primes=PRIMES, MaxN=p["MaxN"], VecN=p["VecN"], FullMax=p["FullMax"], DkgN=p["DkgN"], RecN=p["RecN"], sample_polynomials=len(sample), model_field=MODELQ,
                     invariants=MC_INVARIANTS),
        model_states=mc.distinct, trace_states=tv.distinct,
        counts=s, drift=kinds, drift_records=len(drifts), selftest_corruptions_detected=nmut,
        known_findings_seen=sorted(verdict.known_seen),
        rule="TLC: laws of spec/Algebra.tla over GF(7,11,13,46337) for all 2<=t<=n<=MaxN (every polynomial of degree < t over GF(q), q<=13, while q^t<=FullMax, "
             "else unit/extreme/seeded polynomials), every subset, every position of one off-polynomial key; code: every vector and case "
             "executed on mpc/bls and mpc/ps (chooseKoutOfN, lagrangeCoefficient, SSS.Gen+reconstruct, real DKGs through the public API "
             "with aggregation of every subset); TLC (AlgebraTrace) recomputes every expected value from the recorded results",
    ), [
        "group elements are modelled by their discrete logarithms in small prime fields; bn254 arithmetic, pairings, hashing and ASN.1 "
        "are evaluated by the real library only and compared with the model's verdict per case",
        "a random polynomial identity of degree < t over the 254-bit field is decided by one random evaluation up to probability 2^-240",
        "for t = n the cross-check has a single t-subset and cannot detect an off-polynomial key (inherent; reported as 'undetectable', "
        "not demanded)",
        "DKG runs use an in-memory router with synchronous delivery (as the repository's own tests); schedules, faults and "
        "Byzantine strategies other than one off-polynomial reveal belong to C01/C05/C11",
        "PS prover evaluation points are the party identifiers, so PS runs use identifiers 1..n",
    ], violations=len(verdict.violations))
    return rcode


def replay(pid, path):
    with open(path) as f:
        o = json.load(f)
    if o.get("kind") != "algebra" or "job" not in o:
        raise vlib.CheckError("not an algebra replay file: %s" % path)
    wd = vlib.scratch(pid + "r")
    verdict = vlib.Verdict(pid)
    drv = vlib.build_harness()
    job = o["job"]
    recs, tv, viols, drifts = execute(drv, job, wd, o["modelp"], "replay")
    for r in recs:
        print("record: %s" % json.dumps(slim(r)))
    for v in viols:
        verdict.violation(v["sig"], "%s: %s" % (v["mon"], describe(v)), dict(o, record=slim(recs[0])))
    for d in drifts:
        print("DRIFT property=%s count=1 kind=%s" % (pid, d["kind"]))
    if not viols:
        print("replay: no monitor is violated by this case on the current tree")
    return verdict.finish()


if __name__ == "__main__":
    if len(sys.argv) >= 4 and sys.argv[2] == "--replay":
        vlib.main_wrapper(lambda: replay(sys.argv[1], sys.argv[3]))
    else:
        vlib.main_wrapper(lambda: run(sys.argv[1]))
