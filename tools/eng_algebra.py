"""Algebra engine: property C18 (secret sharing algebra: any t shares reconstruct; all t-subsets cross-checked).

 1. TLC checks the laws of spec/Algebra.tla (module AlgebraMC) in GF(q), q in {7, 11, 13, 46337}, for all 2 <= t <= n <= MaxN:
    ChooseSeq (transcribed from choose.go) enumerates every k-subset exactly once; for every polynomial of degree < t (all q^t of
    them while q <= 13 and q^t <= FullMax; unit polynomials, the all-(q-1) polynomial and a seeded sample otherwise) EVERY subset of at least t
    points reconstructs P(0); the all-subsets cross-check accepts keys on one polynomial and detects a single off-polynomial key
    at EVERY position exactly when t < n (t = n: one subset only, inherently undetectable); the Lagrange coefficients as exact
    rationals interpolate exactly.  It prints the vectors: ChooseSeq(n, k), Lagrange num/den, the DKG case list with verdicts.
 2. drv algebra executes every vector / case on the REAL code (both copies, mpc/bls and mpc/ps): chooseKoutOfN,
    lagrangeCoefficient, SSS.Gen + Shares.reconstruct over all subsets, and -- public API only -- real DKGs (TBLS / TPS) with all
    parties real or with one party played by the harness (on / off the polynomial), followed by aggregation + verification of the
    partial signatures of every subset under the reported threshold key.
 3. TLC validates the recorded results against spec/AlgebraTrace.tla, which recomputes every expected value and evaluates the
    C18 monitors (VIOL), conformance differences (DRIFT) and harness inconsistencies (BAD -> error).
 4. Self-test (anti-vacuity, every run): accepted records are corrupted one field at a time and the trace specification must
    report each of them.
"""
import itertools
import json
import os
import random
import sys

sys.path.insert(0, os.path.dirname(os.path.abspath(__file__)))
import vlib
from vlib import log

PRIMES = [7, 11, 13, 46337]
MODELQ = 46337
SPEC_FILES = ["Algebra.tla", "AlgebraMC.tla", "AlgebraTrace.tla"]
MC_INVARIANTS = ["ChooseLaws", "ChooseEarlyReturn", "RationalLaw", "FieldLagrangeLaw", "ReconstructLaw", "AcceptLaw", "DetectLaw",
                 "TranscriptionLaw", "BelowThresholdLaw", "MomentLaw", "BigMomentLaw", "BigSetsOK", "HelperLaws", "SeqLaws"]


BIGQ = 257     # prime > every n of the large DKGs: field of the verdict model for those


def params(tr):
    if tr == "quick":
        return dict(MaxN=6, VecN=8, FullMax=1400, nsample=4, RecN=8, rec_reps=2, DkgN=5, dkg_reps=2, ps_all_subsets_n=5, ps_sample=10, workers=8,
                    big_sizes=[2, 3, 5, 8, 13, 16, 20, 21, 22, 32, 48, 64], rand_sizes=[4, 17, 21, 22, 33, 64],
                    big_nt=[(24, 22), (32, 17), (40, 40)], big_dkg=[(22, 21), (40, 40)], seq_plans=[(4, 3, 5, 2), (3, 2, 4, 4)], seq_reps=2,
                    big_choose=[(n, k) for n in (12, 16) for k in range(0, n + 2)] +
                               [(20, 10), (21, 20), (22, 21), (22, 11), (24, 22), (32, 30), (40, 39), (40, 38), (64, 2), (64, 62), (256, 2), (256, 254)])
    return dict(MaxN=6, VecN=8, FullMax=120000, nsample=12, RecN=8, rec_reps=8, DkgN=6, dkg_reps=8, ps_all_subsets_n=6, ps_sample=0, workers=8,
                big_sizes=list(range(2, 65)) + [65, 96, 128, 200, 256], rand_sizes=[3, 9, 16, 17, 20, 21, 22, 23, 40, 64, 100, 150, 256],
                big_nt=[(21, 21), (22, 21), (24, 22), (32, 17), (40, 40), (64, 33), (100, 67), (256, 171)],
                big_dkg=[(21, 21), (22, 21), (24, 22), (40, 40)], seq_plans=[(4, 3, 5, 2), (3, 2, 4, 4), (5, 3, 4, 2), (5, 4, 3, 3), (4, 2, 6, 3)], seq_reps=6,
                big_choose=[(n, k) for n in range(9, 21) for k in range(0, n + 2)] +
                           [(21, 20), (22, 21), (22, 11), (23, 11), (24, 22), (26, 24), (32, 30), (32, 3), (40, 39), (40, 38), (64, 2), (64, 62), (100, 98),
                            (256, 2), (256, 254), (256, 255)])


def binom(n, k):
    if k < 0 or k > n:
        return 0
    r = 1
    for i in range(1, min(k, n - k) + 1):
        r = r * (n - i + 1) // i
    return r


def big_constants(p, rng):
    """the LARGE cases the model is asked to demand (AlgebraMC turns them into its case list, AlgebraTrace checks completeness)"""
    rands = []
    for s in p["rand_sizes"]:
        rands.append(sorted(rng.sample(range(1, 65536), s)))            # sparse over the whole identifier range
        rands.append(sorted(rng.sample(range(1, 3 * s + 1), s)))        # dense
    for (n, k) in p["big_choose"]:
        if binom(n, k) * max(n, 1) >= 1 << 31 or binom(n, k) > 3000000:
            raise vlib.CheckError("large choose case (%d,%d) is not affordable" % (n, k))
    return dict(sizes=sorted(p["big_sizes"]), randsets=rands, nt=[list(x) for x in p["big_nt"]], dkg=[list(x) for x in p["big_dkg"]],
                choose=[list(x) for x in p["big_choose"]], seq=[list(x) for x in p["seq_plans"]], seq_schemes=["bls", "ps"])


def tla_set(xs):
    return "{" + ", ".join(tla_seq(x) if isinstance(x, (list, tuple)) else str(x) for x in xs) + "}"


def big_defs(big):
    return ("c_BigSizes == %s\nc_RandSets == %s\nc_BigNT == %s\nc_BigDkg == %s\nc_BigChoose == %s\nc_SeqPlans == %s\nc_SeqSchemes == {%s}\n"
            % (tla_set(big["sizes"]), tla_seq(big["randsets"]), tla_set(big["nt"]), tla_set(big["dkg"]), tla_set(big["choose"]),
               tla_set(big.get("seq", [])), ", ".join('"%s"' % x for x in big.get("seq_schemes", []))))


BIG_CFG = ("BigSizes <- c_BigSizes RandSets <- c_RandSets BigNT <- c_BigNT BigDkg <- c_BigDkg BigChoose <- c_BigChoose BigQ = %d "
           "SeqPlans <- c_SeqPlans" % BIGQ)
NO_BIG = dict(sizes=[], randsets=[], nt=[], dkg=[], choose=[], seq=[], seq_schemes=[])


def tla_seq(xs):
    return "<<" + ", ".join(tla_seq(x) if isinstance(x, (list, tuple)) else str(x) for x in xs) + ">>"


# ------------------------------------------------------------------------------------------------------------------------------
# step 1: laws + vectors

def tlc_laws(wd, p, rng):
    sample = [[rng.randrange(0, MODELQ) for _ in range(max(p["VecN"], 8))] for _ in range(p["nsample"])]
    big = big_constants(p, rng)
    with open(os.path.join(wd, "MC_algebra.tla"), "w") as f:
        f.write("---- MODULE MC_algebra ----\nEXTENDS AlgebraMC\nc_Primes == {%s}\nc_Sample == %s\n%s====\n"
                % (", ".join(map(str, PRIMES)), tla_seq(sample), big_defs(big)))
    with open(os.path.join(wd, "MC_algebra.cfg"), "w") as f:
        f.write("CONSTANTS Primes <- c_Primes MaxN = %d VecN = %d FullMax = %d Sample <- c_Sample ModelQ = %d\n %s\nINIT Init\nNEXT Next\n"
                "INVARIANTS %s\n" % (p["MaxN"], p["VecN"], p["FullMax"], MODELQ, BIG_CFG, " ".join(MC_INVARIANTS)))
    r = vlib.run_tlc("MC_algebra", "MC_algebra.cfg", SPEC_FILES[:2], workdir=wd, timeout=1500,
                     keep_prints=["CHOOSE", "LAG", "DKGC", "BIGC", "BDEALC", "BCHOOSEC", "SEQC"])
    if r.violation:
        raise vlib.CheckError("a law of spec/Algebra.tla is violated in the specification itself (%s); this is not a verdict about "
                              "the code:\n%s" % (r.violation, "\n".join(r.error_trace)[:3000]))
    vec = {}
    for (t, o) in r.prints:
        vec.setdefault(t, []).append(o)
    for t in ("CHOOSE", "LAG", "DKGC", "BIGC", "BDEALC", "BCHOOSEC", "SEQC"):
        if not vec.get(t):
            raise vlib.CheckError("AlgebraMC printed no %s vectors" % t)
    # deterministic order of the case lists (TLC's workers print in any order)
    vec["DKGC"].sort(key=lambda c: (c["big"], c["n"], c["t"], c["pos"], c["off"]))
    vec["BIGC"].sort(key=lambda c: (c["cls"], len(c["pts"]), c["pts"]))
    vec["BDEALC"].sort(key=lambda c: (c["n"], c["t"]))
    vec["BCHOOSEC"].sort(key=lambda c: (c["n"], c["k"]))
    vec["SEQC"].sort(key=lambda c: c["plan"])
    ctx = dict(modelp=sample[0], big=big)      # what AlgebraTrace needs to recompute verdicts and completeness
    return r, vec, ctx, sample


# ------------------------------------------------------------------------------------------------------------------------------
# step 2: job for the driver

def subsets_at_least(n, lo):
    res = []
    for k in range(lo, n + 1):
        res += [list(c) for c in itertools.combinations(range(1, n + 1), k)]
    return res


def rec_subsets(n, t, rng):
    """every subset of size >= t, plus (canaries, conformance only) those of size t-1 when that is at least 2; a third of them in a
    seeded order of the points (the order given to reconstruct must not matter)"""
    subs = subsets_at_least(n, max(2, t - 1))
    out = []
    for i, s in enumerate(subs):
        s = list(s)
        if i % 3 == 1:
            rng.shuffle(s)
        out.append(s)
    return out


def deal_subsets(n, t, classes, rng):
    """one subset of 1..n per class of Algebra!DealClasses (shapes are re-checked by AlgebraTrace!DealShapeOK)"""
    cl, subs = [], []
    for c in sorted(classes):
        if c == "first":
            pts = list(range(1, t + 1))
        elif c == "last":
            pts = list(range(n - t + 1, n + 1))
        elif c == "all":
            pts = list(range(1, n + 1))
        elif c == "randt":
            pts = sorted(rng.sample(range(1, n + 1), t))
        elif c == "randmore":
            pts = rng.sample(range(1, n + 1), rng.randint(t, n))      # in a seeded order of the points
        elif c == "below":
            pts = list(range(1, t))
            if len(pts) < 2:
                continue
        else:
            raise vlib.CheckError("unknown class of subsets %r" % c)
        cl.append(c)
        subs.append(pts)
    return cl, subs


def build_job(p, vec, rng, schemes=("bls", "ps")):
    """schemes: those of which sequences of key generations on the same instances are demanded"""
    choose, lag, dkgc = vec["CHOOSE"], vec["LAG"], vec["DKGC"]
    job = dict(workers=p["workers"], seed=rng.randrange(1 << 30), timeout_ms=60000)
    job["choose"] = [dict(n=c["n"], k=c["k"]) for c in choose]
    job["lag"] = [dict(pts=c["pts"], i=c["i"], num=c["num"], den=c["den"]) for c in lag]
    rec = []
    for pkg in ("bls", "ps"):
        for n in range(2, p["RecN"] + 1):
            for t in range(2, n + 1):
                for mode in ("crypto", "seeded", "small"):
                    for _ in range(p["rec_reps"]):
                        rec.append(dict(pkg=pkg, mode=mode, n=n, t=t, subs=rec_subsets(n, t, rng), exh=True, seed=rng.randrange(1 << 30),
                                        cmax=999 if n <= 6 else 99))
    job["rec"] = rec
    dkg = []
    for scheme in ("bls", "ps"):
        for rep in range(p["dkg_reps"]):
            for c in dkgc:
                n, t = c["n"], c["t"]
                if n > p["DkgN"] or c["big"]:
                    continue
                case = dict(scheme=scheme, n=n, t=t, pos=c["pos"], off=c["off"], expect=c["expect"], comp=0, ids=[], subs=[], exh=False,
                            msglen=1, seed=rng.randrange(1 << 30))
                if rep % 2 == 1 or rng.random() < 0.3:
                    # evaluation points are the POSITIONS in the party list (bls.Verifier, and ps.Prover since /repo 0454ff0): any
                    # ascending identifiers do
                    case["ids"] = sorted(rng.sample(range(1, 65536), n))
                if scheme == "ps":
                    case["msglen"] = 1 + (rep + n) % 2
                    case["comp"] = rng.randrange(0, case["msglen"] + 2)     # which component of the PS key is moved off
                if not c["off"]:
                    allsubs = subsets_at_least(n, max(2, t - 1))
                    if scheme == "bls" or n <= p["ps_all_subsets_n"]:
                        case["subs"], case["exh"] = allsubs, True
                    else:
                        must = [s for s in allsubs if len(s) == n]
                        rest = [s for s in allsubs if len(s) != n]
                        rng.shuffle(rest)
                        case["subs"] = must + rest[:p["ps_sample"]]
                case["big"] = False
                dkg.append(case)
    # large DKGs (the cross-check enumerates C(n, t) subsets of t points each): every case the model lists, once per scheme
    for scheme in ("bls", "ps"):
        for c in dkgc:
            if not c["big"]:
                continue
            n, t = c["n"], c["t"]
            case = dict(scheme=scheme, n=n, t=t, pos=c["pos"], off=c["off"], expect=c["expect"], comp=rng.randrange(0, 3) if scheme == "ps" else 0,
                        ids=[], subs=[], exh=False, msglen=1, seed=rng.randrange(1 << 30), big=True, time_ms=900000)
            if not c["off"]:
                _, subs = deal_subsets(n, t, ["first", "last", "all", "randt", "below"], rng)
                case["subs"] = [sorted(x) for x in subs]
            dkg.append(case)
    job["dkg"] = dkg
    job["blag"] = [dict(cls=c["cls"], pts=c["pts"], seed=rng.randrange(1 << 30)) for c in vec["BIGC"]]
    job["bchoose"] = [dict(n=c["n"], k=c["k"]) for c in vec["BCHOOSEC"]]
    bdeal = []
    for scheme in ("bls", "ps"):
        for c in vec["BDEALC"]:
            for mode in ("crypto", "seeded"):
                cl, subs = deal_subsets(c["n"], c["t"], c["classes"], rng)
                bdeal.append(dict(scheme=scheme, n=c["n"], t=c["t"], mode=mode, classes=cl, subs=subs, msglen=1, seed=rng.randrange(1 << 30),
                                  ids=sorted(rng.sample(range(1, 65536), c["n"])) if mode == "seeded" else []))
    job["bdeal"] = bdeal
    # sequences of key generations on the same instances
    seq = []
    for scheme in schemes:
        for c in vec["SEQC"]:
            top = max(r["n"] for r in c["runs"])
            for rep in range(p["seq_reps"]):
                universe = list(range(1, top + 1)) if rep % 2 == 0 else sorted(rng.sample(range(1, 65536), top))
                runs = []
                for r in c["runs"]:
                    run = dict(n=r["n"], t=r["t"], pos=r["pos"], off=r["off"], expect=r["expect"], comp=rng.randrange(0, 3) if scheme == "ps" else 0,
                               subs=[], exh=False, seed=rng.randrange(1 << 30), big=False)
                    if not r["off"]:
                        run["subs"], run["exh"] = subsets_at_least(r["n"], max(2, r["t"] - 1)), True
                    runs.append(run)
                seq.append(dict(scheme=scheme, plan=c["plan"], universe=universe, runs=runs, msglen=1, seed=rng.randrange(1 << 30)))
    job["seq"] = seq
    return job


def probe_job(scheme):
    """exploratory: two honest key generations on the same instances, short deadline (a run takes milliseconds)"""
    runs = [dict(n=3, t=2, pos=0, off=False, expect="accept", comp=0, subs=[[1, 2], [2, 3], [1, 2, 3]], exh=False, seed=11 + k, big=False,
                 probe=True, time_ms=2500) for k in range(2)]
    return dict(workers=1, seed=1, timeout_ms=2500, seq=[dict(scheme=scheme, plan=[3, 2, 3, 2], universe=[1, 2, 3], runs=runs, msglen=1, seed=1,
                                                              kind="seqprobe")])


def rekeying_supported(rec):
    runs = rec["runs"]
    return len(runs) == 2 and all((not x["timeout"]) and x["agree"] and not any(x["errs"]) and not any(x["panics"]) for x in runs)


def job_fragments(job):
    """record index (0-based, in the order the driver emits) -> job fragment that reproduces that record"""
    frags = []
    for pkg in ("bls", "ps"):
        for c in job.get("choose", []):
            frags.append(dict(choose=[c]))
    for pkg in ("bls", "ps"):
        for c in job.get("lag", []):
            frags.append(dict(lag=[c]))
            frags.append(dict(lag=[c]))
    for c in job.get("rec", []):
        frags.append(dict(rec=[c]))
    for c in job.get("dkg", []):
        frags.append(dict(dkg=[c]))
    for pkg in ("bls", "ps"):
        for c in job.get("blag", []):
            frags.append(dict(blag=[c]))
    for pkg in ("bls", "ps"):
        for c in job.get("bchoose", []):
            frags.append(dict(bchoose=[c]))
    for c in job.get("bdeal", []):
        frags.append(dict(bdeal=[c]))
    for c in job.get("seq", []):
        frags.append(dict(seq=[c]))
    return frags


# ------------------------------------------------------------------------------------------------------------------------------
# steps 2-3: run the real code, validate with TLC

def run_driver(drv, job, wd, name):
    jp = os.path.join(wd, name + ".job.json")
    with open(jp, "w") as f:
        json.dump(job, f)
    outp = os.path.join(wd, name + ".ndjson")
    last = None
    for attempt in range(2):
        rc, _, err = vlib.run_driver(drv, ["algebra"], stdin_path=jp, timeout=1500, stdout_path=outp)
        if rc == 0:
            break
        last = err
        log("algebra driver failed (attempt %d): %s" % (attempt + 1, err[-500:]))
    else:
        raise vlib.CheckError("algebra driver failed: %s" % last)
    recs = []
    with open(outp) as f:
        for line in f:
            if line.strip():
                recs.append(json.loads(line))
    return recs, outp


def validate(wd, trace_path, ctx, name, coverage):
    big = ctx.get("big") or NO_BIG
    with open(os.path.join(wd, "AT_%s.tla" % name), "w") as f:
        f.write("---- MODULE AT_%s ----\nEXTENDS AlgebraTrace\nc_P == %s\n%s====\n" % (name, tla_seq(ctx["modelp"]), big_defs(big)))
    with open(os.path.join(wd, "AT_%s.cfg" % name), "w") as f:
        f.write('CONSTANTS TraceFile = "%s" ModelQ = %d ModelP <- c_P\n %s SeqSchemes <- c_SeqSchemes CheckCoverage = %s\nINIT TInit\nNEXT TNext\n'
                % (os.path.basename(trace_path), MODELQ, BIG_CFG, "TRUE" if coverage else "FALSE"))
    r = vlib.run_tlc("AT_%s" % name, "AT_%s.cfg" % name, SPEC_FILES, workdir=wd, workers=1, timeout=1500,
                     keep_prints=["VIOL", "DRIFT", "BAD", "END", "COVER"])
    if r.violation:
        raise vlib.CheckError("trace validation stopped: %s\n%s" % (r.violation, r.out[-2000:]))
    return r


def expected_counts(job):
    return dict(choose=2 * len(job.get("choose", [])), lag=4 * len(job.get("lag", [])), rec=len(job.get("rec", [])), dkg=len(job.get("dkg", [])),
                blag=2 * len(job.get("blag", [])), bchoose=2 * len(job.get("bchoose", [])), bdeal=len(job.get("bdeal", [])),
                seq=sum(1 for c in job.get("seq", []) if c.get("kind", "seq") == "seq"))


def execute(drv, job, wd, ctx, name, retry_unusable=True, coverage=False, extra=()):
    """run the job on the real code and validate; returns (records, tlc result, viols, drifts); `extra`: records of an earlier
    driver run (the re-keying probes) that are validated along"""
    recs, path = run_driver(drv, job, wd, name)
    if extra:
        for r in extra:
            r = dict(r, id=len(recs) + 1)
            recs.append(r)
        with open(path, "w") as f:
            for r in recs:
                f.write(json.dumps(r) + "\n")
    want = expected_counts(job)
    got = {}
    for r in recs:
        got[r["k"]] = got.get(r["k"], 0) + 1
    want["seqprobe"] = len(extra)
    for k, v in want.items():
        if got.get(k, 0) != v:
            raise vlib.CheckError("algebra driver returned %d %s records, expected %d" % (got.get(k, 0), k, v))
    # load-sensitive part: a DKG that timed out (60 s for a run that takes milliseconds) is re-run once alone (systemic timeouts are not)
    unusable = [i for i, r in enumerate(recs) if (r["k"] == "dkg" and (r["timeout"] or r["harness"])) or
                (r["k"] == "seq" and any(x["timeout"] or x["harness"] for x in r["runs"]))]
    if unusable and len(unusable) <= 3 and retry_unusable:
        frags = job_fragments(job)
        for i in unusable:
            log("re-running unusable DKG case alone: %s" % json.dumps(frags[i])[:300])
            sub = dict(workers=1, seed=job["seed"], timeout_ms=job["timeout_ms"])
            sub.update(frags[i])
            r2, _ = run_driver(drv, sub, wd, "%s.retry%d" % (name, i))
            r2[0]["id"] = recs[i]["id"]
            recs[i] = r2[0]
        with open(path, "w") as f:
            for r in recs:
                f.write(json.dumps(r) + "\n")
    if os.environ.get("VERIF_ALG_INJECT") and name == "main":
        inject(recs, os.environ["VERIF_ALG_INJECT"])
        with open(path, "w") as f:
            for r in recs:
                f.write(json.dumps(r) + "\n")
    tr = validate(wd, path, ctx, name, coverage)
    ends = [o for (t, o) in tr.prints if t == "END"]
    if len(ends) != 1 or ends[0]["n"] != len(recs):
        raise vlib.CheckError("trace validation did not reach the end of the %d records: %s" % (len(recs), tr.out[-1500:]))
    bad = [o for (t, o) in tr.prints if t == "BAD"]
    viols = [o for (t, o) in tr.prints if t == "VIOL"]
    drifts = [o for (t, o) in tr.prints if t == "DRIFT"]
    if bad:
        byid = {r["id"]: r for r in recs}
        msg = "harness results not usable (%d): %s" % (len(bad), "; ".join(
            "%s [%s]" % (b["what"], json.dumps(byid.get(b["id"], {}))[:400]) for b in bad[:3]))
        badids = {b["id"] for b in bad}
        viols = [v for v in viols if v["id"] not in badids]
        if not viols:
            raise vlib.CheckError(msg)
        # monitors that are false on OTHER, usable records of real behaviour stand on their own
        log("WARNING " + msg)
    return recs, tr, viols, drifts


def inject(recs, what):
    """DEVELOPMENT ONLY (end-to-end test of the verdict path, never set in a real check): falsify one recorded real result so that the
    run must end with VIOLATION / exit 1; the written replay file, re-executed on the real code, must then show no violation."""
    print("WARNING: VERIF_ALG_INJECT=%s -- one recorded result is falsified on purpose, the verdict of this run is meaningless" % what)
    for r in recs:
        if what == "choose" and r["k"] == "choose" and r["n"] == 5 and r["kk"] == 3 and r["pkg"] == "ps":
            r["seq"] = r["seq"][:4] + r["seq"][5:]
            return
        if what == "lag" and r["k"] == "lag" and r["pts"] == [1, 3, 4] and r["i"] == 3:
            r["num"], r["match"] = r["num"] + 1, False
            return
        if what == "rec" and r["k"] == "rec" and r["n"] == 5 and r["t"] == 3 and r["mode"] == "crypto":
            r["eqs"][-1] = False
            return
        if what == "accept" and r["k"] == "dkg" and r["n"] == 4 and r["t"] == 3 and r["pos"] == 2 and not r["off"]:
            r["errs"][0], r["errtxt"] = True, "injected"
            return
        if what == "aggregate" and r["k"] == "dkg" and r["n"] == 4 and r["t"] == 2 and r["signed"] and r["scheme"] == "ps":
            r["oks"][3] = False
            return
        if what == "detect" and r["k"] == "dkg" and r["n"] == 4 and r["t"] == 3 and r["pos"] == 4 and r["off"]:
            r["errs"] = [False] * len(r["errs"])
            return
        if what == "moment" and r["k"] == "blag" and r["size"] == 21 and r["cls"] == "prefix":
            r["moments"][7], r["nfail"], r["firstfail"] = False, 1, 7
            return
        if what == "chain" and r["k"] == "blag" and r["size"] == 22 and r["cls"] == "window9" and r["pkg"] == "ps":
            r["chains"][1]["steps"][5] = [0, 0]
            return
        if what == "bchoose" and r["k"] == "bchoose" and r["n"] == 24 and r["kk"] == 22:
            r["count"] -= 1
            return
        if what == "bdeal" and r["k"] == "bdeal" and r["n"] == 32 and r["scheme"] == "ps":
            r["oks"][0] = False
            return
        if what == "rerun" and r["k"] == "seq" and r["scheme"] == "bls":
            r["runs"][1]["material"], r["runs"][1]["matwhy"] = False, "injected"
            return
        if what == "rerun-detect" and r["k"] == "seq" and r["scheme"] == "bls":
            x = r["runs"][3]
            x["errs"] = [False] * len(x["errs"])
            return
    raise vlib.CheckError("VERIF_ALG_INJECT: nothing to falsify for %r" % what)


def describe(v):
    d = v.get("detail", {})
    m = v["mon"]
    if m == "ChooseCoversEveryKSubset" and "count" not in d:
        return "real chooseKoutOfN(%s, %s) does not enumerate exactly the k-subsets of 1..n: %s missing, %s foreign %s" % (
            d.get("n"), d.get("k"), d.get("missing"), d.get("foreign"), d.get("panic") or "")
    if m == "LagrangeCoefficient":
        return "real lagrangeCoefficient(%s, %s) = %s/%s (0x%s), the interpolating coefficient is %s/%s %s" % (
            d.get("i"), d.get("pts"), d.get("got", [0, 0])[0], d.get("got", [0, 0])[1], d.get("value"), d.get("want", [0, 0])[0],
            d.get("want", [0, 0])[1], d.get("panic") or "")
    if m == "LagrangeLawsOnLargeSets":
        return "the real Lagrange coefficients of a set of %s evaluation points (class %s, %s..%s) violate the laws of interpolation at zero: " \
               "%s of the moments sum_i lambda_i*i^k = [k=0] are wrong (first k=%s), reconstructs a polynomial of degree < |S|: %s, " \
               "independent of the order of the points: %s, increment law lambda_i(S+m) = lambda_i(S)*m/(m-i): %s %s" % (
                   d.get("size"), d.get("cls"), d.get("lo"), d.get("hi"), d.get("moments_failing"), d.get("first_failing_k"),
                   d.get("reconstructs"), d.get("order_independent"), d.get("increment_law"), d.get("panic") or "")
    if m == "ChooseCoversEveryKSubset" and "count" in d:
        return "real chooseKoutOfN(%s, %s) yields %s subsets (C(n,k) = %s), all of them k-subsets of 1..n: %s, pairwise distinct: %s %s" % (
            d.get("n"), d.get("k"), d.get("count"), d.get("want"), d.get("valid"), d.get("distinct"), d.get("panic") or "")
    if m == "ReconstructsDealtSecret" and "class" in d:
        return "shares of a large dealing by the real SSS.Gen (n=%s, t=%s, %s reader) do not reconstruct the dealt secret from the %s points " \
               "of class '%s'" % (d.get("n"), d.get("t"), d.get("mode"), d.get("size"), d.get("class"))
    if m == "ReconstructsDealtSecret":
        return "shares dealt by the real SSS.Gen (n=%s, t=%s, %s reader) do not reconstruct the dealt secret from the points %s %s" % (
            d.get("n"), d.get("t"), d.get("mode"), d.get("pts"), d.get("panic") or "")
    nth = (" (key generation no. %s on the same instances)" % d.get("run")) if d.get("run", 1) and d.get("run", 1) > 1 else ""
    if m == "PublicMaterialOfThisRunOnly":
        return "real DKG n=%s t=%s%s: all parties accept, but the public material they report is not a function of the keys announced in this key " \
               "generation: %s" % (d.get("n"), d.get("t"), nth, d.get("err"))
    if m == "OnPolynomialKeysAccepted":
        return "real DKG n=%s t=%s%s (harness party at position %s, on the polynomial) was not accepted by every party: %s" % (
            d.get("n"), d.get("t"), nth, d.get("pos"), d.get("err"))
    if m == "SharesAggregateToThresholdKey" and d.get("dealer"):
        return "large dealing n=%s t=%s (real SSS.Gen, real instances loaded with the shares): the partial signatures of the subsets (class, size) " \
               "%s do not aggregate to a signature under the public key of the dealt secret %s" % (d.get("n"), d.get("t"), d.get("failing"), d.get("err") or "")
    if m == "SharesAggregateToThresholdKey":
        return "after a real DKG n=%s t=%s%s the partial signatures of the subsets %s do not aggregate to a signature under the reported " \
               "threshold key %s" % (d.get("n"), d.get("t"), nth, d.get("failing"), d.get("err") or "")
    if m == "OffPolynomialKeyDetected":
        return "real DKG n=%s t=%s%s: the party at position %s revealed a key off the common polynomial and was %s" % (
            d.get("n"), d.get("t"), nth, d.get("pos"), d.get("err"))
    return json.dumps(v)


# ------------------------------------------------------------------------------------------------------------------------------
# step 4: self-test of the monitors

def selftest(wd, recs, ctx):
    """corrupt accepted records one field at a time; the trace specification must report every one of them"""
    def first(pred):
        for r in recs:
            if pred(r):
                return json.loads(json.dumps(r))
        return None
    muts = []   # (record, expected monitor)

    r = first(lambda r: r["k"] == "choose" and r["kk"] >= 2 and r["n"] > r["kk"])
    if r:
        r["seq"] = r["seq"][:-1]
        muts.append((r, "ChooseCoversEveryKSubset"))
    r = first(lambda r: r["k"] == "choose" and r["kk"] >= 2 and r["n"] > r["kk"] and r["pkg"] == "ps")
    if r:
        r["seq"][0] = r["seq"][1]
        muts.append((r, "ChooseCoversEveryKSubset"))
    r = first(lambda r: r["k"] == "lag" and len(r["pts"]) >= 3)
    if r:
        r["num"], r["match"] = -r["num"], False
        muts.append((r, "LagrangeCoefficient"))
    r = first(lambda r: r["k"] == "lag" and r["pkg"] == "ps" and r["den"] > 1)
    if r:
        r["den"], r["match"] = r["den"] + 1, False
        muts.append((r, "LagrangeCoefficient"))
    for mode in ("crypto", "seeded"):
        r = first(lambda r: r["k"] == "rec" and r["mode"] == mode and r["n"] >= 4)
        if r:
            m = max(i for i, s in enumerate(r["subs"]) if len(s) >= r["t"])
            r["eqs"][m] = False
            muts.append((r, "ReconstructsDealtSecret"))
    for scheme in ("bls", "ps"):
        r = first(lambda r: r["k"] == "dkg" and r["scheme"] == scheme and r["expect"] == "accept" and r["signed"])
        if r:
            r["errs"][0] = True
            muts.append((r, "OnPolynomialKeysAccepted"))
        r = first(lambda r: r["k"] == "dkg" and r["scheme"] == scheme and r["expect"] == "accept" and r["signed"] and r["pos"] > 0)
        if r:
            m = max(i for i, s in enumerate(r["subs"]) if len(s) >= r["t"])
            r["oks"][m] = False
            muts.append((r, "SharesAggregateToThresholdKey"))
        r = first(lambda r: r["k"] == "dkg" and r["scheme"] == scheme and r["expect"] == "detect")
        if r:
            r["errs"][-1] = False
            muts.append((r, "OffPolynomialKeyDetected"))
    for pkg in ("bls", "ps"):
        r = first(lambda r: r["k"] == "blag" and r["pkg"] == pkg and r["size"] >= 21)
        if r:
            r["moments"][r["size"] - 1] = False
            muts.append((r, "LagrangeLawsOnLargeSets"))
        r = first(lambda r: r["k"] == "blag" and r["pkg"] == pkg and r["size"] >= 21 and r["cls"] == "windowtop")
        if r:
            st = r["chains"][-1]["steps"][10]
            r["chains"][-1]["steps"][10] = [st[0] + 1, st[1]]
            muts.append((r, "LagrangeLawsOnLargeSets"))
        r = first(lambda r: r["k"] == "blag" and r["pkg"] == pkg and r["cls"] == "sparse")
        if r:
            r["recon"] = False
            muts.append((r, "LagrangeLawsOnLargeSets"))
        r = first(lambda r: r["k"] == "bchoose" and r["pkg"] == pkg and r["kk"] >= 2 and r["count"] > 100)
        if r:
            r["count"] += 1
            muts.append((r, "ChooseCoversEveryKSubset"))
        r = first(lambda r: r["k"] == "bchoose" and r["pkg"] == pkg and r["kk"] >= 2 and r["n"] >= 20)
        if r:
            r["distinct"] = False
            muts.append((r, "ChooseCoversEveryKSubset"))
        r = first(lambda r: r["k"] == "bdeal" and r["scheme"] == pkg)
        if r:
            m = max(i for i, x in enumerate(r["subs"]) if len(x) >= r["t"])
            r["eqs"][m] = False
            muts.append((r, "ReconstructsDealtSecret"))
        r = first(lambda r: r["k"] == "bdeal" and r["scheme"] == pkg and r["mode"] == "seeded")
        if r:
            m = min(i for i, x in enumerate(r["subs"]) if len(x) >= r["t"])
            r["oks"][m] = False
            muts.append((r, "SharesAggregateToThresholdKey"))
        r = first(lambda r: r["k"] == "dkg" and r["scheme"] == pkg and r["big"] and r["expect"] == "detect")
        if r:
            r["errs"][0] = False
            muts.append((r, "OffPolynomialKeyDetected"))
    r = first(lambda r: r["k"] == "seq")
    if r:
        r["runs"][1]["material"], r["runs"][1]["matwhy"] = False, "corrupted"
        muts.append((r, "PublicMaterialOfThisRunOnly"))
    r = first(lambda r: r["k"] == "seq")
    if r:
        k = max(i for i, x in enumerate(r["runs"]) if not x["off"] and x["signed"])
        r["runs"][k]["fresh"] = False
        muts.append((r, "PublicMaterialOfThisRunOnly"))
    r = first(lambda r: r["k"] == "seq")
    if r:
        k = min(i for i, x in enumerate(r["runs"]) if x["expect"] == "detect")
        r["runs"][k]["errs"] = [False] * len(r["runs"][k]["errs"])
        muts.append((r, "OffPolynomialKeyDetected"))
    r = first(lambda r: r["k"] == "seq")
    if r:
        r["runs"][1]["oks"][-1] = False
        muts.append((r, "SharesAggregateToThresholdKey"))
    r = first(lambda r: r["k"] == "dkg" and r["expect"] == "accept" and r["agree"])
    if r:
        r["material"], r["matwhy"] = False, "corrupted"
        muts.append((r, "PublicMaterialOfThisRunOnly"))
    if len(muts) < 31:
        raise vlib.CheckError("self-test could not build its corrupted records (%d)" % len(muts))
    path = os.path.join(wd, "selftest.ndjson")
    with open(path, "w") as f:
        for i, (r, _) in enumerate(muts):
            r["id"] = i + 1
            f.write(json.dumps(r) + "\n")
    tr = validate(wd, path, dict(ctx, big=None), "selftest", False)
    seen = {(o["id"], o["mon"]) for (t, o) in tr.prints if t == "VIOL"}
    missed = [(i + 1, mon) for i, (_, mon) in enumerate(muts) if (i + 1, mon) not in seen]
    if missed:
        raise vlib.CheckError("self-test: the trace specification did not report corrupted records %s" % missed)
    return len(muts), tr


# ------------------------------------------------------------------------------------------------------------------------------

def summarise(recs):
    s = dict(choose=0, lag=0, dealings=0, reconstructions=0, dkg_runs=0, dkg_with_harness_party=0, dkg_off_polynomial=0,
             dkg_detected=0, dkg_undetectable_t_eq_n=0, aggregations=0, below_threshold_canaries=0, large_dkg_runs=0,
             large_point_sets=0, large_set_moments=0, large_set_increment_steps=0, largest_point_set=0, largest_identifier=0,
             keygen_sequences=0, keygen_sequence_runs=0, keygen_reruns_off_polynomial_detected=0, keygen_reruns_accepted_with_fresh_material=0,
             large_choose=0, large_choose_subsets_enumerated=0, large_dealings=0, large_reconstructions=0, large_aggregations=0)
    for r in recs:
        if r["k"] == "choose":
            s["choose"] += 1
        elif r["k"] == "lag":
            s["lag"] += 1
        elif r["k"] == "rec":
            s["dealings"] += 1
            s["reconstructions"] += sum(1 for x in r["subs"] if len(x) >= r["t"])
            s["below_threshold_canaries"] += sum(1 for x in r["subs"] if len(x) < r["t"])
        elif r["k"] == "dkg":
            s["dkg_runs"] += 1
            s["dkg_with_harness_party"] += 1 if r["pos"] > 0 else 0
            if r["off"]:
                s["dkg_off_polynomial"] += 1
                if r["expect"] == "detect" and all(r["errs"]):
                    s["dkg_detected"] += 1
                if r["expect"] == "undetectable":
                    s["dkg_undetectable_t_eq_n"] += 1
            s["aggregations"] += sum(1 for x in r["subs"] if len(x) >= r["t"])
            s["below_threshold_canaries"] += sum(1 for x in r["subs"] if len(x) < r["t"])
            if r["big"]:
                s["large_dkg_runs"] += 1
        elif r["k"] == "seq":
            s["keygen_sequences"] += 1
            s["keygen_sequence_runs"] += len(r["runs"])
            s["keygen_reruns_off_polynomial_detected"] += sum(1 for x in r["runs"][1:] if x["expect"] == "detect" and x["errs"] and all(x["errs"]))
            s["keygen_reruns_accepted_with_fresh_material"] += sum(1 for x in r["runs"][1:] if x["expect"] == "accept" and x["material"] and x["fresh"])
        elif r["k"] == "blag":
            s["large_point_sets"] += 1
            s["large_set_moments"] += len(r["moments"])
            s["large_set_increment_steps"] += sum(len(c["steps"]) for c in r["chains"])
            s["largest_point_set"] = max(s["largest_point_set"], r["size"])
            s["largest_identifier"] = max(s["largest_identifier"], r["pts"][-1])
        elif r["k"] == "bchoose":
            s["large_choose"] += 1
            s["large_choose_subsets_enumerated"] += r["count"]
        elif r["k"] == "bdeal":
            s["large_dealings"] += 1
            s["large_reconstructions"] += sum(1 for x in r["subs"] if len(x) >= r["t"])
            s["large_aggregations"] += sum(1 for x in r["subs"] if len(x) >= r["t"])
            s["below_threshold_canaries"] += sum(1 for x in r["subs"] if len(x) < r["t"])
    return s


def slim(r):
    r = dict(r)
    for k in ("subs", "eqs", "oks", "recs", "moments", "pts", "first", "last", "ids", "errs", "panics"):
        if k in r and isinstance(r[k], list) and len(r[k]) > 6:
            r[k] = r[k][:6] + ["... %d more" % (len(r[k]) - 6)]
    if "subs" in r:
        r["subs"] = [(x[:6] + ["... %d more" % (len(x) - 6)]) if isinstance(x, list) and len(x) > 8 else x for x in r["subs"]]
    if "runs" in r:
        r["runs"] = [dict(n=x["n"], t=x["t"], pos=x["pos"], off=x["off"], expect=x["expect"], errs=x["errs"], agree=x["agree"], material=x["material"],
                          fresh=x["fresh"], reused=x["reused"], err=x["errtxt"][:80]) for x in r["runs"]]
    if "chains" in r:
        r["chains"] = [dict(c, steps=c["steps"][:4] + ["... %d more" % max(0, len(c["steps"]) - 4)]) for c in r["chains"]]
    return r


def run(pid):
    tr = vlib.tier()
    p = params(tr)
    wd = vlib.scratch(pid)
    rng = random.Random(vlib.seed())
    verdict = vlib.Verdict(pid)

    mc, vec, ctx, sample = tlc_laws(wd, p, rng)
    log("laws: %r; vectors: %s" % (mc, ", ".join("%d %s" % (len(v), k) for k, v in sorted(vec.items()))))
    drv = vlib.build_harness()
    # does the tree under test support a second key generation on the same instances?  Demanded of bls.TBLS; of ps.TPS only if so
    probes, schemes = [], ["bls"]
    for scheme in ("bls", "ps"):
        pr, _ = run_driver(drv, probe_job(scheme), wd, "probe_" + scheme)
        probes.append(pr[0])
        if scheme == "ps" and rekeying_supported(pr[0]):
            schemes.append("ps")
        elif not rekeying_supported(pr[0]):
            x = pr[0]["runs"][-1]
            log("probe: second key generation on the same %s instances: errors %s panics %s timeout %s: %s / %s" % (
                scheme, x["errs"], x["panics"], x["timeout"], x["errtxt"], x["panictxt"]))
    ctx["big"]["seq_schemes"] = schemes
    log("sequences of key generations on the same instances are demanded of: %s" % ", ".join(schemes))
    job = build_job(p, vec, rng, schemes)
    recs, tv, viols, drifts = execute(drv, job, wd, ctx, "main", coverage=True, extra=probes)
    cover = [o for (t, o) in tv.prints if t == "COVER"]
    if len(cover) != 1:
        raise vlib.CheckError("trace validation did not report the completeness of the large cases")
    log("real code: %d records validated by TLC (%r): %d violations, %d drift; large cells executed: %s" % (
        len(recs), tv, len(viols), len(drifts), json.dumps(cover[0])))
    frags = job_fragments(job)
    byid = {r["id"]: (i, r) for i, r in enumerate(recs)}
    for v in viols:
        i, r = byid[v["id"]]
        frag = dict(frags[i]) if i < len(frags) else dict()
        verdict.violation(v["sig"], "%s: %s" % (v["mon"], describe(v)),
                          dict(property=pid, kind="algebra", monitor=v["mon"], signature=v["sig"], detail=v.get("detail"),
                               job=dict(frag, seed=job["seed"], workers=1, timeout_ms=job["timeout_ms"]), modelp=ctx["modelp"], record=slim(r)))
    kinds = {}
    for d in drifts:
        kinds[d["kind"]] = kinds.get(d["kind"], 0) + 1
    for k, n in sorted(kinds.items()):
        print("DRIFT property=%s count=%d kind=%s" % (pid, n, k))
    nmut, st = selftest(wd, recs, ctx)
    log("self-test: %d corrupted records, all reported by the trace specification" % nmut)

    rcode = verdict.finish()
    s = summarise(recs)
    samples = []
    for pred in (lambda r: r["k"] == "choose" and r["n"] == 4 and r["kk"] == 2,
                 lambda r: r["k"] == "lag" and len(r["pts"]) == 4 and r["den"] > 1,
                 lambda r: r["k"] == "rec" and r["mode"] == "small" and r["n"] == 4 and r["t"] == 3,
                 lambda r: r["k"] == "rec" and r["mode"] == "crypto" and r["n"] == 5 and r["t"] == 2,
                 lambda r: r["k"] == "dkg" and r["off"] and r["expect"] == "detect" and r["n"] == 4,
                 lambda r: r["k"] == "dkg" and r["off"] and r["expect"] == "undetectable" and r["scheme"] == "ps",
                 lambda r: r["k"] == "dkg" and r["signed"] and r["pos"] > 0 and r["n"] == 4 and r["t"] == 3,
                 lambda r: r["k"] == "blag" and r["size"] == 22 and r["cls"] == "window9",
                 lambda r: r["k"] == "blag" and r["size"] == 64 and r["cls"] == "sparse",
                 lambda r: r["k"] == "bchoose" and r["n"] == 24,
                 lambda r: r["k"] == "bdeal" and r["n"] == 32 and r["scheme"] == "ps",
                 lambda r: r["k"] == "dkg" and r["big"] and r["off"] and r["expect"] == "detect",
                 lambda r: r["k"] == "seq" and r["universe"][0] != 1):
        for r in recs:
            if pred(r):
                samples.append(slim(r))
                break
    if not samples:
        samples.append(slim(recs[0]))
    vlib.write_evidence(pid, "model_checking", dict(
        states=max(mc.distinct + tv.distinct + st.distinct, 1),
        transitions=max(mc.generated + tv.generated + st.generated, 1),
        traces_validated_against_impl=len(recs),
        samples=samples,
        exhaustive=False,
        exhaustive_parts="complete: every (n,k) with n <= %d, every (S,i) with S in 1..%d, every (n,t,position,on/off) DKG case with n <= %d, "
                         "every subset of >= t points per dealing (n <= %d) and per BLS DKG; every large cell the model demands (see large_cases); "
                         "sampled: polynomials (random by nature), the large point sets beyond the window classes (seeded)"
                         % (p["VecN"], p["VecN"], p["DkgN"], p["RecN"]),
        large_cases=dict(point_set_sizes=ctx["big"]["sizes"], window_classes=["prefix 1..s", "window 9..8+s", "top window ..65535", "sparse 1..65535",
                                                                              "sparse 1..46336", "seeded random (sparse and dense)"],
                         seeded_random_sets=len(ctx["big"]["randsets"]), dealings_n_t=ctx["big"]["nt"], dkg_n_t=ctx["big"]["dkg"],
                         choose_n_k=len(ctx["big"]["choose"]), cells_executed=cover[0],
                         keygen_sequence_plans=ctx["big"]["seq"], keygen_sequences_demanded_of=schemes,
                         laws="moment law sum_i lambda_i*i^k=[k=0] for every 0<=k<|S|; reconstruction of a polynomial of degree <|S|; order "
                              "independence; increment law lambda_i(S+m)=lambda_i(S)*m/(m-i) (recomputed by TLC as reduced rationals)"),
        configs=dict(primes=PRIMES, MaxN=p["MaxN"], VecN=p["VecN"], FullMax=p["FullMax"], DkgN=p["DkgN"], RecN=p["RecN"], sample_polynomials=len(sample), model_field=MODELQ,
                     invariants=MC_INVARIANTS),
        model_states=mc.distinct, trace_states=tv.distinct,
        counts=s, drift=kinds, drift_records=len(drifts), selftest_corruptions_detected=nmut,
        known_findings_seen=sorted(verdict.known_seen),
        rule="TLC: laws of spec/Algebra.tla over GF(7,11,13,46337) for all 2<=t<=n<=MaxN (every polynomial of degree < t over GF(q), q<=13, while q^t<=FullMax, "
             "else unit/extreme/seeded polynomials), every subset, every position of one off-polynomial key; code: every vector and case "
             "executed on mpc/bls and mpc/ps (chooseKoutOfN, lagrangeCoefficient, SSS.Gen+reconstruct, real DKGs through the public API "
             "with aggregation of every subset); LARGE inputs: the same Lagrange laws on point sets of up to 256 points / identifiers up to "
             "65535 (TLC proves the moment law in GF(46337) for every demanded set below the field size), chooseKoutOfN counts for large "
             "(n,k), large dealings and DKGs; TLC (AlgebraTrace) recomputes every expected value it can from the recorded results, judges "
             "the reported law evaluations and checks that every demanded large cell was executed",
    ), [
        "group elements are modelled by their discrete logarithms in small prime fields; bn254 arithmetic, pairings, hashing and ASN.1 "
        "are evaluated by the real library only and compared with the model's verdict per case",
        "a random polynomial identity of degree < t over the 254-bit field is decided by one random evaluation up to probability 2^-240",
        "for t = n the cross-check has a single t-subset and cannot detect an off-polynomial key (inherent; reported as 'undetectable', "
        "not demanded)",
        "DKG runs use an in-memory router with synchronous delivery (as the repository's own tests); schedules, faults and "
        "Byzantine strategies other than one off-polynomial reveal belong to C01/C05/C11",
        "sequences of key generations on the same instances (Init + KeyGen again; plan Algebra!RunPlan: honest, honest, a key off the "
        "polynomial at every position, honest, another committee size, harness party on the polynomial, t = n, honest) are demanded of "
        "bls.TBLS; of ps.TPS only when a probe shows that the tree under test can run a second key generation on a TPS instance at all "
        "(otherwise reported as DRIFT)",
        "laws on point sets that exceed the model field (identifiers up to 65535) are evaluated modulo the group order by the harness "
        "(math/big) and reported as booleans with their inputs; TLC recomputes the increment-law rationals exactly and checks completeness",
        "large DKGs are limited to (n,t) with few t-subsets (the code's cross-check enumerates C(n,t) subsets); larger (n,t) are covered "
        "in trusted-dealer mode (real Gen, reconstruct, partial signatures by real instances loaded through SetShareData)",
    ], violations=len(verdict.violations))
    return rcode


def replay(pid, path):
    with open(path) as f:
        o = json.load(f)
    if o.get("kind") != "algebra" or "job" not in o:
        raise vlib.CheckError("not an algebra replay file: %s" % path)
    wd = vlib.scratch(pid + "r")
    verdict = vlib.Verdict(pid)
    drv = vlib.build_harness()
    job = o["job"]
    recs, tv, viols, drifts = execute(drv, job, wd, dict(modelp=o["modelp"], big=None), "replay")
    for r in recs:
        print("record: %s" % json.dumps(slim(r)))
    for v in viols:
        verdict.violation(v["sig"], "%s: %s" % (v["mon"], describe(v)), dict(o, record=slim(recs[0])))
    for d in drifts:
        print("DRIFT property=%s count=1 kind=%s" % (pid, d["kind"]))
    if not viols:
        print("replay: no monitor is violated by this case on the current tree")
    return verdict.finish()


if __name__ == "__main__":
    if len(sys.argv) >= 4 and sys.argv[2] == "--replay":
        vlib.main_wrapper(lambda: replay(sys.argv[1], sys.argv[3]))
    else:
        vlib.main_wrapper(lambda: run(sys.argv[1]))
