#!/usr/bin/env python3
"""validate MANIFEST.json and evidence/*.json against the schemas (uses jsonschema from the tooling venv if present)"""
import glob
import json
import sys
try:
    import jsonschema
except ImportError:
    print("jsonschema not available; run with python3-vt")
    sys.exit(0)
ok = True
m = json.load(open("/verif/MANIFEST.json"))
try:
    jsonschema.validate(m, json.load(open("/root/.vp/MANIFEST.schema.json")))
    print("MANIFEST ok: %d checks, %d not_applicable" % (len(m["checks"]), len(m.get("not_applicable", []))))
except Exception as e:
    ok = False
    print("MANIFEST invalid:", e)
es = json.load(open("/root/.vp/EVIDENCE.schema.json"))
for f in sorted(glob.glob("/verif/evidence/*.json")):
    try:
        jsonschema.validate(json.load(open(f)), es)
        print("ok", f)
    except Exception as e:
        ok = False
        print("INVALID", f, str(e)[:300])
props = [json.loads(l)["id"] for l in open("/verif/properties.jsonl")]
claimed = [c["property_id"] for c in m["checks"]]
na = [c["property_id"] for c in m.get("not_applicable", [])]
for p in props:
    if (p in claimed) == (p in na):
        ok = False
        print("property", p, "must be either claimed or not_applicable")
sys.exit(0 if ok else 1)
