------------------------------ MODULE SigTrace ------------------------------
(***************************************************************************)
(* Validation of results recorded from the REAL library (harness/cmd/drv/  *)
(* sig.go) against the small-field model of spec/Sig.tla.                  *)
(*                                                                         *)
(* Every line of TraceFile is one executed case:                           *)
(*   c        the case as the driver executed it (same record as Sig!c)    *)
(*   v1       the real verdict (TRUE = accepted): for a genuine case every *)
(*            step of the pipeline succeeded; for a perturbed case the     *)
(*            observed step (Sign / UnBlind / Verify) accepted             *)
(*   v2       verdict of the second call with the same object              *)
(*   v3       verdict for the same bytes re-parsed by a fresh instance     *)
(*   same     serialisation of every object unchanged by the calls         *)
(*   changed  the perturbed bytes differ from the genuine ones             *)
(*   pubeq    all parties reported identical public material after DKG     *)
(*   stage,eq where the real library failed (classified error text)        *)
(* The expectation is RECOMPUTED here from c alone (both constant sets).   *)
(* Property monitors (a false monitor on these real results = VIOL):       *)
(*   GenuineAccepted, IdenticalPublicMaterial            (C08, C09)        *)
(*   RejectsAltered, SameVerdictTwice, BytesUnchanged    (C09)             *)
(* Everything else that differs from the model's prediction is DRIFT.      *)
(***************************************************************************)
EXTENDS Sig

CONSTANT TraceFile

Results == ndJsonDeserialize(TraceFile)

VARIABLE l

Acc(b) == IF b THEN "accept" ELSE "reject"

Genuine(cc) == cc.obj \in {"none", "objsign", "objverify"}

Violated(r, m) ==
  LET cc == r.c IN
  (IF Genuine(cc) /\ ~r.v1 THEN {"GenuineAccepted"} ELSE {})
  \cup (IF cc.obj = "none" /\ ~r.pubeq THEN {"IdenticalPublicMaterial"} ELSE {})
  \cup (IF ~Genuine(cc) /\ r.changed /\ MustReject(cc) /\ r.v1 THEN {"RejectsAltered"} ELSE {})
  \cup (IF r.v2 # r.v1 \/ r.v3 # r.v1 THEN {"SameVerdictTwice"} ELSE {})
  \cup (IF ~r.same THEN {"BytesUnchanged"} ELSE {})

\* does the model of the code AS WRITTEN predict that this monitor fails for this case? (named deviation, see PsSignBlind)
Predicted(mon, cc, m) ==
  CASE mon = "SameVerdictTwice" -> m.v2 # m.v
    [] mon = "BytesUnchanged"   -> ~m.same
    [] mon = "RejectsAltered"   -> m.v = "accept"
    [] OTHER -> FALSE

Drifts(r, m) ==
  LET cc == r.c IN
  (IF Acc(r.v1) # m.v THEN {"verdict: model " \o m.v \o ", library " \o Acc(r.v1)} ELSE {})
  \cup (IF Acc(r.v1) = m.v /\ (Acc(r.v2) # m.v2 \/ r.same # m.same)
          THEN {"second verdict / byte preservation differs from the model of the code as written"} ELSE {})
  \cup (IF ~r.v1 /\ m.v = "reject" /\ (r.stage # m.stage \/ r.eq # m.eq)
          THEN {"failing equation: model " \o m.stage \o "/" \o m.eq \o ", library " \o r.stage \o "/" \o r.eq} ELSE {})
  \cup (IF r.changed # m.changed THEN {"perturbation changes the object in the model only or in the library only"} ELSE {})

\* exactly one REC line per result (the engine checks the count)
Report(r, m) ==
  LET cc == r.c
      vs == Violated(r, m) IN
  PrintT(<<"REC", ToJson([id |-> r.id, sch |-> cc.sch, obj |-> cc.obj, field |-> cc.field, kind |-> cc.kind, stage |-> r.stage, eq |-> r.eq,
                          viol |-> vs, predicted |-> {mon \in vs : Predicted(mon, cc, m)}, drift |-> Drifts(r, m),
                          unbound |-> (MustReject(cc) /\ m.changed /\ m.v = "accept"), real |-> Acc(r.v1),
                          collide |-> m.collide, model |-> m.v])>>)

TInit == /\ l \in 1..Len(Results)
         /\ c = Results[l].c /\ ph = "todo" /\ res = <<>>
TNext == /\ ph = "todo" /\ ph' = "done" /\ UNCHANGED <<l, c>>
         /\ res' = <<Model(c)>>
         /\ Report(Results[l], res'[1])
=============================================================================
