------------------------------ MODULE SigTrace ------------------------------
(***************************************************************************)
(* Validation of results recorded from the REAL library (harness/cmd/drv/  *)
(* sig.go) against the small-field model of spec/Sig.tla.                  *)
(*                                                                         *)
(* Every line of TraceFile is one executed case:                           *)
(*   c        the case as the driver executed it (same record as Sig!c)    *)
(*   v1       the real verdict (TRUE = accepted): for a genuine case every *)
(*            step of the pipeline succeeded; for a perturbed case the     *)
(*            observed step (Sign / UnBlind / Verify) accepted             *)
(*   v2       verdict of the second call with the same object              *)
(*   v3       verdict for the same bytes re-parsed by a fresh instance     *)
(*   same     serialisation of every object unchanged by the calls         *)
(*   changed  the perturbed bytes differ from the genuine ones             *)
(*   pubeq    all parties reported identical public material after DKG     *)
(*   stage,eq where the real library failed (classified error text)        *)
(* The expectation is RECOMPUTED here from c alone (both constant sets).   *)
(* Property monitors (a false monitor on these real results = VIOL):       *)
(*   GenuineAccepted, IdenticalPublicMaterial            (C08, C09)        *)
(*   DkgCompletes (records of key generations: the recorded order of       *)
(*     deliveries is replayed through the model of Sig.tla)   (C08)        *)
(*   RejectsAltered, SameVerdictTwice, BytesUnchanged    (C09)             *)
(*   ForgeryRejected (compensated alterations, weak Fiat-Shamir forgeries),*)
(*   ChallengeBindsInput (oracle sensitivity; v1 = challenge unchanged)    *)
(* Everything else that differs from the model's prediction is DRIFT.      *)
(***************************************************************************)
EXTENDS Sig

CONSTANT TraceFile

Results == ndJsonDeserialize(TraceFile)

VARIABLE l

Acc(b) == IF b THEN "accept" ELSE "reject"

Genuine(cc) == cc.obj \in {"none", "objsign", "objverify"} \/ (cc.obj = "forge" /\ cc.kind = "control")

Violated(r, m) ==
  LET cc == r.c IN
  (IF Genuine(cc) /\ ~r.v1 THEN {"GenuineAccepted"} ELSE {})
  \cup (IF cc.obj = "none" /\ ~r.pubeq THEN {"IdenticalPublicMaterial"} ELSE {})
  \cup (IF ~Genuine(cc) /\ r.changed /\ MustReject(cc) /\ r.v1
          THEN {IF cc.obj \in {"mall", "forge"} THEN "ForgeryRejected"              \* a fabricated / malleated proof is accepted
                ELSE IF cc.obj = "oracle" THEN "ChallengeBindsInput"                \* the challenge ignores a value the oracle lists
                ELSE "RejectsAltered"} ELSE {})
  \cup (IF r.v2 # r.v1 \/ r.v3 # r.v1 THEN {"SameVerdictTwice"} ELSE {})
  \cup (IF ~r.same THEN {"BytesUnchanged"} ELSE {})

\* does the model of the code AS WRITTEN predict that this monitor fails for this case? (named deviation, see PsSignBlind)
Predicted(mon, cc, m) ==
  CASE mon = "SameVerdictTwice" -> m.v2 # m.v
    [] mon = "BytesUnchanged"   -> ~m.same
    [] mon \in {"RejectsAltered", "ForgeryRejected", "ChallengeBindsInput"} -> m.v = "accept"
    [] OTHER -> FALSE

Drifts(r, m) ==
  LET cc == r.c IN
  (IF Acc(r.v1) # m.v THEN {"verdict: model " \o m.v \o ", library " \o Acc(r.v1)} ELSE {})
  \cup (IF Acc(r.v1) = m.v /\ (Acc(r.v2) # m.v2 \/ r.same # m.same)
          THEN {"second verdict / byte preservation differs from the model of the code as written"} ELSE {})
  \cup (IF ~r.v1 /\ m.v = "reject" /\ (r.stage # m.stage \/ r.eq # m.eq)
          THEN {"failing equation: model " \o m.stage \o "/" \o m.eq \o ", library " \o r.stage \o "/" \o r.eq} ELSE {})
  \cup (IF r.changed # m.changed THEN {"perturbation changes the object in the model only or in the library only"} ELSE {})

\* exactly one REC line per result (the engine checks the count)
Report(r, m) ==
  LET cc == r.c
      vs == Violated(r, m) IN
  PrintT(<<"REC", ToJson([id |-> r.id, sch |-> cc.sch, obj |-> cc.obj, field |-> cc.field, kind |-> cc.kind, stage |-> r.stage, eq |-> r.eq,
                          viol |-> vs, predicted |-> {mon \in vs : Predicted(mon, cc, m)}, drift |-> Drifts(r, m),
                          unbound |-> (MustReject(cc) /\ m.changed /\ m.v = "accept"), real |-> Acc(r.v1),
                          collide |-> m.collide, model |-> m.v])>>)

\* ---- records of key generations (c.sch = "dkg"): c.sched = the deliveries <<kind, from, to>> in the order the driver executed them
RECURSIVE DkgReplayF(_, _, _, _)
DkgReplayF(D, sched, k, n) == IF k > Len(sched) THEN [D |-> D, bad |-> 0]
                              ELSE IF sched[k] \notin D.pool THEN [D |-> D, bad |-> k]          \* the model has not produced this message
                              ELSE DkgReplayF(DkgDeliver(D, sched[k], n, FALSE), sched, k + 1, n)
\* pairs (p, r) for which p's public key was delivered to r before p's commitment
Inversions(sched) == {pr \in {<<sched[k][2], sched[k][3]>> : k \in {x \in 1..Len(sched) : sched[x][1] = 3}} :
                        \A k3, k2 \in 1..Len(sched) :
                           (sched[k3] = <<3, pr[1], pr[2]>> /\ sched[k2] = <<2, pr[1], pr[2]>>) => k3 < k2}
DkgModel(cc) == LET rp == DkgReplayF(DkgInit(cc.n), cc.sched, 1, cc.n) IN
                [eq |-> IF rp.bad # 0 THEN "not-produced" ELSE IF DkgAllDone(rp.D, cc.n) THEN "ok" ELSE "incomplete",
                 inv |-> Cardinality(Inversions(cc.sched))]
\* monitors: every delivery schedule that delivers everything lets every party finish, with identical public material
ReportDkg(r, m) ==
  LET cc == r.c
      vs == (IF m.eq = "ok" /\ ~r.v1 THEN {"DkgCompletes"} ELSE {})
            \cup (IF r.v1 /\ ~r.pubeq THEN {"IdenticalPublicMaterial"} ELSE {})
      dr == (IF m.eq = "not-produced" THEN {"the driver delivered a message the model of the key generation has not produced"} ELSE {})
            \cup (IF m.eq = "incomplete" /\ r.v1 THEN {"every party finished although the model says the schedule is incomplete"} ELSE {})
            \cup (IF m.eq = "incomplete" /\ ~r.v1 THEN {"incomplete schedule: " \o r.eq} ELSE {})
  IN PrintT(<<"REC", ToJson([id |-> r.id, sch |-> "dkg", obj |-> "dkg", field |-> cc.back,
                             kind |-> IF m.inv > 0 THEN "reveal-before-commit" ELSE "in-order", stage |-> r.stage, eq |-> r.eq,
                             viol |-> vs, predicted |-> {}, drift |-> dr, unbound |-> FALSE, real |-> Acc(r.v1), collide |-> FALSE,
                             model |-> IF m.eq = "ok" THEN "accept" ELSE "reject"])>>)

TInit == /\ l \in 1..Len(Results)
         /\ c = Results[l].c /\ ph = "todo" /\ res = <<>>
TNext == /\ ph = "todo" /\ ph' = "done" /\ UNCHANGED <<l, c>>
         /\ IF c.sch = "dkg"
            THEN res' = <<DkgModel(c)>> /\ ReportDkg(Results[l], res'[1])
            ELSE res' = <<Model(c)>> /\ Report(Results[l], res'[1])
=============================================================================
