------------------------------ MODULE NetTrace ------------------------------
(***************************************************************************)
(* Trace specification for the bundled TLS transport: consumes what        *)
(* harness/cmd/drv/net.go recorded on the REAL code and evaluates the      *)
(* property monitors of C16 / C17 on it.                                   *)
(*                                                                         *)
(* Kind "hs" (C16): one line per executed handshake variant with the       *)
(* observed outcome (messages that appeared on the channel returned by     *)
(* comm.ServiceConnections for the attacker's frame and for the honest     *)
(* frames before / after it, process death).  The monitors use Proved of   *)
(* Net.tla; the model's CodeVerdict is compared too (difference = drift).  *)
(*                                                                         *)
(* Kind "fr" (C17): per scenario the global sequence of events             *)
(*    reset, call (Send invoked), ret (Send returned / panicked),          *)
(*    drop (Send reported the enqueue timeout for one destination),        *)
(*    in (InMsg taken from a receiver's channel), crash, end             *)
(*    (stall: an inbound peer connected to the victim and stopped).        *)
(* The state is the set of message copies accepted for sending and not yet *)
(* received; an `in' event must be explained by the oldest pending copy of *)
(* one goroutine (otherwise: modified / duplicated / out of order).        *)
(***************************************************************************)
EXTENDS Net

CONSTANTS TraceFile, Kind

Trace == ndJsonDeserialize(TraceFile)

VARIABLES l,
          tid,     \* fr: current scenario
          meta,    \* fr: the reset line of the current scenario
          pend,    \* fr: message copies sent (Send called) and not yet received
          got,     \* fr: {<<at, from, content>>} received
          viol,    \* monitors already reported for the current scenario / case
          drift,
          npanic, ndeliv, ndrop

tvars == <<vars, l, tid, meta, pend, got, viol, drift, npanic, ndeliv, ndrop>>
Line == Trace[l]

NoMeta == [e |-> "none"]
TInit == /\ HIdle /\ FIdle
         /\ l = 1 /\ tid = -1 /\ meta = NoMeta /\ pend = {} /\ got = {} /\ viol = {} /\ drift = "" /\ npanic = 0 /\ ndeliv = 0 /\ ndrop = 0

(* ------------------------------ C16 ------------------------------------- *)

HonestPre  == [node |-> 2, dom |-> "d1"]
HonestPost == [node |-> 3, dom |-> "d2"]

HsOf(o) == [dom |-> o.dom, bind |-> o.bind, ident |-> o.ident, ts |-> o.ts, by |-> o.by, over |-> o.over, enc |-> o.enc]

ServedBy(seq, who) == Len(seq) >= 1 /\ \A i \in DOMAIN seq : seq[i].from = who.node /\ seq[i].dom = who.dom /\ seq[i].intact

HsMonitors(o) ==
  LET h == HsOf(o) IN
  {<<"AttributedOnlyIfProved", \A i \in DOMAIN o.attr : Proved(h, 1, o.attr[i].from) /\ o.attr[i].dom = h.dom>>,
   <<"NoCrash", ~o.crashed>>,
   <<"HonestServed", o.crashed \/ (o.served /\ ServedBy(o.hpre, HonestPre) /\ ServedBy(o.hpost, HonestPost))>>,
   <<"NoSpurious", /\ Len(o.attr) <= 1 /\ Len(o.hpre) <= 1 /\ Len(o.hpost) <= 1 /\ o.spurious = 0
                   /\ \A i \in DOMAIN o.attr : o.attr[i].intact>>}

HsDrift(o) ==
  LET h == HsOf(o)
      v == CodeVerdict(h, 1) IN
  CASE v.res = "accept" /\ ~o.crashed /\ ~(Len(o.attr) = 1 /\ o.attr[1].from = v.node) -> "model accepts, the code does not attribute (" \o h.enc \o ")"
    [] v.res = "reject" /\ ~o.crashed /\ Len(o.attr) > 0 -> "model rejects (" \o v.why \o "), the code attributes"
    [] o.crashed -> "the process died although the model predicts " \o v.res
    [] OTHER -> ""

HsStep ==
  /\ Kind = "hs"
  /\ LET o == Line
         bad == {m[1] : m \in {mm \in HsMonitors(o) : ~mm[2]}} IN
     /\ \A b \in bad : PrintT(<<"VIOL", ToJson([c |-> o.c, mon |-> b, cls |-> Class(HsOf(o), 1), why |-> CodeVerdict(HsOf(o), 1).why])>>)
     /\ PrintT(<<"END", ToJson([c |-> o.c, drift |-> HsDrift(o), model |-> CodeVerdict(HsOf(o), 1).res, attributed |-> Len(o.attr),
                                allowed |-> Allowed(HsOf(o), 1) # {}])>>)
  /\ UNCHANGED <<tid, meta, pend, got, viol, drift, npanic, ndeliv, ndrop>>

(* ------------------------------ C17 ------------------------------------- *)

Report(bad, detail) ==
  LET new == bad \ viol IN
  /\ viol' = viol \cup bad
  /\ \A b \in new : PrintT(<<"VIOL", ToJson([t |-> tid, l |-> l, mon |-> b, detail |-> detail])>>)

SetDrift(d) == drift' = IF drift = "" /\ d # "" THEN d ELSE drift

Rng2(s) == {s[i] : i \in DOMAIN s}

Reset ==
  /\ Line.e = "reset"
  /\ tid' = Line.t /\ meta' = Line /\ pend' = {} /\ got' = {} /\ viol' = {} /\ drift' = "" /\ npanic' = 0 /\ ndeliv' = 0 /\ ndrop' = 0

Call ==
  /\ Line.e = "call"
  /\ pend' = pend \cup {[g |-> Line.g, k |-> Line.k, from |-> Line.from, to |-> Line.to[i], m |-> Line.m, call |-> l, ret |-> 0,
                         opt |-> FALSE, raw |-> Line.raw, conn |-> IF Line.raw THEN Line.g ELSE "real"] : i \in {j \in DOMAIN Line.to : Line.to[j] \in Rng2(meta.recv)}}
  /\ UNCHANGED <<tid, meta, got, viol, drift, npanic, ndeliv, ndrop>>

Ret ==
  /\ Line.e = "ret"
  /\ pend' = {IF p.g = Line.g /\ p.k = Line.k THEN [p EXCEPT !.ret = l, !.opt = (@ \/ Line.panic # "")] ELSE p : p \in pend}
  /\ npanic' = npanic + (IF Line.panic # "" THEN 1 ELSE 0)
  /\ IF Line.panic # "" THEN Report({"NoPanic"}, "Send panicked: " \o Line.panic) ELSE viol' = viol
  /\ UNCHANGED <<tid, meta, got, drift, ndeliv, ndrop>>

\* Send reported "timeout sending to <to>": the copy towards that destination of a Send call that is still open was given up; it
\* was not accepted for sending (if several calls of the node are open towards that destination all of them are exempted)
Drop ==
  /\ Line.e = "drop"
  /\ pend' = {IF p.from = Line.from /\ p.to = Line.to /\ p.ret = 0 /\ ~p.raw THEN [p EXCEPT !.opt = TRUE] ELSE p : p \in pend}
  /\ ndrop' = ndrop + 1
  /\ UNCHANGED <<tid, meta, got, viol, drift, npanic, ndeliv>>

In ==
  /\ Line.e = "in"
  /\ LET o == Line
         cands == {p \in pend : p.to = o.at /\ p.from = o.from /\ p.m = o.m} IN
     IF cands = {}
       THEN /\ LET what == IF <<o.at, o.from, o.m>> \in got THEN "ExactlyOnce" ELSE "Unmodified" IN
               IF o.rec THEN SetDrift("the independent decoder reads something the sender was not asked to send (wire layout)") /\ viol' = viol
               ELSE Report({what} \cup (IF o.m.n > Limit THEN {"OversizeRefused"} ELSE {}),
                           "a message arrived that no pending send explains") /\ drift' = drift
            /\ UNCHANGED <<pend, got>>
       ELSE LET p == CHOOSE x \in cands : \A y \in cands : x.k <= y.k
                fifoBad  == \E x \in pend : x.g = p.g /\ x.to = p.to /\ x.k < p.k
                orderBad == \E x \in pend : x.to = p.to /\ x.from = p.from /\ x.conn = p.conn /\ x.ret # 0 /\ x.ret < p.call
                domBad   == o.dom # meta.dom
                bad == (IF fifoBad THEN {"FIFO"} ELSE {}) \cup (IF orderBad THEN {"SendOrder"} ELSE {})
                       \cup (IF domBad THEN {"Unmodified"} ELSE {}) \cup (IF o.m.n > Limit THEN {"OversizeRefused"} ELSE {}) IN
            /\ pend' = pend \ {p}
            /\ got' = got \cup {<<o.at, o.from, o.m>>}
            /\ IF o.rec \/ p.raw
                 THEN SetDrift(IF bad # {} THEN "order / layout difference on a raw endpoint" ELSE "") /\ viol' = viol
                 ELSE Report(bad, "delivery out of order or altered") /\ drift' = drift
  /\ ndeliv' = ndeliv + 1
  /\ UNCHANGED <<tid, meta, npanic, ndrop>>

Crash ==
  /\ Line.e = "crash"
  /\ Report({"NoPanic"}, "the process died: " \o Line.what)
  /\ npanic' = npanic + 1
  /\ UNCHANGED <<tid, meta, pend, got, drift, ndeliv, ndrop>>

Skip ==
  /\ Line.e \in {"rawbad", "up", "note", "stall"}
  /\ UNCHANGED <<tid, meta, pend, got, viol, drift, npanic, ndeliv, ndrop>>

End ==
  /\ Line.e = "end"
  /\ LET recv == Rng2(meta.recv)
         lost == {p \in pend : p.to \in recv /\ ~p.opt /\ ~p.raw /\ p.to \notin Rng2(meta.layout)}
         lostRaw == {p \in pend : p.to \in recv /\ ~p.opt /\ (p.raw \/ p.to \in Rng2(meta.layout))}
         faulty == meta.fault \in {"down", "late", "stalled", "garble"}
         \* "install": the faulty peer is an inbound connection that stalls at set-up; every party, the one it latched on to
         \* included, is healthy
         iso == IF meta.fault = "install" THEN lost ELSE {p \in lost : faulty /\ p.to # meta.victim /\ p.from # meta.victim}
         bad == (IF iso # {} THEN {"FaultIsolated"} ELSE {}) \cup (IF lost \ iso # {} THEN {"Delivered"} ELSE {})
         d == IF lostRaw # {} THEN "frames of a raw endpoint were not delivered (wire layout)"
              ELSE IF meta.expect_drop /\ ndrop = 0 THEN "model predicts a copy given up after the enqueue timeout, none reported"
              ELSE IF ~meta.expect_drop /\ ndrop > 0 THEN "an enqueue timeout was reported in a scenario in which the model has none"
              ELSE "" IN
     /\ Report(bad, "messages accepted for sending were not received by the end of the run")
     /\ SetDrift(d)
     /\ PrintT(<<"END", ToJson([t |-> tid, drift |-> IF drift # "" THEN drift ELSE d, delivered |-> ndeliv, lost |-> Cardinality(lost),
                                panics |-> npanic, drops |-> ndrop, complete |-> Line.complete, viols |-> Cardinality(viol \cup bad)])>>)
  /\ UNCHANGED <<tid, meta, pend, got, npanic, ndeliv, ndrop>>

FrStep == Kind = "fr" /\ (Reset \/ Call \/ Ret \/ Drop \/ In \/ Crash \/ Skip \/ End)

TNext == /\ l <= Len(Trace)
         /\ l' = l + 1
         /\ (HsStep \/ FrStep)
         /\ UNCHANGED vars
=============================================================================
