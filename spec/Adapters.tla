------------------------------ MODULE Adapters ------------------------------
(***************************************************************************)
(* The tss-lib adapters mpc/binance/{ecdsa,eddsa}/mpc.go (property C19).   *)
(*                                                                         *)
(* Part 1  the type-URL tables: how tss-lib v2 ROUTES every message type   *)
(*         (MessageRouting.IsBroadcast in the NewKGRound.. / NewSignRound..*)
(*         constructors; `step' = library round that emits it) and what    *)
(*         the adapter's receiver-side classifier answers for it (round    *)
(*         after the -4 adjustment of the signing rounds, class).          *)
(* Part 2  a small protocol model: parties emit the message types step by  *)
(*         step, every receiver classifies on its own, broadcast-class     *)
(*         messages pass a pin-per-(sender, round) layer (what rbc does),  *)
(*         OnMsg attributes a message to the transport sender; Byzantine   *)
(*         members re-send captured content under their own identity, with *)
(*         or without an embedded sender claim; outsiders send too.        *)
(* Part 3  the digest model: which byte string ends up being signed for a  *)
(*         requested digest and which digests the scheme's standard        *)
(*         verifier accepts for that signature (with the behaviour before  *)
(*         the EdDSA full-length repair kept as a must-fail variant).      *)
(* Part 4  fault extension for C11: a peer that goes silent after its k-th  *)
(*         message, a single withheld message, contexts that end; every    *)
(*         call whose context ended has returned at quiescence.            *)
(* Short URLs: the prefix "type.googleapis.com/binance.tsslib." is dropped.*)
(***************************************************************************)
EXTENDS Integers, Sequences, FiniteSets, TLC

T(u, ph, st, lb, r, b) == [url |-> u, phase |-> ph, step |-> st, lib |-> lb, round |-> r, bcast |-> b]

EdDSATable == {
  T("eddsa.keygen.KGRound1Message",    "keygen", 1, TRUE,  1, TRUE),
  T("eddsa.keygen.KGRound2Message1",   "keygen", 2, FALSE, 2, FALSE),
  T("eddsa.keygen.KGRound2Message2",   "keygen", 2, TRUE,  3, TRUE),
  T("eddsa.signing.SignRound1Message", "sign",   1, TRUE,  1, TRUE),
  T("eddsa.signing.SignRound2Message", "sign",   2, TRUE,  2, TRUE),
  T("eddsa.signing.SignRound3Message", "sign",   3, TRUE,  3, TRUE) }

ECDSATable == {
  T("ecdsa.keygen.KGRound1Message",     "keygen", 1, TRUE,  1, TRUE),
  T("ecdsa.keygen.KGRound2Message1",    "keygen", 2, FALSE, 2, FALSE),
  T("ecdsa.keygen.KGRound2Message2",    "keygen", 2, TRUE,  3, TRUE),
  T("ecdsa.keygen.KGRound3Message",     "keygen", 3, TRUE,  4, TRUE),
  T("ecdsa.signing.SignRound1Message1", "sign",   1, FALSE, 1, FALSE),
  T("ecdsa.signing.SignRound1Message2", "sign",   1, TRUE,  2, TRUE),
  T("ecdsa.signing.SignRound2Message",  "sign",   2, FALSE, 3, FALSE),
  T("ecdsa.signing.SignRound3Message",  "sign",   3, TRUE,  4, TRUE),
  T("ecdsa.signing.SignRound4Message",  "sign",   4, TRUE,  5, TRUE),
  T("ecdsa.signing.SignRound5Message",  "sign",   5, TRUE,  6, TRUE),
  T("ecdsa.signing.SignRound6Message",  "sign",   6, TRUE,  7, TRUE),
  T("ecdsa.signing.SignRound7Message",  "sign",   7, TRUE,  8, TRUE),
  T("ecdsa.signing.SignRound8Message",  "sign",   8, TRUE,  9, TRUE),
  T("ecdsa.signing.SignRound9Message",  "sign",   9, TRUE, 10, TRUE) }

TableOf(ad) == IF ad = "eddsa" THEN EdDSATable ELSE IF ad = "ecdsa" THEN ECDSATable ELSE {}
PhaseOf(tb, ph) == {x \in tb : x.phase = ph}

\* ---- table-level invariants -------------------------------------------------------------------------------------
UrlsUnique(tb) == \A x, y \in tb : x.url = y.url => x = y
DistinctRoundsPerPhaseAmongBroadcasts(tb) ==
  \A x, y \in tb : (x.phase = y.phase /\ x.bcast /\ y.bcast /\ x.url # y.url) => x.round # y.round
ClassifiedAsRouted(tb) == \A x \in tb : x.bcast = x.lib
RoundsKnown(tb) == \A x \in tb : x.round >= 1        \* 0 is what an unknown URL gets
TableLaws(tb) == UrlsUnique(tb) /\ DistinctRoundsPerPhaseAmongBroadcasts(tb) /\ ClassifiedAsRouted(tb) /\ RoundsKnown(tb)

\* what the classifier is expected to answer for a (short) URL
ClassifyIn(tb, u) == IF \E x \in tb : x.url = u
                       THEN LET x == CHOOSE y \in tb : y.url = u IN [round |-> x.round, bcast |-> x.bcast, known |-> TRUE]
                       ELSE [round |-> 0, bcast |-> FALSE, known |-> FALSE]

\* ---- encodings a sender can hand-craft ---------------------------------------------------------------------------------------
\* A protocol message travels as a serialised google.protobuf.Any {type_url = 1, value = 2}.  A protobuf reader accepts the fields in
\* any order and any number of times (for a singular field the LAST occurrence counts), skips unknown fields, accepts non-minimal
\* varints and rejects the whole message if anything is malformed.  The library (tss.ParseWireMessage) reads the bytes that way, so
\* the receiver's classification has to follow the same reading.  An abstract encoding is a sequence of items:
\*   "Ur" type_url of the real type | "Ud" type_url of a decoy (another known type) | "Ue" empty type_url | "Uu" unknown type_url
\*   "V" value | "W" another (conflicting) value | "Xv" "Xl" "X5" "X1" unknown extra field (varint / length-delimited / fixed32 /
\*   fixed64) | "Urn" "Udn" "Vn" the same with a non-minimal length prefix | "G" malformed trailing bytes
UrlItems == {"Ur", "Ud", "Ue", "Uu", "Urn", "Udn"}
WhichType(item) == CASE item \in {"Ur", "Urn"} -> "real" [] item \in {"Ud", "Udn"} -> "decoy" [] item = "Uu" -> "unknown" [] OTHER -> "empty"
RECURSIVE LastUrl(_)
LastUrl(enc) == IF enc = <<>> THEN "none" ELSE IF enc[Len(enc)] \in UrlItems THEN enc[Len(enc)] ELSE LastUrl(SubSeq(enc, 1, Len(enc) - 1))
RECURSIVE FirstUrl(_)
FirstUrl(enc) == IF enc = <<>> THEN "none" ELSE IF enc[1] \in UrlItems THEN enc[1] ELSE FirstUrl(Tail(enc))
Malformed(enc) == \E i \in DOMAIN enc : enc[i] = "G"
\* what the library processes the bytes as: "real" | "decoy" | "reject" (malformed, no / empty / unknown type)
LibraryType(enc) == IF Malformed(enc) \/ LastUrl(enc) = "none" THEN "reject"
                    ELSE LET w == WhichType(LastUrl(enc)) IN IF w \in {"real", "decoy"} THEN w ELSE "reject"
\* what the receiver classifies them as: "real" | "decoy" (the table entry of that type) | "none" (round 0, point-to-point: unknown or
\* no type) | "reject" (error)
ClassifiedBy(pick(_), enc) == IF Malformed(enc) THEN "reject" ELSE IF pick(enc) = "none" THEN "none"
                              ELSE LET w == WhichType(pick(enc)) IN IF w \in {"real", "decoy"} THEN w ELSE "none"
Classified(enc) == ClassifiedBy(LastUrl, enc)              \* the code: proto.Unmarshal into an Any
ClassifiedFirst(enc) == ClassifiedBy(FirstUrl, enc)        \* must-fail variant: the first type_url met while walking the wire format
\* the law: whatever the library goes on to process is classified as exactly that type
FollowsLibrary(cls(_), enc) == LibraryType(enc) # "reject" => cls(enc) = LibraryType(enc)

\* the catalogue: every sequence of <= 3 items over {Ur, Ud, V, W} and a list with the remaining item kinds
RECURSIVE SeqsUpTo(_, _)
SeqsUpTo(S, n) == IF n = 0 THEN {<<>>} ELSE LET shorter == SeqsUpTo(S, n - 1) IN shorter \cup {Append(q, x) : q \in shorter, x \in S}
Encodings ==
  SeqsUpTo({"Ur", "Ud", "V", "W"}, 3) \cup
  { <<"Ud", "Ur", "Ud", "V">>, <<"Ur", "Ud", "Ur", "V">>, <<"Ud", "V", "W", "Ur">>, <<"Ur", "V", "W", "Ud">>,
    <<"Xv", "Ur", "V">>, <<"Ur", "Xl", "V">>, <<"Ur", "V", "X5">>, <<"X1", "Ur", "V">>, <<"Ud", "Xl", "Ur", "V">>, <<"Ur", "Xv", "Ud", "V">>,
    <<"Xl", "Ud", "X5", "Ur", "X1", "V", "Xv">>,
    <<"Urn", "V">>, <<"Ur", "Vn">>, <<"Ud", "Urn", "V">>, <<"Urn", "Ud", "V">>, <<"Udn", "Ur", "V">>, <<"Ur", "Udn", "Vn">>,
    <<"Ur", "V", "G">>, <<"Ud", "Ur", "V", "G">>, <<"G">>, <<"Ur", "G", "V">>,
    <<"Ue", "V">>, <<"Ur", "Ue", "V">>, <<"Ue", "Ur", "V">>, <<"Ud", "Ue", "V">>,
    <<"Uu", "V">>, <<"Uu", "Ur", "V">>, <<"Ur", "Uu", "V">>, <<"Ud", "Uu", "Ur", "V">> }
EncodingLaws == /\ \A enc \in Encodings : FollowsLibrary(Classified, enc)
                /\ \E enc \in Encodings : ~FollowsLibrary(ClassifiedFirst, enc)        \* the law can fail
EncodingCases == {[items |-> enc, lib |-> LibraryType(enc), cls |-> Classified(enc)] : enc \in Encodings}

\* ---- Part 3: digests ------------------------------------------------------------------------------------------------
RECURSIVE Strip(_)
Strip(d) == IF d = <<>> THEN <<>> ELSE IF d[1] = 0 THEN Strip(Tail(d)) ELSE d
Take(d, n) == IF Len(d) <= n THEN d ELSE SubSeq(d, 1, n)

\* big-endian comparison of two stripped byte strings: a >= b
RECURSIVE GeSameLen(_, _)
GeSameLen(a, b) == IF a = <<>> THEN TRUE
                   ELSE IF a[1] > b[1] THEN TRUE ELSE IF a[1] < b[1] THEN FALSE ELSE GeSameLen(Tail(a), Tail(b))
Ge(a, b) == IF Len(a) # Len(b) THEN Len(a) > Len(b) ELSE GeSameLen(a, b)

P256N == << 255,255,255,255, 0,0,0,0, 255,255,255,255, 255,255,255,255,
            188,230,250,173, 167,23,158,132, 243,185,202,194, 252,99,37,81 >>

\* the integer the adapter hands to the library, as its minimal big-endian byte string (= big.Int.Bytes()):
\*   eddsa: big.Int.SetBytes(digest);  ecdsa: hashToInt = leftmost `ob' bytes (order bits = 8*ob for P-256, no shift)
AdapterInt(ad, d, ob) == IF ad = "eddsa" THEN Strip(d) ELSE Strip(Take(d, ob))
\* the message that is actually signed.  eddsa: the adapter passes the digest length to the library (fullBytesLen), which
\* signs the integer filled up to that length, i.e. the digest itself;  ecdsa: the integer is the message
Signed(ad, d, ob) == IF ad = "eddsa" THEN d ELSE AdapterInt(ad, d, ob)
\* must-fail variant (the behaviour before the repair "eddsa adapter: sign the digest in its full length"): without the length
\* the library signs m.Bytes(), so a leading zero byte of an EdDSA digest is lost in the big.Int round trip
SignedStripped(ad, d, ob) == AdapterInt(ad, d, ob)
\* the library refuses an ECDSA message integer >= the group order ("hashed message is not valid")
Refuses(ad, d, ob, n) == ad = "ecdsa" /\ Ge(AdapterInt(ad, d, ob), Strip(n))
\* the scheme's standard verifier: Ed25519 takes the message bytes verbatim; ECDSA maps the digest to an integer itself
StdAccepts(ad, d2, signed, ob) == IF ad = "eddsa" THEN d2 = signed ELSE Strip(Take(d2, ob)) = signed
\* two byte strings that the STANDARD regards as the same message
SameMessage(ad, d1, d2, ob) == IF ad = "eddsa" THEN d1 = d2 ELSE Strip(Take(d1, ob)) = Strip(Take(d2, ob))

\* C19, last clause, for one requested digest d against a universe U of other digests, given the message sg that was signed
RequestedOnly(ad, d, sg, U, ob) ==
  /\ StdAccepts(ad, d, sg, ob)
  /\ \A d2 \in U : StdAccepts(ad, d2, sg, ob) => SameMessage(ad, d2, d, ob)
SignedDigestIsRequested(ad, d, U, ob) == RequestedOnly(ad, d, Signed(ad, d, ob), U, ob)
\* input class used to label a failing case (a digest the big.Int round trip would shorten)
LeadingZero(ad, d) == ad = "eddsa" /\ d # <<>> /\ d[1] = 0
DigestClass(ad, d) == IF LeadingZero(ad, d) THEN "leading-zero" ELSE "other"

\* laws checked exhaustively over a small universe (bytes `vals', length <= maxlen, order length ob, order n):
\*  - the clause holds for every requested digest the library does not refuse;
\*  - it can fail: with the must-fail variant it is false exactly for the EdDSA digests with a leading zero byte
DigestUniverse(vals, maxlen) == UNION {[1..k -> vals] : k \in 0..maxlen}
DigestLaws(vals, maxlen, ob, n) ==
  LET U == DigestUniverse(vals, maxlen) IN
  \A ad \in {"eddsa", "ecdsa"} : \A d \in U : ~Refuses(ad, d, ob, n) => SignedDigestIsRequested(ad, d, U, ob)
StrippedVariantFails(vals, maxlen, ob, n) ==
  LET U == DigestUniverse(vals, maxlen) IN
  /\ \E d \in U : ~RequestedOnly("eddsa", d, SignedStripped("eddsa", d, ob), U, ob)
  /\ \A ad \in {"eddsa", "ecdsa"} : \A d \in U :
        ~Refuses(ad, d, ob, n) => (RequestedOnly(ad, d, SignedStripped(ad, d, ob), U, ob) <=> ~LeadingZero(ad, d))

\* ---- Part 2: protocol model ---------------------------------------------------------------------------------------------
CONSTANTS Parties,        \* participants of the session
          Byz,            \* Byzantine participants (follow the protocol and additionally spoof)
          Outsiders,      \* non-participants that can reach OnMsg
          Table,          \* entries of ONE phase of one adapter
          MaxSpoof,       \* bound on adversarial transmissions
          TrustEmbedded,  \* FALSE = the code (attribution = transport sender; an envelope embedding a sender is not the wire
                          \* format and is dropped); TRUE = anti-vacuity variant (attribute to the embedded claim)
          NearestIndex,   \* FALSE = the code (the party index is found by exact match: a non-participant gets none and the
                          \* library rejects it); TRUE = must-fail variant (index by lower-bound search without equality
                          \* check: a non-participant is filed under the smallest participant above it)
          IgnoreCtx       \* fault extension (Part 4): FALSE = the code (the receive loop of KeyGen / Sign selects on ctx.Done());
                          \* TRUE = must-fail variant (the loop ignores its context)

VARIABLES step,   \* [Parties -> number of library steps emitted]
          net,    \* in-flight transmissions [from (transport sender), to, url, org (who produced the content), emb (embedded claim | 0)]
          got,    \* [Parties -> set of hand-overs to the library [att, tr, url, org, bc]]
          pin,    \* [Parties -> set of <<sender, round, url, org>>]: broadcast layer, one message per (sender, round)
          equiv,  \* set of <<receiver, sender, round>>: equivocation alarms of the broadcast layer
          nsp,
          \* fault extension (Part 4); constant in the fault-free model
          fault,  \* the fault of this run: [kind, p, k, s, u, r]
          pend,   \* [Parties -> messages of the current library step not yet handed to sendMsg]
          sentc,  \* [Parties -> number of sendMsg calls so far]
          ctxs,   \* [Parties -> "live" | "ended"]: the context of the party's KeyGen / Sign call
          retv    \* [Parties -> "none" | "ok" | "err"]: what the call returned

fvars == <<fault, pend, sentc, ctxs, retv>>
vars == <<step, net, got, pin, equiv, nsp, fault, pend, sentc, ctxs, retv>>

Honest == Parties \ Byz
Urls == {x.url : x \in Table}
E(u) == CHOOSE x \in Table : x.url = u
MaxStep == IF Table = {} THEN 0 ELSE CHOOSE k \in {x.step : x \in Table} : \A y \in Table : y.step <= k
UrlsOf(k) == {x.url : x \in {y \in Table : y.step = k}}

HasAll(s, k) == \A q \in Parties \ {s} : \A u \in UrlsOf(k) :
                   \E g \in got[s] : g.att = q /\ g.org = q /\ g.url = u /\ g.bc = E(u).lib   \* tss-lib: CanAccept checks the flag

CanEmit(s) == step[s] < MaxStep /\ (step[s] = 0 \/ HasAll(s, step[s]))

NoFault == [kind |-> "none", p |-> 0, k |-> 0, s |-> 0, u |-> "", r |-> 0]
Init0 == /\ step = [p \in Parties |-> 0] /\ net = {} /\ got = [p \in Parties |-> {}] /\ pin = [p \in Parties |-> {}]
         /\ equiv = {} /\ nsp = 0
FInit0 == /\ pend = [p \in Parties |-> {}] /\ sentc = [p \in Parties |-> 0] /\ ctxs = [p \in Parties |-> "live"]
          /\ retv = [p \in Parties |-> "none"]
Init == Init0 /\ FInit0 /\ fault = NoFault

Emit(s) == /\ CanEmit(s)
           /\ step' = [step EXCEPT ![s] = @ + 1]
           /\ net' = net \cup {[from |-> s, to |-> q, url |-> u, org |-> s, emb |-> 0] : q \in Parties \ {s}, u \in UrlsOf(step[s] + 1)}
           /\ UNCHANGED <<got, pin, equiv, nsp>>

Above(x) == {q \in Parties : q > x}
Attribute(m) == IF TrustEmbedded /\ m.emb # 0 THEN m.emb
                ELSE IF NearestIndex /\ m.from \notin Parties /\ Above(m.from) # {}
                  THEN CHOOSE q \in Above(m.from) : \A r \in Above(m.from) : q <= r
                ELSE m.from
Accepted(m) == TrustEmbedded \/ m.emb = 0

Deliver(m) ==
  /\ m \in net
  /\ net' = net \ {m}
  /\ LET p == m.to
         c == ClassifyIn(Table, IF m.emb = 0 \/ TrustEmbedded THEN m.url ELSE "?")
         h == [att |-> Attribute(m), tr |-> m.from, url |-> m.url, org |-> m.org, bc |-> c.bcast]
         same == {x \in pin[p] : x[1] = m.from /\ x[2] = c.round}
     IN IF ~Accepted(m) THEN UNCHANGED <<got, pin, equiv>>
        ELSE IF c.bcast
          THEN IF same = {} THEN /\ pin' = [pin EXCEPT ![p] = @ \cup {<<m.from, c.round, m.url, m.org>>}]
                                 /\ got' = [got EXCEPT ![p] = @ \cup {h}] /\ UNCHANGED equiv
               ELSE IF <<m.from, c.round, m.url, m.org>> \in same THEN UNCHANGED <<got, pin, equiv>>
               ELSE equiv' = equiv \cup {<<p, m.from, c.round>>} /\ UNCHANGED <<got, pin>>
          ELSE got' = [got EXCEPT ![p] = @ \cup {h}] /\ UNCHANGED <<pin, equiv>>
  /\ UNCHANGED <<step, nsp>>

\* a Byzantine member (or an outsider) transmits content produced by a (captured, or its own for any url) to p as ITSELF,
\* optionally wrapped in an envelope that claims party c as the sender (c = 0: plain wire format, no embedded sender)
Spoof(b, p, u, a, c) ==
  /\ nsp < MaxSpoof /\ b \in Byz \cup Outsiders /\ p \in Parties \ {b} /\ u \in Urls /\ a \in Parties \cup {b}
  /\ (IF a = b THEN TRUE ELSE step[a] >= E(u).step)    \* IF, not \/: TLC explores both disjuncts of an action-level disjunction
  /\ net' = net \cup {[from |-> b, to |-> p, url |-> u, org |-> a, emb |-> c]}
  /\ nsp' = nsp + 1
  /\ UNCHANGED <<step, got, pin, equiv>>

Next0 == \/ \E s \in Parties : Emit(s)
         \/ \E m \in net : Deliver(m)
         \/ \E b \in Byz \cup Outsiders, p \in Parties, u \in Urls, a \in Parties \cup Outsiders, c \in Parties \cup {0} : Spoof(b, p, u, a, c)
Next == Next0 /\ UNCHANGED fvars

\* ---- invariants of the model ----------------------------------------------------------------------------------------
SenderBinding == \A p \in Parties : \A g \in got[p] : g.att = g.tr
HonestNotImpersonated == \A p \in Honest : \A g \in got[p] : g.att \in Honest => g.org = g.att
NoFalseEquivocation == \A e \in equiv : e[2] \notin Honest
NoBroadcastOnP2PPath == \A p \in Parties : \A g \in got[p] : (g.org = g.att /\ g.att \in Honest) => g.bc = E(g.url).lib
Quiescent == net = {} /\ \A s \in Parties : ~CanEmit(s)
Totality == (Byz = {} /\ Outsiders = {} /\ Quiescent) => \A p \in Parties : step[p] = MaxStep /\ HasAll(p, MaxStep)

\* ---- Part 4: fault extension (property C11 at the adapter level) --------------------------------------------------------
\* KeyGen / Sign of every party run with a context.  One fault per run:
\*   Vanish(p, k)      peer p goes silent after its k-th outgoing message (sendMsg call): later ones never leave
\*   Withhold(s, u, r) the single message of type u from s to r is lost
\*   Cancel(p)         nothing is lost; contexts may end at any point anyway (FCtxEnd), p is the party whose cancellation is timed
\* A party hands the messages of a library step to sendMsg one by one (point-to-point: one call per receiver; broadcast: one call),
\* in the order of the adapter's round numbers; a party that has returned does not consume any more, but what it had queued still
\* goes out.  The receive loop returns an error once its context has ended (unless IgnoreCtx) or the result once it has everything.
EmitCount(tb, n) == LET RECURSIVE Sum(_)
                        Sum(S) == IF S = {} THEN 0 ELSE LET x == CHOOSE y \in S : TRUE IN (IF x.lib THEN 1 ELSE n - 1) + Sum(S \ {x})
                    IN Sum(tb)
FaultCases(tb, P) ==
  {NoFault}
  \cup {[kind |-> "vanish", p |-> p, k |-> k, s |-> 0, u |-> "", r |-> 0] : p \in P, k \in 0..EmitCount(tb, Cardinality(P))}
  \cup UNION {{[kind |-> "withhold", p |-> 0, k |-> 0, s |-> s, u |-> x.url, r |-> r] : x \in tb, r \in P \ {s}} : s \in P}
  \cup {[kind |-> "cancel", p |-> p, k |-> 0, s |-> 0, u |-> "", r |-> 0] : p \in P}

StepMsgs(s, k) == {[url |-> u, to |-> IF E(u).lib THEN 0 ELSE q] : u \in UrlsOf(k), q \in Parties \ {s}}
Before(a, b) == E(a.url).round < E(b.url).round \/ (E(a.url).round = E(b.url).round /\ a.to < b.to)
NextMsg(s) == CHOOSE m \in pend[s] : \A o \in pend[s] \ {m} : Before(m, o)
Silent(s) == fault.kind = "vanish" /\ fault.p = s /\ sentc[s] >= fault.k
Lost(s, u, r) == fault.kind = "withhold" /\ fault.s = s /\ fault.u = u /\ fault.r = r

FInit == Init0 /\ FInit0 /\ fault \in FaultCases(Table, Parties)

FStart(s) == /\ retv[s] = "none" /\ pend[s] = {} /\ CanEmit(s)
             /\ step' = [step EXCEPT ![s] = @ + 1]
             /\ pend' = [pend EXCEPT ![s] = StepMsgs(s, step[s] + 1)]
             /\ UNCHANGED <<net, got, pin, equiv, nsp, fault, sentc, ctxs, retv>>

FSend(s) == /\ pend[s] # {}
            /\ LET m == NextMsg(s)
                    tos == IF m.to = 0 THEN Parties \ {s} ELSE {m.to} IN
               /\ pend' = [pend EXCEPT ![s] = @ \ {m}]
               /\ sentc' = [sentc EXCEPT ![s] = @ + 1]
               /\ net' = IF Silent(s) THEN net
                         ELSE net \cup {[from |-> s, to |-> q, url |-> m.url, org |-> s, emb |-> 0] : q \in {x \in tos : ~Lost(s, m.url, x)}}
            /\ UNCHANGED <<step, got, pin, equiv, nsp, fault, ctxs, retv>>

FDeliver(m) == IF retv[m.to] # "none"
                 THEN m \in net /\ net' = net \ {m} /\ UNCHANGED <<step, got, pin, equiv, nsp, fvars>>     \* nobody consumes it
                 ELSE Deliver(m) /\ UNCHANGED fvars

Completed(p) == step[p] = MaxStep /\ pend[p] = {} /\ HasAll(p, MaxStep)
FComplete(p) == /\ retv[p] = "none" /\ Completed(p)
                /\ retv' = [retv EXCEPT ![p] = "ok"]
                /\ UNCHANGED <<step, net, got, pin, equiv, nsp, fault, pend, sentc, ctxs>>
FCtxEnd(p) == /\ ctxs[p] = "live" /\ retv[p] = "none"
              /\ ctxs' = [ctxs EXCEPT ![p] = "ended"]
              /\ UNCHANGED <<step, net, got, pin, equiv, nsp, fault, pend, sentc, retv>>
FReturn(p) == /\ ~IgnoreCtx /\ ctxs[p] = "ended" /\ retv[p] = "none"
              /\ retv' = [retv EXCEPT ![p] = "err"]
              /\ UNCHANGED <<step, net, got, pin, equiv, nsp, fault, pend, sentc, ctxs>>

FNext == \/ \E s \in Parties : FStart(s) \/ FSend(s) \/ FComplete(s) \/ FCtxEnd(s) \/ FReturn(s)
         \/ \E m \in net : FDeliver(m)

FQuiescent == /\ net = {} /\ \A s \in Parties : pend[s] = {} /\ ~(retv[s] = "none" /\ CanEmit(s))
              /\ \A p \in Parties : ~(retv[p] = "none" /\ Completed(p)) /\ ~(ctxs[p] = "live" /\ retv[p] = "none")
              /\ \A p \in Parties : IgnoreCtx \/ ~(ctxs[p] = "ended" /\ retv[p] = "none")
\* every call whose context ended has returned (evaluated at quiescence: before, a return may still be on its way)
EveryEndedCallReturned == FQuiescent => \A p \in Parties : ctxs[p] = "ended" => retv[p] # "none"
ErrorUnlessCompletedM == \A p \in Parties : retv[p] = "ok" => Completed(p)
ErrorOnlyAfterCtxEnd == \A p \in Parties : retv[p] = "err" => ctxs[p] = "ended"
\* without a fault and with contexts that outlive the run, everybody completes
FaultFreeCompletes == (fault.kind \in {"none", "cancel"} /\ FQuiescent /\ \A p \in Parties : ctxs[p] = "live") => \A p \in Parties : retv[p] = "ok"
=============================================================================
