------------------------------- MODULE Inputs -------------------------------
(***************************************************************************)
(* C10: the state x input-class matrix of everything a peer or client can  *)
(* make a node process.  A cell is (entry point, session state, message    *)
(* kind, malformation class).  The specification enumerates the cells and  *)
(* states the obligation of each: the call returns promptly, does not      *)
(* panic, and an honest probe message is still served afterwards; cells    *)
(* whose input is rejected additionally leave the session state unchanged. *)
(* TLC prints the matrix; the conformance harness turns every cell into    *)
(* concrete byte strings (valid messages captured from the library, then   *)
(* mutated along the field table of spec/Wire.tla) and TLC validates the   *)
(* recorded outcomes against the obligations.                              *)
(***************************************************************************)
EXTENDS Integers, Sequences, FiniteSets, TLC, Json

CONSTANTS TraceFile

\* entry point -> session states it can be in
\* (keygen-init: the first synchronisation is over, the back end's Init is in progress; keygen-sync2: Init is done, the second
\*  synchronisation runs, KeyGen has not started -- the stages reg / init / s2 of spec/Barrier.tla; the back end is STRICT there:
\*  like the real BLS / PS back ends it does not survive a message before its Init has completed)
States == [dispatcher |-> {"idle", "keygen-sync", "keygen-init", "keygen-sync2", "keygen-protocol", "sign-protocol", "finished"},
           buffer     |-> {"not-started", "started", "over-limit", "over-topic-limit"},
           sync       |-> {"unregistered", "probing", "done"},
           blsdkg     |-> {"initialised", "after-shares", "after-commits", "finished"},
           psdkg      |-> {"initialised", "after-shares", "after-commits", "finished"},
           blsverify  |-> {"fresh", "initialised"},
           psverify   |-> {"fresh", "initialised"},
           pssign     |-> {"with-share"},
           psprover   |-> {"initialised"}]

\* entry point -> message kinds it accepts
Kinds == [dispatcher |-> {"mpc-payload", "mpc-ack", "sync", "unknown-type"},
          buffer     |-> {"mpc", "other-type"},
          sync       |-> {"membership", "query", "response"},
          blsdkg     |-> {"share", "commit", "reveal"},
          psdkg      |-> {"share", "commit", "reveal"},
          blsverify  |-> {"public-params", "signature", "aggregate"},
          psverify   |-> {"public-params", "proof"},
          pssign     |-> {"request"},
          psprover   |-> {"public-params", "blind-signature"}]

\* malformation classes (applied to a valid message of that kind; "field" classes are instantiated at every field boundary)
Classes == {"valid", "empty", "one-byte", "truncate-at-boundary", "truncate-boundary-minus-1", "truncate-boundary-plus-1",
            "extend-1", "extend-100", "tag-byte-0", "tag-byte-255", "tag-byte-out-of-range", "length-field-lies",
            "short-topic", "empty-topic", "long-topic", "short-digest", "odd-view-length", "bad-curve-point",
            "wrong-component-count", "seeded-byte-flips"}

\* classes that make sense for an entry point
Applies(ep, c) ==
  CASE c \in {"short-topic", "empty-topic", "long-topic"} -> ep \in {"dispatcher", "buffer"}
    [] c = "short-digest"          -> ep = "dispatcher"
    [] c = "odd-view-length"       -> ep = "sync"
    [] c = "bad-curve-point"       -> ep \in {"blsdkg", "psdkg", "blsverify", "psverify", "pssign", "psprover"}
    [] c = "wrong-component-count" -> ep \in {"psdkg", "psverify", "pssign", "psprover", "blsverify"}
    [] c = "length-field-lies"     -> ep \in {"psdkg", "blsverify", "psverify", "pssign", "psprover"}
    [] OTHER -> TRUE

\* a verifier must be initialised by its owner before it is handed signatures or proofs (calling Verify first is a local
\* programming error, not an input from the network); the public parameters are what Init itself parses
StateOK(ep, st, k) ==
  IF ep \in {"blsverify", "psverify"} THEN (k = "public-params") = (st = "fresh") ELSE TRUE

EntryPoints == DOMAIN States
AllStates == UNION {States[e] : e \in EntryPoints}
AllKinds  == UNION {Kinds[e] : e \in EntryPoints}
Cells == {x \in EntryPoints \X AllStates \X AllKinds \X Classes :
             x[2] \in States[x[1]] /\ x[3] \in Kinds[x[1]] /\ Applies(x[1], x[4]) /\ StateOK(x[1], x[2], x[3])}

\* the obligation of every cell
Obligation(r) == r.panic = "" /\ ~r.hung /\ r.probe

-----------------------------------------------------------------------------
\* matrix enumeration (one step) and validation of recorded outcomes
Results == IF TraceFile = "" THEN <<>> ELSE ndJsonDeserialize(TraceFile)

VARIABLE l
Init == l = 0
Next ==
  \/ /\ l = 0 /\ l' = 1
     /\ TraceFile = "" => \A c \in Cells : PrintT(<<"CELL", ToJson([ep |-> c[1], st |-> c[2], kind |-> c[3], cls |-> c[4]])>>)
  \/ /\ l >= 1 /\ l <= Len(Results) /\ l' = l + 1
     /\ LET r == Results[l] IN
        /\ (<<r.ep, r.st, r.kind, r.cls>> \notin Cells) => PrintT(<<"DRIFT", ToJson([id |-> r.id, what |-> "result for a cell that is not in the matrix"])>>)
        /\ ~Obligation(r) => PrintT(<<"VIOL", ToJson([id |-> r.id, ep |-> r.ep, st |-> r.st, kind |-> r.kind, cls |-> r.cls,
                                                         mon |-> IF r.panic # "" THEN "NoPanic" ELSE IF r.hung THEN "ReturnsPromptly" ELSE "ProbeServed"])>>)
     /\ (l = Len(Results)) => PrintT(<<"END", ToJson([n |-> Len(Results)])>>)
=============================================================================
