------------------------------ MODULE Algebra ------------------------------
(***************************************************************************)
(* The secret-sharing algebra of IBM/TSS (mpc/bls and mpc/ps carry         *)
(* identical copies): sss.go (Polynomial.ValueAt, SSS.Gen,                 *)
(* lagrangeCoefficient, Shares.reconstruct), choose.go (chooseKoutOfN) and *)
(* the all-subsets cross-check at the end of the DKG (mpc.go / tps.go      *)
(* assembleThresholdPublicKey).                                            *)
(*                                                                         *)
(* Pure operators, no state.  Arithmetic is in GF(q) for an explicit small *)
(* prime q (q*q < 2^31, so TLC's 32-bit integers never overflow; TLC       *)
(* raises an error on overflow, it never wraps silently).  Group elements  *)
(* (public keys) are modelled by their discrete logarithms: the public key *)
(* of share s is s itself, aggregation "in the exponent" is the same       *)
(* linear combination on field elements.                                   *)
(*                                                                         *)
(* Lagrange coefficients are ALSO given as exact rationals (numerator,     *)
(* denominator over the integers) so that they transfer to the 254-bit     *)
(* group order of the real curve, which TLC cannot compute in.             *)
(***************************************************************************)
EXTENDS Integers, Sequences, FiniteSets, TLC

-----------------------------------------------------------------------------
\* helpers on sets and sequences

ToSet(s) == {s[m] : m \in DOMAIN s}

RECURSIVE SortedSeq(_)
SortedSeq(S) == IF S = {} THEN <<>>
                ELSE LET m == CHOOSE x \in S : \A y \in S : x <= y IN <<m>> \o SortedSeq(S \ {m})

KSubsets(n, k) == {S \in SUBSET (1..n) : Cardinality(S) = k}

RECURSIVE Binom(_, _)
Binom(n, k) == IF k < 0 \/ k > n THEN 0 ELSE IF k = 0 \/ k = n THEN 1 ELSE Binom(n - 1, k - 1) + Binom(n - 1, k)

Abs(x) == IF x < 0 THEN 0 - x ELSE x

RECURSIVE Gcd(_, _)
Gcd(a, b) == IF b = 0 THEN Abs(a) ELSE Gcd(b, a % Abs(b))

-----------------------------------------------------------------------------
\* GF(q)

RECURSIVE Pow(_, _, _)
Pow(a, e, q) == IF e = 0 THEN 1
                ELSE LET h == Pow(a, e \div 2, q) IN
                     IF e % 2 = 0 THEN (h * h) % q ELSE (((h * h) % q) * (a % q)) % q

Inv(a, q) == Pow(a % q, q - 2, q)        \* Fermat; a % q is in 0..q-1 also for negative a

-----------------------------------------------------------------------------
\* sss.go: Polynomial.ValueAt(x) = sum_i x^i * p[i]   (0-based i in the code; P is 1-based here, P[1] is the secret)

RECURSIVE ValueAtFrom(_, _, _, _)
ValueAtFrom(P, x, q, i) == IF i > Len(P) THEN 0
                           ELSE (((Pow(x, i - 1, q) * (P[i] % q)) % q) + ValueAtFrom(P, x, q, i + 1)) % q
ValueAt(P, x, q) == ValueAtFrom(P, x, q, 1)

\* SSS.Gen: the share of evaluation point x in 1..n is P(x); shares[x-1] in the code
Deal(P, n, q) == [x \in 1..n |-> ValueAt(P, x, q)]

\* the same over the integers (for dealings whose coefficients are small enough to stay below 2^31)
RECURSIVE IntPow(_, _)
IntPow(a, e) == IF e = 0 THEN 1 ELSE a * IntPow(a, e - 1)
RECURSIVE ValueAtIntFrom(_, _, _)
ValueAtIntFrom(P, x, i) == IF i > Len(P) THEN 0 ELSE IntPow(x, i - 1) * P[i] + ValueAtIntFrom(P, x, i + 1)
ValueAtInt(P, x) == ValueAtIntFrom(P, x, 1)

-----------------------------------------------------------------------------
\* sss.go: lagrangeCoefficient(evaluatedAt i, evaluationPoints pts...) =
\*   product over the points j # i (in the order given) of  j * (j - i)^-1
\* The code panics for an empty product; the operator is only used with at least one point different from i.

RECURSIVE LagFrom(_, _, _, _)
LagFrom(i, pts, q, m) == IF m > Len(pts) THEN 1
                         ELSE IF pts[m] = i THEN LagFrom(i, pts, q, m + 1)
                         ELSE ((((pts[m] % q) * Inv(pts[m] - i, q)) % q) * LagFrom(i, pts, q, m + 1)) % q
Lagrange(i, pts, q) == LagFrom(i, pts, q, 1)

\* the same coefficient as an exact rational LagNum / LagDen over the integers (|values| <= 8! for points in 1..8)
RECURSIVE LagNumFrom(_, _, _)
LagNumFrom(i, pts, m) == IF m > Len(pts) THEN 1
                         ELSE IF pts[m] = i THEN LagNumFrom(i, pts, m + 1) ELSE pts[m] * LagNumFrom(i, pts, m + 1)
LagNum(i, pts) == LagNumFrom(i, pts, 1)

RECURSIVE LagDenFrom(_, _, _)
LagDenFrom(i, pts, m) == IF m > Len(pts) THEN 1
                         ELSE IF pts[m] = i THEN LagDenFrom(i, pts, m + 1) ELSE (pts[m] - i) * LagDenFrom(i, pts, m + 1)
LagDen(i, pts) == LagDenFrom(i, pts, 1)

\* sss.go: Shares.reconstruct(pts...) = sum over x in pts of shares[x-1] * lagrangeCoefficient(x, pts...)
\* (tbls.go localAggregatePublicKeys / localAggregateSignatures and tps.go localAggregateECPoints are the same sum in the exponent)
RECURSIVE RecFrom(_, _, _, _)
RecFrom(sh, pts, q, m) == IF m > Len(pts) THEN 0
                          ELSE ((((sh[pts[m]] % q) * Lagrange(pts[m], pts, q)) % q) + RecFrom(sh, pts, q, m + 1)) % q
Reconstruct(sh, pts, q) == RecFrom(sh, pts, q, 1)

\* the same with a precomputed table lam[S][i] of Lagrange coefficients (S a set of points)
RECURSIVE RecTabFrom(_, _, _, _, _)
RecTabFrom(sh, pts, lamS, q, m) == IF m > Len(pts) THEN 0
                                   ELSE ((((sh[pts[m]] % q) * lamS[pts[m]]) % q) + RecTabFrom(sh, pts, lamS, q, m + 1)) % q
ReconstructTab(sh, S, lam, q) == RecTabFrom(sh, SortedSeq(S), lam[S], q, 1)

LagrangeTable(n, q) == [S \in {T \in SUBSET (1..n) : Cardinality(T) >= 2} |-> [i \in S |-> Lagrange(i, SortedSeq(S), q)]]

-----------------------------------------------------------------------------
\* exact rational arithmetic (pairs <<numerator, denominator>>, denominator > 0, reduced)

RatNorm(p, d) == LET g == Gcd(p, d)
                     s == IF d < 0 THEN 0 - 1 ELSE 1 IN
                 IF p = 0 THEN <<0, 1>> ELSE <<s * (p \div g), s * (d \div g)>>
RatAdd(a, b) == LET g == Gcd(a[2], b[2]) IN RatNorm(a[1] * (b[2] \div g) + b[1] * (a[2] \div g), (a[2] \div g) * b[2])
RatMulInt(a, k) == LET g == Gcd(k, a[2]) IN RatNorm(a[1] * (k \div g), a[2] \div g)
LagRat(i, pts) == RatNorm(LagNum(i, pts), LagDen(i, pts))

\* sum over the points of lambda_x * x^e, exactly
RECURSIVE MomentFrom(_, _, _)
MomentFrom(pts, e, m) == IF m > Len(pts) THEN <<0, 1>>
                         ELSE RatAdd(RatMulInt(LagRat(pts[m], pts), IntPow(pts[m], e)), MomentFrom(pts, e, m + 1))
\* "the coefficients interpolate every monomial x^e, e < |pts|, at zero": 1 for e = 0, 0 otherwise -- over the rationals, hence in
\* every field whose characteristic exceeds the largest point (so in particular modulo the 254-bit group order)
InterpolatesExactly(pts) == \A e \in 0..(Len(pts) - 1) : MomentFrom(pts, e, 1) = (IF e = 0 THEN <<1, 1>> ELSE <<0, 1>>)

-----------------------------------------------------------------------------
\* choose.go, transcribed:
\*   choose(n, target, i, cur, f):  if len(cur) == target { f(cur); return }
\*                                  if target-len(cur) > n-i { return }
\*                                  choose(n, target, i+1, cur ++ [i+1], f)    -- pick element i+1 first
\*                                  choose(n, target, i+1, cur, f)             -- then skip it
RECURSIVE Choose(_, _, _, _)
Choose(n, k, i, cur) == IF Len(cur) = k THEN <<cur>>
                        ELSE IF k - Len(cur) > n - i THEN <<>>
                        ELSE Choose(n, k, i + 1, Append(cur, i + 1)) \o Choose(n, k, i + 1, cur)
ChooseSeq(n, k) == Choose(n, k, 0, <<>>)

Ascending(s) == \A a, b \in DOMAIN s : a < b => s[a] < s[b]

\* every k-subset of 1..n exactly once, each listed in ascending order
ChooseLaw(n, k) == LET cs == ChooseSeq(n, k) IN
                   /\ Len(cs) = Binom(n, k)
                   /\ \A m \in DOMAIN cs : Len(cs[m]) = k /\ Ascending(cs[m]) /\ ToSet(cs[m]) \subseteq 1..n
                   /\ {ToSet(cs[m]) : m \in DOMAIN cs} = KSubsets(n, k)
                   /\ \A a, b \in DOMAIN cs : a # b => cs[a] # cs[b]

-----------------------------------------------------------------------------
\* DKG cross-check (assembleThresholdPublicKey + the test in KeyGen): the n revealed keys are interpolated at zero over EVERY
\* t-subset chooseKoutOfN enumerates; KeyGen fails iff more than one distinct value comes out.
\* For t = n there is exactly one t-subset, so the check accepts every key vector: indeed ANY n values lie on a polynomial of
\* degree < n = t, so "off the polynomial" is not even observable from the public keys.  That is inherent to the check, not a
\* defect (the deviating party only invalidates its own partial signatures, and for t = n it is needed for every signature anyway).
CrossValues(keys, n, t, q)    == LET cs == ChooseSeq(n, t) IN {Reconstruct(keys, cs[m], q) : m \in DOMAIN cs}
CrossValuesTab(keys, n, t, lam, q) == LET cs == ChooseSeq(n, t) IN {ReconstructTab(keys, ToSet(cs[m]), lam, q) : m \in DOMAIN cs}
Accepts(vals) == Cardinality(vals) <= 1
Bump(keys, i, d, q) == [keys EXCEPT ![i] = (@ + d) % q]

\* expected verdict of a DKG with n parties and threshold t in which the party at position pos (0: nobody) reveals a key that
\* is off the common polynomial: decided by evaluating the model in GF(q) on a fixed polynomial and offset 1
ModelVerdict(n, t, pos, off, P, q) ==
  LET keys == Deal(P, n, q)
      k2   == IF off /\ pos \in 1..n THEN Bump(keys, pos, 1, q) ELSE keys IN
  IF Accepts(CrossValues(k2, n, t, q)) THEN (IF off /\ pos \in 1..n THEN "undetectable" ELSE "accept") ELSE "detect"

-----------------------------------------------------------------------------
\* LARGE sets of evaluation points.  Identifiers are 16-bit in this code base and the property speaks of every n, so the laws
\* below characterise the coefficients WITHOUT big rationals; they are proved by TLC in the small fields and in GF(46337) for
\* large sets, and exactly the same laws are evaluated on the real code modulo the 254-bit group order by the harness.
\*
\*  moment law      for every set S and 0 <= k < |S| :  sum_{i in S} lambda_i(S) * i^k  =  [k = 0]
\*                  (equivalently: the coefficients of S reconstruct P(0) for EVERY polynomial of degree < |S|; the law
\*                   determines the coefficients uniquely -- Vandermonde --, so it is a complete characterisation)
\*  increment law   lambda_i(S + {m}) = lambda_i(S) * m / (m - i),  lambda_i({i}) = 1
\*                  (a chain of small rationals m / (m - i) that the trace specification recomputes exactly)

InvTable(q) == [a \in 1..(q - 1) |-> Pow(a, q - 2, q)]

\* Lagrange coefficient with a table of inverses (points must be distinct and nonzero modulo q)
RECURSIVE LagTFrom(_, _, _, _, _)
LagTFrom(i, pts, q, inv, m) == IF m > Len(pts) THEN 1
                               ELSE IF pts[m] = i THEN LagTFrom(i, pts, q, inv, m + 1)
                               ELSE ((((pts[m] % q) * inv[(pts[m] - i) % q]) % q) * LagTFrom(i, pts, q, inv, m + 1)) % q
LagrangeT(i, pts, q, inv) == LagTFrom(i, pts, q, inv, 1)

RECURSIVE LagSeqFrom(_, _, _, _)
LagSeqFrom(pts, q, inv, m) == IF m > Len(pts) THEN <<>> ELSE <<LagrangeT(pts[m], pts, q, inv)>> \o LagSeqFrom(pts, q, inv, m + 1)
LagSeq(pts, q, inv) == LagSeqFrom(pts, q, inv, 1)       \* coefficients parallel to pts

RECURSIVE MomentQFrom(_, _, _, _, _)
MomentQFrom(pts, lam, k, q, m) == IF m > Len(pts) THEN 0
                                  ELSE (((lam[m] * Pow(pts[m] % q, k, q)) % q) + MomentQFrom(pts, lam, k, q, m + 1)) % q
MomentLawQ(pts, lam, q) == \A k \in 0..(Len(pts) - 1) : MomentQFrom(pts, lam, k, q, 1) = (IF k = 0 THEN 1 ELSE 0)

\* the increment law as the harness reports it: the ratio of consecutive coefficients along a chain, as a reduced rational
RECURSIVE Without(_, _)
Without(pts, i) == IF pts = <<>> THEN <<>> ELSE (IF Head(pts) = i THEN <<>> ELSE <<Head(pts)>>) \o Without(Tail(pts), i)
ChainExpected(pts, i) == LET o == Without(pts, i) IN [j \in DOMAIN o |-> RatNorm(o[j], o[j] - i)]

\* the demanded large sets: classes of windows for every size, plus the seeded random sets handed in
SparseSet(s, top) == [j \in 1..s |-> 1 + ((j - 1) * (top - 1)) \div (s - 1)]
BigClassPts(cls, s) == CASE cls = "prefix"    -> [j \in 1..s |-> j]
                         [] cls = "window9"   -> [j \in 1..s |-> 8 + j]
                         [] cls = "windowtop" -> [j \in 1..s |-> 65535 - s + j]
                         [] cls = "sparse"    -> SparseSet(s, 65535)
                         [] cls = "sparse46k" -> SparseSet(s, 46336)
BigClasses == {"prefix", "window9", "windowtop", "sparse", "sparse46k"}
BigCases(sizes, randsets) == {[cls |-> c, pts |-> BigClassPts(c, s)] : c \in BigClasses, s \in sizes}
                             \cup {[cls |-> "random", pts |-> randsets[m]] : m \in DOMAIN randsets}
PointSetOK(pts) == Len(pts) >= 2 /\ Ascending(pts) /\ \A m \in DOMAIN pts : pts[m] \in 1..65535
SeqMax(pts) == pts[Len(pts)]     \* of an ascending sequence

\* number of k-subsets without recursion over Pascal's triangle (values * n must stay below 2^31)
RECURSIVE BinomMulUp(_, _)
BinomMulUp(n, k) == IF k = 0 THEN 1 ELSE (BinomMulUp(n, k - 1) * (n - k + 1)) \div k
BinomMul(n, k) == IF k < 0 \/ k > n THEN 0 ELSE BinomMulUp(n, IF k <= n - k THEN k ELSE n - k)

\* the subsets over which a large dealing (n, t) is reconstructed / aggregated; "rand*" are seeded by the engine, their shape is
\* checked.  "below" (t-1 points) is a canary: it must NOT reconstruct (conformance only)
DealClasses == {"first", "last", "all", "randt", "randmore", "below"}
DealShapeOK(cls, n, t, pts) ==
  /\ ToSet(pts) \subseteq 1..n /\ Cardinality(ToSet(pts)) = Len(pts)
  /\ CASE cls = "first"    -> pts = [j \in 1..t |-> j]
       [] cls = "last"     -> pts = [j \in 1..t |-> n - t + j]
       [] cls = "all"      -> pts = [j \in 1..n |-> j]
       [] cls = "randt"    -> Len(pts) = t
       [] cls = "randmore" -> Len(pts) >= t
       [] cls = "below"    -> pts = [j \in 1..(t - 1) |-> j]
       [] OTHER            -> FALSE

\* cross-check model with the table of inverses (for DKGs too large for the Fermat inversions above)
RECURSIVE RecTFrom(_, _, _, _, _)
RecTFrom(sh, pts, q, inv, m) == IF m > Len(pts) THEN 0
                                ELSE ((((sh[pts[m]] % q) * LagrangeT(pts[m], pts, q, inv)) % q) + RecTFrom(sh, pts, q, inv, m + 1)) % q
ModelVerdictT(n, t, pos, off, P, q) ==
  LET inv  == InvTable(q)
      keys == Deal(P, n, q)
      k2   == IF off /\ pos \in 1..n THEN Bump(keys, pos, 1, q) ELSE keys
      cs   == ChooseSeq(n, t)
      vals == {RecTFrom(k2, cs[m], q, inv, 1) : m \in DOMAIN cs} IN
  IF Accepts(vals) THEN (IF off /\ pos \in 1..n THEN "undetectable" ELSE "accept") ELSE "detect"
\* coefficients of the fixed polynomial used for the verdict, for any t (wraps around the handed-in coefficients)
VerdictPoly(coeffs, t, q) == [i \in 1..t |-> (coeffs[((i - 1) % Len(coeffs)) + 1] % (q - 1)) + 1]

-----------------------------------------------------------------------------
\* SEQUENCES of key generations on the same instances (Init + KeyGen again, e.g. to replace the key of a committee, possibly
\* with another committee size).  Init starts a new key generation: everything an instance outputs in run k -- verdict of the
\* cross-check, threshold key -- is a function of the keys announced in run k only.
\*
\* A run is described by [n, t, pos, off] (pos = 0: all parties real; otherwise the party at that position is played by the
\* harness, off: it announces a key off the polynomial); RunKeys gives the keys announced in run k of a plan (every run has its
\* own polynomial: fresh randomness).
Run(n, t, pos, off) == [n |-> n, t |-> t, pos |-> pos, off |-> off]

\* the demanded plan for committee (n, t), t < n, and a second committee size (m, u): honest, honest again, a key off the
\* polynomial at EVERY position, honest, the other committee honest and with a deviating last party, back to (n, t) with a
\* harness party on the polynomial, a deviating first party, the undetectable t = n case, and a final honest run
RunPlan(n, t, m, u) ==
  <<Run(n, t, 0, FALSE), Run(n, t, 0, FALSE)>> \o [p \in 1..n |-> Run(n, t, p, TRUE)] \o
  <<Run(n, t, 0, FALSE), Run(m, u, 0, FALSE), Run(m, u, m, TRUE), Run(n, t, 1, FALSE), Run(n, t, 1, TRUE), Run(n, n, n, TRUE),
    Run(n, t, 0, FALSE)>>

RunKeys(run, k, coeffs, q) ==
  LET P    == [i \in 1..run.t |-> (coeffs[((i + k - 1) % Len(coeffs)) + 1] % (q - 1)) + 1]      \* another polynomial in every run
      keys == Deal(P, run.n, q) IN
  IF run.off /\ run.pos \in 1..run.n THEN Bump(keys, run.pos, 1, q) ELSE keys

\* what an instance outputs for the announced keys: the verdict of the cross-check and, if it accepts, the threshold key
Output(keys, run, q) ==
  LET vals == CrossValues(keys, run.n, run.t, q) IN
  IF Accepts(vals) THEN [verdict |-> IF run.off /\ run.pos \in 1..run.n THEN "undetectable" ELSE "accept", tpk |-> CHOOSE v \in vals : TRUE]
  ELSE [verdict |-> "detect", tpk |-> 0 - 1]

\* the instance as a state machine over the runs.  Its only state across runs is `cache` (the parsed announced keys an
\* implementation may keep); `reset` = Init clears it (the specified behaviour).  reset = FALSE is the MUST-FAIL variant "cache
\* from an earlier run": the cache is kept as long as the number of parties does not change.
RECURSIVE InstanceFrom(_, _, _, _, _, _)
InstanceFrom(plan, k, cache, coeffs, q, reset) ==
  IF k > Len(plan) THEN <<>>
  ELSE LET announced == RunKeys(plan[k], k, coeffs, q)
           used      == IF reset \/ Len(cache) # plan[k].n THEN announced ELSE cache IN
       <<Output(used, plan[k], q)>> \o InstanceFrom(plan, k + 1, used, coeffs, q, reset)
Instance(plan, coeffs, q, reset) == InstanceFrom(plan, 1, <<>>, coeffs, q, reset)

\* the law: run k's output is a function of run k's keys only
RunsLaw(plan, coeffs, q) == Instance(plan, coeffs, q, TRUE) = [k \in DOMAIN plan |-> Output(RunKeys(plan[k], k, coeffs, q), plan[k], q)]
\* the demanded plan tells the must-fail variant apart: with a stale cache some deviating run that must be detected is accepted
\* AND some honest run outputs a threshold key that is not the one of its own keys
StaleCacheShows(plan, coeffs, q) ==
  LET good == Instance(plan, coeffs, q, TRUE)
      bad  == Instance(plan, coeffs, q, FALSE) IN
  /\ \E k \in DOMAIN plan : good[k].verdict = "detect" /\ bad[k].verdict # "detect"
  /\ \E k \in DOMAIN plan : good[k].verdict = "accept" /\ bad[k].verdict = "accept" /\ bad[k].tpk # good[k].tpk
ExpectedVerdicts(plan, coeffs, q) == LET o == Instance(plan, coeffs, q, TRUE) IN [k \in DOMAIN plan |-> o[k].verdict]
=============================================================================
