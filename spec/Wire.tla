-------------------------------- MODULE Wire --------------------------------
(***************************************************************************)
(* Wire encodings of IBM/TSS that carry 16-bit identifiers:                *)
(*  - broadcast acknowledgement  (threshold.newRBCEncoding / Ack):         *)
(*        round (< 128), sender high byte, sender low byte, digest         *)
(*  - MPC payload message: 255 followed by the payload                     *)
(*  - synchroniser message (disc.encodeTagAndMembershipList):              *)
(*        type (1..3), 32-byte tag, 2 bytes per member, little endian      *)
(*  - pre-image of the membership topic (threshold.membershipSyncTopicName)*)
(*        2 bytes per member, little endian                                *)
(* TLC checks the round-trip laws for EVERY identifier 0..65535 and prints *)
(* the byte vectors that the conformance harness compares with the code.   *)
(***************************************************************************)
EXTENDS Integers, Sequences, FiniteSets, TLC, Json

CONSTANTS Ids,        \* identifiers quantified over (0..65535 in the exhaustive config)
          Boundary,   \* identifiers used for views and vectors
          RoundsW     \* round numbers

Hi(s) == s \div 256
Lo(s) == s % 256

EncAck(r, s, d) == <<r, Hi(s), Lo(s)>> \o d
IsAck(b)  == Len(b) >= 1 /\ b[1] < 128
DecAck(b) == IF ~IsAck(b) THEN [ok |-> FALSE]
             ELSE IF Len(b) < 4 THEN [ok |-> FALSE]
             ELSE [ok |-> TRUE, r |-> b[1], s |-> b[2] * 256 + b[3], d |-> SubSeq(b, 4, Len(b))]

EncPayload(p) == <<255>> \o p

RECURSIVE LE(_)
LE(v) == IF v = <<>> THEN <<>> ELSE <<Lo(Head(v)), Hi(Head(v))>> \o LE(Tail(v))

RECURSIVE UnLE(_)
UnLE(b) == IF Len(b) < 2 THEN <<>> ELSE <<b[1] + 256 * b[2]>> \o UnLE(SubSeq(b, 3, Len(b)))

EncSync(t, tag, v) == <<t>> \o tag \o LE(v)
DecSync(b) == IF Len(b) < 33 \/ b[1] \notin 1..3 \/ (Len(b) - 33) % 2 # 0 THEN [ok |-> FALSE]
              ELSE [ok |-> TRUE, t |-> b[1], tag |-> SubSeq(b, 2, 33), view |-> UnLE(SubSeq(b, 34, Len(b)))]

TopicPre(v) == LE(v)

Tag0 == [i \in 1..32 |-> i]
Dig0 == <<7, 8, 9, 10>>

Views == {<<>>} \cup {<<a>> : a \in Boundary} \cup {<<a, b>> : a \in Boundary, b \in Boundary}

AckRoundTrip  == \A s \in Ids : \A r \in RoundsW :
                    DecAck(EncAck(r, s, Dig0)) = [ok |-> TRUE, r |-> r, s |-> s, d |-> Dig0]
AckNotPayload == \A s \in Ids : \A r \in RoundsW : IsAck(EncAck(r, s, Dig0)) /\ ~IsAck(EncPayload(Dig0))
IdRoundTrip   == \A s \in Ids : UnLE(LE(<<s>>)) = <<s>> /\ Lo(s) \in 0..255 /\ Hi(s) \in 0..255
SyncRoundTrip == \A t \in 1..3 : \A v \in Views :
                    DecSync(EncSync(t, Tag0, v)) = [ok |-> TRUE, t |-> t, tag |-> Tag0, view |-> v]
TopicInjective == \A v, w \in Views : TopicPre(v) = TopicPre(w) => v = w

Laws == AckRoundTrip /\ AckNotPayload /\ IdRoundTrip /\ SyncRoundTrip /\ TopicInjective

\* vectors for the harness: identifier -> its two bytes, big endian (ack) / little endian (sync, topic)
Vectors == [s \in Ids |-> <<Hi(s), Lo(s)>>]

VARIABLE done
Init == done = FALSE
Next == /\ ~done /\ done' = TRUE
        /\ Assert(Laws, "wire round-trip laws violated")
        /\ PrintT(<<"VEC", ToJson([ack |-> [s \in Boundary |-> EncAck(1, s, Dig0)],
                                   sync |-> [s \in Boundary |-> EncSync(2, Tag0, <<s, 1>>)],
                                   topic |-> [s \in Boundary |-> TopicPre(<<s, 1>>)]])>>)
=============================================================================
