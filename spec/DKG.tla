-------------------------------- MODULE DKG --------------------------------
(***************************************************************************)
(* Distributed key generation of mpc/bls/mpc.go and mpc/ps/tps.go (same    *)
(* shape; PS shares a vector of secrets, each handled like the one here).  *)
(* Group elements are their discrete logs in GF(Q); a commitment to a key  *)
(* is the key itself behind an injective hash.  Share messages are         *)
(* point-to-point, commitments and reveals go through reliable broadcast:  *)
(* AGREEMENT is assumed here (proved for the real layer in RBC.tla / C02): *)
(* a deviating party's broadcast value is fixed by its first delivery --   *)
(* but not totality: it may reach only some parties.                       *)
(* One action per step of KeyGen / OnMsg:                                  *)
(*   Distribute, RecvShare (first wins), Combine, RecvCommit (first wins), *)
(*   Reveal (only with all commitments), RecvReveal (first wins),          *)
(*   Check (commitments match, all T-subsets interpolate to one key),      *)
(*   Timeout (a wait ended by the context: KeyGen returns an error).       *)
(***************************************************************************)
EXTENDS Integers, FiniteSets, FiniteSetsExt, Sequences, TLC

CONSTANTS N, T, Q,
          Byz,        \* set of deviating parties (at most one)
          Polys,      \* [honest party -> set of candidate polynomials (tuples of T coefficients)]
          ByzVals,    \* values the deviating party may put into any message
          Deadlines   \* whether waits may time out

Parties == 1..N
Honest == Parties \ Byz
None == -1

RECURSIVE Pow(_, _)
Pow(a, k) == IF k = 0 THEN 1 ELSE (a * Pow(a, k - 1)) % Q
Inv(a) == Pow(a % Q, Q - 2)
RECURSIVE Eval(_, _, _)
Eval(P, x, i) == IF i > Len(P) THEN 0 ELSE (P[i] * Pow(x, i - 1) + Eval(P, x, i + 1)) % Q
ValueAt(P, x) == Eval(P, x, 1)

\* Lagrange coefficient at zero, as sss.go computes it: product over j # i of j / (j - i)
Lagrange(i, S) == FoldSet(LAMBDA j, acc : (acc * ((j * Inv((j - i + Q) % Q)) % Q)) % Q, 1, S \ {i})
SumOver(S, f(_)) == FoldSet(LAMBDA x, acc : (acc + f(x)) % Q, 0, S)
Interp(keys, S) == SumOver(S, LAMBDA i : (keys[i] * Lagrange(i, S)) % Q)
TSubsets == {S \in SUBSET Parties : Cardinality(S) = T}

VARIABLES poly,   \* [Honest -> polynomial]
          sent,   \* [Honest -> BOOLEAN] shares distributed
          sh, cm, rv,   \* [Honest -> [Parties -> value | None]]
          ph,     \* [Honest -> phase]
          sk,     \* [Honest -> value | None]
          out,    \* [Honest -> [tpk, pks] | None-record]
          net,    \* messages in flight to honest parties: [k, from, to, v]
          bv      \* [{"c","r"} -> value | None]: the value the deviating party's broadcast is pinned to

vars == <<poly, sent, sh, cm, rv, ph, sk, out, net, bv>>

NoOut == [tpk |-> None, pks |-> <<>>]
Blank == [q \in Parties |-> None]

Init == /\ poly \in [Honest -> UNION {Polys[p] : p \in Honest}] /\ \A p \in Honest : poly[p] \in Polys[p]
        /\ sent = [p \in Honest |-> FALSE]
        /\ sh = [p \in Honest |-> Blank] /\ cm = [p \in Honest |-> Blank] /\ rv = [p \in Honest |-> Blank]
        /\ ph = [p \in Honest |-> "share"] /\ sk = [p \in Honest |-> None] /\ out = [p \in Honest |-> NoOut]
        /\ net = {} /\ bv = [k \in {"c", "r"} |-> None]

Msg(k, from, to, v) == [k |-> k, from |-> from, to |-> to, v |-> v]
Bcast(k, p, v) == {Msg(k, p, q, v) : q \in Honest \ {p}}

Distribute(p) ==
  /\ ph[p] = "share" /\ ~sent[p]
  /\ sent' = [sent EXCEPT ![p] = TRUE]
  /\ net' = net \cup {Msg("s", p, q, ValueAt(poly[p], q)) : q \in Honest \ {p}}
  /\ UNCHANGED <<poly, sh, cm, rv, ph, sk, out, bv>>

Recv(m) ==
  /\ m \in net /\ net' = net \ {m}
  /\ LET p == m.to IN
     /\ sh' = IF m.k = "s" /\ sh[p][m.from] = None THEN [sh EXCEPT ![p][m.from] = m.v] ELSE sh
     /\ cm' = IF m.k = "c" /\ cm[p][m.from] = None THEN [cm EXCEPT ![p][m.from] = m.v] ELSE cm
     /\ rv' = IF m.k = "r" /\ rv[p][m.from] = None THEN [rv EXCEPT ![p][m.from] = m.v] ELSE rv
  /\ UNCHANGED <<poly, sent, ph, sk, out, bv>>

Have(f, p) == \A q \in Parties \ {p} : f[p][q] # None

Combine(p) ==
  /\ ph[p] = "share" /\ sent[p] /\ Have(sh, p)
  /\ LET s == (ValueAt(poly[p], p) + SumOver(Parties \ {p}, LAMBDA q : sh[p][q])) % Q IN
     /\ sk' = [sk EXCEPT ![p] = s]
     /\ net' = net \cup Bcast("c", p, s)
  /\ ph' = [ph EXCEPT ![p] = "commit"]
  /\ UNCHANGED <<poly, sent, sh, cm, rv, out, bv>>

Reveal(p) ==
  /\ ph[p] = "commit" /\ Have(cm, p)          \* no reveal before every commitment is held
  /\ net' = net \cup Bcast("r", p, sk[p])
  /\ ph' = [ph EXCEPT ![p] = "reveal"]
  /\ UNCHANGED <<poly, sent, sh, cm, rv, sk, out, bv>>

Check(p) ==
  /\ ph[p] = "reveal" /\ Have(rv, p)
  /\ LET keys == [q \in Parties |-> IF q = p THEN sk[p] ELSE rv[p][q]]
         match == \A q \in Parties \ {p} : rv[p][q] = cm[p][q]
         vals == {Interp(keys, S) : S \in TSubsets} IN
     IF match /\ Cardinality(vals) = 1
       THEN /\ ph' = [ph EXCEPT ![p] = "done"]
            /\ out' = [out EXCEPT ![p] = [tpk |-> CHOOSE v \in vals : TRUE, pks |-> keys]]
       ELSE /\ ph' = [ph EXCEPT ![p] = "err"] /\ UNCHANGED out
  /\ UNCHANGED <<poly, sent, sh, cm, rv, sk, net, bv>>

Timeout(p) ==
  /\ Deadlines /\ ph[p] \in {"share", "commit", "reveal"}
  /\ ph' = [ph EXCEPT ![p] = "err"]
  /\ UNCHANGED <<poly, sent, sh, cm, rv, sk, out, net, bv>>

\* the deviating party: any value in a share, any (pinned) value in its commitment / reveal, to any honest party, at any time
ByzSend(b, k, to, v) ==
  /\ (k \in {"c", "r"}) => (bv[k] = None \/ bv[k] = v)
  /\ bv' = IF k \in {"c", "r"} THEN [bv EXCEPT ![k] = v] ELSE bv
  /\ (k = "s" => sh[to][b] = None) /\ (k = "c" => cm[to][b] = None) /\ (k = "r" => rv[to][b] = None)
  /\ sh' = IF k = "s" THEN [sh EXCEPT ![to][b] = v] ELSE sh
  /\ cm' = IF k = "c" THEN [cm EXCEPT ![to][b] = v] ELSE cm
  /\ rv' = IF k = "r" THEN [rv EXCEPT ![to][b] = v] ELSE rv
  /\ UNCHANGED <<poly, sent, ph, sk, out, net>>

Next == \/ \E p \in Honest : Distribute(p) \/ Combine(p) \/ Reveal(p) \/ Check(p) \/ Timeout(p)
        \/ \E m \in net : Recv(m)
        \/ \E b \in Byz, k \in {"s", "c", "r"}, to \in Honest, v \in ByzVals : ByzSend(b, k, to, v)

Spec == Init /\ [][Next]_vars
-----------------------------------------------------------------------------
Done == {p \in Honest : ph[p] = "done"}
KeyAgreement == \A p, q \in Done : out[p] = out[q]
\* the shares of any T honest parties that completed sign under the reported key (aggregation in the exponent)
SharesSign == \A p \in Done : \A S \in SUBSET Done : Cardinality(S) >= T =>
                 \A S2 \in {X \in SUBSET S : Cardinality(X) = T} : Interp([q \in Parties |-> IF q \in Honest THEN sk[q] ELSE 0], S2) = out[p].tpk
\* the reported per-party keys of honest parties are their real keys
KeysGenuine == \A p \in Done : \A q \in Honest : sk[q] # None => out[p].pks[q] = sk[q]
RevealOnlyAfterAllCommits == \A p \in Honest : ph[p] \in {"reveal", "done"} => Have(cm, p)
\* fault-free runs complete: when nothing is left to do, everybody is done
Quiescent == net = {} /\ \A p \in Honest : ~ENABLED (Distribute(p) \/ Combine(p) \/ Reveal(p) \/ Check(p))
HonestRunsComplete == (Byz = {} /\ ~Deadlines /\ Quiescent) => Done = Honest
=============================================================================
