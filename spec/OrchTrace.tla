----------------------------- MODULE OrchTrace -----------------------------
(***************************************************************************)
(* Trace specification for harness/cmd/drv/orch.go: one real               *)
(* threshold.Scheme driven through call histories.  Every line is one      *)
(* operation with what was observed (signal reached, API result, table     *)
(* keys, back-end hand-overs, synchroniser deliveries, sends, Init         *)
(* arguments).  The model (Orch) takes the same operation; differences are *)
(* drift.  The monitors of C06, C11 and C12 are evaluated on the           *)
(* observations only.                                                      *)
(***************************************************************************)
EXTENDS Orch, Json, SequencesExt

CONSTANTS TraceFile
Trace == ndJsonDeserialize(TraceFile)

VARIABLES l, tid, drift, viol,
          mem,     \* membership of the scenario: record "node" -> party
          parts,   \* [call -> participants (node ids) the stub synchroniser answers with for that call]
          olive,   \* observed: calls started and not yet returned  {<<c, kind, topic>>}
          ostage   \* observed: [c -> last signal]

tvars == <<vars, l, tid, drift, viol, mem, parts, olive, ostage>>
Line == Trace[l]
Rng(s) == {s[i] : i \in DOMAIN s}

TInit == Init /\ l = 1 /\ tid = -1 /\ drift = "" /\ viol = {} /\ mem = <<>> /\ parts = [c \in Calls |-> {}] /\ olive = {} /\ ostage = <<>>

PartyOf(n) == mem[ToString(n)]
SortedParties(P) == SetToSortSeq({PartyOf(n) : n \in P}, LAMBDA a, b : a < b)
NodeOfParty(p, P) == CHOOSE n \in P : PartyOf(n) = p

SetDrift(d) == drift' = IF drift = "" /\ d # "" THEN d \o " @line " \o ToString(l) ELSE drift

Check(ms) ==
  LET bad == {m[1] : m \in {mm \in ms : ~mm[2]}} \ viol IN
  /\ viol' = viol \cup bad
  /\ \A b \in bad : PrintT(<<"VIOL", ToJson([t |-> tid, l |-> l, mon |-> b])>>)

Reset ==
  /\ Line.e = "reset"
  /\ calls' = [c \in Calls |-> NoCall] /\ syncs' = {} /\ rbcs' = {} /\ cls' = {} /\ dkg' = FALSE /\ nops' = 0 /\ hist' = <<>>
  /\ tid' = Line.t /\ drift' = "" /\ viol' = {}
  /\ mem' = IF "membership" \in DOMAIN Line THEN Line.membership ELSE <<>>
  /\ parts' = [c \in Calls |-> {}]
  /\ olive' = {} /\ ostage' = <<>>

TablesDiff(tb, e) ==
  IF Rng(tb.syncs) # e.syncs THEN "synchroniser table differs"
  ELSE IF Rng(tb.rbcs) # e.rbcs THEN "broadcast-instance table differs"
  ELSE IF Rng(tb.cls) # e.cls THEN "classifier table differs"
  ELSE IF tb.dkg # e.dkg THEN "key-generation flag differs"
  ELSE ""

ObsLiveOn(t) == {x \in olive : x[3] = t}

\* common part of call / step / cancel / late: e is the model's effect record, c the call
Common(e, c, isProbeEnd) ==
  LET ret == Line.got = "ret"
      kind == IF Line.e = "call" THEN Line.kind ELSE calls[c].kind
      topic == IF Line.e = "call" THEN Line.topic ELSE calls[c].topic
      plan == IF Line.e = "call" THEN Line.plan ELSE calls[c].plan
      mres == e.calls[c].res
      olive2 == IF Line.e = "call" /\ ~ret THEN olive \cup {<<c, kind, topic>>}
                ELSE IF ret THEN {x \in olive : x[1] # c} ELSE olive
      passedS1 == Line.e = "step" /\ Line.label = "s1" /\ Line.got = "s2"
  IN
  /\ Apply(e) /\ nops' = 0 /\ hist' = <<>>
  /\ olive' = olive2
  /\ ostage' = ostage
  /\ SetDrift(IF Line.got # e.sig THEN "signal differs (model " \o e.sig \o ", code " \o Line.got \o ")"
              ELSE IF ret /\ Line.res # mres THEN "API result differs (model " \o mres \o ", code " \o Line.res \o ")"
              ELSE TablesDiff(Line.tables, e))
  /\ Check({
       \* --- C12
       <<"NoPanic", Line.res # "panic" /\ Line.panic = "">>,
       \* a second session on a topic that is live is refused with an error and does not start
       <<"ConcurrentSameTopicRefused",
           (Line.e = "call" /\ (ObsLiveOn(topic) # {} \/ (kind = "kg" /\ \E x \in olive : x[2] = "kg")))
              => (ret /\ Line.res \in {"refused", "err"})>>,
       \* a session whose peers all play along succeeds whatever happened before or happens on other topics
       <<"AdmittedAndSucceeds", (ret /\ mres = "ok") => Line.res = "ok">>,
       <<"AdmittedWhenNoSessionOnTopic",
           (Line.e = "call" /\ ObsLiveOn(topic) = {} /\ ~(kind = "kg" /\ \E x \in olive : x[2] = "kg")) => Line.res \notin {"refused"}>>,
       <<"LaterCallSucceeds", isProbeEnd => (ret /\ Line.res = "ok")>>,
       \* the moment a call returns nothing of its session is registered any more (whatever still runs on its behalf), unless
       \* another live call owns the topic
       <<"NoResidueAtReturn",
           (ret /\ {x \in olive2 : x[3] = topic} = {}) =>
              \* (the entry of the SECOND synchronisation's own topic is removed by the goroutine that runs that synchronisation, when it
              \*  returns: with a synchroniser that outlives its context it is there a little longer; its consequences are judged by
              \*  LaterCallSucceeds / LateTrafficNoEffect)
              LET left == (Rng(Line.tables.syncs) \cup Rng(Line.tables.rbcs) \cup Rng(Line.tables.cls)) \cap {topic}
              IN left = {}>>,
       \* --- C11
       <<"CancelReturnsError", Line.e = "cancel" => (ret /\ Line.res \in {"ctx", "err"})>>,
       <<"FailureReturnsError", (ret /\ mres \in {"err", "ctx"}) => Line.res # "ok">>,
       <<"PreconditionErrorReturned",
           (Line.e = "step" /\ Line.label = "s1" /\ plan.s1 = "ok" /\ plan.prep \in {"share", "dup"}) => (ret /\ Line.res = "err")>>,
       \* --- C06
       <<"InitGetsSortedPartyIds", passedS1 => (Line.initn = 1 /\ Line.initp = SortedParties(parts[c]))>>,
       <<"DuplicatePartyRefused",
           (Line.e = "step" /\ Line.label = "s1" /\ plan.s1 = "ok" /\ plan.prep = "dup") => (ret /\ Line.res = "err" /\ Line.initn = 0)>>
     })

\* the application's membership map changes between two sessions
SetMapEv ==
  /\ Line.e = "setmap"
  /\ mem' = Line.membership
  /\ UNCHANGED <<vars, tid, drift, viol, parts, olive, ostage>>

\* a call that has been started but is held inside the construction of its first synchroniser: it takes effect (as a "call"
\* event) when it is released
CallHeldEv ==
  /\ Line.e = "callheld"
  /\ UNCHANGED <<vars, tid, drift, viol, mem, parts, olive, ostage>>

CallEv ==
  /\ Line.e = "call"
  /\ parts' = [parts EXCEPT ![Line.c] = IF Line.plan.prep = "dup" THEN Rng(Line.dupparticipants) ELSE Rng(Line.participants)]
  /\ Common(CallEff(Line.c, Line.kind, Line.topic, Line.plan), Line.c, FALSE)
  /\ UNCHANGED <<tid, mem>>

StepEv ==
  /\ Line.e = "step"
  /\ IF calls[Line.c].st = Line.label
       THEN Common(StepEff(Line.c), Line.c, Line.probe = "end")
       ELSE /\ UNCHANGED vars /\ UNCHANGED <<olive, ostage>>
            /\ SetDrift("step of a stage the model is not in")
            /\ Check({<<"NoPanic", Line.res # "panic" /\ Line.panic = "">>,
                      <<"LaterCallSucceeds", Line.probe = "end" => (Line.got = "ret" /\ Line.res = "ok")>>})
  /\ UNCHANGED <<tid, mem, parts>>

CancelEv ==
  /\ Line.e = "cancel"
  /\ IF Live(Line.c)
       THEN Common(CancelEff(Line.c), Line.c, FALSE)
       ELSE /\ UNCHANGED vars /\ UNCHANGED <<olive, ostage>> /\ SetDrift("cancel of a call the model considers finished")
            /\ Check({<<"NoPanic", Line.res # "panic" /\ Line.panic = "">>,
                      <<"CancelReturnsError", Line.got = "ret" => Line.res # "ok">>})
  /\ UNCHANGED <<tid, mem, parts>>

LateEv ==
  /\ Line.e = "late"
  /\ Common(LateEff(Line.c), Line.c, FALSE)
  /\ UNCHANGED <<tid, mem, parts>>

\* observed: which calls' back ends / synchronisers were reached by the injected message
InjectEv ==
  /\ Line.e = "inject"
  /\ LET m == [kind |-> Line.kind, topic |-> Line.topic, from |-> Line.from]
         owners == {c \in Calls : Live(c) /\ calls[c].topic = m.topic}
         sparts == UNION {parts[c] : c \in owners}      \* participants of the live session on that topic (if any)
         pred == IF m.kind = "mpc"
                   THEN IF m.topic \in rbcs /\ m.topic \in cls /\ m.from \in sparts THEN {c \in OwnerOf(m.topic) : calls[c].topic = m.topic} ELSE {}
                   ELSE IF m.topic \in syncs THEN OwnerOf(m.topic) ELSE {}
         obsBE == {x.c : x \in Rng(Line.onmsg)}
         obsSY == Rng(Line.synch)
         liveOnTopic == \E x \in olive : x[3] = m.topic \/ Topic2(x[3]) = m.topic
     IN /\ SetDrift(IF m.kind = "mpc" /\ obsBE # pred THEN "injected protocol message reached other back ends than in the model"
                    ELSE IF m.kind = "sync" /\ (obsSY # {}) # (pred # {}) THEN "injected synchroniser message handled differently than in the model"
                    ELSE TablesDiff(Line.tables, St))
        /\ Check({<<"NoPanic", Line.panic = "">>,
                  <<"LateTrafficNoEffect", ~liveOnTopic => (Line.onmsg = <<>> /\ Line.synch = <<>> /\ Line.sends = <<>>)>>,
                  <<"ForeignNeverReachesInstance", (m.kind = "mpc" /\ m.from \notin sparts) => Line.onmsg = <<>>>>,
                  <<"OnMsgAttributedToPartyOfSender",
                      \A x \in Rng(Line.onmsg) : m.from \in sparts /\ x.from = PartyOf(m.from)>>})
  /\ UNCHANGED <<vars, tid, mem, parts, olive, ostage>>

\* the back end of call c emits a point-to-point message to party Line.to (0: a broadcast)
EmitEv ==
  /\ Line.e = "emit"
  /\ LET mpc == {x \in Rng(Line.sends) : x.kind = "mpc"}
         others == parts[Line.c] \ {Line.self} IN
     /\ SetDrift(IF Cardinality(mpc) # 1 THEN "emit produced no single send" ELSE "")
     /\ Check({<<"NoPanic", Line.panic = "">>,
               <<"P2PGoesToTheSessionReplica",
                   Line.to # 0 => (\A x \in mpc : x.to = <<NodeOfParty(Line.to, parts[Line.c])>>) /\ Cardinality(mpc) = 1 /\ Len(SelectSeq(Line.sends, LAMBDA x : x.kind = "mpc")) = 1>>,
               <<"BroadcastGoesToTheParticipants",
                   Line.to = 0 => (\A x \in mpc : Rng(x.to) = others /\ Len(x.to) = Cardinality(others)) /\ Cardinality(mpc) = 1>>})
  /\ UNCHANGED <<vars, tid, mem, parts, olive, ostage>>

\* the process died (a panic in a goroutine of the code under test)
CrashEv ==
  /\ Line.e = "crash"
  /\ SetDrift("process crashed")
  /\ Check({<<"NoPanic", Line.hang>>, <<"NeverWedged", ~Line.hang>>})
  /\ UNCHANGED <<vars, tid, mem, parts, olive, ostage>>

EndEv == Line.e = "end" /\ PrintT(<<"END", ToJson([t |-> tid, drift |-> drift])>>) /\ UNCHANGED <<vars, tid, drift, viol, mem, parts, olive, ostage>>

TNext == /\ l <= Len(Trace) /\ l' = l + 1
         /\ (Reset \/ SetMapEv \/ CallHeldEv \/ CallEv \/ StepEv \/ CancelEv \/ LateEv \/ InjectEv \/ EmitEv \/ CrashEv \/ EndEv)
=============================================================================
