-------------------------------- MODULE Sig --------------------------------
(***************************************************************************)
(* Executable small-field model of the signature back ends of IBM/TSS:     *)
(*   mpc/bls/{tbls,verifier}.go   threshold BLS                            *)
(*   mpc/ps/{ps,tps,prover,verifier}.go   threshold blind PS signatures    *)
(*                                                                         *)
(* Every group element (G1, G2, GT) is represented by its discrete log in  *)
(* GF(Q), Q = 46337 (Q*Q < 2^31, so TLC's integers never overflow); the    *)
(* generators c.GenG1 / c.GenG2 have discrete log 1; a pairing e(a, b) is  *)
(* the product a*b mod Q, so every pairing equation of the code becomes an *)
(* equation between exponents.  Hash-to-scalar, hash-to-group and the two  *)
(* Fiat-Shamir oracles are fixed arithmetic mixing functions of their      *)
(* input tuple (Mix is a permutation in each argument, so altering ONE     *)
(* oracle input always alters the challenge, like a collision resistant    *)
(* hash).  The equations are transcribed one by one from the Go code; the  *)
(* comments name the Go function.                                          *)
(*                                                                         *)
(* TLC uses the model to (C08) check that the honest pipeline satisfies    *)
(* every equation for all (n,t), signer subsets and message vectors and to *)
(* enumerate that case list, and (C09) to evaluate a catalogue of single   *)
(* field perturbations and print the expected verdict of each (rejected -  *)
(* and the first failing equation - or accepted = the field is not bound   *)
(* by any equation or oracle input).  Every entry is evaluated under TWO   *)
(* sets of constants, so an accidental collision mod Q (accepted under one *)
(* set only) is told apart from a genuinely unbound field (accepted under  *)
(* both).  spec/SigTrace.tla re-computes the expectation for the results   *)
(* recorded from the real library and evaluates the property monitors.     *)
(*                                                                         *)
(* Further parts: the signer lists are enumerated in every order (the      *)
(* property speaks of sets of signers); the delivery schedules of the key  *)
(* generation are explored with the message pool as an unordered bag       *)
(* (InitD / NextD, invariant DkgLive, strict negation "reveal-needs-       *)
(* commit"); attacks on the Fiat-Shamir binding (objects "mall", "forge",  *)
(* "oracle") are adversary cases whose verdict is computed for the oracle  *)
(* as coded (must be rejected) and for its strict negation, in which the   *)
(* targeted component is not absorbed (must be accepted): field `neg`.     *)
(***************************************************************************)
EXTENDS Integers, Sequences, FiniteSets, TLC, Json

CONSTANTS MaxN,     \* parties: 2 <= t <= n <= MaxN
          MaxL,     \* message vector lengths 1..MaxL
          FullL,    \* lengths <= FullL: every vector over the 3-symbol alphabet; longer: one vector per equality pattern
          CatL,     \* C09: message lengths used for the perturbation catalogue
          Kinds,    \* "one": one algebraic perturbation and the cross-session substitution per field, first and last index, first signer;
                    \* "all": every kind, every index, swaps, substitution from a fresh proof, every signer, every signer order
          DkgN,     \* numbers of parties for which the delivery schedules of the key generation are explored
          Negate    \* strict-negation switches (anti-vacuity runs): "reveal-needs-commit"

Q == 46337

-----------------------------------------------------------------------------
\* GF(Q)
Add(a, b) == (a + b) % Q
Sub(a, b) == (a - b + Q) % Q
Mul(a, b) == (a * b) % Q
Neg(a)    == (Q - a) % Q
RECURSIVE Pow(_, _)
Pow(a, k) == IF k = 0 THEN 1
             ELSE LET h == Pow(a, k \div 2) hh == Mul(h, h) IN IF k % 2 = 0 THEN hh ELSE Mul(hh, a)
Inv(a) == Pow(a, Q - 2)
InvTab == [d \in 1..32 |-> Inv(d)]          \* the denominators of Lagrange coefficients are small differences of evaluation points
InvS(a) == IF a >= 1 /\ a <= 32 THEN InvTab[a] ELSE IF a >= Q - 32 THEN Neg(InvTab[Q - a]) ELSE Inv(a)

\* TLC represents [i \in 1..n |-> e] as an unevaluated closure and re-evaluates e at EVERY application; concatenation with the empty
\* sequence forces it into an evaluated tuple.  (Purely an evaluation-cost matter: V(f) = f.)
V(f) == f \o <<>>

RECURSIVE SumF(_, _)
SumF(f, n) == IF n = 0 THEN 0 ELSE Add(SumF(f, n - 1), f[n])
Sum(s) == LET t == V(s) IN SumF(t, Len(t))
\* sum_{i <= Len(a)} a[i]*b[i]   (the Go loops run over the FIRST argument's length)
Dot(a, b) == Sum([i \in 1..Len(a) |-> Mul(a[i], b[i])])

Rng(s) == {s[i] : i \in 1..Len(s)}
RECURSIVE SortedSeq(_)
SortedSeq(s) == IF s = {} THEN <<>> ELSE LET m == CHOOSE x \in s : \A y \in s : x <= y IN <<m>> \o SortedSeq(s \ {m})
SwapSeq(s, i, j) == [s EXCEPT ![i] = s[j], ![j] = s[i]]

-----------------------------------------------------------------------------
\* mixing functions standing for SHA-256 / HashToZr / HashToG1 and for the random choices
Mix(acc, x) == LET t == (acc + x + 1) % Q IN (Mul(Mul(t, t), t) + 12345) % Q      \* t -> t^3 is a permutation: gcd(3, Q-1) = 1
RECURSIVE HashF(_, _, _, _)
HashF(acc, s, k, n) == IF k > n THEN acc ELSE HashF(Mix(acc, s[k] % Q), s, k + 1, n)
Hash(tag, s) == LET t == V(s) IN HashF(tag % Q, t, 1, Len(t))

Seed(cs) == IF cs = 1 THEN 1009 ELSE 30011           \* the two constant sets
Rnd(cs, s)   == Hash(Seed(cs), s)
RndNZ(cs, s) == 1 + (Rnd(cs, s) % (Q - 1))

G2E(cs)    == RndNZ(cs, <<10>>)        \* pp.g2  (psuedoRandomG2)
G0(cs)     == RndNZ(cs, <<11>>)        \* pp.g0
GG(cs)     == RndNZ(cs, <<12>>)        \* pp.g
GS(cs, i)  == RndNZ(cs, <<13, i>>)     \* pp.gs[i-1]
Alpha(cs, a) == RndNZ(cs, <<14, a>>)   \* HashToZr of message entry `a` of the 3-symbol alphabet
HM(cs, m)  == RndNZ(cs, <<15, m>>)     \* BLS: HashToG1(digest m)
HZ(cs, x)  == Hash(Seed(cs) + 1, <<x>>)               \* mPrime = HashToZr(hash(cm.Bytes()))
HG(cs, x)  == 1 + (Hash(Seed(cs) + 2, <<x>>) % (Q - 1))   \* h = HashToG1(cm.Bytes())   (never the identity)

ASSUME \A cs \in {1, 2} :
         /\ Cardinality({G2E(cs), G0(cs), GG(cs)} \cup {GS(cs, i) : i \in 1..8}) = 11
         /\ Cardinality({Alpha(cs, a) : a \in 1..3}) = 3
         /\ HM(cs, 1) # HM(cs, 2)

-----------------------------------------------------------------------------
\* sss.go: lagrangeCoefficient(evaluatedAt, evaluationPoints...) = prod_{j # i} j / (j - i); panics on an empty product
RECURSIVE LagF(_, _, _)
LagF(i, pts, k) == IF k = 0 THEN 1
                   ELSE IF pts[k] = i THEN LagF(i, pts, k - 1)
                   ELSE Mul(LagF(i, pts, k - 1), Mul(pts[k] % Q, InvS(Sub(pts[k] % Q, i % Q))))
Lagrange(i, pts) == LagF(i, pts, Len(pts))
LagrangePanics(pts) == \E q \in 1..Len(pts) : \A k \in 1..Len(pts) : pts[k] = pts[q]

\* sum_k vals[k] * lambda(pts[k]; pts): localAggregateSignatures (value index = POSITION in the list), Prover.ProveKnowledgeOfSignature
Lams(pts) == V([k \in 1..Len(pts) |-> Lagrange(pts[k], pts)])
AggPos(vals, pts) == Dot(Lams(pts), vals)
\* sum_k table[pts[k]] * lambda(pts[k]; pts): localAggregatePublicKeys / localAggregateECPoints (value index = evaluation point)
AggAtL(table, pts, lam) == Sum([k \in 1..Len(pts) |-> Mul(table[pts[k]], lam[k])])
AggAt(table, pts) == AggAtL(table, pts, Lams(pts))

\* DKG (mpc.go / tps.go KeyGen): party p deals the polynomial Coef(.., p, w, 0..t-1) (SSS.Gen), the party at POSITION j of the
\* parties list receives the value at j and adds up what it received (combineShares).   w: 0 = x (or the BLS key), k = y_k
\* (a cheap fixed mixing of the indices: this is by far the most frequently evaluated constant)
Coef(cs, se, p, w, d) == LET v == (Seed(cs) + 7919 * se + 1301 * p + 211 * w + 17 * d + 5 * p * w + 3 * w * d) % Q IN
                         Add(Mul(Mul(v, v), v), 29 * d + p)
PolyAt(cs, se, p, w, t, x) == Sum([d \in 1..t |-> Mul(Coef(cs, se, p, w, d - 1), Pow(x % Q, d - 1))])      \* Polynomial.ValueAt
ShareOf(cs, se, n, t, w, j) == Sum([p \in 1..n |-> PolyAt(cs, se, p, w, t, j)])
TSubsets(n, t) == {SortedSeq(T) : T \in {U \in SUBSET (1..n) : Cardinality(U) = t}}      \* chooseKoutOfN(n, t)

-----------------------------------------------------------------------------
\* perturbation of one value / one entry / one record field
PertV(v, kind, other) == CASE kind \in {"addgen", "plus1"} -> Add(v, 1)      \* point + generator, scalar + 1 mod group order
                           [] kind = "double" -> Mul(v, 2)
                           [] kind \in {"cross", "fresh"} -> other           \* the same field of another session / another proof
                           [] OTHER -> v
PertSeq(s, i, j, kind, other) == IF kind = "swap" THEN SwapSeq(s, i, j) ELSE [s EXCEPT ![i] = PertV(s[i], kind, other[i])]
PertRec(r, field, i, j, kind, o) == IF i = 0 THEN [r EXCEPT ![field] = PertV(r[field], kind, o[field])]
                                    ELSE [r EXCEPT ![field] = PertSeq(r[field], i, j, kind, o[field])]

\* neg: the verdict in the STRICT-NEGATION variant of the model (the Fiat-Shamir oracle does not absorb the component(s) an attack
\* targets); equal to v for every case that is not such an attack
Res(v, stage, eq, changed) == [v |-> v, v2 |-> v, same |-> TRUE, stage |-> stage, eq |-> eq, changed |-> changed, neg |-> v]

-----------------------------------------------------------------------------
\* ------------------------------- BLS ------------------------------------
\* verifier.go Init: parties2EvalPoints[p] = position of p in PublicParams.Parties
EvalPoint(ids, p) == CHOOSE k \in 1..Len(ids) : ids[k] = p
\* tbls.go localSign: HashToG1(digest)^sk
BlsSign(cs, sk, m) == Mul(HM(cs, m), sk)
\* tbls.go localVerify: e(-g2, sig) * e(pk, H(m)) = 1
BlsVerify(cs, pk, m, sig) == Add(Mul(Neg(1), sig), Mul(pk, HM(cs, m))) = 0

BlsKeys(cs, se, n, t) == V([p \in 1..n |-> ShareOf(cs, se, n, t, 0, p)])         \* sk of the party at position p; pk = g2^sk has the same dlog
BlsTPK(cs, se, n, t)  == AggAt(BlsKeys(cs, se, n, t), [k \in 1..t |-> k])
\* mpc.go KeyGen: every t-subset of the revealed public keys interpolates to the same threshold key
BlsDkgOK(cs, se, n, t) == \A T \in TSubsets(n, t) : AggAt(BlsKeys(cs, se, n, t), T) = BlsTPK(cs, se, n, t)

BlsExpect(cs, c) ==
  LET n == c.n  t == c.t  ids == c.ids  S == c.S
      sk1 == BlsKeys(cs, 1, n, t)
      sk2 == BlsKeys(cs, 2, n, t)
      tpk1 == AggAt(sk1, [k \in 1..t |-> k])
      tpk2 == AggAt(sk2, [k \in 1..t |-> k])
      pos(p) == EvalPoint(ids, p)
      \* the signer list handed to Verifier.AggregateSignatures
      Sx == CASE c.obj = "assign" /\ c.kind = "swap"  -> SwapSeq(S, c.i, c.j)
              [] c.obj = "assign" /\ c.kind = "shift" -> [q \in 1..Len(S) |-> ids[(pos(S[q]) % n) + 1]]
              [] OTHER -> S
      shares0 == V([q \in 1..Len(S) |-> BlsSign(cs, sk1[pos(S[q])], 1)])          \* TBLS.Sign of every signer in S on message 1
      sharesX == V([q \in 1..Len(S) |-> BlsSign(cs, sk2[pos(S[q])], 1)])          \* the same signers in another DKG session
      shares == IF c.obj = "share" THEN [shares0 EXCEPT ![c.who] = PertV(@, c.kind, sharesX[c.who])] ELSE shares0
      pts == V([q \in 1..Len(Sx) |-> pos(Sx[q])])
      pts0 == V([q \in 1..Len(S) |-> pos(S[q])])
      raw == c.obj = "fewer" /\ c.kind = "raw"                                \* a single share used as the threshold signature
      panics == ~raw /\ LagrangePanics(pts)
      agg0 == IF raw THEN shares[1] ELSE AggPos(shares, pts)
      agg == IF c.obj = "sig" THEN PertV(agg0, c.kind, AggPos(sharesX, pts0)) ELSE agg0
      key == IF c.obj = "tpk" THEN PertV(tpk1, c.kind, tpk2) ELSE tpk1
      m == IF c.obj = "msg" THEN 2 ELSE 1
      \* a permutation of the signer list that gives every share the coefficient it had before is no alteration at all
      \* (e.g. the points 1 and 3 of {1,2,3,4} have the same Lagrange coefficient, 4)
      changed == \/ c.obj \in {"msg", "pk", "fewer"}
                 \/ (Sx # S /\ (panics \/ Lams(pts) # Lams(pts0))) \/ shares # shares0 \/ agg # agg0 \/ key # tpk1
  IN IF panics THEN Res("reject", "aggregate", "panic", changed)
     ELSE IF BlsVerify(cs, key, m, agg) THEN Res("accept", "verify", "ok", changed)
     ELSE Res("reject", "verify", "PAIR", changed)

-----------------------------------------------------------------------------
\* ------------------------------- PS -------------------------------------
\* tps.go: secret key share of the party at position j: x and y_1..y_{L+1}; public key g2^x, g2^{y_k}
PsSK(cs, se, n, t, L, j) == [x |-> ShareOf(cs, se, n, t, 0, j), ys |-> V([k \in 1..(L + 1) |-> ShareOf(cs, se, n, t, k, j)])]
PsPKof(cs, sk) == [X |-> Mul(G2E(cs), sk.x), Y |-> V([k \in 1..Len(sk.ys) |-> Mul(G2E(cs), sk.ys[k])])]
\* tps.go localAggregatePublicKeys
PsAggPK(pks, pts, nn) == LET lam == Lams(pts) IN
                         [X |-> AggAtL([p \in 1..Len(pks) |-> pks[p].X], pts, lam),
                          Y |-> V([k \in 1..nn |-> AggAtL([p \in 1..Len(pks) |-> pks[p].Y[k]], pts, lam)])]

\* the Fiat-Shamir oracle of the request proof, EXACTLY as coded in randomOracleForBlindingProof: for i < n: d[i], f[i], a[i], b[i];
\* then s, cm (the FULL commitment, including gs[n-1]^mPrime), g, g0, h, u.  The generators gs[] are NOT fed to the hash (the loop
\* calls gs[i].Bytes() and discards the result); neither are mPrime, z, x[], y[] (responses).
\* A = [d, f, a, b (sequences), s, cm, g, g0, h, u, gs]: the arguments by name.  drop: set of <<name, index>> (index 0 for a scalar
\* argument) that the STRICT-NEGATION variant of the oracle does not absorb (the empty set: the oracle as coded).
Zd(drop, name, i, v) == IF <<name, i>> \in drop THEN 0 ELSE v
RO1r(cs, drop, nn, A) ==
  Hash(Seed(cs) + 3, [k \in 1..(4 * nn) |-> LET i == ((k - 1) \div 4) + 1  w == (k - 1) % 4 IN
                                             CASE w = 0 -> Zd(drop, "d", i, A.d[i]) [] w = 1 -> Zd(drop, "f", i, A.f[i])
                                               [] w = 2 -> Zd(drop, "a", i, A.a[i]) [] OTHER -> Zd(drop, "b", i, A.b[i])]
                     \o <<Zd(drop, "s", 0, A.s), Zd(drop, "cm", 0, A.cm), Zd(drop, "g", 0, A.g), Zd(drop, "g0", 0, A.g0),
                          Zd(drop, "h", 0, A.h), Zd(drop, "u", 0, A.u)>>)
RO1d(cs, drop, nn, d, f, s, a, b, cm, h, u) ==
  RO1r(cs, drop, nn, [d |-> d, f |-> f, a |-> a, b |-> b, s |-> s, cm |-> cm, g |-> GG(cs), g0 |-> G0(cs), h |-> h, u |-> u])
RO1(cs, nn, d, f, s, a, b, cm, h, u) == RO1d(cs, {}, nn, d, f, s, a, b, cm, h, u)
\* randomOracleForPoKofSignature: Y[0..], X, g2, Gamma, Phi, nu, h^eps, kappa.   (h'^eps and the responses are not hashed)
\* A = [Y (sequence), X, g2, gamma, phi, nu, heps, kappa]
RO2r(cs, drop, A) ==
  Hash(Seed(cs) + 4, [i \in 1..Len(A.Y) |-> Zd(drop, "Y", i, A.Y[i])]
                     \o <<Zd(drop, "X", 0, A.X), Zd(drop, "g2", 0, A.g2), Zd(drop, "gamma", 0, A.gamma), Zd(drop, "phi", 0, A.phi),
                          Zd(drop, "nu", 0, A.nu), Zd(drop, "heps", 0, A.heps), Zd(drop, "kappa", 0, A.kappa)>>)
RO2d(cs, drop, Y, X, gamma, phi, nu, heps, kappa) ==
  RO2r(cs, drop, [Y |-> Y, X |-> X, g2 |-> G2E(cs), gamma |-> gamma, phi |-> phi, nu |-> nu, heps |-> heps, kappa |-> kappa])
RO2(cs, Y, X, gamma, phi, nu, heps, kappa) == RO2d(cs, {}, Y, X, gamma, phi, nu, heps, kappa)

\* ps.go Blind (+ commit, encrypt, proveBlindingIsWellFormed); randomness of request `se`.
\* drop: oracle variant (see RO1r).  tgt = <<"none", 0>>: the honest prover.  Otherwise a Byzantine prover mounting the weak Fiat-Shamir
\* attack on one proof commitment: it tampers with a value the proof is about (tgt "s": the commitment cm no longer opens to the
\* encrypted messages; "d", i: the ciphertext component b[i] is arbitrary; "f", i: a[i] is arbitrary), computes the challenge with a
\* placeholder for the targeted proof commitment, computes the honest responses and finally SOLVES the verification equation for the
\* targeted commitment.  The forged request verifies exactly if the challenge does not depend on that commitment.
PsBlindF(cs, drop, tgt, se, L, m) ==
  LET nn == L + 1
      rcm == Rnd(cs, <<se, 2, 1>>)
      z   == Rnd(cs, <<se, 2, 2>>)                                   \* ElGamal private key
      u   == Mul(GG(cs), z)
      cmH == Add(Mul(G0(cs), rcm), Sum([i \in 1..L |-> Mul(GS(cs, i), m[i])]))          \* commit(pp, rcm, m)
      cm0 == IF tgt[1] = "s" THEN Add(cmH, 1) ELSE cmH
      mP  == HZ(cs, cm0)
      cm  == Add(cm0, Mul(GS(cs, nn), mP))
      h   == HG(cs, cm)
      msg == V([i \in 1..nn |-> IF i <= L THEN m[i] ELSE mP])
      r   == V([i \in 1..nn |-> Rnd(cs, <<se, 3, i>>)])
      a   == V([i \in 1..nn |-> Add(Mul(GG(cs), r[i]), IF tgt = <<"f", i>> THEN 1 ELSE 0)])
      b   == V([i \in 1..nn |-> Add(Add(Mul(h, msg[i]), Mul(u, r[i])), IF tgt = <<"d", i>> THEN 1 ELSE 0)])
      al  == V([i \in 1..nn |-> Rnd(cs, <<se, 4, i>>)])
      be  == V([i \in 1..nn |-> Rnd(cs, <<se, 5, i>>)])
      ga  == Rnd(cs, <<se, 2, 3>>)
      sH  == Add(Mul(G0(cs), ga), Sum([i \in 1..nn |-> Mul(GS(cs, i), be[i])]))
      dH  == V([i \in 1..nn |-> Add(Mul(h, be[i]), Mul(u, al[i]))])
      fH  == V([i \in 1..nn |-> Mul(GG(cs), al[i])])
      \* the challenge: the targeted commitment is not known yet (placeholder: the group generator)
      e   == RO1d(cs, drop, nn, [i \in 1..nn |-> IF tgt = <<"d", i>> THEN 1 ELSE dH[i]], [i \in 1..nn |-> IF tgt = <<"f", i>> THEN 1 ELSE fH[i]],
                  IF tgt[1] = "s" THEN 1 ELSE sH, a, b, cm, h, u)
      zz  == Add(ga, Mul(e, rcm))
      x   == V([i \in 1..nn |-> Add(al[i], Mul(e, r[i]))])
      y   == V([i \in 1..nn |-> Add(be[i], Mul(e, msg[i]))])
      \* solve  cm^e s = g0^z prod gs^y,  u^x h^y = d b^e,  g^x = f a^e  for the targeted commitment
      s   == IF tgt[1] = "s" THEN Sub(Add(Mul(G0(cs), zz), Sum([i \in 1..nn |-> Mul(GS(cs, i), y[i])])), Mul(cm, e)) ELSE sH
      d   == V([i \in 1..nn |-> IF tgt = <<"d", i>> THEN Sub(Add(Mul(u, x[i]), Mul(h, y[i])), Mul(b[i], e)) ELSE dH[i]])
      f   == V([i \in 1..nn |-> IF tgt = <<"f", i>> THEN Sub(Mul(GG(cs), x[i]), Mul(a[i], e)) ELSE fH[i]])
  IN [req |-> [cm |-> cm0, mprime |-> mP, u |-> u, a |-> a, b |-> b, s |-> s, d |-> d, f |-> f, z |-> zz, x |-> x, y |-> y],
      sec |-> [h |-> h, z |-> z, msg |-> msg],
      args |-> [d |-> d, f |-> f, a |-> a, b |-> b, s |-> s, cm |-> cm, g |-> GG(cs), g0 |-> G0(cs), h |-> h, u |-> u,
                gs |-> V([i \in 1..nn |-> GS(cs, i)])]]
PsBlind(cs, se, L, m) == PsBlindF(cs, {}, <<"none", 0>>, se, L, m)

\* ps.go SignBlindSignature + BlindCorrectFormProof.Verify.  mPrime and h are RECOMPUTED from req.cm (req.mprime is never read).
\* `after` is the request object after the call AS CODED: the first loop does `right := xi.d[i]; right.Add(b[i].Mul(e))` without
\* Copy(), which overwrites d[i] in the caller's proof for every index the loop examined (named deviation MutatesProofD).
PsSignBlindD(cs, drop, L, req, sk) ==
  LET nn == L + 1
      mP == HZ(cs, req.cm)
      cm == Add(req.cm, Mul(GS(cs, nn), mP))
      h  == HG(cs, cm)
      e  == RO1d(cs, drop, nn, req.d, req.f, req.s, req.a, req.b, cm, h, req.u)
      bad1 == {i \in 1..nn : Add(Mul(req.u, req.x[i]), Mul(h, req.y[i])) # Add(req.d[i], Mul(req.b[i], e))}     \* u^x h^y = d b^e
      bad2 == {i \in 1..nn : Mul(GG(cs), req.x[i]) # Add(req.f[i], Mul(req.a[i], e))}                            \* g^x = f a^e
      ok3  == Add(Mul(cm, e), req.s) = Add(Mul(G0(cs), req.z), Sum([i \in 1..nn |-> Mul(GS(cs, i), req.y[i])]))  \* cm^e s = g0^z prod gs^y
      MinOf(T) == CHOOSE x \in T : \A y \in T : x <= y
      eq == IF bad1 # {} THEN "E1" ELSE IF bad2 # {} THEN "E2" ELSE IF ~ok3 THEN "E3" ELSE "ok"
      examined == IF bad1 # {} THEN 1..MinOf(bad1) ELSE 1..nn
  IN [ok |-> eq = "ok", eq |-> eq,
      sig |-> [a |-> Dot(req.a, sk.ys), b |-> Add(Mul(h, sk.x), Dot(req.b, sk.ys))],
      \* (the verification works on a copy of d[i]; before the repair 764b8c1 it accumulated d[i]*b[i]^e into the request itself:
      \*  after |-> [req EXCEPT !.d = V([i \in 1..nn |-> IF i \in examined THEN Add(req.d[i], Mul(req.b[i], e)) ELSE req.d[i]])])
      after |-> req]

PsSignBlind(cs, L, req, sk) == PsSignBlindD(cs, {}, L, req, sk)

\* ps.go UnBlind: hPrime = b - z*a;  e(g2^-1, hPrime) * e(X + sum Y_i m_i, h) = 1
PsUnBlind(cs, pk, sig, sec) ==
  LET hP == Sub(sig.b, Mul(sec.z, sig.a))
      E  == Add(pk.X, Dot(sec.msg, pk.Y))
  IN [ok |-> Add(Mul(Neg(G2E(cs)), hP), Mul(E, sec.h)) = 0, w |-> hP]

\* ps.go PoKofSig + proveProofOfKnowledgeOfSignatureIsCorrectlyFormed; randomness of proof `pr`
PsPoKD(cs, drop, pr, pk, h, hP, msg) ==
  LET nn == Len(msg)
      eps == RndNZ(cs, <<pr, 6, 1>>)
      del == Rnd(cs, <<pr, 6, 2>>)
      mu  == Rnd(cs, <<pr, 6, 3>>)
      gam == V([i \in 1..nn |-> Rnd(cs, <<pr, 7, i>>)])
      kappa == Add(Add(pk.X, Dot(pk.Y, msg)), Mul(G2E(cs), del))
      heps  == Mul(h, eps)
      nu    == Mul(heps, del)
      hpeps == Mul(hP, eps)
      gamma == Add(Mul(G2E(cs), mu), Dot(pk.Y, gam))
      phi   == Mul(heps, mu)
      e     == RO2d(cs, drop, pk.Y, pk.X, gamma, phi, nu, heps, kappa)
  IN [x |-> V([i \in 1..nn |-> Add(gam[i], Mul(e, msg[i]))]), y |-> Add(mu, Mul(e, del)),
      gamma |-> gamma, phi |-> phi, heps |-> heps, hpeps |-> hpeps, nu |-> nu, kappa |-> kappa]
PsPoK(cs, pr, pk, h, hP, msg) == PsPoKD(cs, {}, pr, pk, h, hP, msg)

\* A proof of knowledge fabricated from the PUBLIC KEY ALONE (no share, no signature) by the weak Fiat-Shamir attack on Gamma:
\* kappa = g2^k of known discrete log, h^eps arbitrary, nu = (h^eps)^del, h'^eps = (h^eps)^(k - del) satisfy the pairing condition;
\* Phi = (h^eps)^mu; the challenge is computed with a placeholder for Gamma; y = mu + e del, x arbitrary; finally
\* Gamma := g2^y prod Y^x (kappa/X)^-e.  It verifies exactly if the challenge does not depend on Gamma.
PsForgePoK(cs, drop, pk) ==
  LET nn == Len(pk.Y)
      k == Rnd(cs, <<9, 1>>)  del == Rnd(cs, <<9, 2>>)  mu == Rnd(cs, <<9, 3>>)
      heps == RndNZ(cs, <<9, 4>>)
      x == V([i \in 1..nn |-> Rnd(cs, <<9, 5, i>>)])
      kappa == Mul(G2E(cs), k)
      nu == Mul(heps, del)
      phi == Mul(heps, mu)
      e == RO2d(cs, drop, pk.Y, pk.X, 1, phi, nu, heps, kappa)
      y == Add(mu, Mul(e, del))
  IN [x |-> x, y |-> y, gamma |-> Sub(Add(Mul(G2E(cs), y), Dot(x, pk.Y)), Mul(Sub(kappa, pk.X), e)), phi |-> phi,
      heps |-> heps, hpeps |-> Mul(heps, Sub(k, del)), nu |-> nu, kappa |-> kappa]

\* ps.go SigPoK.Verify: psi.Verify (checkcommitmentForm, then the nu equation), h^eps # 0, pairing condition
PsVerifyD(cs, drop, pok, pk) ==
  LET e == RO2d(cs, drop, pk.Y, pk.X, pok.gamma, pok.phi, pok.nu, pok.heps, pok.kappa)
      okK == Add(Mul(G2E(cs), pok.y), Dot(pok.x, pk.Y)) = Add(pok.gamma, Mul(Sub(pok.kappa, pk.X), e))    \* g2^y prod Y^x = Gamma (kappa/X)^e
      okN == Mul(pok.heps, pok.y) = Add(Mul(pok.nu, e), pok.phi)                                           \* (h^eps)^y = nu^e Phi
      okP == Add(Mul(pok.kappa, pok.heps), Mul(Neg(G2E(cs)), Add(pok.hpeps, pok.nu))) = 0                 \* e(kappa,h^eps) e(g2^-1, h'^eps nu) = 1
  IN IF ~okK THEN "EK" ELSE IF ~okN THEN "EN" ELSE IF pok.heps = 0 THEN "H0" ELSE IF ~okP THEN "PAIR" ELSE "ok"

PsVerify(cs, pok, pk) == PsVerifyD(cs, {}, pok, pk)

\* everything an honest session computes: DKG `se`, request `se`, signers S (party identifiers = evaluation points 1..n)
PsSKs(cs, se, n, t, L) == V([j \in 1..n |-> PsSK(cs, se, n, t, L, j)])
PsSession(cs, se, n, t, L, S, m) ==
  LET nn == L + 1
      sks == PsSKs(cs, se, n, t, L)
      pks == V([j \in 1..n |-> PsPKof(cs, sks[j])])
      bl  == PsBlind(cs, se, L, m)
      sg  == V([q \in 1..Len(S) |-> PsSignBlind(cs, L, bl.req, sks[S[q]])])
  IN [sks |-> sks, pks |-> pks, tpk |-> PsAggPK(pks, [k \in 1..t |-> k], nn), bl |-> bl, sg |-> sg,
      ub |-> V([q \in 1..Len(S) |-> PsUnBlind(cs, pks[S[q]], sg[q].sig, bl.sec)])]
\* tps.go KeyGen: every t-subset of the revealed public keys interpolates to the same threshold key
PsDkgOK(cs, se, n, t, L) == LET pks == V([j \in 1..n |-> PsPKof(cs, PsSK(cs, se, n, t, L, j))])
                                tpk == PsAggPK(pks, [k \in 1..t |-> k], L + 1) IN
                            \A T \in TSubsets(n, t) : PsAggPK(pks, T, L + 1) = tpk

PsProofOf(cs, pr, tpk, sec, wits, signers) == PsPoK(cs, pr, tpk, sec.h, AggPos(wits, signers), sec.msg)

AccS(b) == IF b THEN "accept" ELSE "reject"
\* named oracle arguments: read / write / swap
ArgGet(A, name, i) == IF i = 0 THEN A[name] ELSE A[name][i]
ArgSet(A, name, i, v) == IF i = 0 THEN [A EXCEPT ![name] = v] ELSE [A EXCEPT ![name][i] = v]
\* pairs of same-typed oracle arguments that are exchanged (the transcript is position-sensitive)
PokSwaps == {<<"phi", "nu">>, <<"nu", "heps">>, <<"gamma", "kappa">>, <<"X", "g2">>, <<"X", "kappa">>, <<"Y", "Y">>, <<"Y", "X">>}
ReqSwaps == {<<"d", "f">>, <<"a", "b">>, <<"f", "a">>, <<"d", "d">>, <<"b", "d">>, <<"s", "cm">>, <<"g", "g0">>, <<"h", "u">>, <<"cm", "g">>}
SwapName(pr) == pr[1] \o "~" \o pr[2]

\* Party identifiers and evaluation points.  c.ids is the party list in the (sorted) order handed to TPS.Init and Prover.Init, c.S lists
\* the signers by IDENTIFIER.  The key generation deals the share of the party at position j of that list at the evaluation point j, the
\* threshold key is assembled from those points, and Prover.Init builds the table identifier -> position (prover.go): everywhere below
\* S is the list of the signers' RANKS in c.ids, which is what the code looks up for the signer's key and for the Lagrange
\* coefficients.  Strict negation (field neg of a genuine case): the prover uses the identifier ITSELF as evaluation point (the code
\* before repair 0454ff0); that variant is accepted exactly when the identifiers are 1..n.
PsExpect(cs, c) ==
  LET n == c.n  t == c.t  L == c.L  nn == c.L + 1
      Sid == c.S
      S == V([q \in 1..Len(Sid) |-> EvalPoint(c.ids, Sid[q])])
      m  == V([i \in 1..L |-> Alpha(cs, c.mv[i])])
      \* session 1, piecewise (TLC evaluates LET definitions lazily: only what the case needs is computed)
      sks1 == PsSKs(cs, 1, n, t, L)
      pks1 == V([j \in 1..n |-> PsPKof(cs, sks1[j])])
      tpk1 == PsAggPK(pks1, [k \in 1..t |-> k], nn)
      bl1  == PsBlind(cs, 1, L, m)
      sg1  == V([q \in 1..Len(S) |-> PsSignBlind(cs, L, bl1.req, sks1[S[q]])])
      ub1  == V([q \in 1..Len(S) |-> PsUnBlind(cs, pks1[S[q]], sg1[q].sig, bl1.sec)])
      s2 == PsSession(cs, 2, n, t, L, S, m)              \* another DKG, another request, another proof (only for cross-session kinds)
      req0 == bl1.req
      sec  == bl1.sec
      wits0 == V([q \in 1..Len(S) |-> ub1[q].w])
      wits2 == V([q \in 1..Len(S) |-> s2.ub[q].w])
      pok0  == PsProofOf(cs, 1, tpk1, sec, wits0, S)
      ver(pok, key) == LET r == PsVerify(cs, pok, key) IN
                       Res(IF r = "ok" THEN "accept" ELSE "reject", "verify", r, TRUE)
  IN
  CASE c.obj = "none" ->
         \* the honest pipeline: every step must succeed
         IF ~PsDkgOK(cs, 1, n, t, L) THEN Res("reject", "dkg", "keys", FALSE)
         ELSE IF \E q \in 1..Len(S) : ~sg1[q].ok THEN Res("reject", "sign", sg1[CHOOSE q \in 1..Len(S) : ~sg1[q].ok].eq, FALSE)
         ELSE IF \E q \in 1..Len(S) : ~ub1[q].ok THEN Res("reject", "unblind", "UNBLIND", FALSE)
         ELSE IF LagrangePanics(S) THEN Res("reject", "aggregate", "panic", FALSE)
         ELSE [ver(pok0, tpk1) EXCEPT !.changed = FALSE,
                                      !.neg = AccS(PsVerify(cs, PsProofOf(cs, 1, tpk1, sec, wits0, Sid), tpk1) = "ok")]
    [] c.obj = "req" ->
         \* one field of the blinded signing request altered; observed: SignBlindSignature at signer S[who]
         LET req == PertRec(req0, c.field, c.i, c.j, c.kind, s2.bl.req)
             r == PsSignBlind(cs, L, req, sks1[S[c.who]])
         IN Res(IF r.ok THEN "accept" ELSE "reject", "sign", r.eq, req # req0)
    [] c.obj = "objsign" ->
         \* the same parsed request OBJECT signed twice (ps.SignBlindSignature): second verdict and the object's bytes as coded
         LET r1 == PsSignBlind(cs, L, req0, sks1[S[c.who]])
             r2 == PsSignBlind(cs, L, r1.after, sks1[S[c.who]])
         IN [v |-> IF r1.ok THEN "accept" ELSE "reject", v2 |-> IF r2.ok THEN "accept" ELSE "reject", same |-> r1.after = req0,
             stage |-> "sign", eq |-> r2.eq, changed |-> FALSE, neg |-> IF r1.ok THEN "accept" ELSE "reject"]
    [] c.obj = "sig" ->
         \* the blinded partial signature of signer S[who] altered / taken from another session / unblinded under another signer's key
         LET sg0 == sg1[c.who].sig
             sg  == IF c.kind = "othersigner" THEN sg0 ELSE PertRec(sg0, c.field, 0, 0, c.kind, s2.sg[c.who].sig)
             pk  == IF c.kind = "othersigner" THEN pks1[S[c.i]] ELSE pks1[S[c.who]]
             r == PsUnBlind(cs, pk, sg, sec)
         IN Res(IF r.ok THEN "accept" ELSE "reject", "unblind", IF r.ok THEN "ok" ELSE "UNBLIND", sg # sg0 \/ pk # pks1[S[c.who]])
    [] c.obj = "ppk" ->
         \* the public key of signer S[who] in the prover's table altered
         LET pk0 == pks1[S[c.who]]
             pk  == PertRec(pk0, c.field, c.i, 0, c.kind, s2.pks[S[c.who]])
             r == PsUnBlind(cs, pk, sg1[c.who].sig, sec)
         IN Res(IF r.ok THEN "accept" ELSE "reject", "unblind", IF r.ok THEN "ok" ELSE "UNBLIND", pk # pk0)
    [] c.obj = "wit" ->
         LET wits == [wits0 EXCEPT ![c.who] = PertV(@, c.kind, wits2[c.who])]
         IN [ver(PsProofOf(cs, 1, tpk1, sec, wits, S), tpk1) EXCEPT !.changed = wits # wits0]
    [] c.obj = "wassign" ->
         \* witnesses combined under other signers' evaluation points
         LET Sx == IF c.kind = "swap" THEN SwapSeq(S, c.i, c.j) ELSE [q \in 1..Len(S) |-> (S[q] % n) + 1]
         IN [ver(PsProofOf(cs, 1, tpk1, sec, wits0, Sx), tpk1) EXCEPT !.changed = Lams(Sx) # Lams(S)]
    [] c.obj = "fewer" ->
         \* S has fewer than t signers
         IF LagrangePanics(S) THEN Res("reject", "aggregate", "panic", TRUE)
         ELSE ver(pok0, tpk1)
    [] c.obj = "pok" ->
         LET other == IF c.kind = "fresh" THEN PsProofOf(cs, 3, tpk1, sec, wits0, S)          \* another proof of the same signature
                      ELSE PsProofOf(cs, 2, s2.tpk, s2.bl.sec, wits2, S)                       \* the proof of another session
             pok == PertRec(pok0, c.field, c.i, c.j, c.kind, other)
         IN [ver(pok, tpk1) EXCEPT !.changed = pok # pok0]
    [] c.obj = "objverify" ->
         \* the same SigPoK OBJECT verified twice (SigPoK.Verify copies what it modifies)
         [ver(pok0, tpk1) EXCEPT !.changed = FALSE]
    [] c.obj = "tpk" ->
         LET key == PertRec(tpk1, c.field, c.i, 0, c.kind, s2.tpk)
         IN [ver(pok0, key) EXCEPT !.changed = key # tpk1]
    [] c.obj = "mall" ->
         \* a genuine proof / request altered in SEVERAL components that compensate each other in every verification equation: it
         \* still verifies exactly if the challenge did not change, i.e. if the oracle does not absorb the altered commitment(s).
         \* (In the strict-negation world prover and verifier share the weakened oracle: the genuine object is rebuilt with it.)
         IF c.field = "pok" THEN
           LET drop == IF c.kind = "gamma-x" THEN {<<"gamma", 0>>} ELSE {<<"gamma", 0>>, <<"phi", 0>>}
               mall(dr) == LET p0 == PsPoKD(cs, dr, 1, tpk1, sec.h, AggPos(wits0, S), sec.msg)
                               p1 == IF c.kind = "gamma-x"
                                     THEN [p0 EXCEPT !.gamma = Add(@, tpk1.Y[c.i]), !.x[c.i] = Add(@, 1)]                        \* Gamma*Y_i, x_i+1
                                     ELSE [p0 EXCEPT !.gamma = Add(@, G2E(cs)), !.phi = Add(@, p0.heps), !.y = Add(@, 1)]        \* Gamma*g2, Phi*h^eps, y+1
                           IN PsVerifyD(cs, dr, p1, tpk1)
               r == mall({})
           IN [Res(AccS(r = "ok"), "verify", r, TRUE) EXCEPT !.neg = AccS(mall(drop) = "ok")]
         ELSE
           LET drop == IF c.kind = "s-z" THEN {<<"s", 0>>} ELSE {<<"d", c.i>>, <<"f", c.i>>}
               mall(dr) == LET q0 == PsBlindF(cs, dr, <<"none", 0>>, 1, L, m).req
                               q1 == IF c.kind = "s-z"
                                     THEN [q0 EXCEPT !.s = Add(@, G0(cs)), !.z = Add(@, 1)]                                      \* s*g0, z+1
                                     ELSE [q0 EXCEPT !.d[c.i] = Add(@, q0.u), !.f[c.i] = Add(@, GG(cs)), !.x[c.i] = Add(@, 1)]   \* d_i*u, f_i*g, x_i+1
                           IN PsSignBlindD(cs, dr, L, q1, sks1[S[c.who]])
               r == mall({})
           IN [Res(AccS(r.ok), "sign", r.eq, TRUE) EXCEPT !.neg = AccS(mall(drop).ok)]
    [] c.obj = "forge" ->
         \* weak Fiat-Shamir forgeries by a Byzantine prover that computes the challenge with the library's own oracle
         IF c.field = "pok" THEN
           IF c.kind = "control"
           THEN \* the challenge the library computes for a genuine proof satisfies the first verification equation (checks the binding)
                Res("accept", "verify", "ok", FALSE)
           ELSE LET r == PsVerifyD(cs, {}, PsForgePoK(cs, {}, tpk1), tpk1)
                    rn == PsVerifyD(cs, {<<"gamma", 0>>}, PsForgePoK(cs, {<<"gamma", 0>>}, tpk1), tpk1)
                IN [Res(AccS(r = "ok"), "verify", r, TRUE) EXCEPT !.neg = AccS(rn = "ok")]
         ELSE
           LET tgt == IF c.kind = "control" THEN <<"none", 0>> ELSE <<c.kind, c.i>>
               forged(dr) == PsSignBlindD(cs, dr, L, PsBlindF(cs, dr, tgt, 4, L, m).req, sks1[S[c.who]])
               r == forged({})
           IN [Res(AccS(r.ok), "sign", r.eq, c.kind # "control") EXCEPT !.neg = AccS(forged({tgt}).ok)]
    [] c.obj = "oracle" ->
         \* sensitivity of the library's Fiat-Shamir oracles: "accept" = the challenge is the SAME after altering one argument
         \* (kind = argument name, index i) or exchanging two arguments (kind = "a~b", indices i and j)
         LET isPok == c.field = "pok"
             A0 == IF isPok THEN [Y |-> tpk1.Y, X |-> tpk1.X, g2 |-> G2E(cs), gamma |-> pok0.gamma, phi |-> pok0.phi, nu |-> pok0.nu,
                                  heps |-> pok0.heps, kappa |-> pok0.kappa]
                   ELSE bl1.args
             swaps == IF isPok THEN PokSwaps ELSE ReqSwaps
             isSwap == \E pr \in swaps : SwapName(pr) = c.kind
             pr == CHOOSE q \in swaps : SwapName(q) = c.kind
             A1 == IF isSwap THEN ArgSet(ArgSet(A0, pr[1], c.i, ArgGet(A0, pr[2], c.j)), pr[2], c.j, ArgGet(A0, pr[1], c.i))
                   ELSE ArgSet(A0, c.kind, c.i, Add(ArgGet(A0, c.kind, c.i), 1))
             drop == IF isSwap THEN {<<pr[1], c.i>>, <<pr[2], c.j>>} ELSE {<<c.kind, c.i>>}
             ch(dr, A) == IF isPok THEN RO2r(cs, dr, A) ELSE RO1r(cs, dr, nn, A)
         IN [Res(AccS(ch({}, A0) = ch({}, A1)), "oracle", IF ch({}, A0) = ch({}, A1) THEN "ok" ELSE "differs", A0 # A1)
               EXCEPT !.neg = AccS(ch(drop, A0) = ch(drop, A1))]

Expect(cs, c) == IF c.sch = "bls" THEN BlsExpect(cs, c) ELSE PsExpect(cs, c)

\* combined over the two constant sets: accepted only if accepted under both (a field no equation / oracle input binds, or a
\* perturbation that leaves the object unchanged); accepted under exactly one = accidental collision mod Q
Model(c) == LET e1 == Expect(1, c)  e2 == Expect(2, c) IN
            [v |-> IF e1.v = "accept" /\ e2.v = "accept" THEN "accept" ELSE "reject",
             v2 |-> IF e1.v2 = "accept" /\ e2.v2 = "accept" THEN "accept" ELSE "reject",
             same |-> e1.same /\ e2.same,
             stage |-> IF e1.v = "reject" \/ e2.v = "accept" THEN e1.stage ELSE e2.stage,
             eq |-> IF e1.v = "reject" \/ e2.v = "accept" THEN e1.eq ELSE e2.eq,
             changed |-> e1.changed \/ e2.changed,
             collide |-> e1.v # e2.v,
             neg |-> IF e1.neg = "accept" /\ e2.neg = "accept" THEN "accept" ELSE "reject"]

\* what the PROPERTY TEXT (C09) demands to be rejected: message, share, signer->share assignment, the key, every value bound by a
\* proof or by a request (commitment, ciphertext components, ephemeral key, proof commitments and responses), fewer than t shares.
\* Not listed there: the copy of mPrime carried by the request, the per-party keys carried by the BLS public parameters.
MustReject(c) == /\ c.obj \notin {"none", "objsign", "objverify"}
                 /\ ~(c.obj = "req" /\ c.field = "mprime")
                 /\ ~(c.sch = "bls" /\ c.obj = "pk")
                 /\ ~(c.obj = "forge" /\ c.kind = "control")
                 /\ ~(c.obj = "oracle" /\ c.kind = "gs")          \* the generators gs[] are public constants; the code does not hash them
\* the attacks on the Fiat-Shamir binding: rejected by the model, accepted by its strict negation
IsAttack(c) == c.obj \in {"mall", "forge", "oracle"} /\ MustReject(c)

-----------------------------------------------------------------------------
\* ------------------------- case enumeration -----------------------------
NT == {nt \in (2..MaxN) \X (2..MaxN) : nt[2] <= nt[1]}
SignerSets(n, t) == {SortedSeq(T) : T \in {U \in SUBSET (1..n) : Cardinality(U) >= t}}
MaxUpTo(v, i) == LET T == {v[k] : k \in 1..(i - 1)} IN IF T = {} THEN 0 ELSE CHOOSE x \in T : \A y \in T : y <= x
Vectors(L) == IF L <= FullL THEN [1..L -> 1..3]
              ELSE {v \in [1..L -> 1..3] : \A i \in 1..L : v[i] <= MaxUpTo(v, i) + 1}       \* one vector per equality pattern
Base(sch, n, t, L, ids, S, mv) == [sch |-> sch, n |-> n, t |-> t, L |-> L, ids |-> ids, S |-> S, mv |-> mv,
                                   obj |-> "none", field |-> "", i |-> 0, j |-> 0, kind |-> "none", who |-> 0]
P(c0, obj, field, i, j, kind, who) == [c0 EXCEPT !.obj = obj, !.field = field, !.i = i, !.j = j, !.kind = kind, !.who = who]
Iota(n) == [k \in 1..n |-> k]

\* party identifier lists (sorted, as handed to Init): 1..n, non-contiguous, byte-boundary / large.  (None is a multiple of 1..n:
\* Lagrange coefficients are invariant under scaling of the evaluation points.)
AltIds(n) == [k \in 1..n |-> 3 * k + 2]
BigIds(n) == CASE n = 2 -> <<256, 65535>> [] n = 3 -> <<2, 256, 65535>> [] OTHER -> <<2, 256, 257, 65535>>
IdLists(n) == {V(Iota(n)), V(AltIds(n)), V(BigIds(n))}
MapIds(ids, S) == V([q \in 1..Len(S) |-> ids[S[q]]])

All == Kinds = "all"
MvFor(L) == [i \in 1..L |-> IF i <= 2 THEN 1 ELSE 2]          \* equal entries included

\* The property speaks of every SET of signers: the order in which (signer, share / witness) pairs are handed to the aggregation must
\* not matter.  Orders(S): the other orders of the ascending list S -- reversed and every rotation; "all": every permutation.
IsAsc(S) == \A i \in 1..(Len(S) - 1) : S[i] < S[i + 1]
RevSeq(S) == [i \in 1..Len(S) |-> S[Len(S) + 1 - i]]
RotSeq(S, k) == [i \in 1..Len(S) |-> S[((i - 1 + k) % Len(S)) + 1]]
PermsOf(S) == {V([i \in 1..Len(S) |-> S[f[i]]]) : f \in {g \in [1..Len(S) -> 1..Len(S)] : \A i, j \in 1..Len(S) : i # j => g[i] # g[j]}}
Orders(S) == (IF All THEN PermsOf(S) ELSE {V(RevSeq(S))} \cup {V(RotSeq(S, k)) : k \in 1..(Len(S) - 1)}) \ {S}

\* (genuine cases in every other signer order are added; the C09 catalogue is applied to the ascending ones only)
WithOrders(T) == T \cup UNION {Orders(S) : S \in T}

\* C08: every (n,t), every signer set of size >= t, every message vector (signers ascending) + every other signer order (one vector)
\*      + the same signer sets and orders with the other party identifier lists (one vector)
Cases08For(n, t, L) == {Base("ps", n, t, L, Iota(n), S, mv) : S \in SignerSets(n, t), mv \in Vectors(L)}
                       \cup UNION {{Base("ps", n, t, L, Iota(n), O, MvFor(L)) : O \in Orders(S)} : S \in SignerSets(n, t)}
                       \cup {Base("ps", n, t, L, ids, MapIds(ids, S), MvFor(L)) :
                               ids \in IdLists(n) \ {V(Iota(n))}, S \in WithOrders(SignerSets(n, t))}
Cases08 == UNION {Cases08For(nt[1], nt[2], L) : nt \in NT, L \in 1..MaxL}

\* C09 base cases.  BLS additionally with party identifiers that are not 1..n (the Verifier's party -> evaluation point table)
BlsBasesFor(n, t) == {Base("bls", n, t, 0, ids, MapIds(ids, S), <<>>) : ids \in IdLists(n), S \in WithOrders(SignerSets(n, t))}
BlsBases == UNION {BlsBasesFor(nt[1], nt[2]) : nt \in NT}
PsBasesFor(n, t, L) == {Base("ps", n, t, L, ids, MapIds(ids, S), MvFor(L)) : ids \in IdLists(n), S \in WithOrders(SignerSets(n, t))}
PsBases == UNION {PsBasesFor(nt[1], nt[2], L) : nt \in NT, L \in CatL}

PointKinds  == IF All THEN {"addgen", "double", "cross"} ELSE {"addgen", "cross"}
ScalarKinds == IF All THEN {"plus1", "double", "cross"} ELSE {"plus1", "cross"}
Pairs(k) == IF All THEN {ij \in (1..k) \X (1..k) : ij[1] < ij[2]} ELSE {ij \in (1..k) \X (1..k) : ij[1] = 1 /\ ij[2] = 2}
Fewer(c0) == LET sub == {T \in SUBSET Rng(c0.S) : Cardinality(T) >= 1 /\ Cardinality(T) < c0.t
                                                  /\ (All \/ Cardinality(T) = c0.t - 1)} IN
             {[c0 EXCEPT !.S = SortedSeq(T), !.obj = "fewer", !.kind = IF Cardinality(T) = 1 THEN "one" ELSE "agg"] : T \in sub}

BlsPerts(c0) ==
  LET k == Len(c0.S) IN
  {P(c0, "msg", "", 0, 0, "other", 0)}
  \cup {P(c0, "share", "", 0, 0, kd, w) : kd \in PointKinds, w \in IF All THEN 1..k ELSE {1}}
  \cup {P(c0, "assign", "", ij[1], ij[2], "swap", 0) : ij \in Pairs(k)}
  \cup {P(c0, "assign", "", 0, 0, "shift", 0)}
  \cup {P(c0, "sig", "", 0, 0, kd, 0) : kd \in PointKinds}
  \cup {P(c0, "tpk", "", 0, 0, kd, 0) : kd \in PointKinds}
  \cup {P(c0, "pk", "", i, 0, "addgen", 0) : i \in IF All THEN 1..c0.n ELSE {1}}
  \cup Fewer(c0)
  \cup {[f EXCEPT !.kind = "raw"] : f \in {g \in Fewer(c0) : Len(g.S) = 1}}     \* one share used as the threshold signature

ReqPointVec  == {"a", "b", "d", "f"}
ReqScalarVec == {"x", "y"}
ReqPoint     == {"cm", "u", "s"}
ReqScalar    == {"z", "mprime"}
PokPoint     == {"gamma", "phi", "heps", "hpeps", "nu", "kappa"}

\* Fiat-Shamir binding (every value the oracles list must determine the challenge): compensated alterations of genuine objects,
\* forgeries that solve a verification equation for a proof commitment after computing the challenge, and the sensitivity of the
\* oracles themselves to every argument and to exchanges of arguments
FsAttacks(c0) ==
  LET nn == c0.L + 1
      idx == IF All THEN 1..nn ELSE {1, nn}
      adj == {i \in idx : i < nn}
  IN
  {P(c0, "mall", "pok", i, 0, "gamma-x", 0) : i \in idx}
  \cup {P(c0, "mall", "pok", 0, 0, "gamma-phi-y", 0), P(c0, "mall", "req", 0, 0, "s-z", 1)}
  \cup {P(c0, "mall", "req", i, 0, "d-f-x", 1) : i \in idx}
  \cup {P(c0, "forge", "pok", 0, 0, kd, 0) : kd \in {"control", "gamma"}}
  \cup {P(c0, "forge", "req", 0, 0, kd, 1) : kd \in {"control", "s"}}
  \cup {P(c0, "forge", "req", i, 0, kd, 1) : kd \in {"d", "f"}, i \in idx}
  \cup {P(c0, "oracle", "pok", 0, 0, a, 0) : a \in {"X", "g2", "gamma", "phi", "nu", "heps", "kappa"}}
  \cup {P(c0, "oracle", "pok", i, 0, "Y", 0) : i \in idx}
  \cup {P(c0, "oracle", "pok", 0, 0, SwapName(pr), 0) : pr \in PokSwaps \ {<<"Y", "Y">>, <<"Y", "X">>}}
  \cup {P(c0, "oracle", "pok", i, i + 1, "Y~Y", 0) : i \in adj}
  \cup {P(c0, "oracle", "pok", nn, 0, "Y~X", 0)}
  \cup {P(c0, "oracle", "req", 0, 0, a, 0) : a \in {"s", "cm", "g", "g0", "h", "u"}}
  \cup {P(c0, "oracle", "req", i, 0, a, 0) : a \in {"d", "f", "a", "b", "gs"}, i \in idx}
  \cup {P(c0, "oracle", "req", 0, 0, SwapName(pr), 0) : pr \in {<<"s", "cm">>, <<"g", "g0">>, <<"h", "u">>, <<"cm", "g">>}}
  \cup {P(c0, "oracle", "req", i, i, SwapName(pr), 0) : pr \in {<<"d", "f">>, <<"a", "b">>, <<"f", "a">>}, i \in idx}
  \cup {P(c0, "oracle", "req", i, i + 1, SwapName(pr), 0) : pr \in {<<"d", "d">>, <<"b", "d">>}, i \in adj}

PsPerts(c0) ==
  LET k == Len(c0.S)  nn == c0.L + 1
      whos == IF All THEN 1..k ELSE {1}
      idx  == IF All THEN 1..nn ELSE {1, nn}
      swaps == IF All THEN {ij \in (1..nn) \X (1..nn) : ij[2] = ij[1] + 1} ELSE {}
      fresh == IF All THEN {"fresh"} ELSE {}
  IN
  \* the blinded signing request
  {P(c0, "req", f, 0, 0, kd, w) : f \in ReqPoint, kd \in PointKinds, w \in whos}
  \cup {P(c0, "req", f, 0, 0, kd, w) : f \in ReqScalar, kd \in ScalarKinds, w \in whos}
  \cup {P(c0, "req", f, i, 0, kd, w) : f \in ReqPointVec, i \in idx, kd \in PointKinds, w \in whos}
  \cup {P(c0, "req", f, i, 0, kd, w) : f \in ReqScalarVec, i \in idx, kd \in ScalarKinds, w \in whos}
  \cup {P(c0, "req", f, ij[1], ij[2], "swap", 1) : f \in ReqPointVec \cup ReqScalarVec, ij \in swaps}
  \* a partial (blinded) signature, the prover's copy of a signer key, unblinding under another signer
  \cup {P(c0, "sig", f, 0, 0, kd, w) : f \in {"a", "b"}, kd \in PointKinds, w \in whos}
  \cup {P(c0, "sig", "", wi[2], 0, "othersigner", wi[1]) :
          wi \in {x \in whos \X (1..k) : x[1] # x[2] /\ (All \/ x[2] = 2)}}
  \cup {P(c0, "ppk", "X", 0, 0, kd, w) : kd \in PointKinds, w \in whos}
  \cup {P(c0, "ppk", "Y", i, 0, kd, w) : i \in idx, kd \in PointKinds, w \in whos}
  \* witnesses and their assignment to signers
  \cup {P(c0, "wit", "", 0, 0, kd, w) : kd \in PointKinds, w \in whos}
  \cup {P(c0, "wassign", "", ij[1], ij[2], "swap", 0) : ij \in Pairs(k)}
  \cup {P(c0, "wassign", "", 0, 0, "shift", 0)}
  \cup Fewer(c0)
  \* the proof of knowledge
  \cup {P(c0, "pok", f, 0, 0, kd, 0) : f \in PokPoint, kd \in PointKinds \cup fresh}
  \cup {P(c0, "pok", "y", 0, 0, kd, 0) : kd \in ScalarKinds \cup fresh}
  \cup {P(c0, "pok", "x", i, 0, kd, 0) : i \in idx, kd \in ScalarKinds \cup fresh}
  \cup {P(c0, "pok", "x", ij[1], ij[2], "swap", 0) : ij \in swaps}
  \* the threshold public key verified against
  \cup {P(c0, "tpk", "X", 0, 0, kd, 0) : kd \in PointKinds}
  \cup {P(c0, "tpk", "Y", i, 0, kd, 0) : i \in idx, kd \in PointKinds}
  \* side-effect freedom at object level
  \cup {P(c0, "objsign", "", 0, 0, "twice", 1), P(c0, "objverify", "", 0, 0, "twice", 0)}
  \cup (IF All \/ c0.S = Iota(c0.t) THEN FsAttacks(c0) ELSE {})

\* PS with party identifiers other than 1..n: the entries that involve the identifier -> key / evaluation point mapping
\* (signer-to-share assignment: the witness of party a presented as party b's; unblinding under another signer's key; fewer signers)
PsIdPerts(c0) ==
  LET k == Len(c0.S)
      whos == IF All THEN 1..k ELSE {1}
  IN {P(c0, "wassign", "", ij[1], ij[2], "swap", 0) : ij \in Pairs(k)}
     \cup {P(c0, "wassign", "", 0, 0, "shift", 0)}
     \cup {P(c0, "sig", "", wi[2], 0, "othersigner", wi[1]) : wi \in {x \in whos \X (1..k) : x[1] # x[2] /\ (All \/ x[2] = 2)}}
     \cup {P(c0, "wit", "", 0, 0, "addgen", w) : w \in whos}
     \cup {P(c0, "ppk", "X", 0, 0, "addgen", w) : w \in whos}
     \cup {P(c0, "tpk", "X", 0, 0, "addgen", 0), P(c0, "pok", "hpeps", 0, 0, "addgen", 0), P(c0, "req", "cm", 0, 0, "addgen", 1)}
     \cup Fewer(c0)

Perts(c0) == IF c0.sch = "bls" THEN BlsPerts(c0) ELSE IF c0.ids = Iota(c0.n) THEN PsPerts(c0) ELSE PsIdPerts(c0)

-----------------------------------------------------------------------------
\* ------------------- delivery schedules of the key generation -------------------
\* mpc/ps/tps.go and mpc/bls/mpc.go (same shape): KeyGen sends a share to every other party (point to point), waits for n-1 shares,
\* combines them, broadcasts the COMMITMENT to its public key, waits for n-1 commitments, broadcasts the PUBLIC KEY, waits until it
\* holds n public keys, checks every public key against the commitment (validateCommitments) and assembles the threshold key.
\* OnMsg only STORES what arrives (first value per sender), whatever the phase of the receiver: the back ends tolerate every arrival
\* order.  The message pool therefore is an unordered bag: any pending message <<kind, from, to>> (kind 1 share, 2 commitment,
\* 3 public key) may be delivered next; in particular the public key of p may reach r before p's commitment does.
\* A state: ph[p] (1 waiting for shares, 2 for commitments, 3 for public keys, 4 finished), sh / cm / rv[p] (senders whose share /
\* commitment / public key p holds), pool (pending), del (delivered).
DkgInit(n) == [ph |-> [p \in 1..n |-> 1], sh |-> [p \in 1..n |-> {}], cm |-> [p \in 1..n |-> {}], rv |-> [p \in 1..n |-> {}],
               pool |-> {m \in {1} \X (1..n) \X (1..n) : m[2] # m[3]}, del |-> {}]
DkgBcast(k, p, n) == {<<k, p, q>> : q \in (1..n) \ {p}}
\* the KeyGen goroutine of r moves on as far as what r holds allows (the wait loops of the code)
DkgStep(D, r, n) ==
  IF D.ph[r] = 1 /\ Cardinality(D.sh[r]) = n - 1 THEN [D EXCEPT !.ph[r] = 2, !.pool = @ \cup DkgBcast(2, r, n)]
  ELSE IF D.ph[r] = 2 /\ Cardinality(D.cm[r]) = n - 1 THEN [D EXCEPT !.ph[r] = 3, !.pool = @ \cup DkgBcast(3, r, n)]
  ELSE IF D.ph[r] = 3 /\ Cardinality(D.rv[r]) = n - 1 THEN [D EXCEPT !.ph[r] = 4]
  ELSE D
\* strict = the STRICT-NEGATION variant "a public key is accepted only if the sender's commitment is already there" (what a receiver
\* would do if it checked the de-commitment on arrival instead of at the end); the code under test does not do this
DkgDeliver(D, m, n, strict) ==
  LET k == m[1]  p == m[2]  r == m[3]
      D1 == [D EXCEPT !.pool = @ \ {m}, !.del = @ \cup {m}]
      D2 == CASE k = 1 -> [D1 EXCEPT !.sh[r] = @ \cup {p}]
              [] k = 2 -> [D1 EXCEPT !.cm[r] = @ \cup {p}]
              [] OTHER -> IF strict /\ p \notin D1.cm[r] THEN D1 ELSE [D1 EXCEPT !.rv[r] = @ \cup {p}]
  IN DkgStep(DkgStep(DkgStep(D2, r, n), r, n), r, n)
DkgAllDone(D, n) == D.pool = {} /\ \A p \in 1..n : D.ph[p] = 4

\* exploration.  pol.kind = "any": every pending message may be delivered next (all schedules);
\* "target": the commitment of pol.p is held back at pol.r until pol.p's public key has arrived there (the public key overtakes the
\* commitment), everything else in a fixed order (pol.tie): one deterministic schedule per (p, r, tie)
DkgKey(m) == 100 * m[1] + 10 * m[2] + m[3]
DkgEligible(cc, D) ==
  IF cc.pol.kind = "any" THEN D.pool
  ELSE LET held == IF <<3, cc.pol.p, cc.pol.r>> \notin D.del THEN {<<2, cc.pol.p, cc.pol.r>>} ELSE {}
           cand == D.pool \ held
       IN IF cand = {} THEN {}
          ELSE {CHOOSE m \in cand : \A m2 \in cand : IF cc.pol.tie = "min" THEN DkgKey(m) <= DkgKey(m2) ELSE DkgKey(m) >= DkgKey(m2)}
DkgConfigs(n) == {[sch |-> "dkg", n |-> n, pol |-> [kind |-> "any", p |-> 0, r |-> 0, tie |-> "min"]]}
                 \cup {[sch |-> "dkg", n |-> n, pol |-> [kind |-> "target", p |-> pr[1], r |-> pr[2], tie |-> tie]] :
                          pr \in {x \in (1..n) \X (1..n) : x[1] # x[2]}, tie \in {"min", "max"}}

-----------------------------------------------------------------------------
\* The model is evaluated inside ACTIONS (phase "todo" -> "done"), not inside invariants: TLC caches the value of a LET definition
\* only while it generates successor states; in an invariant every reference would re-evaluate the whole pipeline.
VARIABLES c,      \* the case (a record; obj = "none": genuine)
          ph,     \* "todo": not evaluated yet, "done": `res` holds the model's verdict
          res     \* <<>> or <<verdict record>>

Pending(cases) == c \in cases /\ ph = "todo" /\ res = <<>>

\* C08: the honest pipeline satisfies every equation for every enumerated case (under both constant sets)
Init08 == Pending(Cases08)
Next08 == /\ ph = "todo" /\ ph' = "done" /\ c' = c
          /\ res' = <<Model(c)>>
          /\ PrintT(<<"CASE", ToJson(c)>>)
\* ... and its strict negation "the identifier is the evaluation point" is accepted exactly when the identifiers are 1..n
Honest08 == ph = "done" => (res[1].v = "accept" /\ ~res[1].collide /\ ((res[1].neg = "accept") <=> (c.ids = Iota(c.n))))

\* C09: genuine cases are accepted; every catalogue entry gets its expected verdict
Init09 == Pending(BlsBases \cup PsBases)
Next09 == \/ /\ ph = "todo" /\ ph' = "done" /\ c' = c
             /\ res' = <<Model(c)>>
             /\ PrintT(<<"PERT", ToJson([c |-> c, m |-> res'[1], must |-> MustReject(c)])>>)
          \/ /\ ph = "done" /\ c.obj = "none" /\ IsAsc(c.S)
             /\ c' \in Perts(c) /\ ph' = "todo" /\ res' = <<>>
Cat09 == /\ (ph = "done" /\ c.obj = "none") =>
            /\ res[1].v = "accept" /\ ~res[1].collide
            /\ c.sch = "bls" => (BlsDkgOK(1, 1, c.n, c.t) /\ BlsDkgOK(2, 1, c.n, c.t))
            /\ c.sch = "ps" => ((res[1].neg = "accept") <=> (c.ids = Iota(c.n)))
         \* every attack on the Fiat-Shamir binding is rejected in the model (the oracle absorbs the component) and accepted in the
         \* strict-negation variant (the component is not absorbed): the attack really decides the binding
         /\ (ph = "done" /\ IsAttack(c)) => (res[1].v = "reject" /\ res[1].neg = "accept")

\* key generation: res = <<state, deliveries so far>>
InitD == \E n \in DkgN : c \in DkgConfigs(n) /\ ph = "run" /\ res = <<DkgInit(n), <<>>>>
\* (random walks: only the unrestricted policy)
InitDAny == \E n \in DkgN : c \in {x \in DkgConfigs(n) : x.pol.kind = "any"} /\ ph = "run" /\ res = <<DkgInit(n), <<>>>>
NextD == \/ /\ ph = "run"
             /\ \E m \in DkgEligible(c, res[1]) :
                   res' = <<DkgDeliver(res[1], m, c.n, "reveal-needs-commit" \in Negate), Append(res[2], m)>>
             /\ UNCHANGED <<c, ph>>
          \/ /\ ph = "run" /\ DkgEligible(c, res[1]) = {}
             /\ ph' = "fin" /\ UNCHANGED <<c, res>>
             /\ PrintT(<<"SCHED", ToJson([n |-> c.n, pol |-> c.pol, sched |-> res[2]])>>)
ViewD == <<c, ph, res[1]>>
\* whatever the order of deliveries: once nothing is deliverable any more everything was delivered and every party has finished
DkgLive == ph = "fin" => DkgAllDone(res[1], c.n)
=============================================================================
