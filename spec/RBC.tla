------------------------------- MODULE RBC -------------------------------
(***************************************************************************)
(* Reliable broadcast layer of IBM/TSS as one session sees it:             *)
(*   threshold.Scheme.handleMPC -> rbcFilter -> threadSafeRBC ->           *)
(*   rbc.Receiver.Receive / registerMsg  -> back-end hand-over             *)
(*                                                                         *)
(* One action per message processed by a party (threadSafeRBC makes the    *)
(* processing of one message atomic per instance).  Participants are       *)
(* 1..N; Byz \subseteq 1..N are Byzantine participants, Outsiders are      *)
(* authenticated nodes that are not session participants.  The network is  *)
(* a bag (any order, a superset of per-link FIFO).  An adversarial send is *)
(* merged with its delivery (the adversary can time its sends at will).    *)
(*                                                                         *)
(* A payload is [cls, r, x]: the class (broadcast "B" / point-to-point     *)
(* "P") and the round are *derived by the receiver from the payload*       *)
(* (ClassifyMsg), x is the content.  A digest is the payload itself (the   *)
(* hash is injective in the model).                                        *)
(***************************************************************************)
EXTENDS Integers, FiniteSets, Sequences, TLC

CONSTANTS N,            \* session size
          Byz,          \* Byzantine participants
          Outsiders,    \* non-participants that may inject traffic
          Rounds, Contents,
          HonestB,      \* {<<p, r, x>>}: broadcasts honest back ends will emit
          HonestP,      \* {<<p, to, r, x>>}: point-to-point sends of honest back ends
          MaxInject,    \* bound on adversarial messages
          AdvSet,       \* the adversary's alphabet: set of messages (records as built by Msg / Ack) it may send
          MaxCopies,    \* 0: any message any number of times; k > 0: each message at most k times (then the set of
                        \* injected messages is part of the state, so that every *set* of adversarial messages is a behaviour)
          Deliveries,   \* FALSE: the model takes no Deliver steps (the harness drains the real network instead)
          DevSelfAck,   \* named deviation: an acknowledgement sent by the broadcast's sender itself counts as a voucher
          DevReforward  \* named deviation: the hand-over test is re-evaluated on every (duplicate) voucher

Parties == 1..N
Honest  == Parties \ Byz
Payload == [cls : {"B", "P"}, r : Rounds, x : Contents]
BPayload == {pl \in Payload : pl.cls = "B"}

VARIABLES pinned,   \* [Honest -> SUBSET <<s, r, d>>]     receivedRoundFromSender
          vouch,    \* [Honest -> SUBSET <<d, s, r, from>>] reception[...].idSet
          hasm,     \* [Honest -> SUBSET <<d, s, r>>]       reception[...].m # nil
          done,     \* [Honest -> SUBSET <<d, s, r>>]       already handed over (after the fix of the re-forward defect)
          halted,   \* [Honest -> BOOLEAN]                  equivocationDetected
          fwd,      \* [Honest -> SUBSET (<<s, pl, bc>> \X {1,2})] hand-overs to the back end, with multiplicity capped at 2
          nilfwd,   \* [Honest -> BOOLEAN] a nil placeholder was handed over
          net,      \* set of messages in flight
          sentB, sentP, inj,
          injected, \* {<<m, k>>}: m was injected at least k times (only tracked when MaxCopies > 0)
          direct,   \* {<<s, to, pl>>}: payload pl was transmitted directly by s to `to' (history, for integrity)
          hist      \* history of events (not part of the VIEW)

vars == <<pinned, vouch, hasm, done, halted, fwd, nilfwd, net, sentB, sentP, inj, injected, direct, hist>>
view == <<pinned, vouch, hasm, done, halted, fwd, nilfwd, net, sentB, sentP, inj, injected, direct>>
setview == <<injected, sentB, sentP>>   \* for enumerating every set of adversarial messages exactly once

Msg(from, to, pl)        == [k |-> "msg", from |-> from, to |-> to, pl |-> pl]
Ack(from, to, s, r, d)   == [k |-> "ack", from |-> from, to |-> to, s |-> s, r |-> r, d |-> d]

Init == /\ pinned = [p \in Honest |-> {}]
        /\ vouch  = [p \in Honest |-> {}]
        /\ hasm   = [p \in Honest |-> {}]
        /\ done   = [p \in Honest |-> {}]
        /\ halted = [p \in Honest |-> FALSE]
        /\ fwd    = [p \in Honest |-> {}]
        /\ nilfwd = [p \in Honest |-> FALSE]
        /\ net = {} /\ sentB = {} /\ sentP = {} /\ inj = 0 /\ injected = {} /\ direct = {} /\ hist = <<>>

(***************************************************************************)
(* Pure description of what processing message m does at honest party p,   *)
(* given p's receiver state.  Returns a record with the new receiver state,*)
(* the hand-overs and the acknowledgement broadcast.                       *)
(***************************************************************************)
AddFwd(f, item) == IF <<item, 1>> \in f THEN f \cup {<<item, 2>>} ELSE f \cup {<<item, 1>>}

Vouchers(v, key) == {q \in Parties \cup Outsiders : <<key[1], key[2], key[3], q>> \in v}

\* registerMsg(key, from, isMsg) on state st = [pinned, vouch, hasm, done, halted]
Register(st, key, from, isMsg) ==
  LET d == key[1]  s == key[2]  r == key[3]
      conflict == \E t \in st.pinned : t[1] = s /\ t[2] = r /\ t[3] # d
  IN IF conflict
       THEN [st |-> [st EXCEPT !.halted = TRUE], out |-> {}, nil |-> FALSE]
       ELSE LET v2  == st.vouch \cup {<<d, s, r, from>>}
                h2  == IF isMsg THEN st.hasm \cup {key} ELSE st.hasm
                full == Cardinality(Vouchers(v2, key)) = N - 1
                \* the code delivers once, and only when the payload itself is present; the old code (DevReforward)
                \* re-evaluated the test on every voucher and handed over whatever it had, a nil placeholder included
                deliver == full /\ (DevReforward \/ (key \notin st.done /\ key \in h2))
                st2 == [st EXCEPT !.pinned = @ \cup {<<s, r, d>>}, !.vouch = v2, !.hasm = h2,
                                  !.done = IF deliver THEN @ \cup {key} ELSE @]
            IN  [st  |-> st2,
                 out |-> IF deliver /\ key \in h2 THEN {<<s, d, TRUE>>} ELSE {},
                 nil |-> deliver /\ key \notin h2]

\* Receive(m, from) behind rbcFilter, at honest party p with receiver state st
Process(p, st, m) ==
  IF m.from \notin Parties THEN [st |-> st, out |-> {}, nil |-> FALSE, acks |-> {}]         \* rbcFilter
  ELSE IF st.halted THEN [st |-> st, out |-> {}, nil |-> FALSE, acks |-> {}]
  ELSE IF m.k = "ack"
    THEN IF m.s = p \/ (~DevSelfAck /\ m.from = m.s)
           THEN [st |-> st, out |-> {}, nil |-> FALSE, acks |-> {}]
           ELSE LET res == Register(st, <<m.d, m.s, m.r>>, m.from, FALSE)
                IN [st |-> res.st, out |-> res.out, nil |-> res.nil, acks |-> {}]
  ELSE IF m.pl.cls = "P"
    THEN [st |-> st, out |-> {<<m.from, m.pl, FALSE>>}, nil |-> FALSE, acks |-> {}]
  ELSE LET res == Register(st, <<m.pl, m.from, m.pl.r>>, p, TRUE)
       IN [st |-> res.st, out |-> res.out, nil |-> res.nil,
           \* the acknowledgement is broadcast even when this very message made the instance halt
           acks |-> {Ack(p, q, m.from, m.pl.r, m.pl) : q \in Parties \ {p}}]

StateOf(p) == [pinned |-> pinned[p], vouch |-> vouch[p], hasm |-> hasm[p], done |-> done[p], halted |-> halted[p]]

Apply(p, m, ev) ==
  LET res == Process(p, StateOf(p), m) IN
  /\ pinned' = [pinned EXCEPT ![p] = res.st.pinned]
  /\ vouch'  = [vouch  EXCEPT ![p] = res.st.vouch]
  /\ hasm'   = [hasm   EXCEPT ![p] = res.st.hasm]
  /\ done'   = [done   EXCEPT ![p] = res.st.done]
  /\ halted' = [halted EXCEPT ![p] = res.st.halted]
  /\ fwd'    = [fwd EXCEPT ![p] = IF res.out = {} THEN @ ELSE AddFwd(@, CHOOSE i \in res.out : TRUE)]
  /\ nilfwd' = [nilfwd EXCEPT ![p] = @ \/ res.nil]
  /\ net'    = (net \ {m}) \cup {a \in res.acks : a.to \in Honest}
  /\ hist'   = Append(hist, ev)

(* honest back end of p broadcasts payload [B, r, x] *)
BSend(p, r, x) ==
  /\ <<p, r, x>> \in HonestB \ sentB
  /\ sentB' = sentB \cup {<<p, r, x>>}
  /\ net' = net \cup {Msg(p, q, [cls |-> "B", r |-> r, x |-> x]) : q \in Honest \ {p}}
  /\ hist' = Append(hist, [e |-> "bsend", p |-> p, r |-> r, x |-> x])
  /\ UNCHANGED <<pinned, vouch, hasm, done, halted, fwd, nilfwd, sentP, inj, injected, direct>>

PSend(p, to, r, x) ==
  /\ <<p, to, r, x>> \in HonestP \ sentP
  /\ sentP' = sentP \cup {<<p, to, r, x>>}
  /\ net' = net \cup (IF to \in Honest THEN {Msg(p, to, [cls |-> "P", r |-> r, x |-> x])} ELSE {})
  /\ hist' = Append(hist, [e |-> "psend", p |-> p, to |-> to, r |-> r, x |-> x])
  /\ UNCHANGED <<pinned, vouch, hasm, done, halted, fwd, nilfwd, sentB, inj, injected, direct>>

Deliver(m) ==
  /\ m \in net
  /\ Apply(m.to, m, [e |-> "deliver", m |-> m])
  /\ UNCHANGED <<sentB, sentP, inj, injected, direct>>

(* adversarial message, created and delivered in one step *)
Copies(m) == Cardinality({c \in injected : c[1] = m})

Inject(m) ==
  /\ inj < MaxInject
  /\ MaxCopies = 0 \/ Copies(m) < MaxCopies
  /\ inj' = inj + 1
  /\ injected' = IF MaxCopies = 0 THEN injected ELSE injected \cup {<<m, Copies(m) + 1>>}
  /\ direct' = IF m.k = "msg" THEN direct \cup {<<m.from, m.to, m.pl>>} ELSE direct
  /\ Apply(m.to, m, [e |-> "inject", m |-> m])
  /\ UNCHANGED <<sentB, sentP>>

Next == \/ \E t \in HonestB : BSend(t[1], t[2], t[3])
        \/ \E t \in HonestP : PSend(t[1], t[2], t[3], t[4])
        \/ Deliveries /\ \E m \in net : Deliver(m)
        \/ \E m \in AdvSet : Inject(m)

Spec == Init /\ [][Next]_vars

\* no action is enabled any more (the behaviours are finite: every message is delivered at most once)
Terminal == /\ sentB = HonestB /\ sentP = HonestP
            /\ (~Deliveries \/ net = {})
            /\ (inj = MaxInject \/ AdvSet = {})

-----------------------------------------------------------------------------
(* Properties, parameterised by the hand-over log f (fwd of the model, or the log observed on the real code) *)

ItemsOf(f, p) == {i[1] : i \in f[p]}

\* C02: two broadcast-class hand-overs for the same (sender, round) at two honest parties carry identical payloads
AgreementOn(f) ==
  \A p, q \in Honest : \A i \in ItemsOf(f, p), j \in ItemsOf(f, q) :
     (i[3] /\ j[3] /\ i[1] = j[1] /\ i[2].r = j[2].r) => i[2] = j[2]

\* C03
OnlyParticipantsOn(f) == \A p \in Honest : \A i \in ItemsOf(f, p) : i[1] \in Parties
SentDirectlyOn(f, SB, SP, dir) ==
  \A p \in Honest : \A i \in ItemsOf(f, p) :
     LET s == i[1]  pl == i[2] IN
     IF s \in Honest
       THEN IF i[3] THEN <<s, pl.r, pl.x>> \in SB /\ pl.cls = "B"
                    ELSE <<s, p, pl.r, pl.x>> \in SP /\ pl.cls = "P"
       ELSE <<s, p, pl>> \in dir
AtMostOnceOn(f) ==
  \A p \in Honest : \A g \in f[p] :
     \* a broadcast-class item is handed over at most once, and per (sender, round) there is at most one item
     /\ (g[1][3] => g[2] = 1)
     /\ \A h \in f[p] : (g[1][3] /\ h[1][3] /\ g[1][1] = h[1][1] /\ g[1][2].r = h[1][2].r) => g[1][2] = h[1][2]
ClassRespectedOn(f) == \A p \in Honest : \A i \in ItemsOf(f, p) : i[3] = (i[2].cls = "B")

\* C04 (claimed only when there is no adversary)
TotalityOn(f, SB, SP) ==
    /\ \A t \in SB : \A q \in Honest \ {t[1]} :
          <<<<t[1], [cls |-> "B", r |-> t[2], x |-> t[3]], TRUE>>, 1>> \in f[q]
    /\ \A t \in SP : t[2] \in Honest =>
          <<<<t[1], [cls |-> "P", r |-> t[3], x |-> t[4]], FALSE>>, 1>> \in f[t[2]]
    /\ \A q \in Honest : \A g \in f[q] : g[2] = 1

Agreement        == AgreementOn(fwd)
OnlyParticipants == OnlyParticipantsOn(fwd)
SentDirectly     == SentDirectlyOn(fwd, sentB, sentP, direct)
AtMostOnce       == AtMostOnceOn(fwd)
ClassRespected   == ClassRespectedOn(fwd)
NeverNil         == \A p \in Honest : ~nilfwd[p]
Quiescent        == net = {} /\ sentB = HonestB /\ sentP = HonestP
Totality         == Quiescent => TotalityOn(fwd, sentB, sentP)
NeverHalted      == \A p \in Honest : ~halted[p]
=============================================================================
