----------------------------- MODULE AlgebraMC -----------------------------
(***************************************************************************)
(* Exhaustive bounded check of the laws of spec/Algebra.tla (property C18) *)
(* and emission of the vectors / case lists the conformance harness binds  *)
(* to the real code.                                                       *)
(*                                                                         *)
(* State graph: one initial state per (field q, n, t) with the table of    *)
(* Lagrange coefficients of that field, one successor per polynomial of    *)
(* degree < t: ALL q^t of them when q <= 13 and q^t <= FullMax, otherwise  *)
(* the unit polynomials (reconstruction is linear, so they span all), the  *)
(* all-(q-1) polynomial and the seeded sample; one extra initial state     *)
(* emits the vectors.  The laws are invariants.                            *)
(***************************************************************************)
EXTENDS Algebra, Json

CONSTANTS Primes,    \* the prime fields, e.g. {7, 11, 13, 46337}
          MaxN,      \* laws for 2 <= t <= n <= MaxN (n < q)
          VecN,      \* ChooseSeq / Lagrange vectors are emitted (and their laws checked) for n <= VecN
          FullMax,   \* every polynomial of degree < t over GF(q) whenever q <= 13 and q^t <= FullMax
          Sample,    \* seeded coefficient vectors (length >= MaxN, entries >= 0)
          ModelQ     \* field used to decide the expected verdict of the DKG cases

VARIABLE st

Blank == [k |-> "vec", q |-> 0, n |-> 0, t |-> 0, P |-> <<>>, lam |-> <<>>]

Cases == {c \in Primes \X (2..MaxN) \X (2..MaxN) : c[3] <= c[2] /\ c[2] < c[1]}

Unit(t, m, v) == [i \in 1..t |-> IF i = m THEN v ELSE 0]
Full(q, t) == q <= 13 /\ IntPow(q, t) <= FullMax
Polys(q, t) == IF Full(q, t) THEN [1..t -> 0..(q - 1)]
               ELSE {Unit(t, m, 1) : m \in 1..t} \cup {[i \in 1..t |-> q - 1]}
                    \cup {[i \in 1..t |-> Sample[s][i] % q] : s \in DOMAIN Sample}

\* offsets by which one key is moved off the polynomial: all of them over GF(7) and for the sampled polynomials of GF(11), GF(13);
\* 1 and -1 where EVERY polynomial of GF(11) / GF(13) is enumerated (the cross-check values are linear in the keys, so offset d on
\* P behaves like offset 1 on P/d, which is enumerated as well); a few in the large field
Offsets(q, t) == IF q = 7 THEN 1..(q - 1)
                 ELSE IF Full(q, t) THEN {1, q - 1}
                 ELSE IF q <= 13 THEN 1..(q - 1)
                 ELSE {1, 2, q - 1, (Sample[1][1] % (q - 1)) + 1}

Init == st \in {Blank} \cup {[k |-> "case", q |-> c[1], n |-> c[2], t |-> c[3], P |-> <<>>, lam |-> LagrangeTable(c[2], c[1])] : c \in Cases}

VecPts == {S \in SUBSET (1..VecN) : Cardinality(S) >= 2}

EmitVectors ==
  /\ \A n \in 0..VecN : \A k \in 0..(n + 1) :
        PrintT(<<"CHOOSE", ToJson([n |-> n, k |-> k, seq |-> ChooseSeq(n, k)])>>)
  /\ \A S \in VecPts : \A i \in S :
        LET pts == SortedSeq(S) IN PrintT(<<"LAG", ToJson([pts |-> pts, i |-> i, num |-> LagNum(i, pts), den |-> LagDen(i, pts)])>>)
  /\ \A n \in 2..MaxN : \A t \in 2..n : \A pos \in 0..n : \A off \in (IF pos = 0 THEN {FALSE} ELSE BOOLEAN) :
        PrintT(<<"DKGC", ToJson([n |-> n, t |-> t, pos |-> pos, off |-> off,
                                  expect |-> ModelVerdict(n, t, pos, off, [i \in 1..t |-> (Sample[1][i] % (ModelQ - 1)) + 1], ModelQ)])>>)

\* the full enumerations are split by the first PreLen coefficients so that TLC's workers share them
PreLen == 2
Next == \/ /\ st.k = "case" /\ ~(Full(st.q, st.t) /\ st.t > PreLen)
           /\ \E P \in Polys(st.q, st.t) : st' = [st EXCEPT !.k = "poly", !.P = P]
        \/ /\ st.k = "case" /\ Full(st.q, st.t) /\ st.t > PreLen
           /\ \E pre \in [1..PreLen -> 0..(st.q - 1)] : st' = [st EXCEPT !.k = "pre", !.P = pre]
        \/ /\ st.k = "pre"
           /\ \E rest \in [1..(st.t - PreLen) -> 0..(st.q - 1)] : st' = [st EXCEPT !.k = "poly", !.P = st.P \o rest]
        \/ /\ st.k = "vec"
           /\ EmitVectors
           /\ st' = [st EXCEPT !.k = "vecdone"]

-----------------------------------------------------------------------------
\* laws

\* the vector state: choose.go enumerates every k-subset exactly once; the rational Lagrange coefficients interpolate exactly
ChooseLaws == st.k = "vec" => \A n \in 0..VecN : \A k \in 0..n : ChooseLaw(n, k)
ChooseEarlyReturn == st.k = "vec" => \A n \in 0..VecN : ChooseSeq(n, n + 1) = <<>>
RationalLaw == st.k = "vec" => \A S \in VecPts : InterpolatesExactly(SortedSeq(S))

\* per field: the table is the operator; the rational coefficient reduces to the field coefficient; the order of the points
\* given to lagrangeCoefficient does not matter (checked on the reversed order)
Reverse(s) == [m \in DOMAIN s |-> s[Len(s) + 1 - m]]
FieldLagrangeLaw == st.k = "case" =>
  \A S \in DOMAIN st.lam : \A i \in S :
     LET pts == SortedSeq(S) IN
     /\ st.lam[S][i] = Lagrange(i, pts, st.q)
     /\ st.lam[S][i] = Lagrange(i, Reverse(pts), st.q)
     /\ st.lam[S][i] = ((LagNum(i, pts) % st.q) * Inv(LagDen(i, pts), st.q)) % st.q
     /\ st.lam[S][i] # 0

\* per polynomial: every set of at least t points reconstructs the secret P[1] ...
ReconstructLaw == st.k = "poly" =>
  LET sh == Deal(st.P, st.n, st.q) IN
  \A S \in DOMAIN st.lam : Cardinality(S) >= st.t => ReconstructTab(sh, S, st.lam, st.q) = st.P[1] % st.q

\* ... the cross-check accepts keys that lie on one polynomial, and the accepted value is the secret ...
AcceptLaw == st.k = "poly" =>
  LET sh == Deal(st.P, st.n, st.q) IN CrossValuesTab(sh, st.n, st.t, st.lam, st.q) = {st.P[1] % st.q}

\* ... and a single key off the polynomial is detected at EVERY position exactly when t < n.  For t = n there is only one
\* t-subset, so the check cannot see the deviation: inherent to the check, not a defect.
DetectLaw == st.k = "poly" =>
  LET sh == Deal(st.P, st.n, st.q) IN
  \A i \in 1..st.n : \A d \in Offsets(st.q, st.t) :
     ~Accepts(CrossValuesTab(Bump(sh, i, d, st.q), st.n, st.t, st.lam, st.q)) <=> st.t < st.n

\* the table-based operators agree with the direct transcription (checked on the polynomial states of the smallest field only)
TranscriptionLaw == (st.k = "poly" /\ st.q = 7 /\ st.t <= 2) =>
  LET sh == Deal(st.P, st.n, st.q) IN
  /\ \A S \in DOMAIN st.lam : ReconstructTab(sh, S, st.lam, st.q) = Reconstruct(sh, SortedSeq(S), st.q)
  /\ CrossValuesTab(sh, st.n, st.t, st.lam, st.q) = CrossValues(sh, st.n, st.t, st.q)

\* fewer than t points do not determine the secret: some polynomial with the same shares on S has another secret
\* (sanity of the quantifier "at least t"; checked in the small fields on the unit polynomial x^(t-1))
BelowThresholdLaw == (st.k = "poly" /\ st.P = Unit(st.t, st.t, 1) /\ st.t >= 3) =>
  LET sh == Deal(st.P, st.n, st.q) IN
  \A S \in DOMAIN st.lam : Cardinality(S) = st.t - 1 => ReconstructTab(sh, S, st.lam, st.q) # st.P[1] % st.q
=============================================================================
