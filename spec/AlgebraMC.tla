----------------------------- MODULE AlgebraMC -----------------------------
(***************************************************************************)
(* Exhaustive bounded check of the laws of spec/Algebra.tla (property C18) *)
(* and emission of the vectors / case lists the conformance harness binds  *)
(* to the real code.                                                       *)
(*                                                                         *)
(* State graph: one initial state per (field q, n, t) with the table of    *)
(* Lagrange coefficients of that field, one successor per polynomial of    *)
(* degree < t: ALL q^t of them when q <= 13 and q^t <= FullMax, otherwise  *)
(* the unit polynomials (reconstruction is linear, so they span all), the  *)
(* all-(q-1) polynomial and the seeded sample; one extra initial state     *)
(* emits the vectors.  The laws are invariants.                            *)
(***************************************************************************)
EXTENDS Algebra, Json

CONSTANTS Primes,    \* the prime fields, e.g. {7, 11, 13, 46337}
          MaxN,      \* laws for 2 <= t <= n <= MaxN (n < q)
          VecN,      \* ChooseSeq / Lagrange vectors are emitted (and their laws checked) for n <= VecN
          FullMax,   \* every polynomial of degree < t over GF(q) whenever q <= 13 and q^t <= FullMax
          Sample,    \* seeded coefficient vectors (length >= MaxN, entries >= 0)
          ModelQ,    \* field used to decide the expected verdict of the DKG cases
          BigSizes,  \* sizes of the LARGE point sets demanded of the real code (every window class of Algebra!BigClasses)
          RandSets,  \* seeded random large point sets (ascending sequences within 1..65535)
          BigNT,     \* large dealings <<n, t>> (trusted-dealer mode: real Gen, reconstruct, signature aggregation)
          BigDkg,    \* large real DKGs <<n, t>> (C(n, t) must stay small: the cross-check enumerates every t-subset)
          BigChoose, \* large <<n, k>> for chooseKoutOfN (count compared with BinomMul)
          BigQ,      \* prime > every n of BigDkg, field of the verdict model for those
          SeqPlans   \* <<n, t, m, u>>: sequences of key generations on the same instances (Algebra!RunPlan), t < n

VARIABLE st

Blank == [k |-> "vec", q |-> 0, n |-> 0, t |-> 0, P |-> <<>>, lam |-> <<>>]

Cases == {c \in Primes \X (2..MaxN) \X (2..MaxN) : c[3] <= c[2] /\ c[2] < c[1]}

Unit(t, m, v) == [i \in 1..t |-> IF i = m THEN v ELSE 0]
Full(q, t) == q <= 13 /\ IntPow(q, t) <= FullMax
Polys(q, t) == IF Full(q, t) THEN [1..t -> 0..(q - 1)]
               ELSE {Unit(t, m, 1) : m \in 1..t} \cup {[i \in 1..t |-> q - 1]}
                    \cup {[i \in 1..t |-> Sample[s][i] % q] : s \in DOMAIN Sample}

\* offsets by which one key is moved off the polynomial: all of them over GF(7) and for the sampled polynomials of GF(11), GF(13);
\* 1 and -1 where EVERY polynomial of GF(11) / GF(13) is enumerated (the cross-check values are linear in the keys, so offset d on
\* P behaves like offset 1 on P/d, which is enumerated as well); a few in the large field
Offsets(q, t) == IF q = 7 THEN 1..(q - 1)
                 ELSE IF Full(q, t) THEN {1, q - 1}
                 ELSE IF q <= 13 THEN 1..(q - 1)
                 ELSE {1, 2, q - 1, (Sample[1][1] % (q - 1)) + 1}

Big == BigCases(BigSizes, RandSets)

Init == st \in {Blank} \cup {[k |-> "case", q |-> c[1], n |-> c[2], t |-> c[3], P |-> <<>>, lam |-> LagrangeTable(c[2], c[1])] : c \in Cases}
                       \cup {[k |-> "bigpre", q |-> ModelQ, n |-> 0, t |-> 0, P |-> b.pts, lam |-> <<>>] : b \in Big}
                       \cup {[k |-> "bigdkg", q |-> BigQ, n |-> nt[1], t |-> nt[2], P |-> <<pos, off>>, lam |-> <<>>] :
                                 nt \in BigDkg, pos \in 0..1, off \in 0..1}

VecPts == {S \in SUBSET (1..VecN) : Cardinality(S) >= 2}

EmitVectors ==
  /\ \A n \in 0..VecN : \A k \in 0..(n + 1) :
        PrintT(<<"CHOOSE", ToJson([n |-> n, k |-> k, seq |-> ChooseSeq(n, k)])>>)
  /\ \A S \in VecPts : \A i \in S :
        LET pts == SortedSeq(S) IN PrintT(<<"LAG", ToJson([pts |-> pts, i |-> i, num |-> LagNum(i, pts), den |-> LagDen(i, pts)])>>)
  /\ \A n \in 2..MaxN : \A t \in 2..n : \A pos \in 0..n : \A off \in (IF pos = 0 THEN {FALSE} ELSE BOOLEAN) :
        PrintT(<<"DKGC", ToJson([n |-> n, t |-> t, pos |-> pos, off |-> off, big |-> FALSE,
                                  expect |-> ModelVerdict(n, t, pos, off, VerdictPoly(Sample[1], t, ModelQ), ModelQ)])>>)
  /\ \A b \in Big : PrintT(<<"BIGC", ToJson(b)>>)
  /\ \A nt \in BigNT : PrintT(<<"BDEALC", ToJson([n |-> nt[1], t |-> nt[2], classes |-> DealClasses])>>)
  /\ \A nk \in BigChoose : PrintT(<<"BCHOOSEC", ToJson([n |-> nk[1], k |-> nk[2], count |-> BinomMul(nk[1], nk[2])])>>)
  /\ \A sp \in SeqPlans :
        LET plan == RunPlan(sp[1], sp[2], sp[3], sp[4])
            exp  == ExpectedVerdicts(plan, Sample[1], ModelQ) IN
        PrintT(<<"SEQC", ToJson([plan |-> sp, runs |-> [k \in DOMAIN plan |-> [n |-> plan[k].n, t |-> plan[k].t, pos |-> plan[k].pos,
                                                                                  off |-> plan[k].off, expect |-> exp[k]]]])>>)

\* the full enumerations are split by the first PreLen coefficients so that TLC's workers share them
PreLen == 2
Next == \/ /\ st.k = "case" /\ ~(Full(st.q, st.t) /\ st.t > PreLen)
           /\ \E P \in Polys(st.q, st.t) : st' = [st EXCEPT !.k = "poly", !.P = P]
        \/ /\ st.k = "case" /\ Full(st.q, st.t) /\ st.t > PreLen
           /\ \E pre \in [1..PreLen -> 0..(st.q - 1)] : st' = [st EXCEPT !.k = "pre", !.P = pre]
        \/ /\ st.k = "pre"
           /\ \E rest \in [1..(st.t - PreLen) -> 0..(st.q - 1)] : st' = [st EXCEPT !.k = "poly", !.P = st.P \o rest]
        \/ /\ st.k = "vec"
           /\ EmitVectors
           /\ st' = [st EXCEPT !.k = "vecdone"]
        \/ \* large point sets: the laws are evaluated on the successor, i.e. by TLC's workers and not while computing Init
           /\ st.k = "bigpre"
           /\ st' = [st EXCEPT !.k = "big"]
        \/ \* large DKG cases (one state each, so that the workers share the verdict computations): all parties real (pos 0),
           \* or the harness plays the first / the last party, on (off = 0) or off (off = 1) the polynomial
           /\ st.k = "bigdkg" /\ (st.P[1] = 0 => st.P[2] = 0)
           /\ \A pos \in (IF st.P[1] = 0 THEN {0} ELSE {1, st.n}) :
                 PrintT(<<"DKGC", ToJson([n |-> st.n, t |-> st.t, pos |-> pos, off |-> (st.P[2] = 1), big |-> TRUE,
                                           expect |-> ModelVerdictT(st.n, st.t, pos, st.P[2] = 1, VerdictPoly(Sample[1], st.t, BigQ), BigQ)])>>)
           /\ st' = [st EXCEPT !.k = "vecdone"]

-----------------------------------------------------------------------------
\* laws

\* the vector state: choose.go enumerates every k-subset exactly once; the rational Lagrange coefficients interpolate exactly
ChooseLaws == st.k = "vec" => \A n \in 0..VecN : \A k \in 0..n : ChooseLaw(n, k)
ChooseEarlyReturn == st.k = "vec" => \A n \in 0..VecN : ChooseSeq(n, n + 1) = <<>>
RationalLaw == st.k = "vec" => \A S \in VecPts : InterpolatesExactly(SortedSeq(S))

\* per field: the table is the operator; the rational coefficient reduces to the field coefficient; the order of the points
\* given to lagrangeCoefficient does not matter (checked on the reversed order)
Reverse(s) == [m \in DOMAIN s |-> s[Len(s) + 1 - m]]
FieldLagrangeLaw == st.k = "case" =>
  \A S \in DOMAIN st.lam : \A i \in S :
     LET pts == SortedSeq(S) IN
     /\ st.lam[S][i] = Lagrange(i, pts, st.q)
     /\ st.lam[S][i] = Lagrange(i, Reverse(pts), st.q)
     /\ st.lam[S][i] = ((LagNum(i, pts) % st.q) * Inv(LagDen(i, pts), st.q)) % st.q
     /\ st.lam[S][i] # 0

\* moment law, all sets of the small fields: sum_{i in S} lambda_i(S) * i^k = [k = 0] for 0 <= k < |S|
MomentLaw == st.k = "case" =>
  \A S \in DOMAIN st.lam :
     LET pts == SortedSeq(S) IN MomentLawQ(pts, [m \in DOMAIN pts |-> st.lam[S][pts[m]]], st.q)

\* moment law, every demanded LARGE set whose points are below the model field (the other classes -- identifiers up to 65535 --
\* exceed every field TLC can compute in and are evaluated on the real code only)
BigMomentLaw == (st.k = "big" /\ SeqMax(st.P) < st.q) =>
  LET inv == InvTable(st.q)
      lam == LagSeq(st.P, st.q, inv) IN
  /\ MomentLawQ(st.P, lam, st.q)
  /\ \A m \in DOMAIN lam : lam[m] # 0
BigSetsOK == st.k = "big" => PointSetOK(st.P)

\* the helpers of the large cases agree with the transcriptions: inverse table, binomial coefficients, verdict model
HelperLaws == st.k = "vec" =>
  /\ \A q \in (Primes \ {ModelQ}) \cup {BigQ} : \A a \in 1..(q - 1) : InvTable(q)[a] = Inv(a, q) /\ (a * InvTable(q)[a]) % q = 1
  /\ \A n \in 0..16 : \A k \in 0..n : BinomMul(n, k) = Binom(n, k)
  /\ \A n \in 0..VecN : \A k \in 0..n : Len(ChooseSeq(n, k)) = BinomMul(n, k)
  /\ \A nk \in BigChoose : nk[2] \in 1..(nk[1] - 1) =>
        BinomMul(nk[1], nk[2]) = BinomMul(nk[1] - 1, nk[2] - 1) + BinomMul(nk[1] - 1, nk[2])
  /\ \A n \in 2..4 : \A t \in 2..n : \A pos \in 0..n : \A off \in (IF pos = 0 THEN {FALSE} ELSE BOOLEAN) :
        ModelVerdictT(n, t, pos, off, VerdictPoly(Sample[1], t, BigQ), BigQ) = ModelVerdict(n, t, pos, off, VerdictPoly(Sample[1], t, ModelQ), ModelQ)
  /\ \A nt \in BigDkg : nt[1] < BigQ /\ nt[2] \in 2..nt[1]
  /\ \A nt \in BigNT : nt[2] \in 2..nt[1]

\* sequences of key generations on the same instances: the output of run k is a function of run k's keys only; the must-fail
\* variant (cache kept across Init) is told apart by every demanded plan, both by a missed detection and by a stale threshold key;
\* the expected verdict per run is the one of a fresh instance
SeqLaws == st.k = "vec" =>
  \A sp \in SeqPlans :
     LET plan == RunPlan(sp[1], sp[2], sp[3], sp[4]) IN
     /\ sp[2] < sp[1] /\ sp[4] <= sp[3] /\ sp[3] # sp[1] /\ sp[1] < ModelQ /\ sp[3] < ModelQ
     /\ RunsLaw(plan, Sample[1], ModelQ)
     /\ StaleCacheShows(plan, Sample[1], ModelQ)
     /\ \A k \in DOMAIN plan :
           ExpectedVerdicts(plan, Sample[1], ModelQ)[k] =
              ModelVerdict(plan[k].n, plan[k].t, plan[k].pos, plan[k].off, VerdictPoly(Sample[1], plan[k].t, ModelQ), ModelQ)

\* per polynomial: every set of at least t points reconstructs the secret P[1] ...
ReconstructLaw == st.k = "poly" =>
  LET sh == Deal(st.P, st.n, st.q) IN
  \A S \in DOMAIN st.lam : Cardinality(S) >= st.t => ReconstructTab(sh, S, st.lam, st.q) = st.P[1] % st.q

\* ... the cross-check accepts keys that lie on one polynomial, and the accepted value is the secret ...
AcceptLaw == st.k = "poly" =>
  LET sh == Deal(st.P, st.n, st.q) IN CrossValuesTab(sh, st.n, st.t, st.lam, st.q) = {st.P[1] % st.q}

\* ... and a single key off the polynomial is detected at EVERY position exactly when t < n.  For t = n there is only one
\* t-subset, so the check cannot see the deviation: inherent to the check, not a defect.
DetectLaw == st.k = "poly" =>
  LET sh == Deal(st.P, st.n, st.q) IN
  \A i \in 1..st.n : \A d \in Offsets(st.q, st.t) :
     ~Accepts(CrossValuesTab(Bump(sh, i, d, st.q), st.n, st.t, st.lam, st.q)) <=> st.t < st.n

\* the table-based operators agree with the direct transcription (checked on the polynomial states of the smallest field only)
TranscriptionLaw == (st.k = "poly" /\ st.q = 7 /\ st.t <= 2) =>
  LET sh == Deal(st.P, st.n, st.q) IN
  /\ \A S \in DOMAIN st.lam : ReconstructTab(sh, S, st.lam, st.q) = Reconstruct(sh, SortedSeq(S), st.q)
  /\ CrossValuesTab(sh, st.n, st.t, st.lam, st.q) = CrossValues(sh, st.n, st.t, st.q)

\* fewer than t points do not determine the secret: some polynomial with the same shares on S has another secret
\* (sanity of the quantifier "at least t"; checked in the small fields on the unit polynomial x^(t-1))
BelowThresholdLaw == (st.k = "poly" /\ st.P = Unit(st.t, st.t, 1) /\ st.t >= 3) =>
  LET sh == Deal(st.P, st.n, st.q) IN
  \A S \in DOMAIN st.lam : Cardinality(S) = st.t - 1 => ReconstructTab(sh, S, st.lam, st.q) # st.P[1] % st.q
=============================================================================
