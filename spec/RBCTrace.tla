----------------------------- MODULE RBCTrace -----------------------------
(***************************************************************************)
(* Trace specification: replays event logs recorded from the real code     *)
(* (harness/cmd/drv/rbc.go) against RBC.  Each line is one step; inputs    *)
(* are fully logged so every step is deterministic.  The model state is    *)
(* advanced with RBC!Process; what the code did (acknowledgements sent,    *)
(* hand-overs, panic) is compared with the prediction (-> drift) and is    *)
(* accumulated in observed variables on which the property monitors are    *)
(* evaluated.  Violations and per-trace summaries are printed as JSON.     *)
(***************************************************************************)
EXTENDS RBC, Json

CONSTANTS TraceFile, CheckTotality

Trace == ndJsonDeserialize(TraceFile)

VARIABLES l,        \* next line
          tid,      \* id of the current trace
          ofwd,     \* observed hand-overs [Honest -> SUBSET (item \X {1,2})]
          onil,     \* observed nil hand-over (panics in the orchestrator's forward closure)
          opan,     \* observed panic of any kind inside HandleMessage
          drift,    \* "" or the first difference between prediction and observation
          viol,     \* monitors already reported for this trace
          ended

tvars == <<vars, l, tid, ofwd, onil, opan, drift, viol, ended>>

Range(s) == {s[i] : i \in DOMAIN s}

TInit == /\ Init /\ l = 1 /\ tid = -1 /\ ofwd = [p \in Honest |-> {}] /\ onil = FALSE /\ opan = FALSE
         /\ drift = "" /\ viol = {} /\ ended = FALSE

Line == Trace[l]

ObsItem(g) == <<g.s, g.pl, g.bc>>

RECURSIVE AddAll(_, _)
AddAll(f, s) == IF s = <<>> THEN f ELSE AddAll(AddFwd(f, ObsItem(Head(s))), Tail(s))

Monitors(of, nl, pn, SB, SP, dir, atEnd, quiescent) ==
  {<<"Agreement", AgreementOn(of)>>,
   <<"OnlyParticipants", OnlyParticipantsOn(of)>>,
   <<"SentDirectly", SentDirectlyOn(of, SB, SP, dir)>>,
   <<"AtMostOnce", AtMostOnceOn(of)>>,
   <<"ClassRespected", ClassRespectedOn(of)>>,
   <<"NeverNil", ~nl>>,
   <<"NoPanic", ~pn>>,
   <<"Totality", (CheckTotality /\ atEnd /\ quiescent) => TotalityOn(of, SB, SP)>>,
   <<"TotalityQuiescent", (CheckTotality /\ atEnd) => quiescent>>}

Report(of, nl, pn, SB, SP, dir, atEnd, quiescent) ==
  LET bad == {m[1] : m \in {mm \in Monitors(of, nl, pn, SB, SP, dir, atEnd, quiescent) : ~mm[2]}} \ viol IN
  /\ viol' = viol \cup bad
  /\ \A b \in bad : PrintT(<<"VIOL", ToJson([t |-> tid, l |-> l, mon |-> b])>>)

Reset ==
  /\ Line.e = "reset"
  /\ pinned' = [p \in Honest |-> {}] /\ vouch' = [p \in Honest |-> {}] /\ hasm' = [p \in Honest |-> {}]
  /\ done' = [p \in Honest |-> {}] /\ halted' = [p \in Honest |-> FALSE] /\ fwd' = [p \in Honest |-> {}]
  /\ nilfwd' = [p \in Honest |-> FALSE] /\ net' = {} /\ sentB' = {} /\ sentP' = {} /\ inj' = 0 /\ direct' = {} /\ injected' = {}
  /\ hist' = <<>>
  /\ tid' = Line.t /\ ofwd' = [p \in Honest |-> {}] /\ onil' = FALSE /\ opan' = FALSE /\ drift' = "" /\ viol' = {} /\ ended' = FALSE

SendStep ==
  /\ Line.e \in {"bsend", "psend"}
  /\ LET p == Line.p
         pl == [cls |-> IF Line.e = "bsend" THEN "B" ELSE "P", r |-> Line.r, x |-> Line.x]
         pred == IF Line.e = "bsend" THEN {Msg(p, q, pl) : q \in Parties \ {p}} ELSE {Msg(p, Line.to, pl)}
         obs == {o \in Range(Line.out) : o.to \in Parties}
     IN /\ sentB' = IF Line.e = "bsend" THEN sentB \cup {<<p, Line.r, Line.x>>} ELSE sentB
        /\ sentP' = IF Line.e = "psend" THEN sentP \cup {<<p, Line.to, Line.r, Line.x>>} ELSE sentP
        /\ net' = net \cup {m \in pred : m.to \in Honest}
        /\ drift' = IF drift = "" /\ pred # obs THEN "send: messages differ" ELSE drift
  /\ Report(ofwd, onil, opan, sentB', sentP', direct, FALSE, FALSE)
  /\ UNCHANGED <<pinned, vouch, hasm, done, halted, fwd, nilfwd, inj, injected, direct, hist, tid, ofwd, onil, opan, ended>>

RecvStep ==
  /\ Line.e \in {"deliver", "inject"}
  /\ LET m == Line.m
         p == m.to
         known == m.k \in {"msg", "ack"} /\ p \in Honest
         res == IF known THEN Process(p, StateOf(p), m) ELSE [st |-> StateOf(p), out |-> {}, nil |-> FALSE, acks |-> {}]
         obsAcks == {o \in Range(Line.out) : o.to \in Parties}
         obsFwd == {ObsItem(g) : g \in Range(Line.fwd)}
         obsNil == Line.nil
         d == IF ~known THEN "unknown message kind or destination"
              ELSE IF res.acks # obsAcks THEN "acknowledgements differ"
              ELSE IF res.out # obsFwd \/ Len(Line.fwd) > 1 THEN "hand-overs differ"
              ELSE IF res.nil # obsNil THEN "nil hand-over differs"
              ELSE IF Line.panic # "" /\ ~obsNil THEN "panic"
              ELSE ""
         of2 == IF p \in Honest THEN [ofwd EXCEPT ![p] = AddAll(@, Line.fwd)] ELSE ofwd
         dir2 == IF Line.e = "inject" /\ m.k = "msg" THEN direct \cup {<<m.from, m.to, m.pl>>} ELSE direct
     IN /\ IF p \in Honest
             THEN /\ pinned' = [pinned EXCEPT ![p] = res.st.pinned]
                  /\ vouch'  = [vouch  EXCEPT ![p] = res.st.vouch]
                  /\ hasm'   = [hasm   EXCEPT ![p] = res.st.hasm]
                  /\ done'   = [done   EXCEPT ![p] = res.st.done]
                  /\ halted' = [halted EXCEPT ![p] = res.st.halted]
                  /\ fwd'    = [fwd EXCEPT ![p] = IF res.out = {} THEN @ ELSE AddFwd(@, CHOOSE i \in res.out : TRUE)]
                  /\ nilfwd' = [nilfwd EXCEPT ![p] = @ \/ res.nil]
             ELSE UNCHANGED <<pinned, vouch, hasm, done, halted, fwd, nilfwd>>
        /\ net' = (net \ {m}) \cup {a \in res.acks : a.to \in Honest}
        /\ inj' = IF Line.e = "inject" THEN inj + 1 ELSE inj
        /\ direct' = dir2
        /\ ofwd' = of2
        /\ onil' = (onil \/ obsNil)
        /\ opan' = (opan \/ Line.panic # "")
        /\ drift' = IF drift = "" THEN d ELSE drift
        /\ Report(of2, onil \/ obsNil, opan \/ Line.panic # "", sentB, sentP, dir2, FALSE, FALSE)
  /\ UNCHANGED <<sentB, sentP, injected, hist, tid, ended>>

End ==
  /\ Line.e = "end"
  /\ ended' = TRUE
  /\ LET dr == IF drift # "" THEN drift ELSE IF Line.drift # "" THEN "replay: " \o Line.drift ELSE "" IN
     /\ drift' = dr
     /\ Report(ofwd, onil, opan, sentB, sentP, direct, TRUE, Line.quiescent)
     /\ PrintT(<<"END", ToJson([t |-> tid, drift |-> dr, lines |-> l])>>)
  /\ UNCHANGED <<vars, tid, ofwd, onil, opan>>

TNext == /\ l <= Len(Trace)
         /\ l' = l + 1
         /\ \/ Reset
            \/ SendStep
            \/ RecvStep
            \/ End

TSpec == TInit /\ [][TNext]_tvars
=============================================================================
