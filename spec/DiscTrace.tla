----------------------------- MODULE DiscTrace -----------------------------
(***************************************************************************)
(* Trace specification for disc.Member: consumes the event logs recorded   *)
(* by harness/cmd/drv/disc.go (real Members on a harness-controlled FIFO   *)
(* network, Byzantine raw members).  Deliveries are applied with           *)
(* Disc!Handle; the unlogged steps of the Synchronize goroutine (view      *)
(* checks, channel receives) are inferred: an observed Query / completion  *)
(* must be justified by a model state seen so far (otherwise: drift).      *)
(* The C07 monitors are evaluated on the observed outcomes only.           *)
(***************************************************************************)
EXTENDS Disc, Json

CONSTANTS TraceFile, ExpectAllDone, ExpectNoneDone

Trace == ndJsonDeserialize(TraceFile)

VARIABLES l, tid,
          vs,     \* [Honest -> set of views the member had so far]
          cv,     \* [Honest -> set of common views a Range over the announced views could have seen so far]
          cq,     \* [Honest -> set of lists for which the query guard held at some point (common view seen earlier or now,
                  \*             own view now)]
          q,      \* [Honest -> queried list or <<>>]
          resp,   \* [Honest -> {<<peer, view>>}] first response delivered per peer
          pend,   \* [Honest -> set of replies the model expects the member to send next]
          dn,     \* observed completions: set of <<m, list>>
          rt,     \* observed returns: set of <<m, "ok"|"err">>
          started,\* observed starts
          pan,    \* observed panic
          drift, viol

tvars == <<vars, l, tid, vs, cv, cq, q, resp, pend, dn, rt, started, pan, drift, viol>>

Rng(s) == {s[i] : i \in DOMAIN s}
Line == Trace[l]

Blank(x) == [m \in Honest |-> x]

TInit == /\ Init /\ l = 1 /\ tid = -1
         /\ vs = Blank({}) /\ cv = Blank({}) /\ cq = Blank({}) /\ q = Blank(<<>>) /\ resp = Blank({}) /\ pend = Blank({})
         /\ dn = {} /\ rt = {} /\ started = {} /\ pan = FALSE /\ drift = "" /\ viol = {}

DoneFn == [m \in {d[1] : d \in dn} |-> (CHOOSE d \in dn : d[1] = m)[2]]

Monitors(dn2, rt2, st2, pn, atEnd, hung) ==
  LET D == [m \in {d[1] : d \in dn2} |-> (CHOOSE d \in dn2 : d[1] = m)[2]] IN
  {<<"ListValid", ListValidOn(D, st2)>>,
   <<"Agreement", AgreementOn(D)>>,
   <<"OneCallback", \A d1, d2 \in dn2 : d1[1] = d2[1] => d1 = d2>>,
   <<"NoCallbackOnError", \A r \in rt2 : (r[2] = "err" => r[1] \notin DOMAIN D) /\ (r[2] = "ok" => r[1] \in DOMAIN D)>>,
   <<"NoPanic", ~pn>>,
   <<"Returns", atEnd => ~hung>>,
   <<"HonestRunCompletes", (atEnd /\ ExpectAllDone) => \A m \in Starters : <<m, "ok">> \in rt2>>,
   <<"TooFewFails", (atEnd /\ ExpectNoneDone) => (D = <<>> /\ \A m \in Starters : <<m, "err">> \in rt2)>>}

Report(dn2, rt2, st2, pn, atEnd, hung) ==
  LET bad == {m[1] : m \in {mm \in Monitors(dn2, rt2, st2, pn, atEnd, hung) : ~mm[2]}} \ viol IN
  /\ viol' = viol \cup bad
  /\ \A b \in bad : PrintT(<<"VIOL", ToJson([t |-> tid, l |-> l, mon |-> b])>>)

SetDrift(d) == drift' = IF drift = "" /\ d # "" THEN d \o " @line " \o ToString(l) ELSE drift

Reset ==
  /\ Line.e = "reset"
  /\ ph' = [m \in Honest |-> "idle"] /\ mv' = Blank({}) /\ rs' = Blank({}) /\ rq' = Blank(<<>>)
  /\ al' = Blank(0) /\ fin' = Blank(<<>>) /\ sv' = Blank(NoSnap) /\ links' = links /\ inj' = 0 /\ injected' = {} /\ hist' = <<>>
  /\ tid' = Line.t /\ vs' = Blank({}) /\ cv' = Blank({}) /\ cq' = Blank({}) /\ q' = Blank(<<>>) /\ resp' = Blank({}) /\ pend' = Blank({})
  /\ dn' = {} /\ rt' = {} /\ started' = {} /\ pan' = FALSE /\ drift' = "" /\ viol' = {}

\* lists for which the probing loop may break out: a common announced view seen by the Range at this or an earlier state
\* (cvs), equal to the own view computed from the current key set, of sufficient size
Guard(m, mvm, cvs) ==
  LET mine == Sorted({m} \cup {e[1] : e \in mvm}) IN
  IF mine \in cvs /\ Len(mine) >= E THEN {mine} ELSE {}

StartEv ==
  /\ Line.e = "start" /\ Line.m \in Honest
  /\ ph' = [ph EXCEPT ![Line.m] = "probing"]
  /\ started' = started \cup {Line.m}
  /\ vs' = [vs EXCEPT ![Line.m] = {<<Line.m>>}]
  /\ UNCHANGED <<mv, rs, rq, al, fin, sv, links, inj, injected, hist, tid, cv, cq, q, resp, pend, dn, rt, pan, drift, viol>>

DeliverEv ==
  /\ Line.e = "deliver"
  /\ LET m == Line.to  p == Line.from
         msg == Msg(Line.ty, Line.tag, Line.view)
         res == Handle(m, p, msg, [mv |-> mv[m], rs |-> rs[m], rq |-> rq[m]])
         newresp == IF Line.ty = "R" /\ res.rs # rs[m] THEN {<<p, Line.view>>} ELSE {}
     IN /\ m \in Honest
        /\ mv' = [mv EXCEPT ![m] = res.mv]
        /\ rs' = [rs EXCEPT ![m] = res.rs]
        /\ resp' = [resp EXCEPT ![m] = @ \cup newresp]
        /\ vs' = [vs EXCEPT ![m] = IF ph[m] = "idle" THEN @ ELSE @ \cup {Sorted({m} \cup {e[1] : e \in res.mv})}]
        /\ cv' = [cv EXCEPT ![m] = IF ph[m] = "idle" \/ Common(res.mv) = Mixed THEN @ ELSE @ \cup {Common(res.mv)}]
        /\ cq' = [cq EXCEPT ![m] = IF ph[m] = "idle" THEN @
                                   ELSE @ \cup Guard(m, res.mv, IF Common(res.mv) = Mixed THEN cv[m] ELSE cv[m] \cup {Common(res.mv)})]
        /\ pend' = [pend EXCEPT ![m] = {[to |-> p, view |-> r.view] : r \in res.reply}]
        /\ SetDrift(IF pend[m] # {} THEN "a reply the model expects was never sent" ELSE "")
  /\ UNCHANGED <<ph, rq, al, fin, sv, links, inj, injected, hist, tid, q, dn, rt, started, pan, viol>>

OutEv ==
  /\ Line.e = "out"
  /\ LET m == Line.m IN
     /\ m \in Honest
     /\ CASE Line.ty = "M" ->
               /\ SetDrift(IF Line.tag = m /\ Line.view \in vs[m] /\ Rng(Line.to) = Members \ {m} THEN "" ELSE "unexpected announcement")
               /\ UNCHANGED <<q, pend>>
          [] Line.ty = "Q" ->
               /\ SetDrift(IF Line.tag = m /\ Line.view \in cq[m] /\ Len(Line.view) = E /\ q[m] = <<>> /\ Rng(Line.to) = Members \ {m}
                             THEN "" ELSE "query not justified by any model state")
               /\ q' = [q EXCEPT ![m] = Line.view]
               /\ UNCHANGED pend
          [] Line.ty = "R" ->
               /\ SetDrift(IF Line.tag = m /\ Len(Line.to) = 1 /\ [to |-> Line.to[1], view |-> Line.view] \in pend[m]
                             THEN "" ELSE "unexpected response")
               /\ pend' = [pend EXCEPT ![m] = {}]
               /\ UNCHANGED q
          [] OTHER -> SetDrift("undecodable message sent") /\ UNCHANGED <<q, pend>>
  /\ UNCHANGED <<vars, tid, vs, cv, cq, resp, dn, rt, started, pan, viol>>

DoneEv ==
  /\ Line.e = "done"
  /\ LET m == Line.m
         dn2 == dn \cup {<<m, Line.list>>} IN
     /\ dn' = dn2
     /\ SetDrift(IF Line.list = q[m] /\ Cardinality({r \in resp[m] : r[2] = Line.list}) >= E - 1
                   THEN "" ELSE "completion not justified (query / matching responses)")
     /\ Report(dn2, rt, started, pan, FALSE, FALSE)
  /\ UNCHANGED <<vars, tid, vs, cv, cq, q, resp, pend, rt, started, pan>>

RetEv ==
  /\ Line.e = "ret"
  /\ LET rt2 == rt \cup {<<Line.m, IF Line.err = "" THEN "ok" ELSE "err">>} IN
     /\ rt' = rt2
     /\ Report(dn, rt2, started, pan, FALSE, FALSE)
  /\ UNCHANGED <<vars, tid, vs, cv, cq, q, resp, pend, dn, started, pan, drift>>

PanicEv ==
  /\ Line.e = "panic"
  /\ pan' = TRUE
  /\ Report(dn, rt, started, TRUE, FALSE, FALSE)
  /\ UNCHANGED <<vars, tid, vs, cv, cq, q, resp, pend, dn, rt, started, drift>>

EndEv ==
  /\ Line.e = "end"
  /\ Report(dn, rt, started, pan, TRUE, Line.hung)
  /\ PrintT(<<"END", ToJson([t |-> tid, drift |-> drift, done |-> Cardinality(dn)])>>)
  /\ UNCHANGED <<vars, tid, vs, cv, cq, q, resp, pend, dn, rt, started, pan, drift>>

TNext == /\ l <= Len(Trace)
         /\ l' = l + 1
         /\ \/ Reset \/ StartEv \/ DeliverEv \/ OutEv \/ DoneEv \/ RetEv \/ PanicEv \/ EndEv
=============================================================================
