---------------------------- MODULE AlgebraTrace ----------------------------
(***************************************************************************)
(* Validation of what the REAL code did (ndjson written by                 *)
(* harness/cmd/drv/algebra.go) against spec/Algebra.tla, property C18.     *)
(* One step per record; the expected value / verdict of every record is    *)
(* recomputed here, nothing is taken from the harness:                     *)
(*                                                                         *)
(*  choose  the callback sequence of the real chooseKoutOfN                *)
(*  lag     the real lagrangeCoefficient(i, S), handed over as the exact   *)
(*          rational it represents modulo the group order                  *)
(*  rec     shares dealt by the real SSS.Gen, interpolated by the real     *)
(*          Shares.reconstruct over many subsets                           *)
(*  dkg     real DKGs through the public API (optionally with one party    *)
(*          played by the harness that reveals a key off the polynomial),  *)
(*          every subset of partial signatures aggregated and verified     *)
(*  blag    LARGE point sets (up to 256 points, identifiers up to 65535):  *)
(*          the moment law, reconstruction of a polynomial of degree       *)
(*          < |S|, order independence (evaluated by the harness modulo the *)
(*          group order, reported as booleans with the inputs) and the     *)
(*          increment law (reported as small rationals, recomputed here)   *)
(*  bchoose chooseKoutOfN for large (n, k): count, validity, distinctness  *)
(*  bdeal   large dealings (real Gen) reconstructed and signed/aggregated  *)
(*          through the public API over demanded classes of subsets        *)
(*  seq     SEQUENCES of key generations on the same instances (Init +     *)
(*          KeyGen again): every run judged like a run on fresh instances, *)
(*          its public material a function of that run's keys only         *)
(* and, at the end, completeness: every large cell the model demands       *)
(* (Algebra!BigCases, BigNT x DealClasses, BigChoose, BigDkg) was executed *)
(* for both packages.                                                      *)
(*                                                                         *)
(* Output: VIOL (a C18 monitor is false on real behaviour), DRIFT (the     *)
(* real code differs from the model but the monitors hold), BAD (the       *)
(* harness handed over something inconsistent: machinery error), END.      *)
(***************************************************************************)
EXTENDS Algebra, Json

CONSTANTS TraceFile,
          ModelQ,     \* field in which the expected verdict of the DKG cases is decided
          ModelP,     \* coefficients handed to Algebra!VerdictPoly for that (the same as AlgebraMC's Sample[1])
          BigSizes, RandSets, BigNT, BigDkg, BigChoose, BigQ,    \* the demanded LARGE cases, exactly as given to AlgebraMC
          SeqPlans,      \* the demanded sequences of key generations on the same instances, as given to AlgebraMC
          SeqSchemes,    \* schemes of which they are demanded (a scheme whose instances cannot run a second key generation at all on
                         \* the tree under test is reported by the probe and not demanded)
          CheckCoverage  \* TRUE: every demanded large case must have been executed (FALSE for replays of single cases)

Results == ndJsonDeserialize(TraceFile)

VARIABLE l

Viol(r, mon, sig, detail)  == PrintT(<<"VIOL", ToJson([id |-> r.id, mon |-> mon, sig |-> sig, detail |-> detail])>>)
Drift(r, kind)             == PrintT(<<"DRIFT", ToJson([id |-> r.id, kind |-> kind])>>)
Bad(r, what)               == PrintT(<<"BAD", ToJson([id |-> r.id, what |-> what])>>)

-----------------------------------------------------------------------------
\* chooseKoutOfN.  Monitor: for 2 <= k <= n the enumeration consists of k-subsets of 1..n and misses none of them (this is what
\* "the cross-check covers every t-subset" needs).  The ORDER of the callbacks is compared with ChooseSeq as conformance only.
CheckChoose(r) ==
  LET exp    == ChooseSeq(r.n, r.kk)
      real   == {ToSet(r.seq[m]) : m \in DOMAIN r.seq}
      inprop == r.kk >= 2 /\ r.kk <= r.n
      good   == r.panic = "" /\ real = KSubsets(r.n, r.kk) /\ \A m \in DOMAIN r.seq : Len(r.seq[m]) = r.kk IN
  /\ (inprop /\ ~good) => Viol(r, "ChooseCoversEveryKSubset", "choose/" \o r.pkg,
                               [n |-> r.n, k |-> r.kk, missing |-> Cardinality(KSubsets(r.n, r.kk) \ real),
                                foreign |-> Cardinality(real \ KSubsets(r.n, r.kk)), panic |-> r.panic])
  /\ (~(inprop /\ ~good) /\ (r.panic # "" \/ r.seq # exp)) =>
        Drift(r, "chooseKoutOfN(" \o r.pkg \o ") enumerates in another order than ChooseSeq (or differs outside 2 <= k <= n)")

\* lagrangeCoefficient.  Monitor: the coefficient is the one and only value that interpolates at zero: LagNum / LagDen.
\* r.num / r.den is the real coefficient as a rational (|values| <= 8!, so the products stay below 2^31).
CheckLag(r) ==
  LET n    == LagNum(r.i, r.pts)
      d    == LagDen(r.i, r.pts)
      good == r.panic = "" /\ r.ok /\ r.den # 0 /\ r.num * d = n * r.den IN
  /\ ~good => Viol(r, "LagrangeCoefficient", "lagrange/" \o r.pkg,
                   [pts |-> r.pts, i |-> r.i, want |-> <<n, d>>, got |-> <<r.num, r.den>>, value |-> r.hex, panic |-> r.panic])
  /\ (r.panic = "" /\ (r.vnum * d # n * r.vden)) => Bad(r, "the harness compared with a vector that is not the specification's")
  /\ (r.panic = "" /\ r.vnum * d = n * r.vden /\ good # r.match) => Bad(r, "rational reconstruction and modular comparison disagree")

\* Gen + reconstruct.  Monitor: every subset of at least t points yields the dealt secret.
CheckRec(r) ==
  LET small == r.mode = "small" /\ r.honoured /\ r.panic = "" IN
  /\ r.panic # "" => Viol(r, "ReconstructsDealtSecret", "reconstruct/" \o r.pkg, [n |-> r.n, t |-> r.t, mode |-> r.mode, panic |-> r.panic])
  /\ r.panic = "" =>
       /\ Len(r.eqs) # Len(r.subs) => Bad(r, "verdict list does not match the subset list")
       /\ Len(r.eqs) = Len(r.subs) => \A m \in DOMAIN r.subs :
            LET sz == Len(r.subs[m]) IN
            /\ (sz >= r.t /\ ~r.eqs[m]) => Viol(r, "ReconstructsDealtSecret", "reconstruct/" \o r.pkg,
                                                 [n |-> r.n, t |-> r.t, mode |-> r.mode, pts |-> r.subs[m]])
            /\ (sz = r.t - 1 /\ r.eqs[m]) => Drift(r, "fewer than t shares reconstructed the secret")
       /\ (r.exh /\ ~({S \in SUBSET (1..r.n) : Cardinality(S) >= r.t} \subseteq {ToSet(r.subs[m]) : m \in DOMAIN r.subs})) =>
            Bad(r, "record claims all subsets but some are missing")
       /\ ~r.sharesok => Drift(r, "dealt shares are not the values of the returned polynomial at 1..n")
       /\ r.polylen # r.t => Drift(r, "SSS.Gen returned a polynomial whose number of coefficients is not the threshold")
  /\ (r.mode = "small" /\ r.panic = "" /\ ~r.honoured) => Drift(r, "SSS.Gen did not take its coefficients from the supplied reader as crypto/rand.Int does")
  /\ small =>
       \* coefficients are small integers: TLC recomputes the dealt shares exactly, and interpolates the REAL shares in GF(ModelQ)
       /\ r.shares # [x \in 1..r.n |-> ValueAtInt(r.poly, x)] => Drift(r, "dealt shares differ from ValueAt(P, 1..n)")
       /\ \A m \in DOMAIN r.subs :
            LET pts == r.subs[m] IN
            (Len(pts) >= r.t /\ \A x \in ToSet(pts) : r.shares[x] >= 0) =>
               /\ (r.eqs[m] # (r.recs[m] = r.poly[1])) => Bad(r, "small-coefficient verdict and value disagree")
               /\ (r.eqs[m] /\ Reconstruct([x \in 1..r.n |-> r.shares[x] % ModelQ], pts, ModelQ) # r.poly[1] % ModelQ) =>
                     Drift(r, "model interpolation of the real shares disagrees with the library")

\* DKG through the public API.
\* One key generation (r), reported under the record `top` (r itself, or the sequence it belongs to).  tag distinguishes the
\* input class in the signatures ("" / "-large" / "-rerun": a later key generation on instances that ran one before).
CheckRun(top, r, tag, fresh, idx) ==
  LET exp     == IF r.big THEN ModelVerdictT(r.n, r.t, r.pos, r.off, VerdictPoly(ModelP, r.t, BigQ), BigQ)
                          ELSE ModelVerdict(r.n, r.t, r.pos, r.off, VerdictPoly(ModelP, r.t, ModelQ), ModelQ)
      H       == DOMAIN r.errs
      failed  == {m \in H : r.errs[m] \/ r.panics[m]}
      sig(x)  == x \o tag \o "/" \o r.scheme
      where   == [n |-> r.n, t |-> r.t, pos |-> r.pos, off |-> r.off, ids |-> r.ids, run |-> idx,
                  err |-> IF r.errtxt # "" THEN r.errtxt ELSE r.panictxt] IN
  /\ (r.timeout \/ r.harness # "") => Bad(top, "DKG run not usable: " \o (IF r.timeout THEN "timeout " ELSE "") \o r.harness)
  /\ exp # r.expect => Bad(top, "case list and trace specification disagree on the expected verdict")
  /\ (~r.timeout /\ r.harness = "") =>
       /\ exp = "accept" =>
            /\ (failed # {} \/ ~r.agree) => Viol(top, "OnPolynomialKeysAccepted", sig("dkg-accept"), where)
            /\ (failed = {} /\ r.agree /\ (~r.material \/ ~fresh)) =>
                  Viol(top, "PublicMaterialOfThisRunOnly", sig("dkg-material"),
                       [where EXCEPT !.err = IF ~r.material THEN r.matwhy ELSE "the same threshold key as in an earlier key generation"])
            /\ (failed = {} /\ r.agree /\ r.signed) =>
                 /\ (r.errtxt # "" \/ \E m \in DOMAIN r.subs : Len(r.subs[m]) >= r.t /\ ~r.oks[m]) =>
                       Viol(top, "SharesAggregateToThresholdKey", sig("dkg-aggregate"),
                            [n |-> r.n, t |-> r.t, pos |-> r.pos, run |-> idx, err |-> r.errtxt,
                             failing |-> {r.subs[m] : m \in {mm \in DOMAIN r.subs : Len(r.subs[mm]) >= r.t /\ ~r.oks[mm]}}])
                 /\ (\E m \in DOMAIN r.subs : Len(r.subs[m]) < r.t /\ r.oks[m]) => Drift(top, "fewer than t partial signatures verified under the threshold key")
                 /\ (r.exh /\ ~({S \in SUBSET (1..r.n) : Cardinality(S) >= r.t} \subseteq {ToSet(r.subs[m]) : m \in DOMAIN r.subs})) =>
                       Bad(top, "record claims all subsets but some are missing")
       /\ (exp = "detect" /\ failed # H) =>
            Viol(top, "OffPolynomialKeyDetected", sig("dkg-detect"), [where EXCEPT !.err = "accepted by " \o ToString(Cardinality(H \ failed)) \o " parties"])
       /\ (exp = "undetectable" /\ failed # {}) =>
            Drift(top, "a deviation the model calls undetectable (t = n) was rejected")

\* DKG through the public API, fresh instances
CheckDkg(r) == CheckRun(r, r, IF r.big THEN "-large" ELSE "", TRUE, 1)

\* a sequence of key generations on the SAME instances: the demanded plan, every run judged like a run on fresh instances (its
\* expected verdict is a function of that run alone), the reported public material a function of that run's announced keys
CheckSeq(r) ==
  LET plan == RunPlan(r.plan[1], r.plan[2], r.plan[3], r.plan[4])
      exp  == ExpectedVerdicts(plan, ModelP, ModelQ) IN
  /\ (Len(r.runs) # r.planned \/ r.planned # Len(plan)) => Bad(r, "the sequence of key generations is not the demanded plan (stopped early?)")
  /\ \A k \in DOMAIN r.runs :
       LET x == r.runs[k] IN
       /\ (k <= Len(plan) /\ (Run(x.n, x.t, x.pos, x.off) # plan[k] \/ x.expect # exp[k])) => Bad(r, "run " \o ToString(k) \o " is not the run of the plan")
       /\ CheckRun(r, x, IF k = 1 THEN "" ELSE "-rerun", x.fresh, k)
       /\ (k > 1 /\ x.reused = 0) => Bad(r, "run " \o ToString(k) \o " did not re-use any instance")

\* exploratory sequence (never a verdict): does this tree support a second key generation on the same instances at all?
CheckSeqProbe(r) ==
  \A k \in DOMAIN r.runs :
     LET x == r.runs[k] IN
     (k > 1 /\ (x.timeout \/ (\E m \in DOMAIN x.errs : x.errs[m] \/ x.panics[m]) \/ ~x.agree)) =>
        Drift(r, "a second key generation on the same " \o r.scheme \o " instances does not complete on this tree (sequences of key generations are not demanded of this scheme)")

\* LARGE point sets.  Monitor: the real coefficients of S satisfy the laws that characterise interpolation at zero.
CheckBLag(r) ==
  LET chainsok == \A c \in DOMAIN r.chains : r.chains[c].end /\ r.chains[c].steps = ChainExpected(r.pts, r.chains[c].i)
      good     == /\ r.panic = "" /\ Len(r.moments) = Len(r.pts) /\ \A k \in DOMAIN r.moments : r.moments[k]
                  /\ r.nonzero /\ r.recon /\ r.permsame /\ Len(r.chains) >= 1 /\ chainsok IN
  /\ ~PointSetOK(r.pts) => Bad(r, "not a set of ascending identifiers in 1..65535")
  /\ ~good => Viol(r, "LagrangeLawsOnLargeSets", "lagrange-large/" \o r.pkg,
                   [cls |-> r.cls, size |-> Len(r.pts), lo |-> r.pts[1], hi |-> SeqMax(r.pts), moments_failing |-> r.nfail,
                    first_failing_k |-> r.firstfail, reconstructs |-> r.recon, order_independent |-> r.permsame,
                    increment_law |-> (r.panic = "" /\ chainsok), panic |-> r.panic])

\* chooseKoutOfN for large (n, k).  Monitor as for the small cases: only k-subsets of 1..n, pairwise distinct, C(n, k) of them.
CheckBChoose(r) ==
  LET inprop == r.kk >= 2 /\ r.kk <= r.n
      good   == r.panic = "" /\ r.count = BinomMul(r.n, r.kk) /\ r.valid /\ r.distinct IN
  /\ (inprop /\ ~good) => Viol(r, "ChooseCoversEveryKSubset", "choose-large/" \o r.pkg,
                               [n |-> r.n, k |-> r.kk, count |-> r.count, want |-> BinomMul(r.n, r.kk), valid |-> r.valid,
                                distinct |-> r.distinct, panic |-> r.panic])
  /\ (~(inprop /\ ~good) /\ (r.panic # "" \/ ~r.lexinc \/ ~good
                                \/ r.first # (IF r.kk > r.n THEN <<>> ELSE [j \in 1..r.kk |-> j])
                                \/ r.last # (IF r.kk > r.n THEN <<>> ELSE [j \in 1..r.kk |-> r.n - r.kk + j]))) =>
        Drift(r, "chooseKoutOfN(" \o r.pkg \o ") enumerates large (n, k) in another order than ChooseSeq")

\* large dealings in trusted-dealer mode
CheckBDeal(r) ==
  /\ r.panic # "" => Viol(r, "ReconstructsDealtSecret", "reconstruct-large/" \o r.scheme, [n |-> r.n, t |-> r.t, mode |-> r.mode, panic |-> r.panic])
  /\ r.panic = "" =>
       /\ (Len(r.eqs) # Len(r.subs) \/ Len(r.oks) # Len(r.subs) \/ Len(r.classes) # Len(r.subs)) => Bad(r, "verdict lists do not match the subset list")
       /\ (Len(r.eqs) = Len(r.subs) /\ Len(r.oks) = Len(r.subs) /\ Len(r.classes) = Len(r.subs)) => \A m \in DOMAIN r.subs :
            LET sz == Len(r.subs[m]) IN
            /\ ~DealShapeOK(r.classes[m], r.n, r.t, r.subs[m]) => Bad(r, "subset does not have the shape of its class " \o r.classes[m])
            /\ (sz >= r.t /\ ~r.eqs[m]) => Viol(r, "ReconstructsDealtSecret", "reconstruct-large/" \o r.scheme,
                                                 [n |-> r.n, t |-> r.t, mode |-> r.mode, class |-> r.classes[m], size |-> sz])
            /\ (sz >= r.t /\ ~r.oks[m]) => Viol(r, "SharesAggregateToThresholdKey", "dkg-aggregate-large/" \o r.scheme,
                                                 [n |-> r.n, t |-> r.t, pos |-> 0, dealer |-> TRUE, err |-> r.errtxt, failing |-> {<<r.classes[m], sz>>}])
            /\ (sz < r.t /\ (r.eqs[m] \/ r.oks[m])) => Drift(r, "fewer than t shares of a large dealing reconstructed / verified")
       /\ ~r.sharesok => Drift(r, "dealt shares are not the values of the returned polynomial at 1..n")
       /\ r.polylen # r.t => Drift(r, "SSS.Gen returned a polynomial whose number of coefficients is not the threshold")

\* completeness of the large cases: what the model demands (the same operators and constants as AlgebraMC) was executed
Pkgs == {"bls", "ps"}
Executed(kind) == {Results[m] : m \in {mm \in DOMAIN Results : Results[mm].k = kind}}
Coverage(upto) ==     \* (the parameter only keeps TLC from evaluating this while it processes the constants)
  LET lag    == {<<r.pkg, r.cls, r.pts>> : r \in Executed("blag")}
      cho    == {<<r.pkg, r.n, r.kk>> : r \in Executed("bchoose")}
      deal   == UNION {{<<r.scheme, r.n, r.t, r.classes[m]>> : m \in DOMAIN r.classes} : r \in Executed("bdeal")}
      dkg    == {<<r.scheme, r.n, r.t, r.pos, r.off>> : r \in {x \in Executed("dkg") : x.big}}
      mlag   == {<<p, b.cls, b.pts>> : p \in Pkgs, b \in BigCases(BigSizes, RandSets)} \ lag
      mcho   == {<<p, nk[1], nk[2]>> : p \in Pkgs, nk \in BigChoose} \ cho
      mdeal  == {<<p, nt[1], nt[2], c>> : p \in Pkgs, nt \in BigNT, c \in DealClasses} \ deal
      mdkg   == ({<<p, nt[1], nt[2], 0, FALSE>> : p \in Pkgs, nt \in BigDkg}
                 \cup {<<p, nt[1], nt[2], 1, o>> : p \in Pkgs, nt \in BigDkg, o \in BOOLEAN}
                 \cup {<<p, nt[1], nt[2], nt[1], o>> : p \in Pkgs, nt \in BigDkg, o \in BOOLEAN}) \ dkg
      sq     == {<<r.scheme, r.plan>> : r \in {x \in Executed("seq") : Len(x.runs) = x.planned}}
      msq    == {<<p, sp>> : p \in SeqSchemes, sp \in SeqPlans} \ sq IN
  /\ mlag # {} => PrintT(<<"BAD", ToJson([id |-> 0, what |-> "demanded large point sets not executed: " \o ToString(Cardinality(mlag))])>>)
  /\ mcho # {} => PrintT(<<"BAD", ToJson([id |-> 0, what |-> "demanded large (n, k) not executed: " \o ToString(mcho)])>>)
  /\ mdeal # {} => PrintT(<<"BAD", ToJson([id |-> 0, what |-> "demanded large dealing cells not executed: " \o ToString(mdeal)])>>)
  /\ mdkg # {} => PrintT(<<"BAD", ToJson([id |-> 0, what |-> "demanded large DKG cases not executed: " \o ToString(mdkg)])>>)
  /\ msq # {} => PrintT(<<"BAD", ToJson([id |-> 0, what |-> "demanded sequences of key generations not executed: " \o ToString(msq)])>>)
  /\ PrintT(<<"COVER", ToJson([seq |-> Cardinality(sq), blag |-> Cardinality(lag), bchoose |-> Cardinality(cho), bdeal |-> Cardinality(deal), bigdkg |-> Cardinality(dkg)])>>)

Check(r) == CASE r.k = "choose" -> CheckChoose(r)
              [] r.k = "blag"    -> CheckBLag(r)
              [] r.k = "bchoose" -> CheckBChoose(r)
              [] r.k = "bdeal"   -> CheckBDeal(r)
              [] r.k = "seq"     -> CheckSeq(r)
              [] r.k = "seqprobe" -> CheckSeqProbe(r)
              [] r.k = "lag"    -> CheckLag(r)
              [] r.k = "rec"    -> CheckRec(r)
              [] r.k = "dkg"    -> CheckDkg(r)
              [] OTHER          -> Bad(r, "unknown record kind")

TInit == l = 0
TNext == /\ l < Len(Results)
         /\ l' = l + 1
         /\ Check(Results[l + 1])
         /\ (l + 1 = Len(Results) /\ CheckCoverage) => Coverage(l + 1)
         /\ (l + 1 = Len(Results)) => PrintT(<<"END", ToJson([n |-> Len(Results)])>>)
=============================================================================
