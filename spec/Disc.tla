-------------------------------- MODULE Disc --------------------------------
(***************************************************************************)
(* Membership synchronisation (disc/discovery.go, type Member) on ONE      *)
(* topic.  One action per linearisation point of the code:                 *)
(*   Start     registerInterestInTopic + precomputeTagsForTopic            *)
(*   Tick      ticker case of the probing loop: broadcast own view         *)
(*   Snap      intersectedView, first half: Range over the announced views *)
(*   Check     intersectedView, second half (own view is computed from the *)
(*             CURRENT key set, which may have grown since Snap) + the two *)
(*             size tests + broadcast of Query                             *)
(*   Recv      HandleMessage (tag -> (topic,id), id = from, dispatch)      *)
(*   Consume   one receive from tpv.responses in the confirmation loop     *)
(*   Deadline  ctx.Done() in either loop                                   *)
(* Links are FIFO per (sender, receiver).  A Byzantine send is merged with *)
(* its delivery.  Views are sequences (the code compares their printed     *)
(* form, so order and duplicates matter).                                  *)
(***************************************************************************)
EXTENDS Integers, FiniteSets, Sequences, SequencesExt, TLC

CONSTANTS Members,      \* configured universe (Membership of every Member object)
          Starters,     \* honest members that invoke Synchronize on the topic
          Byz,          \* Byzantine configured members (know the topic, can compute every tag)
          NonMembers,   \* authenticated nodes outside the configured universe
          E,            \* expectedMemberCount
          AdvSet,       \* adversary alphabet: records [from, to, t, tag, view]
          MaxInject,
          Distinct,     \* TRUE: every adversarial message at most once and the set of injected messages is tracked
          Deadlines     \* whether ctx may expire

Honest == Members \ Byz

VARIABLES ph,    \* [Honest -> {"idle","probing","querying","done","failed"}]
          mv,    \* [Honest -> [peer -> view]]   memberToView (as a set of <<peer, view>>, one per peer)
          rs,    \* [Honest -> SUBSET ids]       responsesReceived
          rq,    \* [Honest -> Seq(view)]        responses channel
          al,    \* [Honest -> Nat]              acknowledgementsLeft
          fin,   \* [Honest -> view]             the list queried / handed to the continuation
          sv,    \* [Honest -> view | NoSnap | Mixed] what the Range over memberToView saw (between Snap and Check)
          links, \* [<<from, to>> -> Seq(msg)]
          inj, injected,
          hist

vars == <<ph, mv, rs, rq, al, fin, sv, links, inj, injected, hist>>
view == <<ph, mv, rs, rq, al, fin, sv, links, inj, injected>>
setview == injected

NoSnap == <<-1>>
Mixed  == <<-2>>

Msg(t, tag, v) == [t |-> t, tag |-> tag, view |-> v]

Sorted(S) == SetToSortSeq(S, LAMBDA a, b : a < b)
Peers(m)  == {e[1] : e \in mv[m]}
ViewOf(m, p) == (CHOOSE e \in mv[m] : e[1] = p)[2]
MyView(m) == Sorted({m} \cup Peers(m))
SetView(s, p, v) == {e \in s : e[1] # p} \cup {<<p, v>>}

Pairs == {<<a, b>> \in (Members \cup NonMembers) \X Honest : a # b}

Init == /\ ph = [m \in Honest |-> "idle"]
        /\ mv = [m \in Honest |-> {}]
        /\ rs = [m \in Honest |-> {}]
        /\ rq = [m \in Honest |-> <<>>]
        /\ al = [m \in Honest |-> 0]
        /\ fin = [m \in Honest |-> <<>>]
        /\ sv = [m \in Honest |-> NoSnap]
        /\ links = [pr \in Pairs |-> <<>>]
        /\ inj = 0 /\ injected = {} /\ hist = <<>>

Start(m) ==
  /\ m \in Starters /\ ph[m] = "idle"
  /\ ph' = [ph EXCEPT ![m] = "probing"]
  /\ hist' = Append(hist, [e |-> "start", m |-> m])
  /\ UNCHANGED <<mv, rs, rq, al, fin, sv, links, inj, injected>>

\* messages of honest m to every other honest configured member (Byzantine inboxes are not modelled)
BcastTo(m, msg) == [pr \in Pairs |-> IF pr[1] = m /\ pr[2] \in Honest \ {m} THEN Append(links[pr], msg) ELSE links[pr]]

HasPendingM(m, q) == \E i \in DOMAIN links[<<m, q>>] : links[<<m, q>>][i].t = "M"

\* the ticker fires: announce the current view (the next tick only after the previous announcements were delivered: keeps the model finite)
Tick(m) ==
  /\ ph[m] = "probing"
  /\ \A q \in Honest \ {m} : ~HasPendingM(m, q)
  /\ links' = BcastTo(m, Msg("M", m, MyView(m)))
  /\ hist' = Append(hist, [e |-> "tick", m |-> m])
  /\ UNCHANGED <<ph, mv, rs, rq, al, fin, sv, inj, injected>>

\* intersectedView, first half: the Range over memberToView sees one common view, or differing ones, or nothing
Common(mvm) == IF mvm = {} THEN Mixed
               ELSE LET v == (CHOOSE e \in mvm : TRUE)[2] IN IF \A e \in mvm : e[2] = v THEN v ELSE Mixed

Snap(m) ==
  /\ ph[m] = "probing" /\ sv[m] = NoSnap
  /\ Common(mv[m]) # Mixed          \* a Range that sees differing views leads back to the select: no state change
  /\ sv' = [sv EXCEPT ![m] = Common(mv[m])]
  /\ hist' = Append(hist, [e |-> "snap", m |-> m])
  /\ UNCHANGED <<ph, mv, rs, rq, al, fin, links, inj, injected>>

\* second half: the own view (self + CURRENT keys) joins the set of views; they must all be identical
Check(m) ==
  /\ ph[m] = "probing" /\ sv[m] # NoSnap
  /\ IF sv[m] = MyView(m) /\ Len(MyView(m)) >= E
       THEN IF Len(MyView(m)) > E
              THEN /\ ph' = [ph EXCEPT ![m] = "failed"]
                   /\ UNCHANGED <<fin, al, links>>
              ELSE /\ fin' = [fin EXCEPT ![m] = MyView(m)]
                   /\ al' = [al EXCEPT ![m] = E - 1]
                   /\ ph' = [ph EXCEPT ![m] = IF E - 1 = 0 THEN "done" ELSE "querying"]
                   /\ links' = BcastTo(m, Msg("Q", m, MyView(m)))
       ELSE UNCHANGED <<ph, fin, al, links>>
  /\ sv' = [sv EXCEPT ![m] = NoSnap]
  /\ hist' = Append(hist, [e |-> "check", m |-> m])
  /\ UNCHANGED <<mv, rs, rq, inj, injected>>

\* HandleMessage(from = p, msg) at honest m
Handle(m, p, msg, st) ==
  \* st = [mv, rs, rq]; returns the new [mv, rs, rq] and the reply (a set with at most one message to p)
  IF ph[m] = "idle" \/ msg.tag # p \/ p \notin Members \ {m}
    THEN [mv |-> st.mv, rs |-> st.rs, rq |-> st.rq, reply |-> {}]
  ELSE IF msg.t = "M" THEN [mv |-> SetView(st.mv, p, msg.view), rs |-> st.rs, rq |-> st.rq, reply |-> {}]
  ELSE IF msg.t = "Q" THEN
         LET mv2 == SetView(st.mv, p, msg.view) IN
         [mv |-> mv2, rs |-> st.rs, rq |-> st.rq,
          reply |-> {Msg("R", m, Sorted({m} \cup {e[1] : e \in mv2}))}]
  ELSE IF p \in st.rs THEN [mv |-> st.mv, rs |-> st.rs, rq |-> st.rq, reply |-> {}]
       ELSE [mv |-> st.mv, rs |-> st.rs \cup {p}, rq |-> Append(st.rq, msg.view), reply |-> {}]

ApplyHandle(m, p, msg, lk) ==
  LET res == Handle(m, p, msg, [mv |-> mv[m], rs |-> rs[m], rq |-> rq[m]]) IN
  /\ mv' = [mv EXCEPT ![m] = res.mv]
  /\ rs' = [rs EXCEPT ![m] = res.rs]
  /\ rq' = [rq EXCEPT ![m] = res.rq]
  /\ links' = IF res.reply # {} /\ p \in Honest
                THEN [lk EXCEPT ![<<m, p>>] = Append(@, CHOOSE r \in res.reply : TRUE)]
                ELSE lk

Recv(p, m) ==
  /\ links[<<p, m>>] # <<>>
  /\ ApplyHandle(m, p, Head(links[<<p, m>>]), [links EXCEPT ![<<p, m>>] = Tail(@)])
  /\ hist' = Append(hist, [e |-> "recv", from |-> p, to |-> m])
  /\ UNCHANGED <<ph, al, fin, sv, inj, injected>>

Consume(m) ==
  /\ ph[m] = "querying" /\ rq[m] # <<>>
  /\ rq' = [rq EXCEPT ![m] = Tail(@)]
  /\ IF Head(rq[m]) = fin[m]
       THEN /\ al' = [al EXCEPT ![m] = @ - 1]
            /\ ph' = [ph EXCEPT ![m] = IF al[m] - 1 = 0 THEN "done" ELSE "querying"]
       ELSE UNCHANGED <<al, ph>>
  /\ hist' = Append(hist, [e |-> "consume", m |-> m])
  /\ UNCHANGED <<mv, rs, fin, sv, links, inj, injected>>

Deadline(m) ==
  /\ Deadlines /\ ph[m] \in {"probing", "querying"}
  /\ ph' = [ph EXCEPT ![m] = "failed"]
  /\ hist' = Append(hist, [e |-> "deadline", m |-> m])
  /\ UNCHANGED <<mv, rs, rq, al, fin, sv, links, inj, injected>>

Inject(a) ==
  /\ inj < MaxInject /\ inj' = inj + 1
  /\ ~Distinct \/ a \notin injected
  /\ injected' = IF Distinct THEN injected \cup {a} ELSE injected
  /\ ApplyHandle(a.to, a.from, Msg(a.t, a.tag, a.view), links)
  /\ hist' = Append(hist, [e |-> "inject", a |-> a])
  /\ UNCHANGED <<ph, al, fin, sv>>

Next == \/ \E m \in Honest : Start(m) \/ Tick(m) \/ Snap(m) \/ Check(m) \/ Consume(m) \/ Deadline(m)
        \/ \E pr \in Pairs : pr[1] \in Honest /\ Recv(pr[1], pr[2])
        \/ \E a \in AdvSet : Inject(a)

Spec == Init /\ [][Next]_vars
FairSpec == Spec /\ WF_vars(Next)
             /\ \A m \in Honest : WF_vars(Start(m)) /\ WF_vars(Tick(m)) /\ WF_vars(Snap(m)) /\ WF_vars(Check(m)) /\ WF_vars(Consume(m))
             /\ \A pr \in Pairs : WF_vars(Recv(pr[1], pr[2]))

-----------------------------------------------------------------------------
IsSortedNoDup(s) == \A i \in 1..(Len(s) - 1) : s[i] < s[i + 1]
Elems(s) == {s[i] : i \in DOMAIN s}

\* C07 safety, parameterised by the observed outcome: D = [m -> list] for the members whose continuation ran,
\* A = set of honest members that invoked Synchronize
ListValidOn(D, A) ==
  \A m \in DOMAIN D :
     /\ IsSortedNoDup(D[m]) /\ m \in Elems(D[m]) /\ Len(D[m]) = E
     /\ Elems(D[m]) \subseteq Members
     /\ \A x \in Elems(D[m]) \cap Honest : x \in A
AgreementOn(D) == \A p, q \in DOMAIN D : q \in Elems(D[p]) => D[q] = D[p]

DoneMap == [m \in {x \in Honest : ph[x] = "done"} |-> fin[m]]
Announced == {m \in Honest : ph[m] # "idle"}
ListValid == ListValidOn(DoneMap, Announced)
Agreement == AgreementOn(DoneMap)

\* liveness (honest run, exactly E starters, no deadline): everybody completes
AllDone == <>[](\A m \in Starters : ph[m] = "done")
\* fewer starters than expected: nobody ever completes
NobodyDone == \A m \in Honest : ph[m] # "done"
=============================================================================
