-------------------------------- MODULE Net --------------------------------
(***************************************************************************)
(* The bundled TLS transport of IBM/TSS (net/net.go).                      *)
(*                                                                         *)
(* Part "hs" (property C16): the connection handshake.  A connection has a *)
(* unique channel binding (TLS exporter value).  The peer sends            *)
(*      [domain, binding, identity, timestamp, signature]                  *)
(* ASN.1-encoded behind a 2-byte length.  authenticateConnection decodes,  *)
(* compares the binding, extracts the certificate from the identity,       *)
(* verifies the ECDSA signature over the handshake with the signature      *)
(* field blanked and looks hash(domain || identity) up in the registered   *)
(* table.  The attacker owns one valid handshake per connection and sends  *)
(* any variant of the catalogue (every field altered / substituted /       *)
(* replayed / re-signed, every key type, every malformed encoding); an     *)
(* honest peer connects concurrently.  The model is the decision procedure *)
(* of the code (incl. its one remaining deviation, named); Proved is what  *)
(* the property demands.  TLC checks AttributedOnlyIfProved / NoCrash /    *)
(* HonestServed over all variants and all interleavings with the honest    *)
(* connection, and prints for every variant the expected verdict (CASE     *)
(* records) which the conformance harness executes against the real        *)
(* comm.Listen + comm.ServiceConnections.                                  *)
(*                                                                         *)
(* Part "fr" (property C17): framing and fault isolation.  Sending         *)
(* goroutines enqueue into a bounded queue per destination; one writer     *)
(* goroutine per destination connects (retrying) and writes frames into    *)
(* the stream; the reader of the destination decodes frame by frame and    *)
(* hands messages over; a frame announcing more than the limit or a broken *)
(* frame ends that connection's reader.  Peers may be down, late, stalled  *)
(* (never reading) or garbling (raw client writing a broken frame).  A     *)
(* Send that finds the queue full for the enqueue timeout reports it,      *)
(* gives that copy up and goes on (nobody panics).  Inbound connections    *)
(* are accepted by a loop that never waits for a peer: the TLS handshake,  *)
(* the authentication handshake and the frames of a connection are the     *)
(* business of that connection's own handler goroutine, so a peer that     *)
(* connects first and then stalls at any of these steps ("install" fault)  *)
(* delays nobody else.                                                     *)
(***************************************************************************)
EXTENDS Integers, Sequences, FiniteSets, TLC, Json

CONSTANTS Part,       \* "hs" | "fr"
          CatMode,    \* "full" | "near"   (which handshake variants are explored)
          Sample,     \* hs: additional variants (seeded sample of the product) explored in "near" mode
          Progs,      \* fr: set of program sets; a program set is a sequence (one entry per goroutine) of sequences of
                      \*     [id |-> message id, to |-> sequence of destinations]
          Faults,     \* fr: subset of {"none", "down", "late", "stalled", "garble", "install"}
          QCap, WCap, \* fr: queue capacity per destination, frames a stream can hold unread
          SyncAccept  \* fr: FALSE = the code; TRUE = what-if: the accept loop itself completes the TLS handshake of a
                      \*     connection before it accepts the next one (must make the check fail: falsifiability)

(* ====================================================================== *)
(*                         Part "hs": the handshake                        *)
(* ====================================================================== *)

Doms   == {"d1", "d2", "e", "dx", "dn", "dnl"}       \* "e": the empty domain; "dnl": "dn" followed by a newline
Binds  == {"own", "other", "rand", "empty", "short"}
Idents == {"A", "B", "U", "Rr", "Ru", "Er", "Eu", "Ajunk", "nlA", "nonpem", "noncert", "empty"}
Tss    == {"now", "old"}
Bys    == {"own", "kA", "kB", "kU", "none", "garbage"}
Overs  == {"sent", "otherconn", "origA", "junk"}

K5 == {"1", "2", "3", "4", "5"}
K4 == {"1", "2", "3", "4"}
EncLenient == {"trailin", "trailseq", "altstr"}   \* accepted by the decoder: bytes after the handshake, another ASN.1 string type
\* truncation after floor(k/64 * length) bytes: "tfrac": the length prefix announces the truncated length; "sfrac": it announces
\* the full length and the stream ends there
EncFrac    == {"tfrac" \o ToString(k) : k \in 0..63} \cup {"sfrac" \o ToString(k) : k \in 0..63}
EncReject  == {"tmid" \o k : k \in K5} \cup {"tend" \o k : k \in K4} \cup {"sfix" \o k : k \in K4} \cup {"scut" \o k : k \in K5}
              \cup {"wtag" \o k : k \in K5}
              \cup {"lenshort", "lenlongeof", "lenzero", "nonminlen", "intpad", "settag", "indef", "emptyseq"} \cup EncFrac
Encs == {"ok"} \cup EncLenient \cup EncReject

\* byte strings the abstract names stand for ("|" is a newline); the lookup key is their plain concatenation
DomBytes(d) == CASE d = "d1" -> "d1" [] d = "d2" -> "d2" [] d = "e" -> "" [] d = "dx" -> "dx" [] d = "dn" -> "dn" [] d = "dnl" -> "dn|"
IdBytes(i)  == CASE i = "Ajunk" -> "<A>junk" [] i = "nlA" -> "|<A>" [] i = "nonpem" -> "zz" [] i = "noncert" -> "<?>" [] i = "empty" -> ""
                 [] OTHER -> "<" \o i \o ">"
\* the certificate pem.Decode + x509.ParseCertificate find in the identity (leading garbage up to a newline is skipped,
\* trailing garbage ignored)
Certs == {"A", "B", "U", "Rr", "Ru", "Er", "Eu"}
PemCert(i) == CASE i \in {"A", "Ajunk", "nlA"} -> "A" [] i \in {"nonpem", "empty"} -> "nopem" [] i = "noncert" -> "nocert" [] OTHER -> i
KeyType(c) == CASE c \in {"A", "B", "U"} -> "ecdsa" [] c \in {"Rr", "Ru"} -> "rsa" [] c \in {"Er", "Eu"} -> "ed25519"

Registered == { [node |-> 1, dom |-> "d1",  ident |-> "A"],  [node |-> 2, dom |-> "d1", ident |-> "B"],
                [node |-> 3, dom |-> "d2",  ident |-> "B"],  [node |-> 4, dom |-> "e",  ident |-> "A"],
                [node |-> 5, dom |-> "d1",  ident |-> "Rr"], [node |-> 6, dom |-> "d1", ident |-> "Er"],
                [node |-> 7, dom |-> "dnl", ident |-> "A"] }
RegNodes == {r.node : r \in Registered}
RegKey(d, i) == DomBytes(d) \o IdBytes(i)
ASSUME \A r1, r2 \in Registered : RegKey(r1.dom, r1.ident) = RegKey(r2.dom, r2.ident) => r1 = r2

\* connections: 1 = the attacker's, 2 = the attacker's second connection (only its binding is used), 3 = an honest peer's
BindVal(b, c) == CASE b = "own" -> <<"b", c>> [] b = "other" -> <<"b", 2>> [] b = "rand" -> <<"r", 0>> [] b = "empty" -> <<"n", 0>>
                   [] b = "short" -> <<"s", c>>
SentT(h, c) == <<h.dom, BindVal(h.bind, c), IdBytes(h.ident), h.ts>>
OverT(h, c) == CASE h.over = "sent"      -> SentT(h, c)
                 [] h.over = "otherconn" -> <<h.dom, <<"b", 2>>, IdBytes(h.ident), h.ts>>
                 [] h.over = "origA"     -> <<"d1", <<"b", c>>, "<A>", "now">>
                 [] h.over = "junk"      -> <<"junk", <<"j", 0>>, "junk", "junk">>
SigKey(h) == IF h.by = "own" THEN (IF PemCert(h.ident) \in Certs THEN "k" \o PemCert(h.ident) ELSE "garbage") ELSE h.by
\* the signature verifies under the public key of the presented certificate
SigMatches(h, c) == PemCert(h.ident) \in Certs /\ SigKey(h) = "k" \o PemCert(h.ident) /\ OverT(h, c) = SentT(h, c)

(* what the property demands: node i may be credited with traffic of connection c only if ... *)
Proved(h, c, i) ==
  /\ h.enc \notin EncReject                                     \* the encoding is a handshake at all
  /\ BindVal(h.bind, c) = <<"b", c>>                            \* it contains this connection's channel binding
  /\ PemCert(h.ident) \in Certs /\ KeyType(PemCert(h.ident)) = "ecdsa"   \* supported key type
  /\ SigMatches(h, c)                                           \* valid signature by the identity's key over this handshake
  /\ \E r \in Registered : r.node = i /\ r.dom = h.dom /\ IdBytes(r.ident) = IdBytes(h.ident)  \* registered for i under the claimed domain
Allowed(h, c) == {i \in RegNodes : Proved(h, c, i)}

(* what the code does (authenticateConnection, step by step) *)
Lookup(h) == {r \in Registered : RegKey(r.dom, r.ident) = RegKey(h.dom, h.ident)}
CodeVerdict(h, c) ==
  IF h.enc \in EncReject THEN [res |-> "reject", node |-> 0, why |-> "decode"]
  ELSE IF BindVal(h.bind, c) # <<"b", c>> THEN [res |-> "reject", node |-> 0, why |-> "binding"]
  ELSE IF PemCert(h.ident) = "nopem" THEN [res |-> "reject", node |-> 0, why |-> "pem"]
  ELSE IF PemCert(h.ident) = "nocert" THEN [res |-> "reject", node |-> 0, why |-> "certificate"]
  ELSE IF KeyType(PemCert(h.ident)) # "ecdsa" THEN [res |-> "reject", node |-> 0, why |-> "keytype-" \o KeyType(PemCert(h.ident))]
  ELSE IF ~SigMatches(h, c) THEN [res |-> "reject", node |-> 0, why |-> "signature"]
  ELSE IF Lookup(h) = {} THEN [res |-> "reject", node |-> 0, why |-> "lookup"]
  ELSE [res |-> "accept", node |-> (CHOOSE r \in Lookup(h) : TRUE).node, why |-> "ok"]

\* the named deviation of the code from the property (the unchecked key-type assertion that used to crash the process on an
\* RSA / Ed25519 identity has been repaired in the code: such an identity is a plain rejection now)
DevConcat(h, c)  == LET v == CodeVerdict(h, c) IN v.res = "accept" /\ ~Proved(h, c, v.node)
\* the failing class of a handshake variant (used in violation signatures)
Class(h, c) == IF DevConcat(h, c) THEN "domain-identity-concatenation" ELSE CodeVerdict(h, c).why

Product == [dom : Doms, bind : Binds, ident : Idents, ts : Tss, by : Bys, over : Overs, enc : {"ok"}]
ValidBases == TLCEval({h \in Product : Allowed(h, 1) # {}})
Fields == {"dom", "bind", "ident", "ts", "by", "over"}
Dim(f) == CASE f = "dom" -> Doms [] f = "bind" -> Binds [] f = "ident" -> Idents [] f = "ts" -> Tss [] f = "by" -> Bys [] f = "over" -> Overs
Near1 == TLCEval(UNION {{[b EXCEPT ![f] = v] : v \in Dim(f)} : <<b, f>> \in ValidBases \X Fields})
StrictBases == {b \in ValidBases : b.ts = "now" /\ b.by = "own" /\ b.over = "sent"}
EncBases == IF CatMode = "full" THEN Near1 ELSE StrictBases \cup
                                                  {[dom |-> "d1", bind |-> "own", ident |-> "U", ts |-> "now", by |-> "own", over |-> "sent", enc |-> "ok"]}
EncCases == TLCEval({[b EXCEPT !.enc = e] : b \in EncBases, e \in (Encs \ {"ok"}) \ EncFrac})
FracSet == IF CatMode = "full" THEN 0..63 ELSE {8 * k + 3 : k \in 0..7}
FracCases == TLCEval({[b EXCEPT !.enc = p \o ToString(k)] : b \in StrictBases, p \in {"tfrac", "sfrac"}, k \in FracSet})
\* the variants that deviate from the property in the model of the current code, found by TLC over the whole product
DevSet == TLCEval({h \in Product : DevConcat(h, 1)})
\* a complete valid handshake (or its signature) recorded on the attacker's other connection
Replays == TLCEval({[b EXCEPT !.bind = bd, !.over = "otherconn"] : b \in ValidBases, bd \in {"own", "other"}})
Catalogue == TLCEval((IF CatMode = "full" THEN Product ELSE Near1 \cup DevSet \cup Replays \cup Sample) \cup EncCases \cup FracCases)

HonestHS == [dom |-> "d1", bind |-> "own", ident |-> "B", ts |-> "now", by |-> "own", over |-> "sent", enc |-> "ok"]
HonestNode == 2

VARIABLES atk,     \* the handshake variant the attacker sends on connection 1
          cst,     \* [{1,3} -> [st, node]]   st: idle, dialed, sent, auth, rej, done
          attr,    \* {<<connection, node, domain>>}: messages handed to the application with From = node, Domain = domain
          alive    \* the receiving process has not crashed
hvars == <<atk, cst, attr, alive>>

HConns == {1, 3}
HS(c) == IF c = 1 THEN atk ELSE HonestHS

CaseRec(h) == LET v == CodeVerdict(h, 1) IN
  [dom |-> h.dom, bind |-> h.bind, ident |-> h.ident, ts |-> h.ts, by |-> h.by, over |-> h.over, enc |-> h.enc,
   model |-> v.res, node |-> v.node, why |-> v.why, cls |-> Class(h, 1),
   allowed |-> {i \in RegNodes : Proved(h, 1, i)},
   dev |-> IF DevConcat(h, 1) THEN "concat" ELSE ""]

HInit == /\ atk \in Catalogue
         /\ PrintT(<<"CASE", ToJson(CaseRec(atk))>>)
         /\ cst = [c \in HConns |-> [st |-> "idle", node |-> 0]]
         /\ attr = {} /\ alive = TRUE

Dial(c)   == /\ alive /\ cst[c].st = "idle"   /\ cst' = [cst EXCEPT ![c].st = "dialed"] /\ UNCHANGED <<atk, attr, alive>>
SendHS(c) == /\ alive /\ cst[c].st = "dialed" /\ cst' = [cst EXCEPT ![c].st = "sent"]   /\ UNCHANGED <<atk, attr, alive>>
Auth(c) == /\ alive /\ cst[c].st = "sent"
           /\ LET v == CodeVerdict(HS(c), c) IN
              CASE v.res = "accept" -> cst' = [cst EXCEPT ![c] = [st |-> "auth", node |-> v.node]] /\ alive' = alive
                [] v.res = "reject" -> cst' = [cst EXCEPT ![c].st = "rej"] /\ alive' = alive
           /\ UNCHANGED <<atk, attr>>
\* the frame that follows the handshake: handed over with the authenticated node and the claimed domain, or never read
Frame(c) == /\ alive /\ cst[c].st \in {"auth", "rej"}
            /\ attr' = IF cst[c].st = "auth" THEN attr \cup {<<c, cst[c].node, HS(c).dom>>} ELSE attr
            /\ cst' = [cst EXCEPT ![c].st = "done"]
            /\ UNCHANGED <<atk, alive>>
HTerminal == ~alive \/ \A c \in HConns : cst[c].st = "done"
HNext == (\E c \in HConns : Dial(c) \/ SendHS(c) \/ Auth(c) \/ Frame(c)) \/ (HTerminal /\ UNCHANGED hvars)

\* C16: traffic is attributed only to peers that proved their registered identity on that very connection
AttributedOnlyIfProved == \A a \in attr : (Proved(HS(a[1]), a[1], a[2]) /\ a[3] = HS(a[1]).dom) \/ DevConcat(HS(a[1]), a[1])
NoCrash                == alive          \* no handshake whatsoever ends the receiving process
HonestServed           == (HTerminal /\ alive) => <<3, HonestNode, "d1">> \in attr
\* without the named deviation (expected to FAIL on the model of the current code: falsifiability of the invariant)
StrictAttributed == \A a \in attr : Proved(HS(a[1]), a[1], a[2]) /\ a[3] = HS(a[1]).dom

(* ====================================================================== *)
(*                     Part "fr": framing and faults                       *)
(* ====================================================================== *)

Limit == 20971520        \* 20 MiB
NeedsTopic(ty) == ty \in {1, 2}
LE4(n) == <<n % 256, (n \div 256) % 256, (n \div 65536) % 256, (n \div 16777216) % 256>>
UnLE4(b) == b[1] + 256 * b[2] + 65536 * b[3] + 16777216 * b[4]
Topic32 == [i \in 1..32 |-> (7 * i) % 256]
LegalMsg(m) == (NeedsTopic(m.ty) /\ Len(m.topic) = 32) \/ (~NeedsTopic(m.ty) /\ Len(m.topic) = 0)
\* a stream is a sequence of bytes [b |-> 0..255] and payload chunks [n |-> length, pay |-> content id]
Bytes(s) == [i \in 1..Len(s) |-> [b |-> s[i]]]
EncFrame(m) == Bytes(<<m.ty>> \o LE4(m.n) \o m.topic) \o <<[n |-> m.n, pay |-> m.pay]>>
DecFrame(s) ==
  IF Len(s) < 5 THEN [ok |-> FALSE, why |-> "short"]
  ELSE LET ty == s[1].b
           n  == UnLE4([i \in 1..4 |-> s[i + 1].b])
           off == IF NeedsTopic(ty) THEN 37 ELSE 5 IN
       IF n > Limit THEN [ok |-> FALSE, why |-> "too big"]
       ELSE IF Len(s) < off + 1 THEN [ok |-> FALSE, why |-> "short"]
       ELSE [ok |-> TRUE, ty |-> ty, topic |-> [i \in 1..(off - 5) |-> s[i + 5].b], n |-> n, pay |-> s[off + 1].pay,
             consistent |-> s[off + 1].n = n, rest |-> SubSeq(s, off + 2, Len(s))]
SizeClasses == {0, 1, 65535, 65536, 65537, Limit - 1, Limit}
MsgOf(ty, n) == [ty |-> ty, topic |-> IF NeedsTopic(ty) THEN Topic32 ELSE <<>>, n |-> n, pay |-> "p"]
FrameRoundTrip == \A ty \in 0..255 : \A n \in SizeClasses :
                    LET m == MsgOf(ty, n)
                        d == DecFrame(EncFrame(m) \o Bytes(<<9, 9>>)) IN
                    LegalMsg(m) /\ d.ok /\ d.ty = ty /\ d.topic = m.topic /\ d.n = n /\ d.pay = "p" /\ d.consistent /\ d.rest = Bytes(<<9, 9>>)
FrameOversize  == \A ty \in {0, 1, 2, 255} : \A n \in {Limit + 1, 2147483647} : ~DecFrame(EncFrame(MsgOf(ty, n))).ok
FrameLaws == FrameRoundTrip /\ FrameOversize
\* header bytes 2..5 of a frame per payload length (compared with the conformance harness's own codec)
FrameVectors == [n \in SizeClasses \cup {Limit + 1} |-> LE4(n)]

(* sender node 1 with several goroutines; receivers 2 and 3; one of them may be faulty *)
Recvs == {2, 3}
VARIABLES fault, victim, progs,
          pc,      \* [goroutine -> <<message index, destination index>>]; message index Len+1: finished
          q,       \* [Recvs -> sequence of message ids]   the queue of the writer goroutine towards that destination
          started, \* [Recvs -> BOOLEAN]                    writer goroutine running
          link,    \* [Recvs -> "none" | "syn" | "acc" | "tls" | "up"]  node 1's connection to that receiver: not dialled, waiting
                   \*    to be accepted, accepted (handler goroutine running), TLS established, authenticated
          backlog, \* [Recvs -> sequence of "s" | "x"]     connections (node 1's / the stalling peer's) the accept loop has not taken yet
          skind,   \* "install" fault: where the stalling inbound peer stops: "notls" (never sends a ClientHello), "nohs" (TLS, then
                   \*    silence), "halfhs" (half an authentication handshake), "halfframe" (authenticated, half a frame)
          stl,     \* the stalling peer's connection to the victim: "none" | "syn" | "acc" | "tls" | "auth"
          wire,    \* [Recvs -> sequence of message ids]   written, not yet read
          rcv,     \* [Recvs -> sequence of <<from, id>>]   handed to the application, in order
          up,      \* [Recvs -> BOOLEAN]                    something accepts connections at that address
          dropped, \* {<<goroutine, message index, destination>>}: copies given up after the enqueue timeout (reported, not sent)
          raw      \* the garbling peer's raw connection to the other receiver: [todo, wire, dead]
fvars == <<fault, victim, progs, pc, q, started, link, backlog, skind, stl, wire, rcv, up, dropped, raw>>

Gs == DOMAIN progs
Other(v) == 5 - v
Stalled(d) == fault = "stalled" /\ d = victim
BadFrame == 0                       \* a frame announcing more than the limit / a broken frame
RawFrames == <<101, BadFrame, 102>>   \* valid, broken, valid
ProgsRec(ps) == [g \in DOMAIN ps |-> [k \in DOMAIN ps[g] |-> [id |-> ps[g][k].id, to |-> ps[g][k].to]]]
StallKinds == {"notls", "nohs", "halfhs", "halfframe"}
MaxStl(k) == CASE k = "notls" -> "acc" [] k \in {"nohs", "halfhs"} -> "tls" [] k = "halfframe" -> "auth"
FInit == /\ fault \in Faults /\ victim \in Recvs /\ progs \in Progs
         /\ skind \in (IF fault = "install" THEN StallKinds ELSE {"-"})
         /\ Assert(FrameLaws, "frame encoding laws violated")
         /\ PrintT(<<"SCEN", ToJson([fault |-> fault, victim |-> victim, kind |-> skind, progs |-> ProgsRec(progs)])>>)
         \* the stalling peer has connected BEFORE anybody else dials
         /\ stl = (IF fault = "install" THEN "syn" ELSE "none")
         /\ backlog = [d \in Recvs |-> IF fault = "install" /\ d = victim THEN <<"x">> ELSE <<>>]
         /\ PrintT(<<"VEC", ToJson(FrameVectors)>>)
         /\ pc = [g \in DOMAIN progs |-> <<1, 1>>]
         /\ q = [d \in Recvs |-> <<>>] /\ started = [d \in Recvs |-> FALSE] /\ link = [d \in Recvs |-> "none"]
         /\ wire = [d \in Recvs |-> <<>>] /\ rcv = [d \in Recvs |-> <<>>]
         /\ up = [d \in Recvs |-> ~(fault \in {"down", "late"} /\ d = victim)]
         /\ dropped = {}
         /\ raw = [todo |-> IF fault = "garble" THEN RawFrames ELSE <<>>, wire |-> <<>>, dead |-> FALSE]

Finished(g) == pc[g][1] > Len(progs[g])
CurMsg(g) == progs[g][pc[g][1]]
CurDst(g) == CurMsg(g).to[pc[g][2]]
Advance(g) == IF pc[g][2] < Len(CurMsg(g).to) THEN <<pc[g][1], pc[g][2] + 1>> ELSE <<pc[g][1] + 1, 1>>

\* SocketRemoteParties.Send: start the writer once, enqueue (blocks while the queue is full)
Enq(g) == /\ ~Finished(g)
          /\ LET d == CurDst(g) IN
             /\ Len(q[d]) < QCap
             /\ q' = [q EXCEPT ![d] = Append(@, CurMsg(g).id)]
             /\ started' = [started EXCEPT ![d] = TRUE]
          /\ pc' = [pc EXCEPT ![g] = Advance(g)]
          /\ UNCHANGED <<fault, victim, progs, link, backlog, skind, stl, wire, rcv, up, dropped, raw>>
\* the queue towards d can never drain again
Blocked(d) == \/ (fault = "down" /\ d = victim)
              \/ (Stalled(d) /\ Len(wire[d]) >= WCap)
\* the enqueue timeout (10 s): Send reports the full queue, gives this copy up (it was not accepted for sending) and goes on
\* with the next destination / message (the code used to panic here; repaired)
EnqTimeout(g) == /\ ~Finished(g)
                 /\ Len(q[CurDst(g)]) >= QCap /\ Blocked(CurDst(g))
                 /\ dropped' = dropped \cup {<<g, pc[g][1], CurDst(g)>>}
                 /\ pc' = [pc EXCEPT ![g] = Advance(g)]
                 /\ PrintT(<<"DROP", ToJson([fault |-> fault, victim |-> victim, kind |-> skind, progs |-> ProgsRec(progs), g |-> g])>>)
                 /\ UNCHANGED <<fault, victim, progs, q, started, link, backlog, skind, stl, wire, rcv, up, raw>>
\* the writer goroutine dials (tls.Dial returns once the receiving side has done its part of the TLS handshake)
FDial(d) == /\ started[d] /\ link[d] = "none" /\ up[d]
            /\ link' = [link EXCEPT ![d] = "syn"]
            /\ backlog' = [backlog EXCEPT ![d] = Append(@, "s")]
            /\ UNCHANGED <<fault, victim, progs, pc, q, started, skind, stl, wire, rcv, up, dropped, raw>>
\* the accept loop of receiver d takes the oldest waiting connection and hands it to a new handler goroutine; it waits for nobody
FAccept(d) == /\ up[d] /\ backlog[d] # <<>>
              /\ ~SyncAccept \/ (link[d] # "acc" /\ ~(d = victim /\ stl = "acc"))
              /\ backlog' = [backlog EXCEPT ![d] = Tail(@)]
              /\ IF Head(backlog[d]) = "s" THEN link' = [link EXCEPT ![d] = "acc"] /\ stl' = stl
                                           ELSE stl' = "acc" /\ link' = link
              /\ UNCHANGED <<fault, victim, progs, pc, q, started, skind, wire, rcv, up, dropped, raw>>
\* the handler goroutine of node 1's connection: TLS handshake, then the authentication handshake (a stalled receiver is a raw
\* server that completes TLS and never reads)
FTLS(d) == /\ link[d] = "acc"
           /\ link' = [link EXCEPT ![d] = "tls"]
           /\ UNCHANGED <<fault, victim, progs, pc, q, started, backlog, skind, stl, wire, rcv, up, dropped, raw>>
FAuth(d) == /\ link[d] = "tls" /\ ~Stalled(d)
            /\ link' = [link EXCEPT ![d] = "up"]
            /\ UNCHANGED <<fault, victim, progs, pc, q, started, backlog, skind, stl, wire, rcv, up, dropped, raw>>
\* the handler goroutine of the stalling peer's connection gets as far as that peer lets it
XStep == /\ fault = "install" /\ stl \in {"acc", "tls"} /\ stl # MaxStl(skind)
         /\ stl' = (IF stl = "acc" THEN "tls" ELSE "auth")
         /\ UNCHANGED <<fault, victim, progs, pc, q, started, link, backlog, skind, wire, rcv, up, dropped, raw>>
Write(d) == /\ link[d] \in {"tls", "up"} /\ q[d] # <<>> /\ Len(wire[d]) < WCap
            /\ wire' = [wire EXCEPT ![d] = Append(@, Head(q[d]))]
            /\ q' = [q EXCEPT ![d] = Tail(@)]
            /\ UNCHANGED <<fault, victim, progs, pc, started, link, backlog, skind, stl, rcv, up, dropped, raw>>
Read(d) == /\ link[d] = "up" /\ wire[d] # <<>>
           /\ rcv' = [rcv EXCEPT ![d] = Append(@, <<1, Head(wire[d])>>)]
           /\ wire' = [wire EXCEPT ![d] = Tail(@)]
           /\ UNCHANGED <<fault, victim, progs, pc, q, started, link, backlog, skind, stl, up, dropped, raw>>
LateUp == /\ fault = "late" /\ ~up[victim]
          /\ up' = [up EXCEPT ![victim] = TRUE]
          /\ UNCHANGED <<fault, victim, progs, pc, q, started, link, backlog, skind, stl, wire, rcv, dropped, raw>>
RawWrite == /\ raw.todo # <<>> /\ Len(raw.wire) < WCap
            /\ raw' = [raw EXCEPT !.todo = Tail(@), !.wire = Append(@, Head(raw.todo))]
            /\ UNCHANGED <<fault, victim, progs, pc, q, started, link, backlog, skind, stl, wire, rcv, up, dropped>>
\* the reader of the healthy receiver on the garbling peer's connection: a broken / oversized frame ends that reader
RawRead == /\ raw.wire # <<>> /\ ~raw.dead
           /\ IF Head(raw.wire) = BadFrame
                THEN raw' = [raw EXCEPT !.wire = Tail(@), !.dead = TRUE] /\ rcv' = rcv
                ELSE raw' = [raw EXCEPT !.wire = Tail(@)] /\ rcv' = [rcv EXCEPT ![Other(victim)] = Append(@, <<victim, Head(raw.wire)>>)]
           /\ UNCHANGED <<fault, victim, progs, pc, q, started, link, backlog, skind, stl, wire, up, dropped>>

Healthy(d) == ~(fault \in {"down", "stalled"} /\ d = victim)
FTerminal == /\ \A g \in Gs : Finished(g)
             /\ \A d \in Recvs : Healthy(d) => (q[d] = <<>> /\ wire[d] = <<>>)
             /\ \A d \in Recvs : up[d] => /\ backlog[d] = <<>>
                                          /\ ~(started[d] /\ link[d] = "none")
                                          /\ link[d] # "acc"
                                          /\ (link[d] = "tls" => Stalled(d))
             /\ \A d \in Recvs : Stalled(d) => (q[d] = <<>> \/ Len(wire[d]) >= WCap)
             /\ (fault = "install" => stl = MaxStl(skind))
             /\ (raw.todo = <<>> \/ Len(raw.wire) >= WCap) /\ (raw.wire = <<>> \/ raw.dead)
             /\ (fault = "late" => up[victim])
FNext == \/ \E g \in Gs : Enq(g) \/ EnqTimeout(g)
         \/ \E d \in Recvs : FDial(d) \/ FAccept(d) \/ FTLS(d) \/ FAuth(d) \/ Write(d) \/ Read(d)
         \/ XStep \/ LateUp \/ RawWrite \/ RawRead
         \/ (FTerminal /\ UNCHANGED fvars)

Rng(s) == {s[i] : i \in DOMAIN s}
IsPrefix(a, b) == Len(a) <= Len(b) /\ \A i \in 1..Len(a) : a[i] = b[i]
\* ids goroutine g has enqueued so far towards d / will ever enqueue, in program order
PosIn(seq, d) == CHOOSE j \in DOMAIN seq : seq[j] = d
EnqueuedTo(g, k, d) == /\ k < pc[g][1] \/ (k = pc[g][1] /\ PosIn(progs[g][k].to, d) < pc[g][2])
                       /\ <<g, k, d>> \notin dropped
SentSeq(g, d, all) ==
  LET ks == {k \in DOMAIN progs[g] : d \in Rng(progs[g][k].to) /\ (all \/ EnqueuedTo(g, k, d))} IN
  [i \in 1..Cardinality(ks) |-> progs[g][CHOOSE k \in ks : Cardinality({k2 \in ks : k2 < k}) = i - 1].id]
FromSender(d) == SelectSeq(rcv[d], LAMBDA x : x[1] = 1)
IdsOf(g, d) == Rng(SentSeq(g, d, TRUE))
\* C17: per connection and per sending goroutine: in order, at most once, only what was sent
PrefixFIFO == \A d \in Recvs : \A g \in Gs :
                 IsPrefix([i \in 1..Len(SelectSeq(FromSender(d), LAMBDA x : x[2] \in IdsOf(g, d))) |->
                              SelectSeq(FromSender(d), LAMBDA x : x[2] \in IdsOf(g, d))[i][2]], SentSeq(g, d, FALSE))
NoSpurious == \A d \in Recvs : \A i \in 1..Len(FromSender(d)) : \E g \in Gs : FromSender(d)[i][2] \in IdsOf(g, d)
OversizeRefused == \A d \in Recvs : \A i \in 1..Len(rcv[d]) : rcv[d][i][2] \notin {BadFrame, 102}
\* at quiescence every healthy destination got everything that was accepted for sending, whatever the faulty peer does
DeliveredAtQuiescence == FTerminal => \A d \in Recvs : Healthy(d) => \A g \in Gs :
                            [i \in 1..Len(SelectSeq(FromSender(d), LAMBDA x : x[2] \in IdsOf(g, d))) |->
                                SelectSeq(FromSender(d), LAMBDA x : x[2] \in IdsOf(g, d))[i][2]] = SentSeq(g, d, FALSE)
\* a faulty peer stops nobody: every goroutine gets through its program (what it addressed to the other peers is delivered:
\* DeliveredAtQuiescence; with an inbound peer stalling at connection set-up every receiver is healthy, the one it latched on to
\* included), and copies are given up only towards a peer that is down or stalled
FaultIsolated == FTerminal => \A g \in Gs : Finished(g)
DropsOnlyToUnresponsive == \A x \in dropped : x[3] = victim /\ fault \in {"down", "stalled"}
(* ====================================================================== *)

HIdle == atk = HonestHS /\ cst = [c \in HConns |-> [st |-> "done", node |-> 0]] /\ attr = {} /\ alive = TRUE
FIdle == /\ fault = "none" /\ victim = 2 /\ progs = <<>> /\ pc = <<>> /\ q = <<>> /\ started = <<>> /\ link = <<>> /\ wire = <<>>
         /\ backlog = <<>> /\ skind = "-" /\ stl = "none"
         /\ rcv = <<>> /\ up = <<>> /\ dropped = {} /\ raw = [todo |-> <<>>, wire |-> <<>>, dead |-> FALSE]
vars == <<hvars, fvars>>
Init == IF Part = "hs" THEN HInit /\ FIdle ELSE FInit /\ HIdle
Next == IF Part = "hs" THEN HNext /\ UNCHANGED fvars ELSE FNext /\ UNCHANGED hvars
=============================================================================
