--------------------------- MODULE AdaptersTrace ---------------------------
(***************************************************************************)
(* Trace specification for the tss-lib adapters (property C19): consumes   *)
(* the event logs recorded by harness/cmd/drv/adapters.go from REAL runs   *)
(* (complete key generations / signings of the ECDSA and EdDSA adapters    *)
(* driven through their exported API, sender-binding probes, ClassifyMsg   *)
(* on hand-built envelopes) and evaluates the C19 monitors on them:        *)
(*   ClassifiedAsRouted        receiver's class = library's routing flag   *)
(*   DistinctRounds            distinct broadcast-class types, one phase   *)
(*   ClassifiedAlike           one answer per type, whoever classifies and *)
(*                             however the sender encoded it               *)
(*   ClassificationFollowsLibrary  a hand-crafted encoding is classified   *)
(*                             as the type the library processes it as     *)
(*   SenderAttribution         every hand-over to the library is attributed*)
(*                             to a sender OnMsg was called with, in order *)
(*   EmbeddedMismatchDropped   an envelope embedding another sender is not *)
(*                             handed over                                 *)
(*   NonMemberRejected         a hand-over attributed to a non-participant *)
(*                             is at once followed by the library's        *)
(*                             rejection (it got no participant's index)   *)
(*   ProbeNoEffect/RunCompletes/KeyAgreement   outcome of the run          *)
(*   SignedDigestIsRequested   returned signature verifies for the digest  *)
(*                             asked for and for no other message          *)
(*   NoPanic                                                               *)
(* Fault traces (property C11, adapter level; events of `drv adfault`):     *)
(*   CallReturnsAfterCtxEnd    every KeyGen / Sign call returned, at most  *)
(*                             `bound' ms after its context ended          *)
(*   ErrorUnlessCompleted      a call that returned no error returned a    *)
(*                             real result (key agreed / signature valid)  *)
(*   NoPanic                   no panic, the process survived              *)
(*   ProbeServedAfterwards     a fresh honest session completed afterwards *)
(* Differences to the spec tables / digest model while the monitors hold   *)
(* are drift.                                                              *)
(***************************************************************************)
EXTENDS Adapters, Json

CONSTANTS TraceFile

Trace == ndJsonDeserialize(TraceFile)

VARIABLES l, tid, hdr,
          emits,   \* message id -> [url, rb]
          obs,     \* observed classifications {[url, r, bc]}
          ons,     \* party -> sequence of OnMsg calls [from, acc, emb]
          hs,      \* party -> sequence of attributed senders handed to the library
          pw,      \* party -> what its protocol goroutine logged, in order: attributed sender of a hand-over | -1 for a warning
          rets,    \* {<<p, ok>>}
          pks,     \* {<<p, key>>}
          sigs,    \* parties whose signature was checked
          pan, viol, drift,
          fs       \* fault trace (C11): [on, hdr, ce (party -> ms its context ended), rt (party -> [at, err, good]), nr, pans, crash,
                   \*                     probe, sdp (SetShareData panicked), fail]

tvars == <<vars, l, tid, hdr, emits, obs, ons, hs, pw, rets, pks, sigs, pan, viol, drift, fs>>

OB == 32
Rng(s) == {s[i] : i \in DOMAIN s}
Line == Trace[l]
NoHdr == [ad |-> "", ph |-> "", ids |-> <<>>, thr |-> 0, dg |-> <<>>, pk |-> "", pp |-> 0, pa |-> 0, pb |-> 0, pf |-> FALSE, purl |-> "", pm |-> 0]
NoFs == [on |-> FALSE]
Ids == Rng(hdr.ids)
Get(f, k, d) == IF k \in DOMAIN f THEN f[k] ELSE d
Put(f, k, v) == [x \in DOMAIN f \cup {k} |-> IF x = k THEN v ELSE f[x]]

RECURSIVE IsSubseq(_, _)
IsSubseq(a, b) == IF a = <<>> THEN TRUE ELSE IF b = <<>> THEN FALSE
                  ELSE IF a[1] = b[1] THEN IsSubseq(Tail(a), Tail(b)) ELSE IsSubseq(a, Tail(b))

Froms(s) == [i \in DOMAIN s |-> s[i].from]
RECURSIVE AccFroms(_)
AccFroms(s) == IF s = <<>> THEN <<>> ELSE (IF s[1].acc THEN <<s[1].from>> ELSE <<>>) \o AccFroms(Tail(s))
Mismatch(s) == Cardinality({i \in DOMAIN s : s[i].emb # 0 /\ s[i].emb # s[i].from})

TInit == /\ Init /\ l = 1 /\ tid = -1 /\ hdr = NoHdr /\ emits = <<>> /\ obs = {} /\ ons = <<>> /\ hs = <<>> /\ pw = <<>>
         /\ rets = {} /\ pks = {} /\ sigs = {} /\ pan = FALSE /\ viol = {} /\ drift = "" /\ fs = NoFs

\* ---- reporting ----------------------------------------------------------------------------------------------------------
\* ms: set of <<monitor name, class, holds>>
Report(ms) ==
  LET bad == {<<m[1], m[2]>> : m \in {mm \in ms : ~mm[3]}} \ viol IN
  /\ viol' = viol \cup bad
  /\ \A b \in bad : PrintT(<<"VIOL", ToJson([t |-> tid, l |-> l, mon |-> b[1], cls |-> b[2], ad |-> hdr.ad, ph |-> hdr.ph, pk |-> hdr.pk])>>)

SetDrift(d) == drift' = IF drift = "" /\ d # "" THEN d ELSE drift

Tbl == IF hdr.ph = "table" THEN EdDSATable \cup ECDSATable ELSE PhaseOf(TableOf(hdr.ad), hdr.ph)

\* a recorded run is one phase of one adapter; the hand-built case list (phase "table") mixes both adapters and both phases
SamePhase(u1, u2) == hdr.ph # "table" \/
                     \E tb \in {EdDSATable, ECDSATable} : \E a, b \in tb : a.url = u1 /\ b.url = u2 /\ a.phase = b.phase

\* ---- events -----------------------------------------------------------------------------------------------------------------
Reset ==
  /\ Line.e = "reset" /\ "fk" \notin DOMAIN Line
  /\ fs' = NoFs
  /\ tid' = Line.t
  /\ hdr' = [ad |-> Line.ad, ph |-> Line.ph, ids |-> Line.ids, thr |-> Line.thr, dg |-> Line.dg, pk |-> Line.pk, pp |-> Line.pp,
             pa |-> Line.pa, pb |-> Line.pb, pf |-> Line.pf, purl |-> Line.purl, pm |-> Line.pm]
  /\ emits' = <<>> /\ obs' = {} /\ ons' = <<>> /\ hs' = <<>> /\ pw' = <<>> /\ rets' = {} /\ pks' = {} /\ sigs' = {} /\ pan' = FALSE
  /\ viol' = {} /\ drift' = ""

EmitEv ==
  /\ Line.e = "emit"
  /\ emits' = Put(emits, Line.m, [url |-> Line.url, rb |-> Line.rb])
  /\ LET c == ClassifyIn(Tbl, Line.url)
         lib == IF c.known THEN (CHOOSE x \in Tbl : x.url = Line.url).lib ELSE FALSE IN
     SetDrift(IF ~c.known THEN "emitted type is not in the spec table of this phase: " \o Line.url
              ELSE IF lib # Line.rb THEN "library routes differently from the spec table: " \o Line.url ELSE "")
  /\ UNCHANGED <<tid, hdr, obs, ons, hs, pw, rets, pks, sigs, pan, viol, fs>>

ClsEv ==
  /\ Line.e = "cls"
  /\ obs' = obs \cup {[url |-> Line.url, r |-> Line.r, bc |-> Line.bc]}
  /\ LET em == Get(emits, Line.m, [url |-> "", rb |-> Line.bc])
         c == ClassifyIn(Tbl, Line.url) IN
     /\ Report({<<"ClassifiedAsRouted", Line.url, ~Line.err /\ Line.bc = em.rb>>})
     /\ SetDrift(IF Line.m \notin DOMAIN emits THEN "classification of an unrecorded message"
                 ELSE IF c.known /\ (c.round # Line.r \/ c.bcast # Line.bc) THEN "classification differs from the spec table: " \o Line.url ELSE "")
  /\ UNCHANGED <<tid, hdr, emits, ons, hs, pw, rets, pks, sigs, pan, fs>>

\* ClassifyMsg on a hand-built envelope: the routing flag is the spec's transcription of the library's message definitions
TclsEv ==
  /\ Line.e = "tcls"
  /\ LET tb == TableOf(Line.ad)
         c == ClassifyIn(tb, Line.url) IN
     /\ obs' = IF Line.k = "table" THEN obs \cup {[url |-> Line.url, r |-> Line.r, bc |-> Line.bc]} ELSE obs
     /\ Report({<<"ClassifiedAsRouted", Line.url,
                  (Line.k = "table" /\ c.known) => (~Line.err /\ Line.bc = (CHOOSE x \in tb : x.url = Line.url).lib)>>})
     /\ SetDrift(IF Line.k = "table" /\ ~c.known THEN "case list contains a type the spec table lacks: " \o Line.url
                 ELSE IF Line.k = "table" /\ (c.round # Line.r \/ c.bcast # Line.bc) THEN "classification differs from the spec table: " \o Line.url
                 ELSE IF Line.k = "unknown" /\ (Line.err \/ Line.r # 0 \/ Line.bc) THEN "unknown type not classified as (0, point-to-point)"
                 ELSE IF Line.k = "garbage" /\ ~Line.err /\ (Line.r # 0 \/ Line.bc) THEN "garbage classified as a protocol message"
                 ELSE "")
  /\ UNCHANGED <<tid, hdr, emits, ons, hs, pw, rets, pks, sigs, pan, fs>>

\* a hand-crafted encoding (spec/Adapters.tla, "encodings"): ClassifyMsg on the bytes, and what the library made of the same bytes
EncEv ==
  /\ Line.e = "enc"
  /\ LET tb == TableOf(Line.ad)
         c == ClassifyIn(tb, Line.lt)              \* what the table prescribes for the type the library processes
         accepted == Line.lobs /\ ~Line.lrej
         want == Classified(Line.items)
         wantLib == LibraryType(Line.items)
         wc == ClassifyIn(tb, IF want = "real" THEN Line.ty ELSE IF want = "decoy" THEN Line.dc ELSE "?")
         clsAsModel == IF want = "reject" THEN Line.err ELSE ~Line.err /\ Line.r = wc.round /\ Line.bc = wc.bcast
         libAsModel == IF wantLib = "reject" THEN Line.lrej ELSE ~Line.lrej /\ Line.lt = (IF wantLib = "real" THEN Line.ty ELSE Line.dc) IN
     /\ Report({<<"ClassificationFollowsLibrary", Line.ty, accepted => (~Line.err /\ Line.r = c.round /\ Line.bc = c.bcast)>>})
     /\ obs' = IF accepted /\ c.known /\ ~Line.err THEN obs \cup {[url |-> Line.lt, r |-> Line.r, bc |-> Line.bc]} ELSE obs
     /\ SetDrift(IF ~Line.lobs THEN "what the library made of a hand-crafted encoding could not be observed"
                 ELSE IF ~libAsModel THEN "the library reads a hand-crafted encoding differently from the encodings model"
                 ELSE IF ~clsAsModel THEN "a hand-crafted encoding is classified differently from the encodings model" ELSE "")
  /\ UNCHANGED <<tid, hdr, emits, ons, hs, pw, rets, pks, sigs, pan, fs>>

OnEv ==
  /\ Line.e = "on"
  /\ ons' = Put(ons, Line.p, Append(Get(ons, Line.p, <<>>), [from |-> Line.from, acc |-> Line.acc, emb |-> Line.emb]))
  /\ UNCHANGED <<tid, hdr, emits, obs, hs, pw, rets, pks, sigs, pan, viol, drift, fs>>

HandedEv ==
  /\ Line.e = "handed"
  /\ hs' = Put(hs, Line.p, Append(Get(hs, Line.p, <<>>), Line.from))
  /\ pw' = Put(pw, Line.p, Append(Get(pw, Line.p, <<>>), Line.from))
  /\ UNCHANGED <<tid, hdr, emits, obs, ons, rets, pks, sigs, pan, viol, drift, fs>>

RetEv ==
  /\ Line.e = "ret" /\ ~fs.on
  /\ rets' = rets \cup {<<Line.p, Line.ok>>}
  /\ UNCHANGED <<tid, hdr, emits, obs, ons, hs, pw, pks, sigs, pan, viol, drift, fs>>

PkEv ==
  /\ Line.e = "pk"
  /\ pks' = pks \cup {<<Line.p, Line.pkh>>}
  /\ UNCHANGED <<tid, hdr, emits, obs, ons, hs, pw, rets, sigs, pan, viol, drift, fs>>

\* a signature was RETURNED by Sign: it must verify (standard verifier) for the requested digest and for no other message
SigEv ==
  /\ Line.e = "sig"
  /\ sigs' = sigs \cup {Line.p}
  /\ LET d == hdr.dg
         sg == Signed(hdr.ad, d, OB)
         others == Rng(Line.oth)
         okOthers == \A o \in others : o.v => SameMessage(hdr.ad, o.d, d, OB)
         predicted == /\ Line.vr = StdAccepts(hdr.ad, d, sg, OB)
                      /\ \A o \in others : o.v = StdAccepts(hdr.ad, o.d, sg, OB) IN
     /\ Report({<<"SignedDigestIsRequested", DigestClass(hdr.ad, d), Line.err = "" /\ Line.vr /\ okOthers>>})
     /\ SetDrift(IF ~predicted THEN "signature verdicts differ from the digest model" ELSE "")
  /\ UNCHANGED <<tid, hdr, emits, obs, ons, hs, pw, rets, pks, pan, fs>>

PanicEv ==
  /\ Line.e = "panic" /\ ~fs.on
  /\ pan' = TRUE
  /\ Report({<<"NoPanic", Line.where, FALSE>>})
  /\ UNCHANGED <<tid, hdr, emits, obs, ons, hs, pw, rets, pks, sigs, drift, fs>>

WarnEv ==
  /\ Line.e = "warn"
  /\ pw' = IF Line.path = "proto" THEN Put(pw, Line.p, Append(Get(pw, Line.p, <<>>), -1)) ELSE pw
  /\ UNCHANGED <<tid, hdr, emits, obs, ons, hs, rets, pks, sigs, pan, viol, drift, fs>>

OtherEv ==
  /\ Line.e = "setup"
  /\ SetDrift("stored share data could not be loaded")
  /\ UNCHANGED <<tid, hdr, emits, obs, ons, hs, pw, rets, pks, sigs, pan, viol, fs>>

EndEv ==
  /\ Line.e = "end" /\ ~fs.on
  /\ LET proto == hdr.ph \in {"keygen", "sign"}
         refuses == hdr.ph = "sign" /\ Refuses(hdr.ad, hdr.dg, OB, P256N)
         completed == /\ ~Line.hung /\ \A id \in Ids : <<id, TRUE>> \in rets
                      /\ hdr.ph = "keygen" => \A id \in Ids : \E k \in pks : k[1] = id /\ k[2] # ""
                      /\ hdr.ph = "sign" => Ids \subseteq sigs
         parties == DOMAIN ons \cup DOMAIN hs
         aligned == \A p \in parties : Get(hs, p, <<>>) = AccFroms(Get(ons, p, <<>>))
         \* hand-overs attributed to a non-participant and whether the library's rejection follows at once
         nonMember(p) == {i \in DOMAIN Get(pw, p, <<>>) : pw[p][i] >= 0 /\ pw[p][i] \notin Ids}
         rejected(p, i) == i < Len(pw[p]) /\ pw[p][i + 1] = -1
         mon == IF hdr.pk = "" THEN "RunCompletes" ELSE "ProbeNoEffect" IN
     /\ Report({
          <<"DistinctRounds", hdr.ph, \A x, y \in obs : (x.bc /\ y.bc /\ x.url # y.url /\ SamePhase(x.url, y.url)) => x.r # y.r>>,
          <<"ClassifiedAlike", hdr.ph, \A x, y \in obs : x.url = y.url => x = y>>,
          <<"SenderAttribution", hdr.ph, \A p \in parties : IsSubseq(Get(hs, p, <<>>), Froms(Get(ons, p, <<>>)))>>,
          <<"EmbeddedMismatchDropped", hdr.ph,
               \A p \in parties : Len(Get(hs, p, <<>>)) + Mismatch(Get(ons, p, <<>>)) <= Len(Get(ons, p, <<>>))>>,
          <<"NonMemberRejected", hdr.ph, \A p \in DOMAIN pw : \A i \in nonMember(p) : rejected(p, i)>>,
          <<"KeyAgreement", hdr.ph, Cardinality({k[2] : k \in pks}) <= 1>>,
          <<mon, hdr.ph, (proto /\ Line.setup /\ ~refuses /\ hdr.pk # "replay") => completed>>,
          <<"NoPanic", "end", ~pan>>})
     /\ SetDrift(IF ~Line.setup THEN "stored share data could not be loaded"
                 ELSE IF proto /\ refuses /\ completed THEN "the library signed a digest the model says it refuses"
                 ELSE IF proto /\ hdr.pk = "replay" /\ ~completed THEN "a replayed message under the transport sender's own identity changed the outcome"
                 ELSE IF proto /\ ~Line.fired THEN "the probe was never injected"
                 ELSE "")
     /\ PrintT(<<"END", ToJson([t |-> tid, drift |-> drift', completed |-> completed, aligned |-> aligned, refuses |-> refuses,
                                obs |-> obs, nh |-> Cardinality(DOMAIN hs),
                                cal |-> \E p \in DOMAIN pw : \E i \in nonMember(p) : rejected(p, i)])>>)
  /\ UNCHANGED <<tid, hdr, emits, obs, ons, hs, pw, rets, pks, sigs, pan, fs>>

\* ---- fault traces (C11) -----------------------------------------------------------------------------------------------------
FKeep == UNCHANGED <<hdr, emits, obs, ons, hs, pw, rets, pks, sigs, pan>>
FOpt(f, d) == IF f \in DOMAIN Line THEN Line[f] ELSE d

FResetEv ==
  /\ Line.e = "reset" /\ "fk" \in DOMAIN Line
  /\ tid' = Line.t
  /\ fs' = [on |-> TRUE, hdr |-> Line, ce |-> <<>>, rt |-> <<>>, nr |-> {}, pans |-> {}, crash |-> FALSE, probe |-> "none",
             sdp |-> FALSE, fail |-> FALSE]
  /\ viol' = {} /\ drift' = ""
  /\ FKeep

FCtxEv ==
  /\ fs.on /\ Line.e = "ctxend"
  /\ fs' = [fs EXCEPT !.ce = Put(@, Line.p, Line.at)]
  /\ FKeep /\ UNCHANGED <<tid, viol, drift>>

FRetEv ==
  /\ fs.on /\ Line.e = "ret"
  /\ fs' = [fs EXCEPT !.rt = Put(@, Line.p, [at |-> Line.at, err |-> Line.err, good |-> Line.good])]
  /\ FKeep /\ UNCHANGED <<tid, viol, drift>>

FMiscEv ==
  /\ fs.on /\ Line.e \in {"noret", "panic", "crash", "probe", "setdata", "setupfail"}
  /\ fs' = CASE Line.e = "noret" -> [fs EXCEPT !.nr = @ \cup {Line.p}]
              [] Line.e = "panic" -> [fs EXCEPT !.pans = @ \cup {Line.p}]
              [] Line.e = "crash" -> [fs EXCEPT !.crash = TRUE]
              [] Line.e = "probe" -> [fs EXCEPT !.probe = IF Line.ok THEN "ok" ELSE "fail"]
              [] Line.e = "setdata" -> [fs EXCEPT !.sdp = @ \/ Line.panic # ""]
              [] OTHER -> [fs EXCEPT !.fail = TRUE]
  /\ FKeep /\ UNCHANGED <<tid, viol, drift>>

FEndEv ==
  /\ fs.on /\ Line.e = "end"
  /\ LET h == fs.hdr
         called == Rng(h.ids)
         FReport(ms) == LET bad == {m[1] : m \in {mm \in ms : ~mm[2]}} IN
                        /\ viol' = bad
                        /\ \A b \in bad : PrintT(<<"VIOL", ToJson([t |-> tid, l |-> l, mon |-> b, cls |-> h.fk, ad |-> h.ad, ph |-> h.ph, pk |-> "fault"])>>)
         returned(p) == p \in DOMAIN fs.rt
         intime(p) == returned(p) /\ (p \in DOMAIN fs.ce => fs.rt[p].at <= fs.ce[p] + h.bound)
         allok == \A p \in called : returned(p) /\ ~fs.rt[p].err
         left == FOpt("g1", 0) - FOpt("g0", 0) IN
     /\ FReport({
          <<"CallReturnsAfterCtxEnd", (~fs.crash /\ ~fs.fail) => \A p \in called \ fs.pans : intime(p)>>,
          <<"ErrorUnlessCompleted", \A p \in DOMAIN fs.rt : ~fs.rt[p].err => fs.rt[p].good>>,
          <<"NoPanic", ~fs.crash /\ fs.pans = {} /\ ~fs.sdp>>,
          <<"ProbeServedAfterwards", (h.probe /\ ~fs.crash /\ ~fs.fail) => fs.probe = "ok">>})
     /\ drift' = IF fs.fail THEN "the set-up of the case failed"
                 ELSE IF h.fk = "none" /\ ~fs.crash /\ ~allok THEN "the fault-free control did not complete before its deadline"
                 ELSE IF left > 0 /\ ~fs.crash THEN "goroutines of the finished session were still there after the grace period"
                 ELSE ""
     /\ PrintT(<<"END", ToJson([t |-> tid, drift |-> drift', fault |-> TRUE, allok |-> allok,
                                nret |-> Cardinality(DOMAIN fs.rt), nok |-> Cardinality({p \in DOMAIN fs.rt : ~fs.rt[p].err}),
                                crash |-> fs.crash, left |-> left])>>)
  /\ fs' = NoFs
  /\ FKeep /\ UNCHANGED tid

TNext == /\ l <= Len(Trace)
         /\ l' = l + 1
         /\ UNCHANGED vars
         /\ \/ Reset \/ EmitEv \/ ClsEv \/ TclsEv \/ EncEv \/ OnEv \/ HandedEv \/ RetEv \/ PkEv \/ SigEv \/ PanicEv \/ WarnEv \/ OtherEv \/ EndEv
            \/ FResetEv \/ FCtxEv \/ FRetEv \/ FMiscEv \/ FEndEv
=============================================================================
