-------------------------------- MODULE Orch --------------------------------
(***************************************************************************)
(* The orchestrator threshold.Scheme as ONE node sees it: KeyGen / Sign     *)
(* sessions with their stages, the three topic-keyed handler tables, the    *)
(* key-generation flag, clean-up, cancellation, late completions of stages  *)
(* that outlive their call, and traffic injected for any topic.  Peers are  *)
(* abstracted: the outcome of each stage of a call is a `plan' chosen when  *)
(* the call is made (the conformance harness plays the peers through a stub *)
(* synchroniser and a scripted back end).                                   *)
(*                                                                          *)
(* Stages of a call (code: threshold.go KeyGen/runDKG, Sign):               *)
(*   s1   first synchronisation (who participates)                          *)
(*        -> continuation: party ids (duplicate party => error), register   *)
(*           the reliable-broadcast instance (+ classifier for Sign), Init  *)
(*           of the back end (Sign: SetShareData may fail), register s2     *)
(*   reg  (only when the plan pauses there) the continuation is about to    *)
(*        register its handlers: the injected broadcast factory is running  *)
(*   s2   second synchronisation (everybody registered)                     *)
(*   be   the back end's KeyGen / Sign                                      *)
(*   ret  the API call has returned                                         *)
(*   stuck  the call can only end by its context (a stage failed silently)  *)
(* A call that returns removes every table entry of its session and resets  *)
(* the key-generation flag; a stage that completes after its call returned  *)
(* (late) must not register anything.                                       *)
(***************************************************************************)
EXTENDS Integers, Sequences, FiniteSets, TLC

CONSTANTS Calls,        \* call identifiers, e.g. 1..3
          Kinds,        \* set of <<kind, topic>>: <<"kg","DKG">>, <<"sg","T1">>, ...
          Plans,        \* catalogue of plans [s1, prep, s2, be, late]
          Injects,      \* catalogue of injected messages [kind, topic, from]
          Participants, \* node ids of the session participants (the stub synchroniser's answer)
          MaxOps

VARIABLES calls,   \* [Calls -> [kind, topic, plan, st, res, z]]  st: "new" | s1 | s2 | be | stuck | ret ; z: late stage still pending
          syncs, rbcs, cls, dkg,
          nops, hist

vars == <<calls, syncs, rbcs, cls, dkg, nops, hist>>
view == <<calls, syncs, rbcs, cls, dkg, nops>>

NoPlan == [s1 |-> "ok", prep |-> "ok", s2 |-> "ok", be |-> "ok", late |-> "none"]
NoCall == [kind |-> "", topic |-> "", plan |-> NoPlan, st |-> "new", res |-> "none", z |-> "none"]

Init == /\ calls = [c \in Calls |-> NoCall] /\ syncs = {} /\ rbcs = {} /\ cls = {} /\ dkg = FALSE /\ nops = 0 /\ hist = <<>>

Topic2(t) == t \o "2"
Live(c) == calls[c].st \in {"s1", "reg", "s2", "be", "stuck"}

\* ---- effects (pure): every effect returns [calls, syncs, rbcs, cls, dkg, sig] where sig is the signal the harness sees next
St == [calls |-> calls, syncs |-> syncs, rbcs |-> rbcs, cls |-> cls, dkg |-> dkg]

\* the API call returns with result r: clean-up of the session's entries
Return(s, c, r) ==
  LET k == s.calls[c] IN
  [calls |-> [s.calls EXCEPT ![c].st = "ret", ![c].res = r,
                            ![c].z = IF k.st \in {"s1", "reg", "s2", "be"} /\ k.plan.late = k.st THEN k.st ELSE "none"],
   \* Sign gives up its second topic only when the second synchronisation returns: a late one keeps it until then
   syncs |-> s.syncs \ ({k.topic} \cup (IF k.kind = "sg" /\ k.st = "s2" /\ k.plan.late = "s2" THEN {} ELSE {Topic2(k.topic)})),
   rbcs  |-> s.rbcs \ {k.topic},
   cls   |-> s.cls \ {k.topic},
   dkg   |-> IF k.kind = "kg" THEN FALSE ELSE s.dkg,
   sig   |-> "ret"]

With(s, c, st, sy, rb, cl, sig) ==
  [calls |-> [s.calls EXCEPT ![c].st = st], syncs |-> sy, rbcs |-> rb, cls |-> cl, dkg |-> s.dkg, sig |-> sig]

CallEff(c, kind, topic, plan) ==
  LET s0 == [St EXCEPT !.calls = [calls EXCEPT ![c] = [NoCall EXCEPT !.kind = kind, !.topic = topic, !.plan = plan]]] IN
  IF kind = "kg"
    THEN IF dkg THEN [s0 EXCEPT !.calls = [s0.calls EXCEPT ![c].st = "ret", ![c].res = "refused"]] @@ [sig |-> "ret"]
         ELSE [calls |-> [s0.calls EXCEPT ![c].st = "s1"], syncs |-> syncs \cup {topic}, rbcs |-> rbcs, cls |-> cls \cup {topic},
               dkg |-> TRUE, sig |-> "s1"]
    ELSE IF topic \in syncs THEN [s0 EXCEPT !.calls = [s0.calls EXCEPT ![c].st = "ret", ![c].res = "refused"]] @@ [sig |-> "ret"]
         ELSE [calls |-> [s0.calls EXCEPT ![c].st = "s1"], syncs |-> syncs \cup {topic}, rbcs |-> rbcs, cls |-> cls,
               dkg |-> dkg, sig |-> "s1"]

\* the stage at which live call c is blocked is resolved according to its plan
StepEff(c) ==
  LET k == calls[c]  p == k.plan  t == k.topic IN
  CASE k.st = "s1" ->
         IF p.s1 = "err" THEN Return(St, c, "err")
         ELSE IF p.prep = "dup" THEN Return(St, c, "err")
         ELSE IF k.kind = "sg" /\ p.prep = "share" THEN Return(St, c, "err")
         ELSE IF p.late = "reg" THEN With(St, c, "reg", syncs, rbcs, cls, "reg")      \* paused just before registering
         ELSE With(St, c, "s2", syncs \cup {Topic2(t)}, rbcs \cup {t}, cls \cup {t}, "s2")
    [] k.st = "reg" -> With(St, c, "s2", syncs \cup {Topic2(t)}, rbcs \cup {t}, cls \cup {t}, "s2")
    [] k.st = "s2" ->
         IF p.s2 = "err"
           THEN \* KeyGen ignores the error of its second synchronisation and waits for the context; Sign gives up the
                \* second topic but pushes no result either
                With(St, c, "stuck", IF k.kind = "sg" THEN syncs \ {Topic2(t)} ELSE syncs, rbcs, cls, "none")
           ELSE With(St, c, "be", syncs, rbcs, cls, "be")
    [] k.st = "be" -> Return(St, c, IF p.be = "ok" THEN "ok" ELSE "err")

CancelEff(c) == Return(St, c, "ctx")

\* a stage that ignored the context completes after its call has returned: nothing may be registered any more
\* (Sign's late second synchronisation still runs its continuation: the back end is started with the cancelled context and
\* the second topic is given up)
LateEff(c) ==
  LET sg2 == calls[c].kind = "sg" /\ calls[c].z = "s2" IN
  [calls |-> [calls EXCEPT ![c].z = "none"], syncs |-> IF sg2 THEN syncs \ {Topic2(calls[c].topic)} ELSE syncs,
   rbcs |-> rbcs, cls |-> cls, dkg |-> dkg, sig |-> IF sg2 THEN "be" ELSE "none"]

Apply(e) == /\ calls' = e.calls /\ syncs' = e.syncs /\ rbcs' = e.rbcs /\ cls' = e.cls /\ dkg' = e.dkg

\* ---- what an injected message reaches
\* MPC traffic reaches the back end of the live session of that topic iff its instance and classifier are registered and the
\* sender is a participant; synchroniser traffic reaches the synchroniser registered for that topic
OwnerOf(t) == {c \in Calls : Live(c) /\ (calls[c].topic = t \/ Topic2(calls[c].topic) = t)}
Reaches(m) ==
  IF m.kind = "mpc"
    THEN IF m.topic \in rbcs /\ m.topic \in cls /\ m.from \in Participants THEN {c \in OwnerOf(m.topic) : calls[c].topic = m.topic} ELSE {}
    ELSE IF m.topic \in syncs THEN OwnerOf(m.topic) ELSE {}

\* ---- actions of the exploration model
Op(ev) == nops < MaxOps /\ nops' = nops + 1 /\ hist' = Append(hist, ev)

DoCall(c, kt, plan) ==
  /\ calls[c].st = "new" /\ \A d \in Calls : d < c => calls[d].st # "new"
  /\ (kt[1] = "kg" => plan.prep # "share")
  /\ LET e == CallEff(c, kt[1], kt[2], plan) IN
     /\ Apply(e)
     /\ Op([e |-> "call", c |-> c, kind |-> kt[1], topic |-> kt[2], plan |-> plan, expect |-> e.sig])

DoStep(c) ==
  /\ calls[c].st \in {"s1", "reg", "s2", "be"}
  /\ calls[c].plan.late # calls[c].st        \* a late stage is only resolved after the call was cancelled
  /\ LET e == StepEff(c) IN Apply(e) /\ Op([e |-> "step", c |-> c, label |-> calls[c].st, expect |-> e.sig])

DoCancel(c) ==
  /\ Live(c)
  /\ LET e == CancelEff(c) IN Apply(e) /\ Op([e |-> "cancel", c |-> c, expect |-> "ret"])

DoLate(c) ==
  /\ calls[c].st = "ret" /\ calls[c].z # "none"
  /\ LET e == LateEff(c) IN Apply(e) /\ Op([e |-> "late", c |-> c, label |-> calls[c].z, expect |-> e.sig])

DoInject(m) ==
  /\ \E c \in Calls : calls[c].st # "new"
  /\ UNCHANGED <<calls, syncs, rbcs, cls, dkg>>
  /\ Op([e |-> "inject", kind |-> m.kind, topic |-> m.topic, from |-> m.from])

Next == \/ \E c \in Calls, kt \in Kinds, p \in Plans : DoCall(c, kt, p)
        \/ \E c \in Calls : DoStep(c) \/ DoCancel(c) \/ DoLate(c)
        \/ \E m \in Injects : DoInject(m)

Spec == Init /\ [][Next]_vars
Terminal == nops = MaxOps

-----------------------------------------------------------------------------
\* C12 at design level
Quiet == \A c \in Calls : ~Live(c) /\ calls[c].z = "none"
NoResidue == Quiet => (syncs = {} /\ rbcs = {} /\ cls = {} /\ ~dkg)
\* entries exist only for live sessions
EntriesOwned == /\ \A t \in syncs : OwnerOf(t) # {} \/ \E c \in Calls : calls[c].z = "s2" /\ Topic2(calls[c].topic) = t
                /\ \A t \in rbcs \cup cls : \E c \in Calls : Live(c) /\ calls[c].topic = t
                /\ dkg = (\E c \in Calls : Live(c) /\ calls[c].kind = "kg")
OneSessionPerTopic == \A c, d \in Calls : (Live(c) /\ Live(d) /\ c # d) => calls[c].topic # calls[d].topic
=============================================================================
