------------------------------ MODULE DKGTrace ------------------------------
(***************************************************************************)
(* Trace specification for full-stack key generations                      *)
(* (harness/cmd/drv/stack.go): n real threshold Schemes with the real      *)
(* synchroniser, reliable broadcast, buffer and BLS / PS back ends on a    *)
(* simulated FIFO network.  Logged per node, in one global order: Init     *)
(* arguments, every message handed to the back end (kind, attributed       *)
(* sender), every message the back end emits (kind, broadcast flag), the   *)
(* return of KeyGen (ok / error, digest of the public material), the       *)
(* outcome of exercising every subset of shares.  The per-node order of    *)
(* events is checked against the phase structure of DKG.tla (-> drift);    *)
(* the monitors of C01 / C05 / C11 are evaluated on the outcomes.          *)
(***************************************************************************)
EXTENDS Integers, Sequences, FiniteSets, TLC, Json

CONSTANTS TraceFile
Trace == ndJsonDeserialize(TraceFile)

VARIABLES l, tid, cfg,    \* cfg: the reset line of the current run
          got,            \* [node -> [kind -> set of senders handed over]]
          first,          \* [node -> {<<kind, from, h>>}]: content of the FIRST commitment / reveal handed over per sender
          emitted,        \* [node -> sequence of kinds emitted]
          rets,           \* set of [node, returned, ok, pub]
          signbad,        \* "none" | "ok" | "bad" | "panic"
          inited,         \* nodes whose back end has been initialised
          sgrets,         \* orchestrated signing: set of [node, returned, ok, verified]
          crashed, drift, viol

vars == <<l, tid, cfg, got, first, inited, emitted, rets, signbad, sgrets, crashed, drift, viol>>
Line == Trace[l]
Rng(s) == {s[i] : i \in DOMAIN s}

NoCfg == [n |-> 0, th |-> 0, ids |-> <<>>, byz |-> FALSE, fault |-> [silent_peer |-> 0, after |-> 0, withhold_idx |-> -1], scheme |-> "", mode |-> ""]

Init == /\ l = 1 /\ tid = -1 /\ cfg = NoCfg /\ got = <<>> /\ first = <<>> /\ inited = {} /\ emitted = <<>> /\ rets = {} /\ signbad = "none" /\ sgrets = {}
        /\ crashed = FALSE /\ drift = "" /\ viol = {}

Nodes == Rng(cfg.ids)
Faulty == cfg.byz \/ cfg.fault.silent_peer # 0 \/ cfg.fault.withhold_idx >= 0 \/ "stall" \in DOMAIN cfg

SetDrift(d) == drift' = IF drift = "" /\ d # "" THEN d \o " @line " \o ToString(l) ELSE drift
Check(ms) ==
  LET bad == {m[1] : m \in {mm \in ms : ~mm[2]}} \ viol IN
  /\ viol' = viol \cup bad
  /\ \A b \in bad : PrintT(<<"VIOL", ToJson([t |-> tid, l |-> l, mon |-> b])>>)

Reset ==
  /\ Line.e = "reset"
  /\ tid' = Line.t /\ cfg' = IF "ids" \in DOMAIN Line THEN Line ELSE NoCfg
  /\ got' = IF "ids" \in DOMAIN Line THEN [x \in Rng(Line.ids) |-> [k \in 1..3 |-> {}]] ELSE <<>>
  /\ emitted' = IF "ids" \in DOMAIN Line THEN [x \in Rng(Line.ids) |-> <<>>] ELSE <<>>
  /\ first' = IF "ids" \in DOMAIN Line THEN [x \in Rng(Line.ids) |-> {}] ELSE <<>>
  /\ inited' = {}
  /\ rets' = {} /\ signbad' = "none" /\ sgrets' = {} /\ crashed' = FALSE /\ drift' = "" /\ viol' = {}

InitEv ==
  /\ Line.e = "init"
  /\ SetDrift(IF Line.parties = cfg.ids /\ Line.threshold = cfg.th THEN "" ELSE "Init arguments differ from the configuration")
  /\ inited' = inited \cup {Line.node}
  /\ UNCHANGED <<tid, cfg, got, first, emitted, rets, signbad, sgrets, crashed, viol>>

OnMsgEv ==
  /\ Line.e = "onmsg"
  /\ got' = IF Line.kind \in 1..3 /\ Line.node \in DOMAIN got THEN [got EXCEPT ![Line.node][Line.kind] = @ \cup {Line.from}] ELSE got
  /\ first' = IF Line.kind \in 2..3 /\ Line.node \in DOMAIN first /\ ~\E x \in first[Line.node] : x[1] = Line.kind /\ x[2] = Line.from
                 THEN [first EXCEPT ![Line.node] = @ \cup {<<Line.kind, Line.from, Line.h>>}] ELSE first
  /\ SetDrift(IF Line.kind \in 1..3 /\ Line.bc # (Line.kind # 1) THEN "message class differs from the protocol (shares are point-to-point, commitments and reveals broadcast)" ELSE "")
  \* C01: the barrier of the orchestrator: no protocol message is handed to a back end that has not been initialised
  \* silent mode (invariant HandOverAfterOwnSend of spec/Barrier.tla): the buffer holds everything until the node itself has sent
  /\ Check({<<"InitBeforeFirstMessage", Line.node \in inited>>,
            <<"HandOverAfterOwnSend", (cfg.mode = "silent" /\ Line.node \in DOMAIN emitted) => emitted[Line.node] # <<>> >>})
  /\ UNCHANGED <<tid, cfg, inited, emitted, rets, signbad, sgrets, crashed>>

\* a message emitted by the back end of an honest node: the phase structure of DKG.tla
SendEv ==
  /\ Line.e = "bsend"
  /\ LET x == Line.node
         others == Nodes \ {x}
         honest == ~(cfg.byz /\ "byznode" \in DOMAIN cfg /\ cfg.byznode = x) IN
     /\ emitted' = IF x \in DOMAIN emitted THEN [emitted EXCEPT ![x] = Append(@, Line.kind)] ELSE emitted
     /\ SetDrift(IF ~honest THEN ""
                 ELSE IF Line.kind = 2 /\ got[x][1] # others /\ ~Faulty THEN "commitment sent before all shares were received"
                 ELSE IF Line.kind = 1 /\ Line.bc THEN "share sent as a broadcast"
                 ELSE IF Line.kind \in {2, 3} /\ ~Line.bc THEN "commitment / reveal sent point-to-point"
                 ELSE "")
     /\ Check({\* C05: no honest party discloses its public-key contribution before it holds the commitments of all others
               <<"RevealOnlyAfterAllCommits", (honest /\ Line.kind = 3) => got[x][2] = others>>,
               \* C01, the start-up barrier (invariant FirstSendAfterAllInit of spec/Barrier.tla): in loud mode nobody sends a protocol
               \* message before the back end of EVERY member has been initialised (protocol messages are never retransmitted)
               <<"FirstSendAfterAllInit", (honest /\ cfg.mode = "loud") => inited = Nodes>>})
  /\ UNCHANGED <<tid, cfg, got, first, inited, rets, signbad, sgrets, crashed>>

\* a node calls KeyGen (late callers: the start-up barrier)
CallEv ==
  /\ Line.e = "call"
  /\ UNCHANGED <<tid, cfg, got, first, inited, emitted, rets, signbad, sgrets, crashed, drift, viol>>

RetEv ==
  /\ Line.e = "kgret"
  /\ rets' = rets \cup {[node |-> Line.node, returned |-> Line.returned, ok |-> Line.ok, pub |-> Line.pub]}
  /\ UNCHANGED <<tid, cfg, got, first, inited, emitted, signbad, sgrets, crashed, drift, viol>>

SignEv ==
  /\ Line.e = "signcheck"
  /\ signbad' = IF Line.panic # "" THEN "panic" ELSE IF Len(Line.bad) > 0 THEN "bad" ELSE "ok"
  /\ UNCHANGED <<tid, cfg, got, first, inited, emitted, rets, sgrets, crashed, drift, viol>>

SgRetEv ==
  /\ Line.e = "sgret"
  /\ sgrets' = sgrets \cup {[node |-> Line.node, returned |-> Line.returned, ok |-> Line.ok, verified |-> Line.verified]}
  /\ UNCHANGED <<tid, cfg, got, first, inited, emitted, rets, signbad, crashed, drift, viol>>

CrashEv ==
  /\ Line.e = "crash"
  /\ crashed' = TRUE
  /\ UNCHANGED <<tid, cfg, got, first, inited, emitted, rets, signbad, sgrets, drift, viol>>

EndEv ==
  /\ Line.e = "end"
  /\ LET byzn == IF cfg.byz /\ "byznode" \in DOMAIN cfg THEN {cfg.byznode} ELSE {}
         hrets == {r \in rets : r.node \notin byzn}
         oks == {r \in hrets : r.ok} IN
     /\ Check({
          \* C01 / C05: everybody who completes reports byte-identical public material
          <<"KeyAgreement", \A a, b \in oks : a.pub = b.pub>>,
          \* C01 / C05: the stored shares of every subset of >= t completers sign under the key reported by every completer
          <<"AllSubsetsVerify", signbad \in {"none", "ok"}>>,
          \* C01: a fault-free run completes at every party
          <<"HonestRunCompletes", (~Faulty /\ ~crashed /\ "cancel" \notin DOMAIN cfg) => (Cardinality(oks) = cfg.n /\ Cardinality(hrets) = cfg.n)>>,
          \* C11: every call returns (a value or an error) by its deadline plus a grace period, nothing crashes
          <<"EveryCallReturns", ~crashed => \A r \in hrets : r.returned>>,
          \* C01: every participant of an orchestrated signing session among an authorised set obtains a valid signature
          <<"EveryParticipantGotValidSig", (~Faulty /\ cfg.scheme = "eddsa" /\ ~crashed) =>
                 (Cardinality(sgrets) = (IF "nsigners" \in DOMAIN cfg /\ cfg.nsigners > 0 THEN cfg.nsigners ELSE cfg.n)
                  /\ \A x \in sgrets : x.returned /\ x.ok /\ x.verified)>>,
          \* C05: a party that completes accepted, from every other participant, a key that matches the FIRST commitment it was
          \* handed from that participant (commitments are binding: nobody can choose its key after seeing the others')
          <<"CommitmentBinding", \A r \in oks : r.node \in DOMAIN first =>
                 \A c \in {x \in first[r.node] : x[1] = 2} : \A v \in {x \in first[r.node] : x[1] = 3 /\ x[2] = c[2]} : v[3] = c[3]>>,
          <<"NoCrash", ~crashed>>,
          \* C01: the two synchronisation barriers: in a fault-free run no protocol message reaches a party before that party has
          \* registered the session (the dispatcher would have to drop it)
          <<"NoMessageBeforeRegistered", (~Faulty /\ ~crashed /\ "cancel" \notin DOMAIN cfg /\ "early" \in DOMAIN Line) => Line.early = 0>>,
          <<"NoPanicInUse", signbad # "panic">>})
     /\ PrintT(<<"END", ToJson([t |-> tid, drift |-> drift, completed |-> Cardinality(oks), crashed |-> crashed])>>)
  /\ UNCHANGED <<tid, cfg, got, first, inited, emitted, rets, signbad, sgrets, crashed, drift>>

Next == /\ l <= Len(Trace) /\ l' = l + 1
        /\ (Reset \/ CallEv \/ InitEv \/ OnMsgEv \/ SendEv \/ RetEv \/ SignEv \/ SgRetEv \/ CrashEv \/ EndEv)
=============================================================================
