--------------------------- MODULE MsgBoxAtTrace ---------------------------
(***************************************************************************)
(* Trace specification for sequential histories on a real msg.Box          *)
(* (harness/cmd/drv/boxseq.go).  Each line is one operation with the       *)
(* projected state after it.  The model takes the same operation; the      *)
(* projection is compared (-> drift) and the C15 monitors are evaluated on *)
(* the OBSERVED state: limits (+1), no panic, and -- at the labelled       *)
(* points appended to every history -- release of all bookkeeping /        *)
(* discarding of everything old after a flush, and acceptance of a probe   *)
(* by a sender that is within the limits.                                  *)
(***************************************************************************)
EXTENDS MsgBoxAt, Json

CONSTANTS TraceFile, OldTopics, ProbeTopics
Trace == ndJsonDeserialize(TraceFile)

VARIABLES l, tid, drift, viol, opan

tvars == <<vars, l, tid, drift, viol, opan>>
Line == Trace[l]
Rng(s) == {s[i] : i \in DOMAIN s}

TInit == Init /\ l = 1 /\ tid = -1 /\ drift = "" /\ viol = {} /\ opan = FALSE

Reset ==
  /\ Line.e = "reset"
  /\ pend' = [t \in Topics |-> NoEntry] /\ started' = [t \in Topics |-> -1] /\ infl' = [s \in Senders |-> {}]
  /\ epoch' = 0 /\ lastGC' = 0 /\ nid' = 0 /\ handed' = 0 /\ dropped' = 0 /\ nops' = 0 /\ hist' = <<>>
  /\ tid' = Line.t /\ drift' = "" /\ viol' = {} /\ opan' = FALSE

\* the observed snapshot in the shape of the model state
OPend(sn)    == [t \in Topics |-> LET e == CHOOSE x \in Rng(sn.pend) : x.t = t IN
                                   [on |-> e.on, msgs |-> [i \in DOMAIN e.msgs |-> <<e.msgs[i][1], e.msgs[i][2]>>]]]
OStarted(sn) == [t \in Topics |-> IF \E x \in Rng(sn.started) : x.t = t THEN (CHOOSE x \in Rng(sn.started) : x.t = t).at ELSE -1]
OInfl(sn)    == [s \in Senders |-> IF \E x \in Rng(sn.infl) : x.s = s THEN Rng((CHOOSE x \in Rng(sn.infl) : x.s = s).ts) ELSE {}]

Diff(sn, h) ==
  IF \E t \in Topics : OPend(sn)[t].on # pend'[t].on \/ OPend(sn)[t].msgs # pend'[t].msgs THEN "buffered messages differ"
  ELSE IF OStarted(sn) # started' THEN "started topics differ"
  ELSE IF OInfl(sn) # infl' THEN "in-flight bookkeeping differs"
  ELSE IF sn.epoch # epoch' THEN "epoch differs"
  ELSE IF sn.lastgc # lastGC' THEN "collector clock differs"
  ELSE IF h # handed' THEN "number of hand-offs differs"
  ELSE ""

Monitors(sn, pn, label) ==
  LET op == OPend(sn)  oi == OInfl(sn) IN
  {<<"CountWithinLimit", CountWithinLimitOn(op)>>,
   <<"TopicsWithinLimit", TopicsWithinLimitOn(op)>>,
   <<"ShedsWithoutFailing", ~pn>>,
   \* after the flush (two collections, each after more than the expiry period without traffic): nothing old is retained
   <<"OldDataDiscarded", label = "flushed" => \A t \in OldTopics : ~op[t].on>>,
   <<"BookkeepingReleased", label = "flushed" => \A s \in Senders : oi[s] \cap OldTopics = {}>>,
   \* a sender within the limits is not throttled: each probe message (one per probe topic) is buffered
   <<"NotThrottled", label = "probed" => \A s \in Senders : \A t \in ProbeTopics : \E i \in DOMAIN op[t].msgs : op[t].msgs[i][1] = s>>}

OpEv ==
  /\ Line.e \in {"recv", "send", "tick"}
  /\ nops' = 0
  /\ CASE Line.e = "recv" -> RecvEff(Line.s, Line.tp, Line.n)
       [] Line.e = "send" -> SendEff(Line.tp)
       [] Line.e = "tick" -> TickEff
  /\ hist' = <<>>
  /\ LET d == Diff(Line.snap, Line.handed)
         pn == opan \/ Line.panic # ""
         bad == {m[1] : m \in {mm \in Monitors(Line.snap, pn, Line.label) : ~mm[2]}} \ viol IN
     /\ drift' = IF drift = "" /\ d # "" THEN d \o " @line " \o ToString(l) ELSE drift
     /\ opan' = pn
     /\ viol' = viol \cup bad
     /\ \A b \in bad : PrintT(<<"VIOL", ToJson([t |-> tid, l |-> l, mon |-> b, conform |-> (drift = "" /\ d = "")])>>)
  /\ UNCHANGED tid

EndEv ==
  /\ Line.e = "end"
  /\ PrintT(<<"END", ToJson([t |-> tid, drift |-> drift])>>)
  /\ UNCHANGED <<vars, tid, drift, viol, opan>>

TNext == /\ l <= Len(Trace) /\ l' = l + 1 /\ (Reset \/ OpEv \/ EndEv)
=============================================================================
