------------------------------ MODULE MsgBoxAt ------------------------------
(***************************************************************************)
(* msg.Box at API granularity (one action per public call, sequential      *)
(* history), for C15: limits, shedding, release of bookkeeping, expiry.    *)
(* The clock is the injected ticker: Tick increments the epoch.            *)
(*   Recv(s, T, n)  n consecutive HandleMessage calls of sender s on T     *)
(*   Send(T)        Box.Send: start, release, drain, maybeGC (mark+sweep)  *)
(*   Tick           one tick of the injected ticker                        *)
(***************************************************************************)
EXTENDS Integers, Sequences, FiniteSets, TLC

CONSTANTS Senders, Topics,
          Limit,        \* limitPerSender (messages per sender and topic)
          MaxTopics,    \* MaxInFlightTopicsBySender
          Epochs,       \* GCExpire / GCSweep
          Bursts,       \* burst sizes offered to Recv
          MaxEpoch, MaxOps

VARIABLES pend,     \* [Topics -> [on : BOOLEAN, msgs : Seq(<<s, id>>), cnt : [Senders -> Nat], last : Nat]]
          started,  \* [Topics -> -1 .. MaxEpoch]  epoch of the last Send, -1 = not started
          infl,     \* [Senders -> SUBSET Topics]
          epoch, lastGC, nid,
          handed,   \* number of messages handed to the dispatcher so far (the log itself is observed by the harness)
          dropped,  \* number of messages shed
          nops, hist

vars == <<pend, started, infl, epoch, lastGC, nid, handed, dropped, nops, hist>>
view == <<pend, started, infl, epoch, lastGC, nops>>

NoEntry == [on |-> FALSE, msgs |-> <<>>, cnt |-> [s \in Senders |-> 0], last |-> 0]

Init == /\ pend = [t \in Topics |-> NoEntry] /\ started = [t \in Topics |-> -1] /\ infl = [s \in Senders |-> {}]
        /\ epoch = 0 /\ lastGC = 0 /\ nid = 0 /\ handed = 0 /\ dropped = 0 /\ nops = 0 /\ hist = <<>>

\* one HandleMessage call on state record st = [pend, infl, nid, handed, dropped]
Recv1(st, s, t) ==
  LET id == st.nid + 1 IN
  IF started[t] # -1 THEN [st EXCEPT !.nid = id, !.handed = @ + 1]
  ELSE IF Cardinality(st.infl[s]) > MaxTopics THEN [st EXCEPT !.nid = id, !.dropped = @ + 1]
  ELSE LET e0 == IF st.pend[t].on THEN st.pend[t] ELSE [NoEntry EXCEPT !.on = TRUE, !.last = epoch]
           infl2 == [st.infl EXCEPT ![s] = @ \cup {t}] IN
       IF e0.cnt[s] > Limit
         THEN [st EXCEPT !.nid = id, !.dropped = @ + 1, !.infl = infl2, !.pend = [st.pend EXCEPT ![t] = e0]]
         ELSE [st EXCEPT !.nid = id, !.infl = infl2,
                         !.pend = [st.pend EXCEPT ![t] = [e0 EXCEPT !.msgs = Append(@, <<s, id>>), !.cnt[s] = @ + 1, !.last = epoch]]]

RECURSIVE RecvN(_, _, _, _)
RecvN(st, s, t, n) == IF n = 0 THEN st ELSE RecvN(Recv1(st, s, t), s, t, n - 1)

RecvEff(s, t, n) ==
  LET st == RecvN([pend |-> pend, infl |-> infl, nid |-> nid, handed |-> handed, dropped |-> dropped], s, t, n) IN
  /\ pend' = st.pend /\ infl' = st.infl /\ nid' = st.nid /\ handed' = st.handed /\ dropped' = st.dropped
  /\ UNCHANGED <<started, epoch, lastGC>>

Recv(s, t, n) ==
  /\ nops < MaxOps /\ nops' = nops + 1
  /\ RecvEff(s, t, n)
  /\ hist' = Append(hist, [e |-> "recv", s |-> s, t |-> t, n |-> n])

SendersOf(e) == {s \in Senders : e.cnt[s] > 0}
Release(inf, t, e) == [s \in Senders |-> IF s \in SendersOf(e) THEN inf[s] \ {t} ELSE inf[s]]

SendEff(t) ==
  /\ LET started1 == [started EXCEPT ![t] = epoch]
         drained  == Len(pend[t].msgs)
         infl1    == Release(infl, t, pend[t])
         pend1    == [pend EXCEPT ![t] = NoEntry]
         gc       == epoch - lastGC >= Epochs
         delP     == {x \in Topics : pend1[x].on /\ epoch - pend1[x].last > Epochs}
         delS     == {x \in Topics : started1[x] # -1 /\ epoch - started1[x] > Epochs}
         del      == delP \cup delS
     IN /\ handed' = handed + drained
        /\ IF gc
             THEN /\ lastGC' = epoch
                  /\ pend' = [x \in Topics |-> IF x \in del THEN NoEntry ELSE pend1[x]]
                  /\ started' = [x \in Topics |-> IF x \in del THEN -1 ELSE started1[x]]
                  /\ infl' = [s \in Senders |-> infl1[s] \ {x \in del : pend1[x].on /\ s \in SendersOf(pend1[x])}]
                  /\ dropped' = dropped
             ELSE /\ pend' = pend1 /\ started' = started1 /\ infl' = infl1 /\ UNCHANGED <<lastGC, dropped>>
  /\ UNCHANGED <<epoch, nid>>

Send(t) ==
  /\ nops < MaxOps /\ nops' = nops + 1
  /\ SendEff(t)
  /\ hist' = Append(hist, [e |-> "send", t |-> t])

TickEff == epoch' = epoch + 1 /\ UNCHANGED <<pend, started, infl, lastGC, nid, handed, dropped>>

Tick ==
  /\ nops < MaxOps /\ nops' = nops + 1
  /\ epoch < MaxEpoch /\ TickEff
  /\ hist' = Append(hist, [e |-> "tick"])

Next == \/ \E s \in Senders, t \in Topics, n \in Bursts : Recv(s, t, n)
        \/ \E t \in Topics : Send(t)
        \/ Tick
Spec == Init /\ [][Next]_vars

Terminal == nops = MaxOps
-----------------------------------------------------------------------------
\* C15, as invariants of the state (the conformance harness evaluates the same predicates on the observed snapshot)
CountWithinLimitOn(p)  == \A t \in Topics, s \in Senders : Cardinality({i \in DOMAIN p[t].msgs : p[t].msgs[i][1] = s}) <= Limit + 1
TopicsWithinLimitOn(p) == \A s \in Senders : Cardinality({t \in Topics : \E i \in DOMAIN p[t].msgs : p[t].msgs[i][1] = s}) <= MaxTopics + 1
\* bookkeeping exists only for topics that are buffered for that sender; none for started topics
BookkeepingOn(p, inf, st) == \A s \in Senders : \A t \in inf[s] : p[t].on /\ p[t].cnt[s] > 0 /\ st[t] = -1
\* nothing stays buffered for ever: an entry older than the expiry period does not survive a collection
NoStaleAfterGCOn(p, ep, lgc) == \A t \in Topics : (p[t].on /\ lgc = ep /\ ep > 0) => ep - p[t].last <= Epochs

CountWithinLimit  == CountWithinLimitOn(pend)
TopicsWithinLimit == TopicsWithinLimitOn(pend)
Bookkeeping       == BookkeepingOn(pend, infl, started)
NoStaleAfterGC    == NoStaleAfterGCOn(pend, epoch, lastGC)
=============================================================================
