------------------------------ MODULE Barrier ------------------------------
(***************************************************************************)
(* The start-up barrier of a key-generation session ACROSS nodes: how      *)
(* threshold.Scheme makes sure that no protocol message reaches a node     *)
(* before that node can take it (reliable-broadcast instance registered,   *)
(* back end initialised), although the nodes call KeyGen at different      *)
(* times and the protocol messages are never retransmitted.                *)
(*                                                                         *)
(* One node, in the order of threshold.go KeyGen / runDKG:                 *)
(*   idle  --Call-->        s1    handlers of the first synchronisation    *)
(*                                and the classifier registered            *)
(*   s1    --Sync1Done-->   cb    the callback of the synchroniser runs    *)
(*   cb    --InitBackend--> init  KeyGenerator.Init                        *)
(*   init  --Register-->    reg   broadcast instance registered            *)
(*   reg   --StartSync2-->  s2    second synchronisation (on the hash of   *)
(*                                the member list) registered and started  *)
(*   s2    --Sync2Done-->   run   KeyGenerator.KeyGen: protocol messages   *)
(*   run   --Finish-->      done                                           *)
(*                                                                         *)
(* loud mode: the synchroniser is used through its contract (decided for   *)
(* the real disc.Member by C07): Synchronize completes at a member only    *)
(* after EVERY member has started the same synchronisation, and completes  *)
(* at every member once all have started.  Announcements are retransmitted *)
(* (not modelled); protocol messages are NOT: one that arrives at a node   *)
(* without a registered broadcast instance is dropped for good.            *)
(* silent mode: the synchroniser calls back at once (no messages); the     *)
(* barrier is msg.Box: protocol messages of a topic are held until the     *)
(* local party first sends on it (C14 / C15 decide the buffer itself).     *)
(*                                                                         *)
(* The constant Variant selects the code ("asis") or a what-if design that *)
(* TLC must refute (anti-vacuity of the invariants):                       *)
(*   "no-sync2"        KeyGen starts right after Init                      *)
(*   "reg-after-sync2" the broadcast instance is registered after sync2    *)
(*   "init-after-sync2" the back end is initialised after sync2            *)
(*   "no-box"          silent mode forwards without holding                *)
(*   "reg-before-init" the broadcast instance is registered before Init    *)
(*                     (the code before fix af2ca21: a member that sends   *)
(*                     while the node initialises reaches an uninitialised *)
(*                     back end; Inject is that member)                    *)
(***************************************************************************)
EXTENDS Integers, FiniteSets, TLC

CONSTANTS Nodes, Mode, Variant

ASSUME Mode \in {"loud", "silent"}
ASSUME Variant \in {"asis", "no-sync2", "reg-after-sync2", "init-after-sync2", "no-box", "reg-before-init"}

VARIABLES stage,      \* [Nodes -> stage name]
          registered, \* nodes whose broadcast instance is registered
          inited,     \* nodes whose back end is initialised
          started1,   \* nodes that have started the first synchronisation
          started2,   \* nodes that have started the second synchronisation
          net,        \* protocol messages in flight: set of <<from, to>>
          sent,       \* nodes whose KeyGen has sent its protocol messages (one stream per peer)
          boxOpen,    \* silent mode: nodes that have sent on the topic (msg.Box forwards from now on)
          held,       \* silent mode: [Nodes -> set of senders] messages held by the node's Box
          got,        \* [Nodes -> set of senders] streams handed to the node's back end
          lost,       \* a protocol message was dropped (no broadcast instance registered)
          early       \* a protocol message reached a back end that was not initialised

vars == <<stage, registered, inited, started1, started2, net, sent, boxOpen, held, got, lost, early>>

Others(i) == Nodes \ {i}

Init == /\ stage = [i \in Nodes |-> "idle"] /\ registered = {} /\ inited = {} /\ started1 = {} /\ started2 = {}
        /\ net = {} /\ sent = {} /\ boxOpen = {} /\ held = [i \in Nodes |-> {}] /\ got = [i \in Nodes |-> {}]
        /\ lost = FALSE /\ early = FALSE

Call(i) == /\ stage[i] = "idle"
           /\ stage' = [stage EXCEPT ![i] = "s1"]
           /\ started1' = started1 \cup {i}
           /\ UNCHANGED <<registered, inited, started2, net, sent, boxOpen, held, got, lost, early>>

Sync1Done(i) == /\ stage[i] = "s1"
                /\ Mode = "loud" => started1 = Nodes
                /\ stage' = [stage EXCEPT ![i] = "cb"]
                /\ registered' = IF Variant = "reg-before-init" THEN registered \cup {i} ELSE registered
                /\ UNCHANGED <<inited, started1, started2, net, sent, boxOpen, held, got, lost, early>>

InitBackend(i) == /\ stage[i] = "cb"
                  /\ stage' = [stage EXCEPT ![i] = "init"]
                  /\ inited' = IF Variant = "init-after-sync2" THEN inited ELSE inited \cup {i}
                  /\ UNCHANGED <<registered, started1, started2, net, sent, boxOpen, held, got, lost, early>>

Register(i) == /\ stage[i] = "init"
               /\ stage' = [stage EXCEPT ![i] = "reg"]
               /\ registered' = IF Variant = "reg-after-sync2" THEN registered ELSE registered \cup {i}
               /\ UNCHANGED <<inited, started1, started2, net, sent, boxOpen, held, got, lost, early>>

StartSync2(i) == /\ stage[i] = "reg"
                 /\ stage' = [stage EXCEPT ![i] = "s2"]
                 /\ started2' = started2 \cup {i}
                 /\ UNCHANGED <<registered, inited, started1, net, sent, boxOpen, held, got, lost, early>>

Sync2Done(i) == /\ stage[i] = "s2"
                /\ (Mode = "loud" /\ Variant # "no-sync2") => started2 = Nodes
                /\ stage' = [stage EXCEPT ![i] = "run"]
                /\ registered' = registered \cup {i}
                /\ inited' = inited \cup {i}
                /\ UNCHANGED <<started1, started2, net, sent, boxOpen, held, got, lost, early>>

\* a protocol message reaches the dispatcher of node j
Dispatch(j, froms) ==
  IF j \notin registered THEN /\ lost' = (lost \/ froms # {}) /\ UNCHANGED <<got, early>>
  ELSE /\ got' = [got EXCEPT ![j] = @ \cup froms]
       /\ early' = (early \/ (froms # {} /\ j \notin inited))
       /\ UNCHANGED lost

\* KeyGenerator.KeyGen sends the first protocol message to every peer (in silent mode this opens the node's Box, which hands over what it held)
Send(i) == /\ stage[i] = "run" /\ i \notin sent
           /\ sent' = sent \cup {i}
           /\ net' = net \cup {<<i, j>> : j \in Others(i)}
           /\ IF Mode = "silent"
                THEN /\ boxOpen' = boxOpen \cup {i}
                     /\ held' = [held EXCEPT ![i] = {}]
                     /\ Dispatch(i, held[i])
                ELSE UNCHANGED <<boxOpen, held, got, lost, early>>
           /\ UNCHANGED <<stage, registered, inited, started1, started2>>

Deliver(i, j) == /\ <<i, j>> \in net
                 /\ net' = net \ {<<i, j>>}
                 /\ IF Mode = "silent" /\ Variant # "no-box" /\ j \notin boxOpen
                      THEN /\ held' = [held EXCEPT ![j] = @ \cup {i}]
                           /\ UNCHANGED <<got, lost, early>>
                      ELSE /\ Dispatch(j, {i})
                           /\ UNCHANGED held
                 /\ UNCHANGED <<stage, registered, inited, started1, started2, sent, boxOpen>>

\* a member that does not follow the protocol sends a (point-to-point) protocol message to j at a moment of its choice; in silent
\* mode it goes through j's Box like any other.  It must never find a registered but uninitialised back end.
Inject(j) == /\ IF Mode = "silent" /\ Variant # "no-box" /\ j \notin boxOpen
                  THEN UNCHANGED early
                  ELSE early' = (early \/ (j \in registered /\ j \notin inited))
             /\ UNCHANGED <<stage, registered, inited, started1, started2, net, sent, boxOpen, held, got, lost>>

Finish(i) == /\ stage[i] = "run" /\ i \in sent /\ got[i] = Others(i)
             /\ stage' = [stage EXCEPT ![i] = "done"]
             /\ UNCHANGED <<registered, inited, started1, started2, net, sent, boxOpen, held, got, lost, early>>

Next == \E i \in Nodes : \/ Call(i) \/ Sync1Done(i) \/ InitBackend(i) \/ Register(i) \/ StartSync2(i) \/ Sync2Done(i) \/ Send(i) \/ Finish(i)
                         \/ Inject(i)
                         \/ \E j \in Others(i) : Deliver(i, j)

Spec == Init /\ [][Next]_vars /\ WF_vars(Next)
FairSpec == Init /\ [][Next]_vars /\ \A i \in Nodes : /\ WF_vars(Call(i)) /\ WF_vars(Sync1Done(i)) /\ WF_vars(InitBackend(i)) /\ WF_vars(Register(i))
                                                      /\ WF_vars(StartSync2(i)) /\ WF_vars(Sync2Done(i)) /\ WF_vars(Send(i)) /\ WF_vars(Finish(i))
                                                      /\ \A j \in Others(i) : WF_vars(Deliver(i, j))

-----------------------------------------------------------------------------
\* nothing is lost at the barrier, nothing reaches a back end before its Init
NoLoss  == ~lost
NoEarly == ~early
\* the observable form of the loud barrier (evaluated on real runs by DKGTrace): nobody sends a protocol message before
\* every member's back end is initialised
FirstSendAfterAllInit == (Mode = "loud" /\ sent # {}) => inited = Nodes
\* silent mode: a back end gets nothing before the node itself has sent
HandOverAfterOwnSend == Mode = "silent" => \A j \in Nodes : got[j] # {} => j \in boxOpen
\* every run in which all members call KeyGen completes everywhere
AllDone == <>(\A i \in Nodes : stage[i] = "done")
=============================================================================
