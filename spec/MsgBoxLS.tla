------------------------------ MODULE MsgBoxLS ------------------------------
(***************************************************************************)
(* msg.Box (silent-mode buffer) at LOCK-STEP granularity, for C14.         *)
(* A thread executes a program of public calls; it is parked at a yield    *)
(* point (the verifYield one-liners placed immediately before a lock       *)
(* acquisition in msg/msgbox.go, and before a call of the handler); one    *)
(* model step = the thread runs from its yield point to the next one:      *)
(*   HandleMessage:  decide -> forward                (topic started)      *)
(*                   decide                            (queued behind a    *)
(*                                                     running hand-over,  *)
(*                                                     or held)            *)
(*   Send:           send -> fwdsend -> {next -> forward}* -> next         *)
(*                                      (only the Send that took the held  *)
(*                                       messages runs the hand-over loop) *)
(* The handler of the conformance harness stands for the dispatcher of     *)
(* threshold.Scheme: for a message flagged ack it takes the lock of the    *)
(* topic's session (yield point hlock, as threadSafeRBC does), records the *)
(* message, calls Box.Send on the same topic from inside the lock (the     *)
(* acknowledgement of the reliable broadcast) and releases the lock.       *)
(* Calls nest, so a thread carries a stack of frames:                      *)
(*   (recv | send) (handler send)*                                          *)
(* This is the model of the REPAIRED buffer (fix 58b1a4d): decision and    *)
(* store are one critical section, held messages move to a per-topic       *)
(* hand-over queue, arrivals queue up behind a running hand-over.  The     *)
(* model of the code before the repair (check-then-store race; deviations  *)
(* stranded / orphan / overtake / stale-store-drained-later) is in the     *)
(* history of this file.  The collector takes part when GCOn = TRUE: a     *)
(* thread op "tick" advances the epoch clock; every Send ends with         *)
(* maybeGC (period test and compare-and-swap of lastGC without a yield     *)
(* point, then gcmark under the read lock, gcsweep under the write lock).  *)
(* It removes buffers unused and started marks not renewed for more than   *)
(* Expire epochs -- never a running hand-over queue.  (Limits and expiry   *)
(* at API level: C15.)                                                     *)
(***************************************************************************)
EXTENDS Integers, Sequences, FiniteSets, TLC

CONSTANTS Threads,   \* thread names (strings)
          Prog,      \* [Threads -> Seq(op)], op = [k |-> "recv", m |-> [id, src, topic, ack]] | [k |-> "send", t |-> topic] | [k |-> "tick"]
          Topics,
          GCOn,      \* does the collector take part (FALSE: the epoch clock stands still, maybeGC returns at its period test)
          Expire     \* GCExpire / GCSweep

None == [id |-> 0, src |-> 0, topic |-> "", ack |-> FALSE]

VARIABLES started,   \* set of topics with an entry in startedSending
          startedAt, \* [Topics -> epoch of the last Send]
          epoch, lastGC,
          used,      \* [Topics -> epoch in which the buffer of the topic was created or last added to]
          swept,     \* ghost: topics whose started mark the collector has removed (a later arrival is held again, by design)
          lateIds,   \* ghost: messages that arrived for a topic after its mark had been swept, or whose buffer expired
          pend,      \* [Topics -> [has : BOOLEAN, msgs : Seq(msg)]]   pendingMessages
          hand,      \* [Topics -> [has : BOOLEAN, msgs : Seq(msg)]]   hand-over queues
          inflight,  \* set of <<src, topic>>       totalInFlightTopicsBySender
          hlock,     \* [Topics -> thread name or ""]   the dispatcher's per-session lock (harness handler)
          handed,    \* Seq(msg id)                 calls of MessageHandler.HandleMessage, in order
          fsent,     \* Seq(topic)                  calls of ForwardSend
          th,        \* [Threads -> [oi, stk]]      stk: Seq(frame), frame = [f, pc, m, tp, drainer]
          ev         \* last event (not part of the VIEW)

gcvars == <<startedAt, epoch, lastGC, used, swept, lateIds>>
vars == <<started, pend, hand, inflight, hlock, handed, fsent, th, ev, gcvars>>
view == <<started, pend, hand, inflight, hlock, handed, fsent, th, gcvars>>

Absent == [has |-> FALSE, msgs |-> <<>>]

RecvFrame(m)  == [f |-> "recv", pc |-> "decide", m |-> m, tp |-> m.topic, drainer |-> FALSE]
SendFrame(tp) == [f |-> "send", pc |-> "send", m |-> None, tp |-> tp, drainer |-> FALSE, now |-> 0, del |-> {}]
HandlerFrame(m) == [f |-> "handler", pc |-> "hlock", m |-> m, tp |-> m.topic, drainer |-> FALSE]
TickFrame == [f |-> "tick", pc |-> "tick", m |-> None, tp |-> "", drainer |-> FALSE]

OpFrame(op) == IF op.k = "recv" THEN RecvFrame(op.m) ELSE IF op.k = "send" THEN SendFrame(op.t) ELSE TickFrame

InitThread(t) == [oi |-> 1, stk |-> IF Prog[t] = <<>> THEN <<>> ELSE <<OpFrame(Prog[t][1])>>]

Init == /\ started = {} /\ pend = [t \in Topics |-> Absent] /\ hand = [t \in Topics |-> Absent]
        /\ inflight = {} /\ hlock = [t \in Topics |-> ""] /\ handed = <<>> /\ fsent = <<>>
        /\ th = [t \in Threads |-> InitThread(t)]
        /\ ev = ""
        /\ startedAt = [t \in Topics |-> 0] /\ epoch = 0 /\ lastGC = 0 /\ used = [t \in Topics |-> 0] /\ swept = {} /\ lateIds = {}

PC(t) == IF th[t].stk = <<>> THEN "done" ELSE th[t].stk[Len(th[t].stk)].pc

Top(s) == s[Len(s)]
Pop(s) == SubSeq(s, 1, Len(s) - 1)
SetTop(s, fr) == [s EXCEPT ![Len(s)] = fr]

\* the public call at the bottom of the stack returned: next operation of the program
NextOp(t, r) ==
  LET oi2 == r.oi + 1 IN
  [oi |-> oi2, stk |-> IF oi2 <= Len(Prog[t]) THEN <<OpFrame(Prog[t][oi2])>> ELSE <<>>]

\* the handler call made by the top frame of s returned (s: stack with that frame on top)
\* -> the stack afterwards, or <<>> when the public call at the bottom returned as well
HandlerReturned(s) ==
  IF Top(s).f = "recv" THEN Pop(s)                           \* HandleMessage returns
  ELSE SetTop(s, [Top(s) EXCEPT !.pc = "next", !.m = None])   \* hand-over loop: next message

\* the Send of the top frame returned: pop it; when it was called from a handler, the handler releases its lock and returns
\* -> <<stack, released topic or "">>
SendReturned(s) ==
  LET s1 == Pop(s) IN
  IF s1 = <<>> THEN <<s1, "">>
  ELSE <<HandlerReturned(Pop(s1)), Top(s1).tp>>    \* Top(s1) is a handler frame

Fin(t, r, s) == IF s = <<>> THEN NextOp(t, r) ELSE [r EXCEPT !.stk = s]

\* the body of Send is over: maybeGC (deferred).  Its period test and the compare-and-swap of lastGC have no yield point.
EndOfSend(t, r, s, fr) ==
  IF GCOn /\ epoch - lastGC >= Expire
    THEN /\ lastGC' = epoch
         /\ th' = [th EXCEPT ![t].stk = SetTop(s, [fr EXCEPT !.pc = "gcmark", !.now = epoch])]
         /\ UNCHANGED hlock
    ELSE LET res == SendReturned(s) IN
         /\ th' = [th EXCEPT ![t] = Fin(t, r, res[1])]
         /\ hlock' = IF res[2] = "" THEN hlock ELSE [hlock EXCEPT ![res[2]] = ""]
         /\ UNCHANGED lastGC

Step(t) ==
  LET r == th[t]  s == r.stk  fr == Top(s)  m == fr.m IN
  /\ s # <<>>
  /\ ev' = t
  /\ CASE fr.pc = "decide" ->     \* storeOrForward: decision and store in one critical section
            IF m.topic \in started
              THEN IF hand[m.topic].has
                     THEN /\ hand' = [hand EXCEPT ![m.topic].msgs = Append(@, m)]     \* queue up behind the running hand-over
                          /\ th' = [th EXCEPT ![t] = Fin(t, r, Pop(s))]
                          /\ UNCHANGED <<started, pend, inflight, hlock, handed, fsent, gcvars>>
                     ELSE /\ th' = [th EXCEPT ![t].stk = SetTop(s, [fr EXCEPT !.pc = "forward"])]
                          /\ UNCHANGED <<started, pend, hand, inflight, hlock, handed, fsent, gcvars>>
              ELSE /\ inflight' = inflight \cup {<<m.src, m.topic>>}
                   /\ pend' = [pend EXCEPT ![m.topic] = [has |-> TRUE, msgs |-> Append(@.msgs, m)]]
                   /\ used' = [used EXCEPT ![m.topic] = IF pend[m.topic].has /\ @ > epoch THEN @ ELSE epoch]
                   /\ lateIds' = IF m.topic \in swept THEN lateIds \cup {m.id} ELSE lateIds
                   /\ th' = [th EXCEPT ![t] = Fin(t, r, Pop(s))]
                   /\ UNCHANGED <<started, hand, hlock, handed, fsent, startedAt, epoch, lastGC, swept>>
       [] fr.pc = "forward" ->    \* MessageHandler.HandleMessage(msg)
            IF m.ack
              THEN /\ th' = [th EXCEPT ![t].stk = Append(s, HandlerFrame(m))]       \* the handler parks before its lock
                   /\ UNCHANGED <<started, pend, hand, inflight, hlock, handed, fsent, gcvars>>
              ELSE /\ handed' = Append(handed, m.id)
                   /\ th' = [th EXCEPT ![t] = Fin(t, r, HandlerReturned(s))]
                   /\ UNCHANGED <<started, pend, hand, inflight, hlock, fsent, gcvars>>
       [] fr.pc = "hlock" ->      \* handler: lock of the session, record, acknowledge from inside the lock
            /\ hlock[m.topic] = ""
            /\ hlock' = [hlock EXCEPT ![m.topic] = t]
            /\ handed' = Append(handed, m.id)
            /\ th' = [th EXCEPT ![t].stk = Append(s, SendFrame(m.topic))]
            /\ UNCHANGED <<started, pend, hand, inflight, fsent, gcvars>>
       [] fr.pc = "send" ->       \* Send, critical section: mark started, move the held messages to the hand-over queue
            LET tp == fr.tp IN
            /\ started' = started \cup {tp}
            /\ pend' = [pend EXCEPT ![tp] = Absent]
            /\ inflight' = IF ~pend[tp].has THEN inflight
                           ELSE {x \in inflight : ~(x[2] = tp /\ \E i \in DOMAIN pend[tp].msgs : pend[tp].msgs[i].src = x[1])}
            /\ hand' = IF pend[tp].has THEN [hand EXCEPT ![tp] = [has |-> TRUE, msgs |-> @.msgs \o pend[tp].msgs]] ELSE hand
            /\ th' = [th EXCEPT ![t].stk = SetTop(s, [fr EXCEPT !.pc = "fwdsend", !.drainer = pend[tp].has /\ ~hand[tp].has])]
            /\ startedAt' = [startedAt EXCEPT ![tp] = epoch]
            /\ UNCHANGED <<hlock, handed, fsent, epoch, lastGC, used, swept, lateIds>>
       [] fr.pc = "fwdsend" ->    \* ForwardSend; then the hand-over loop (deferred) if this Send took the held messages; then maybeGC
            /\ fsent' = Append(fsent, fr.tp)
            /\ IF fr.drainer
                 THEN /\ th' = [th EXCEPT ![t].stk = SetTop(s, [fr EXCEPT !.pc = "next"])]
                      /\ UNCHANGED <<hlock, lastGC>>
                 ELSE EndOfSend(t, r, s, fr)
            /\ UNCHANGED <<started, pend, hand, inflight, handed, startedAt, epoch, used, swept, lateIds>>
       [] fr.pc = "next" ->       \* hand-over loop: take the next queued message, or finish (then maybeGC)
            IF hand[fr.tp].msgs = <<>>
              THEN /\ hand' = [hand EXCEPT ![fr.tp] = Absent]
                   /\ EndOfSend(t, r, s, fr)
                   /\ UNCHANGED <<started, pend, inflight, handed, fsent, startedAt, epoch, used, swept, lateIds>>
              ELSE /\ hand' = [hand EXCEPT ![fr.tp].msgs = Tail(@)]
                   /\ th' = [th EXCEPT ![t].stk = SetTop(s, [fr EXCEPT !.pc = "forward", !.m = Head(hand[fr.tp].msgs)])]
                   /\ UNCHANGED <<started, pend, inflight, hlock, handed, fsent, gcvars>>
       [] fr.pc = "gcmark" ->     \* mark (read lock): buffers unused and started marks not renewed for more than Expire epochs
            /\ th' = [th EXCEPT ![t].stk = SetTop(s, [fr EXCEPT !.pc = "gcsweep",
                          !.del = {tp \in Topics : \/ (pend[tp].has /\ fr.now > used[tp] /\ fr.now - used[tp] > Expire)
                                                   \/ (tp \in started /\ fr.now > startedAt[tp] /\ fr.now - startedAt[tp] > Expire)}])]
            /\ UNCHANGED <<started, pend, hand, inflight, hlock, handed, fsent, gcvars>>
       [] fr.pc = "gcsweep" ->    \* sweep (write lock): buffers, their senders' bookkeeping, started marks -- NOT the hand-over queues
            LET res == SendReturned(s) IN
            /\ pend' = [tp \in Topics |-> IF tp \in fr.del THEN Absent ELSE pend[tp]]
            /\ started' = started \ fr.del
            /\ inflight' = {x \in inflight : ~(x[2] \in fr.del /\ pend[x[2]].has /\ \E i \in DOMAIN pend[x[2]].msgs : pend[x[2]].msgs[i].src = x[1])}
            /\ swept' = swept \cup (fr.del \cap started)
            /\ lastGC' = fr.now
            \* held data that expires before its topic starts is discarded by design (C15): exempt from exactly-once
            /\ lateIds' = lateIds \cup UNION {{pend[tp].msgs[i].id : i \in DOMAIN pend[tp].msgs} : tp \in fr.del}
            /\ th' = [th EXCEPT ![t] = Fin(t, r, res[1])]
            /\ hlock' = IF res[2] = "" THEN hlock ELSE [hlock EXCEPT ![res[2]] = ""]
            /\ UNCHANGED <<hand, handed, fsent, startedAt, epoch, used>>
       [] fr.pc = "tick" ->       \* the epoch clock
            /\ epoch' = epoch + 1
            /\ th' = [th EXCEPT ![t] = Fin(t, r, Pop(s))]
            /\ UNCHANGED <<started, pend, hand, inflight, hlock, handed, fsent, startedAt, lastGC, used, swept, lateIds>>

Next == \E t \in Threads : Step(t)
Spec == Init /\ [][Next]_vars

-----------------------------------------------------------------------------
Terminal == \A t \in Threads : th[t].stk = <<>>

\* a thread that has not finished can always take a step unless it waits for a session lock; no cycle of such waits
NoDeadlock == Terminal \/ \E t \in Threads : ENABLED Step(t)

\* every message passed to Box.HandleMessage by a connection thread
Received == UNION {{Prog[t][i].m : i \in {j \in DOMAIN Prog[t] : Prog[t][j].k = "recv"}} : t \in Threads}

Count(s, x) == Cardinality({i \in DOMAIN s : s[i] = x})

\* parameterised by the hand-off log h (model: handed; conformance: the observed log) and the started topics
NoDupOn(h) == \A m \in Received : Count(h, m.id) <= 1
\* st: the topics on which the local party has sent (ForwardSend was called)
ExactlyOnceOn(h, st) == \A m \in Received : (m.topic \in st /\ m.id \notin lateIds) => Count(h, m.id) = 1

\* arrival order of one sender's messages = program order of its connection thread
Before(a, b) == \E t \in Threads : \E i, j \in DOMAIN Prog[t] :
                   i < j /\ Prog[t][i].k = "recv" /\ Prog[t][j].k = "recv" /\ Prog[t][i].m = a /\ Prog[t][j].m = b
PerSenderOrderOn(h) ==
  \A a, b \in Received : (a.src = b.src /\ a.topic = b.topic /\ Before(a, b)) =>
     \A i, j \in DOMAIN h : (h[i] = a.id /\ h[j] = b.id) => i < j

SentOn == {fsent[i] : i \in DOMAIN fsent}

\* what C14 demands
NoDup          == NoDupOn(handed)
ExactlyOnce    == Terminal => ExactlyOnceOn(handed, SentOn)
PerSenderOrder == PerSenderOrderOn(handed)
\* nothing stays behind in a buffer of a started topic, no hand-over is left unfinished
Clean          == Terminal => \A tp \in Topics : ((tp \in SentOn /\ tp \notin swept) => ~pend[tp].has) /\ ~hand[tp].has
=============================================================================
