------------------------------ MODULE MsgBoxLS ------------------------------
(***************************************************************************)
(* msg.Box (silent-mode buffer) at LOCK-STEP granularity, for C14.         *)
(* A thread executes a program of public calls; it is parked at a yield    *)
(* point (the verifYield one-liners placed immediately before a lock       *)
(* acquisition in msg/msgbox.go); one model step = the thread runs from    *)
(* its yield point to the next one:                                        *)
(*   HandleMessage:  started -> forward                                    *)
(*                           -> mark -> lookup -> [create ->] add          *)
(*   Send:           send -> fwdsend -> {started -> forward}* (drain)      *)
(*                        -> gcmark -> gcsweep                             *)
(* (the yield points recv and limit are passed through: every sender is    *)
(* within the limits.  While the epoch clock stands still maybeGC returns  *)
(* at its period test and the gcmark / gcsweep points are not reached      *)
(* (GCRuns = FALSE).  The gc steps describe the collector of the code      *)
(* before its repair (GCRuns = TRUE): mark selected buffers whose lastUsed *)
(* was still the zero time -- created, nothing added yet -- and sweep      *)
(* removed such a buffer AND the started mark of its topic.)               *)
(* Buffered lists are objects with identity (the code holds a pointer to a *)
(* storedMessages that may meanwhile have been removed from the map).      *)
(***************************************************************************)
EXTENDS Integers, Sequences, FiniteSets, TLC

CONSTANTS Threads,   \* thread names (strings)
          Prog,      \* [Threads -> Seq(op)], op = [k |-> "recv", m |-> [id, src, topic]] | [k |-> "send", t |-> topic]
          Topics,
          MaxLists,
          GCRuns     \* whether maybeGC gets past its period test (FALSE while the epoch clock stands still: the
                     \* collector runs only once GCExpire/GCSweep epochs have passed since the last collection)

None == [id |-> 0, src |-> 0, topic |-> ""]

VARIABLES started,   \* set of topics with an entry in startedSending
          pmap,      \* [Topics -> 0..MaxLists]     pendingMessages: topic -> list object (0 = no entry)
          lists,     \* [1..MaxLists -> Seq(msg)]   the storedMessages objects ever allocated
          nl,        \* number of allocated list objects
          inflight,  \* set of <<src, topic>>       totalInFlightTopicsBySender
          handed,    \* Seq(msg id)                 calls of MessageHandler.HandleMessage, in order
          fsent,     \* Seq(topic)                  calls of ForwardSend
          th,        \* [Threads -> [oi, pc, cur, held, snap, di, nested]]
          devStale,  \* named deviation: a message was stored although its topic had already started
          devOvertake, \* named deviation: a message was forwarded directly while an earlier one of the same sender was still being drained
          devSweep,  \* named deviation: the collector removed a fresh (still empty) buffer and un-started its topic
          ev         \* last event (not part of the VIEW)

vars == <<started, pmap, lists, nl, inflight, handed, fsent, th, devStale, devOvertake, devSweep, ev>>
view == <<started, pmap, lists, nl, inflight, handed, fsent, th, devStale, devOvertake, devSweep>>

FirstPC(op) == IF op.k = "recv" THEN "started" ELSE "send"

InitThread(t) == [oi |-> 1, pc |-> IF Prog[t] = <<>> THEN "done" ELSE FirstPC(Prog[t][1]),
                  cur |-> IF Prog[t] # <<>> /\ Prog[t][1].k = "recv" THEN Prog[t][1].m ELSE None,
                  held |-> 0, snap |-> <<>>, di |-> 0, nested |-> FALSE, gcdel |-> {}]

Init == /\ started = {} /\ pmap = [t \in Topics |-> 0] /\ lists = [i \in 1..MaxLists |-> <<>>] /\ nl = 0
        /\ inflight = {} /\ handed = <<>> /\ fsent = <<>>
        /\ th = [t \in Threads |-> InitThread(t)]
        /\ devStale = FALSE /\ devOvertake = FALSE /\ devSweep = FALSE /\ ev = ""

\* the thread finished the current public call (or the current drained message)
\* r: the thread record after the step's own updates
NextOp(t, r) ==
  LET oi2 == r.oi + 1 IN
  IF oi2 <= Len(Prog[t])
    THEN [r EXCEPT !.oi = oi2, !.pc = FirstPC(Prog[t][oi2]), !.nested = FALSE, !.snap = <<>>, !.di = 0, !.held = 0, !.gcdel = {},
                   !.cur = IF Prog[t][oi2].k = "recv" THEN Prog[t][oi2].m ELSE None]
    ELSE [r EXCEPT !.oi = oi2, !.pc = "done", !.nested = FALSE, !.snap = <<>>, !.di = 0, !.held = 0, !.gcdel = {}, !.cur = None]

Advance(t, r) ==
  IF r.nested
    THEN IF r.di < Len(r.snap)
           THEN [r EXCEPT !.di = r.di + 1, !.cur = r.snap[r.di + 1], !.pc = "started", !.held = 0]
           ELSE IF GCRuns THEN [r EXCEPT !.pc = "gcmark", !.cur = None, !.held = 0]      \* drain finished: deferred maybeGC
                ELSE NextOp(t, r)
    ELSE NextOp(t, r)

\* is an earlier message of the same sender and topic still waiting in some thread's drain snapshot?
BeingDrained(m) ==
  \E u \in Threads :
     LET waiting == IF th[u].pc = "fwdsend" THEN DOMAIN th[u].snap
                    ELSE IF th[u].nested THEN {i \in DOMAIN th[u].snap : i >= th[u].di}
                    ELSE {} IN
     \E i \in waiting : th[u].snap[i].src = m.src /\ th[u].snap[i].topic = m.topic /\ th[u].snap[i].id # m.id

Step(t) ==
  LET r == th[t]  m == r.cur IN
  /\ r.pc # "done"
  /\ ev' = t
  /\ CASE r.pc = "started" ->     \* hasStartedSending
            /\ th' = [th EXCEPT ![t].pc = IF m.topic \in started THEN "forward" ELSE "mark"]
            /\ UNCHANGED <<started, pmap, lists, nl, inflight, handed, fsent, devStale, devOvertake, devSweep>>
       [] r.pc = "forward" ->     \* MessageHandler.HandleMessage(msg)
            /\ handed' = Append(handed, m.id)
            /\ devOvertake' = (devOvertake \/ (~r.nested /\ BeingDrained(m)))
            /\ th' = [th EXCEPT ![t] = Advance(t, r)]
            /\ UNCHANGED <<started, pmap, lists, nl, inflight, fsent, devStale, devSweep>>
       [] r.pc = "mark" ->        \* markTopicForSender
            /\ inflight' = inflight \cup {<<m.src, m.topic>>}
            /\ th' = [th EXCEPT ![t].pc = "lookup"]
            /\ UNCHANGED <<started, pmap, lists, nl, handed, fsent, devStale, devOvertake, devSweep>>
       [] r.pc = "lookup" ->      \* getOrCreateMessagesByTopic, read-locked lookup
            /\ th' = [th EXCEPT ![t].pc = IF pmap[m.topic] # 0 THEN "add" ELSE "create", ![t].held = pmap[m.topic]]
            /\ UNCHANGED <<started, pmap, lists, nl, inflight, handed, fsent, devStale, devOvertake, devSweep>>
       [] r.pc = "create" ->      \* getOrCreateMessagesByTopic, write-locked double check + create
            /\ IF pmap[m.topic] # 0
                 THEN /\ th' = [th EXCEPT ![t].pc = "add", ![t].held = pmap[m.topic]]
                      /\ UNCHANGED <<pmap, nl>>
                 ELSE /\ nl' = nl + 1
                      /\ pmap' = [pmap EXCEPT ![m.topic] = nl + 1]
                      /\ th' = [th EXCEPT ![t].pc = "add", ![t].held = nl + 1]
            /\ UNCHANGED <<started, lists, inflight, handed, fsent, devStale, devOvertake, devSweep>>
       [] r.pc = "add" ->         \* storedMessages.add
            /\ lists' = [lists EXCEPT ![r.held] = Append(@, m)]
            /\ devStale' = (devStale \/ m.topic \in started)
            /\ th' = [th EXCEPT ![t] = Advance(t, r)]
            /\ UNCHANGED <<started, pmap, nl, inflight, handed, fsent, devOvertake, devSweep>>
       [] r.pc = "send" ->        \* Send, critical section: mark started, snapshot, delete
            LET tp == Prog[t][r.oi].t IN
            /\ started' = started \cup {tp}
            /\ pmap' = [pmap EXCEPT ![tp] = 0]
            \* the senders of the drained buffer no longer have the topic in flight
            /\ inflight' = IF pmap[tp] = 0 THEN inflight
                           ELSE {x \in inflight : ~(x[2] = tp /\ \E i \in DOMAIN lists[pmap[tp]] : lists[pmap[tp]][i].src = x[1])}
            /\ th' = [th EXCEPT ![t].pc = "fwdsend", ![t].snap = IF pmap[tp] = 0 THEN <<>> ELSE lists[pmap[tp]]]
            /\ UNCHANGED <<lists, nl, handed, fsent, devStale, devOvertake, devSweep>>
       [] r.pc = "fwdsend" ->     \* ForwardSend, then the deferred drain begins
            /\ fsent' = Append(fsent, Prog[t][r.oi].t)
            /\ th' = [th EXCEPT ![t] = Advance(t, [r EXCEPT !.nested = TRUE, !.di = 0])]
            /\ UNCHANGED <<started, pmap, lists, nl, inflight, handed, devStale, devOvertake, devSweep>>
       [] r.pc = "gcmark" ->      \* maybeGC / mark (read lock): buffers whose lastUsed is the zero time count as expired
            /\ th' = [th EXCEPT ![t].pc = "gcsweep", ![t].gcdel = {tp \in Topics : pmap[tp] # 0 /\ lists[pmap[tp]] = <<>>}]
            /\ UNCHANGED <<started, pmap, lists, nl, inflight, handed, fsent, devStale, devOvertake, devSweep>>
       [] r.pc = "gcsweep" ->     \* sweep (write lock): drop the buffer, the senders' bookkeeping and the started mark
            /\ pmap' = [tp \in Topics |-> IF tp \in r.gcdel THEN 0 ELSE pmap[tp]]
            /\ started' = started \ r.gcdel
            /\ inflight' = {x \in inflight : ~(x[2] \in r.gcdel /\ pmap[x[2]] # 0 /\ \E i \in DOMAIN lists[pmap[x[2]]] : lists[pmap[x[2]]][i].src = x[1])}
            /\ devSweep' = (devSweep \/ r.gcdel # {})
            /\ th' = [th EXCEPT ![t] = NextOp(t, r)]
            /\ UNCHANGED <<lists, nl, handed, fsent, devStale, devOvertake>>

Next == \E t \in Threads : Step(t)
Spec == Init /\ [][Next]_vars

-----------------------------------------------------------------------------
Terminal == \A t \in Threads : th[t].pc = "done"

\* every message passed to Box.HandleMessage by a connection thread
Received == UNION {{Prog[t][i].m : i \in {j \in DOMAIN Prog[t] : Prog[t][j].k = "recv"}} : t \in Threads}

Count(s, x) == Cardinality({i \in DOMAIN s : s[i] = x})

\* parameterised by the hand-off log h (model: handed; conformance: the observed log) and the started topics
NoDupOn(h) == \A m \in Received : Count(h, m.id) <= 1
\* st: the topics on which the local party has sent (ForwardSend was called)
ExactlyOnceOn(h, st) == \A m \in Received : m.topic \in st => Count(h, m.id) = 1

\* arrival order of one sender's messages = program order of its connection thread
Before(a, b) == \E t \in Threads : \E i, j \in DOMAIN Prog[t] :
                   i < j /\ Prog[t][i].k = "recv" /\ Prog[t][j].k = "recv" /\ Prog[t][i].m = a /\ Prog[t][j].m = b
PerSenderOrderOn(h) ==
  \A a, b \in Received : (a.src = b.src /\ a.topic = b.topic /\ Before(a, b)) =>
     \A i, j \in DOMAIN h : (h[i] = a.id /\ h[j] = b.id) => i < j

NoDup == NoDupOn(handed)
\* design-level statement: the named deviations are the ONLY way the pinned code can violate C14
SentOn == {fsent[i] : i \in DOMAIN fsent}
ExactlyOnceUnlessStale   == (Terminal /\ ~devStale /\ ~devSweep) => ExactlyOnceOn(handed, SentOn)
OrderUnlessDeviation     == ~(devOvertake \/ devStale \/ devSweep) => PerSenderOrderOn(handed)
\* what the property demands (violated by the pinned code: known findings)
ExactlyOnce    == Terminal => ExactlyOnceOn(handed, SentOn)
PerSenderOrder == PerSenderOrderOn(handed)
=============================================================================
