--------------------------- MODULE MsgBoxLSTrace ---------------------------
(***************************************************************************)
(* Trace specification for the gated replays of harness/cmd/drv/box.go:    *)
(* every line is one scheduler step of one logical thread on a real        *)
(* msg.Box.  The model takes the same step (MsgBoxLS!Step); the yield      *)
(* point reached and the projected state (snapshot through the verif       *)
(* accessor) are compared (-> drift); the C14 monitors are evaluated on    *)
(* the OBSERVED hand-off log at the end of the run.  A violation that the  *)
(* model of the pinned code predicts exactly (same hand-off log) is        *)
(* reported with the named deviations that explain it (KNOWN); any other   *)
(* violation is reported as VIOL.                                          *)
(***************************************************************************)
EXTENDS MsgBoxLS, Json

CONSTANTS TraceFile
Trace == ndJsonDeserialize(TraceFile)

VARIABLES l, tid, drift, ohanded, ostarted, osent, bad

tvars == <<vars, l, tid, drift, ohanded, ostarted, osent, bad>>

Line == Trace[l]
Rng(s) == {s[i] : i \in DOMAIN s}

TInit == Init /\ l = 1 /\ tid = -1 /\ drift = "" /\ ohanded = <<>> /\ ostarted = {} /\ osent = {} /\ bad = FALSE

Reset ==
  /\ Line.e = "reset"
  /\ started' = {} /\ pmap' = [t \in Topics |-> 0] /\ lists' = [i \in 1..MaxLists |-> <<>>] /\ nl' = 0
  /\ inflight' = {} /\ handed' = <<>> /\ fsent' = <<>> /\ th' = [t \in Threads |-> InitThread(t)]
  /\ devStale' = FALSE /\ devOvertake' = FALSE /\ devSweep' = FALSE /\ ev' = ""
  /\ tid' = Line.t /\ drift' = "" /\ ohanded' = <<>> /\ ostarted' = {} /\ osent' = {} /\ bad' = FALSE

Ids(s) == [i \in DOMAIN s |-> s[i].id]

\* projection of the model state in the shape of the logged snapshot
PendOK(snap) == \A i \in DOMAIN snap :
                   LET tp == snap[i].t IN
                   /\ snap[i].has = (pmap'[tp] # 0)
                   /\ (pmap'[tp] # 0 => snap[i].ids = Ids(lists'[pmap'[tp]]))

StepEv ==
  /\ Line.e = "step"
  /\ LET t == Line.th IN
     IF t \notin Threads \/ th[t].pc = "done" \/ nl >= MaxLists
       THEN /\ UNCHANGED vars
            /\ drift' = IF drift = "" THEN "step of a thread the model considers finished @line " \o ToString(l) ELSE drift
       ELSE /\ Step(t)
            /\ drift' = IF drift # "" THEN drift
                        ELSE IF th[t].pc # Line.pc THEN "yield point differs @line " \o ToString(l)
                        ELSE IF th'[t].pc # Line.next THEN "next yield point differs @line " \o ToString(l)
                        ELSE IF ~PendOK(Line.pend) THEN "buffered messages differ @line " \o ToString(l)
                        ELSE IF Rng(Line.started) # started' THEN "started topics differ @line " \o ToString(l)
                        ELSE IF {<<x[1], x[2]>> : x \in Rng(Line.infl)} # inflight' THEN "in-flight bookkeeping differs @line " \o ToString(l)
                        ELSE IF Line.handed # handed' THEN "hand-off log differs @line " \o ToString(l)
                        ELSE IF Line.fsent # fsent' THEN "forwarded sends differ @line " \o ToString(l)
                        ELSE ""
  /\ ohanded' = Line.handed /\ ostarted' = Rng(Line.started) /\ osent' = Rng(Line.fsent)
  /\ UNCHANGED <<tid, bad>>

SkipEv == Line.e = "skip" /\ UNCHANGED <<vars, tid, drift, ohanded, ostarted, osent, bad>>

\* deviations of the pinned code, as visible in the model state at the end of the run
Buffered == UNION {Rng(lists[pmap[tp]]) : tp \in {x \in Topics : pmap[x] # 0}}
Stranded == \E m \in Buffered : m.topic \in SentOn
Orphaned == \E i \in 1..nl : \E m \in Rng(lists[i]) :
               /\ \A tp \in Topics : pmap[tp] # i
               /\ Count(handed, m.id) = 0

EndEv ==
  /\ Line.e = "end"
  /\ LET viols == {m[1] : m \in {mm \in {<<"ExactlyOnce", ExactlyOnceOn(ohanded, osent)>>,
                                           <<"PerSenderOrder", PerSenderOrderOn(ohanded)>>,
                                           <<"NoDup", NoDupOn(ohanded)>>,
                                           <<"NoPanic", Line.panic = "">>,
                                           <<"NoDeadlock", ~Line.hung>>} : ~mm[2]}}
         explained == Terminal /\ ohanded = handed /\ ostarted = started /\ osent = SentOn /\ Line.panic = "" /\ ~Line.hung
         devs == (IF Stranded THEN {"stranded"} ELSE {}) \cup (IF Orphaned THEN {"orphan"} ELSE {})
                 \cup (IF devOvertake THEN {"overtake"} ELSE {})
                 \cup (IF devSweep THEN {"fresh-buffer-swept"} ELSE {})
                 \cup (IF devStale /\ ~Stranded /\ ~Orphaned THEN {"stale-store-drained-later"} ELSE {})
     IN /\ \A v \in viols : PrintT(<<IF explained THEN "KNOWN" ELSE "VIOL",
                                     ToJson([t |-> tid, l |-> l, mon |-> v, devs |-> devs])>>)
        /\ PrintT(<<"END", ToJson([t |-> tid, drift |-> drift])>>)
  /\ UNCHANGED <<vars, tid, drift, ohanded, ostarted, osent, bad>>

TNext == /\ l <= Len(Trace) /\ l' = l + 1
         /\ (Reset \/ StepEv \/ SkipEv \/ EndEv)
=============================================================================
