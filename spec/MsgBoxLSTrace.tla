--------------------------- MODULE MsgBoxLSTrace ---------------------------
(***************************************************************************)
(* Trace specification for the gated replays of harness/cmd/drv/box.go:    *)
(* every line is one scheduler step of one logical thread on a real        *)
(* msg.Box.  The model takes the same step (MsgBoxLS!Step); the yield      *)
(* point reached and the projected state (snapshot through the verif       *)
(* accessor) are compared (-> drift); the C14 monitors are evaluated on    *)
(* the OBSERVED hand-off log, buffers and locks at the end of the run.     *)
(***************************************************************************)
EXTENDS MsgBoxLS, Json

CONSTANTS TraceFile
Trace == ndJsonDeserialize(TraceFile)

VARIABLES l, tid, drift, ohanded, osent, oleft

tvars == <<vars, l, tid, drift, ohanded, osent, oleft>>

Line == Trace[l]
Rng(s) == {s[i] : i \in DOMAIN s}

TInit == Init /\ l = 1 /\ tid = -1 /\ drift = "" /\ ohanded = <<>> /\ osent = {} /\ oleft = FALSE

Reset ==
  /\ Line.e = "reset"
  /\ started' = {} /\ pend' = [t \in Topics |-> Absent] /\ hand' = [t \in Topics |-> Absent]
  /\ inflight' = {} /\ hlock' = [t \in Topics |-> ""] /\ handed' = <<>> /\ fsent' = <<>> /\ th' = [t \in Threads |-> InitThread(t)]
  /\ ev' = ""
  /\ startedAt' = [t \in Topics |-> 0] /\ epoch' = 0 /\ lastGC' = 0 /\ used' = [t \in Topics |-> 0] /\ swept' = {} /\ lateIds' = {}
  /\ tid' = Line.t /\ drift' = "" /\ ohanded' = <<>> /\ osent' = {} /\ oleft' = FALSE

Ids(s) == [i \in DOMAIN s |-> s[i].id]

\* projection of the model state in the shape of the logged snapshot
BufOK(snap, b) == \A i \in DOMAIN snap :
                     LET tp == snap[i].t IN
                     /\ snap[i].has = b[tp].has
                     /\ (b[tp].has => snap[i].ids = Ids(b[tp].msgs))

PCAfter(t) == IF th'[t].stk = <<>> THEN "done" ELSE th'[t].stk[Len(th'[t].stk)].pc

StepEv ==
  /\ Line.e = "step"
  /\ LET t == Line.th IN
     IF t \notin Threads \/ th[t].stk = <<>> \/ ~ENABLED Step(t)
       THEN /\ UNCHANGED vars
            /\ drift' = IF drift = "" THEN "step of a thread the model considers finished or blocked @line " \o ToString(l) ELSE drift
       ELSE /\ Step(t)
            /\ drift' = IF drift # "" THEN drift
                        ELSE IF PC(t) # Line.pc THEN "yield point differs @line " \o ToString(l)
                        ELSE IF PCAfter(t) # Line.next THEN "next yield point differs @line " \o ToString(l)
                        ELSE IF ~BufOK(Line.pend, pend') THEN "buffered messages differ @line " \o ToString(l)
                        ELSE IF ~BufOK(Line.hand, hand') THEN "hand-over queue differs @line " \o ToString(l)
                        ELSE IF Rng(Line.started) # started' THEN "started topics differ @line " \o ToString(l)
                        ELSE IF {<<x[1], x[2]>> : x \in Rng(Line.infl)} # inflight' THEN "in-flight bookkeeping differs @line " \o ToString(l)
                        ELSE IF Line.handed # handed' THEN "hand-off log differs @line " \o ToString(l)
                        ELSE IF Line.fsent # fsent' THEN "forwarded sends differ @line " \o ToString(l)
                        ELSE IF Line.epoch # epoch' THEN "epoch differs @line " \o ToString(l)
                        ELSE ""
  /\ ohanded' = Line.handed /\ osent' = Rng(Line.fsent)
  \* observed: a message is still buffered for a topic on which the party has sent, or a hand-over queue still exists
  \* (a topic whose started mark the collector has swept holds later arrivals again, by design)
  /\ oleft' = \E i \in DOMAIN Line.pend : (Line.pend[i].has /\ Line.pend[i].t \in Rng(Line.fsent) /\ Line.pend[i].t \notin swept') \/ Line.hand[i].has
  /\ UNCHANGED tid

SkipEv == Line.e = "skip" /\ UNCHANGED <<vars, tid, drift, ohanded, osent, oleft>>

EndEv ==
  /\ Line.e = "end"
  /\ LET viols == {m[1] : m \in {mm \in {<<"ExactlyOnce", ExactlyOnceOn(ohanded, osent)>>,
                                           <<"PerSenderOrder", PerSenderOrderOn(ohanded)>>,
                                           <<"NoDup", NoDupOn(ohanded)>>,
                                           <<"NothingLeftBehind", Line.hung \/ ~oleft>>,
                                           <<"NoPanic", Line.panic = "">>,
                                           <<"NoDeadlock", ~Line.hung>>} : ~mm[2]}}
     IN /\ \A v \in viols : PrintT(<<"VIOL", ToJson([t |-> tid, l |-> l, mon |-> v])>>)
        /\ PrintT(<<"END", ToJson([t |-> tid, drift |-> IF drift = "" /\ ~Line.hung /\ ~Terminal THEN "the model has not terminated at the end of the run" ELSE drift])>>)
  /\ UNCHANGED <<vars, tid, drift, ohanded, osent, oleft>>

TNext == /\ l <= Len(Trace) /\ l' = l + 1
         /\ (Reset \/ StepEv \/ SkipEv \/ EndEv)
=============================================================================
