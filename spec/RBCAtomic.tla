----------------------------- MODULE RBCAtomic -----------------------------
(***************************************************************************)
(* A lemma behind spec/RBC.tla and its binding.  RBC.tla models            *)
(* rbc.Receiver.Receive as ONE atomic action per message (the code puts    *)
(* the instance behind threshold's threadSafeRBC: "one message at a time   *)
(* per instance").  Part 1 shows what the assumption is worth: two         *)
(* transmissions of one sender and round with different digests reach one  *)
(* instance from two threads (two connections of the transport); Receive   *)
(* reads "is another digest pinned for (sender, round)?" and then either   *)
(* halts the instance or pins its own digest.  With Atomic = TRUE every    *)
(* run ends with the instance halted and one digest pinned; with           *)
(* Atomic = FALSE (check and write are separate steps) TLC finds the run   *)
(* in which both digests are pinned and nothing halts -- the instance      *)
(* would go on to vouch for both, and two honest parties can deliver       *)
(* different payloads (Agreement of RBC.tla is lost).                      *)
(* Part 2 evaluates the probe of harness/cmd/drv/rbcser.go: a real Scheme  *)
(* gets two messages of a live session from two goroutines while the       *)
(* first is held inside the instance; the second must not enter.           *)
(***************************************************************************)
EXTENDS Integers, FiniteSets, Sequences, TLC, Json

CONSTANTS Atomic, TraceFile

VARIABLES pinned, halted, pc, saw, l

Threads == {1, 2}
Digest(t) == t

Init == /\ pinned = {} /\ halted = FALSE /\ pc = [t \in Threads |-> "check"] /\ saw = [t \in Threads |-> FALSE] /\ l = 0

Conflict(t) == \E d \in pinned : d # Digest(t)

Write(t, c) == IF c THEN halted' = TRUE /\ UNCHANGED pinned
                    ELSE pinned' = pinned \cup {Digest(t)} /\ UNCHANGED halted

Check(t) == /\ pc[t] = "check" /\ saw' = [saw EXCEPT ![t] = Conflict(t)] /\ pc' = [pc EXCEPT ![t] = "write"]
            /\ UNCHANGED <<pinned, halted, l>>
Apply(t) == /\ pc[t] = "write" /\ Write(t, saw[t]) /\ pc' = [pc EXCEPT ![t] = "done"] /\ UNCHANGED <<saw, l>>
Whole(t) == /\ pc[t] = "check" /\ Write(t, Conflict(t)) /\ pc' = [pc EXCEPT ![t] = "done"] /\ UNCHANGED <<saw, l>>

Next == \E t \in Threads : IF Atomic THEN Whole(t) ELSE (Check(t) \/ Apply(t))

ConflictDetected == (\A t \in Threads : pc[t] = "done") => (halted /\ Cardinality(pinned) = 1)

-----------------------------------------------------------------------------
Results == IF TraceFile = "" THEN <<>> ELSE ndJsonDeserialize(TraceFile)

TInit == Init
TNext == /\ l < Len(Results) /\ l' = l + 1
         /\ LET r == Results[l + 1] IN
            /\ r.overlap => PrintT(<<"VIOL", ToJson([t |-> r.t, mon |-> "OneMessageAtATime", mode |-> r.mode, second |-> r.second])>>)
            /\ r.setup # "" => PrintT(<<"DRIFT", ToJson([t |-> r.t, what |-> r.setup])>>)
            /\ (l + 1 = Len(Results)) => PrintT(<<"END", ToJson([n |-> Len(Results)])>>)
         /\ UNCHANGED <<pinned, halted, pc, saw>>
=============================================================================
