// Package scripted provides harness-controlled stand-ins for the injection points of threshold.Scheme:
// an MPC back end (KeyGenerator + Signer) that records everything it is handed and sends what it is told to,
// a stub synchroniser, and a silent logger.
package scripted

import (
	"context"
	"fmt"
	"sync"
	"time"
)

// Payload wire format of the scripted back end: [cls 'B'|'P'][round][content...]
func EncodePayload(cls byte, round uint8, content []byte) []byte {
	b := []byte{cls, round}
	return append(b, content...)
}

func DecodePayload(b []byte) (cls byte, round uint8, content []byte, ok bool) {
	if len(b) < 2 || (b[0] != 'B' && b[0] != 'P') {
		return 0, 0, nil, false
	}
	return b[0], b[1], b[2:], true
}

type OnMsgRec struct {
	Payload   []byte
	From      uint16
	Broadcast bool
}

type Result struct {
	Data []byte
	Err  error
}

type Backend struct {
	ID uint16

	mu          sync.Mutex
	InitCalls   int
	InitParties []uint16
	InitThresh  int
	send        func(msg []byte, isBroadcast bool, to uint16)
	Log         []OnMsgRec
	ShareData   []byte
	ShareErr    error // returned by SetShareData
	Digest      []byte

	Started chan struct{} // closed when KeyGen/Sign was entered
	Release chan Result   // KeyGen/Sign returns what is sent here (or ctx error)
	once    sync.Once

	OnHandOver func(rec OnMsgRec) // called synchronously from OnMsg
	InitDelay  time.Duration      // Init takes that long (the window between the end of the first synchronisation and a usable back end)
	Strict     bool               // like the real BLS / PS back ends: a message before Init has completed is fatal (uninitialised state)
	inited     bool
	IgnoreCtx  bool               // KeyGen/Sign return only when released (models a back end that outlives its context)
}

func NewBackend(id uint16) *Backend {
	return &Backend{ID: id, Started: make(chan struct{}), Release: make(chan Result, 1)}
}

func (b *Backend) ClassifyMsg(msg []byte) (uint8, bool, error) {
	cls, r, _, ok := DecodePayload(msg)
	if !ok {
		return 0, false, fmt.Errorf("scripted: malformed payload")
	}
	return r, cls == 'B', nil
}

func (b *Backend) Init(parties []uint16, threshold int, sendMsg func(msg []byte, isBroadcast bool, to uint16)) {
	if b.InitDelay > 0 {
		time.Sleep(b.InitDelay)
	}
	b.mu.Lock()
	defer b.mu.Unlock()
	b.inited = true
	b.InitCalls++
	b.InitParties = append([]uint16(nil), parties...)
	b.InitThresh = threshold
	b.send = sendMsg
}

func (b *Backend) OnMsg(msg []byte, from uint16, broadcast bool) {
	rec := OnMsgRec{Payload: append([]byte(nil), msg...), From: from, Broadcast: broadcast}
	b.mu.Lock()
	if b.Strict && !b.inited {
		b.mu.Unlock()
		panic("scripted back end: OnMsg before Init has completed (the real back ends dereference uninitialised state here)")
	}
	b.Log = append(b.Log, rec)
	h := b.OnHandOver
	b.mu.Unlock()
	if h != nil {
		h(rec)
	}
}

func (b *Backend) run(ctx context.Context) ([]byte, error) {
	b.once.Do(func() { close(b.Started) })
	if b.IgnoreCtx {
		r := <-b.Release
		return r.Data, r.Err
	}
	select {
	case r := <-b.Release:
		return r.Data, r.Err
	case <-ctx.Done():
		return nil, ctx.Err()
	}
}

func (b *Backend) KeyGen(ctx context.Context) ([]byte, error) { return b.run(ctx) }

func (b *Backend) Sign(ctx context.Context, msg []byte) ([]byte, error) {
	b.mu.Lock()
	b.Digest = append([]byte(nil), msg...)
	b.mu.Unlock()
	return b.run(ctx)
}

func (b *Backend) SetShareData(d []byte) error {
	b.mu.Lock()
	defer b.mu.Unlock()
	b.ShareData = d
	return b.ShareErr
}

func (b *Backend) ThresholdPK() ([]byte, error) { return []byte("scripted-pk"), nil }

// Emit makes the back end send a message through the sendMsg closure it was initialised with.
func (b *Backend) Emit(msg []byte, broadcast bool, to uint16) error {
	b.mu.Lock()
	s := b.send
	b.mu.Unlock()
	if s == nil {
		return fmt.Errorf("back end %d not initialised", b.ID)
	}
	s(msg, broadcast, to)
	return nil
}

func (b *Backend) Snapshot() (initCalls int, parties []uint16, thresh int, log []OnMsgRec) {
	b.mu.Lock()
	defer b.mu.Unlock()
	return b.InitCalls, append([]uint16(nil), b.InitParties...), b.InitThresh, append([]OnMsgRec(nil), b.Log...)
}

func (b *Backend) WaitStarted(d time.Duration) bool {
	select {
	case <-b.Started:
		return true
	case <-time.After(d):
		return false
	}
}

// StubSync is a synchroniser whose outcome is chosen by the harness.
type StubSync struct {
	// Plan decides the outcome of Synchronize for a topic; it may block (until ctx is done) to model a sync that never completes.
	Plan func(ctx context.Context, topic []byte, expected int) ([]uint16, error)
	// Handled records messages routed to this synchroniser instance.
	mu      sync.Mutex
	Handled []SyncRec
	OnMsg   func(from uint16, msg []byte)
}

type SyncRec struct {
	From uint16
	Msg  []byte
}

func (s *StubSync) Synchronize(ctx context.Context, f func([]uint16), topic []byte, expected int, _ time.Duration) error {
	members, err := s.Plan(ctx, topic, expected)
	if err != nil {
		return err
	}
	f(members)
	return nil
}

func (s *StubSync) HandleMessage(from uint16, msg []byte) {
	s.mu.Lock()
	s.Handled = append(s.Handled, SyncRec{From: from, Msg: append([]byte(nil), msg...)})
	h := s.OnMsg
	s.mu.Unlock()
	if h != nil {
		h(from, msg)
	}
}

// Logger is a silent logger satisfying every Logger interface of IBM/TSS.
type Logger struct{}

func (Logger) DebugEnabled() bool            { return false }
func (Logger) Debugf(string, ...interface{}) {}
func (Logger) Infof(string, ...interface{})  {}
func (Logger) Warnf(string, ...interface{})  {}
func (Logger) Errorf(string, ...interface{}) {}
