package main

import (
	"fmt"
	"strings"
	"sync"
	"time"

	tss "github.com/IBM/TSS/types"

	"verif/harness/internal/scripted"
)

// rbcser: the binding of the modelling assumption "Receive is atomic per instance" of spec/RBC.tla (lemma spec/RBCAtomic.tla: without
// it a conflicting pair of transmissions can both be pinned and the instance does not halt).  A real Scheme in a live session gets
// two messages of the session from two goroutines; the first is held INSIDE the reliable-broadcast instance (the Logger of the Scheme
// blocks in the first debug line the instance emits); the probe observes whether the second one enters the instance meanwhile.

type serCase struct {
	Mode   string `json:"mode"`   // "keygen" | "sign"
	Second string `json:"second"` // what the second goroutine delivers: "conflict" | "same" | "ack" | "p2p" | "other-round"
}

type serJob struct {
	Cases []serCase `json:"cases"`
}

type gateLogger struct {
	scripted.Logger
	mu      sync.Mutex
	armed   bool
	inside  int           // goroutines currently between their first instance-level debug line and their return
	entered chan struct{} // signalled when the first goroutine is inside
	release chan struct{}
	second  chan struct{} // signalled when another goroutine emits an instance-level debug line while the first is held
	holder  int64
}

func instanceLine(format string) bool {
	for _, p := range []string{"Registering", "Got ack", "Got point to point", "Got broadcast", "Detected conflicting", "Collected enough", "more acknowledgements"} {
		if strings.HasPrefix(format, p) || strings.Contains(format, p) {
			return true
		}
	}
	return false
}

func (g *gateLogger) DebugEnabled() bool { return true }
func (g *gateLogger) Debugf(format string, a ...interface{}) {
	if !instanceLine(format) {
		return
	}
	id := goid()
	g.mu.Lock()
	if !g.armed {
		g.mu.Unlock()
		return
	}
	if g.holder == 0 {
		g.holder = id
		g.mu.Unlock()
		g.entered <- struct{}{}
		<-g.release
		return
	}
	if g.holder != id {
		select {
		case g.second <- struct{}{}:
		default:
		}
	}
	g.mu.Unlock()
}
func (g *gateLogger) Warnf(format string, a ...interface{}) {
	if strings.Contains(format, "Equivocation detected") {
		g.Debugf("Registering (equivocation drop)")
	}
}

func rbcSerial(t int, c serCase) obj {
	res := obj{"t": t, "e": "serial", "mode": c.Mode, "second": c.Second, "overlap": false, "setup": "", "halted": false, "fwd": 0}
	g := &gateLogger{entered: make(chan struct{}, 1), release: make(chan struct{}), second: make(chan struct{}, 1)}
	cfg := rbcJobCfg{Mode: c.Mode, N: 3, Byz: []int{2, 3}, Rounds: []int{1, 2}, Contents: []string{"a", "b"}}
	s, err := newRBCSessionWith(cfg, func(int) tss.Logger { return g })
	if err != nil {
		res["setup"] = err.Error()
		return res
	}
	defer s.close()
	pl := func(x string, r int) obj { return obj{"cls": "B", "r": float64(r), "x": x} }
	first := obj{"k": "msg", "from": float64(2), "to": float64(1), "pl": pl("a", 1)}
	var second obj
	switch c.Second {
	case "conflict":
		second = obj{"k": "msg", "from": float64(2), "to": float64(1), "pl": pl("b", 1)}
	case "same":
		second = obj{"k": "msg", "from": float64(2), "to": float64(1), "pl": pl("a", 1)}
	case "ack":
		second = obj{"k": "ack", "from": float64(3), "to": float64(1), "s": float64(2), "r": float64(1), "d": pl("b", 1)}
	case "p2p":
		second = obj{"k": "msg", "from": float64(3), "to": float64(1), "pl": obj{"cls": "P", "r": float64(1), "x": "a"}}
	default:
		second = obj{"k": "msg", "from": float64(2), "to": float64(1), "pl": pl("b", 2)}
	}
	g.mu.Lock()
	g.armed = true
	g.mu.Unlock()
	deliver := func(m obj, done chan struct{}) {
		from, _, data := s.concrete(m)
		defer close(done)
		defer func() { recover() }()
		s.schemes[1].HandleMessage(&tss.IncMessage{Data: data, Source: from, MsgType: uint8(tss.MsgTypeMPC), Topic: s.topic})
	}
	d1, d2 := make(chan struct{}), make(chan struct{})
	go deliver(first, d1)
	select {
	case <-g.entered:
	case <-time.After(3 * time.Second):
		res["setup"] = "the first message never reached the instance"
		close(g.release)
		return res
	}
	go deliver(second, d2)
	select {
	case <-g.second:
		res["overlap"] = true
	case <-d2:
		// the second call returned while the first was still held inside the instance: it cannot have waited for it
		res["overlap"] = true
		res["returned_early"] = true
	case <-time.After(80 * time.Millisecond):
	}
	close(g.release)
	for _, d := range []chan struct{}{d1, d2} {
		select {
		case <-d:
		case <-time.After(3 * time.Second):
			res["setup"] = fmt.Sprint(res["setup"], " a delivery did not return")
		}
	}
	_, _, _, log := s.backends[1].Snapshot()
	res["fwd"] = len(log)
	return res
}

func init() {
	commands["rbcser"] = func() {
		var job serJob
		readJob(&job)
		em := newEmitter()
		defer em.flush()
		parallel(len(job.Cases), 4, func(i int) {
			em.lines([]obj{rbcSerial(i, job.Cases[i])})
		})
	}
}
