package main

import (
	"context"
	"crypto/rand"
	"crypto/sha256"
	"encoding/asn1"
	"fmt"
	"sync"
	"time"

	tss "github.com/IBM/TSS/types"
	math "github.com/IBM/mathlib"
)

// A deviating participant of the BLS key generation: it runs inside a real threshold.Scheme (so synchronisation and reliable
// broadcast are the real ones) but its MPC back end follows a strategy from the catalogue of spec/DKG.tla instead of the protocol.
// It speaks the wire format of mpc/bls/mpc.go (share = 1 || Zr, commitment = 2 || SHA-256(pk), reveal = 3 || pk) and uses mathlib to
// build algebraically meaningful deviations.

type byzPlan struct {
	Node     int    `json:"node"`
	Strategy string `json:"strategy"`
	Victims  []int  `json:"victims"`
}

type evilBLS struct {
	r       *stackRun
	node    int
	plan    *byzPlan
	parties []uint16
	t       int
	send    func(msg []byte, isBroadcast bool, to uint16)
	mu      sync.Mutex
	shares  map[uint16]*math.Zr
	commits map[uint16][]byte
	reveals map[uint16][]byte
}

var evilCurve = math.Curves[1]

func newEvilBLS(r *stackRun, node int, plan *byzPlan) *evilBLS {
	return &evilBLS{r: r, node: node, plan: plan, shares: map[uint16]*math.Zr{}, commits: map[uint16][]byte{}, reveals: map[uint16][]byte{}}
}

func (e *evilBLS) ClassifyMsg(b []byte) (uint8, bool, error) {
	if len(b) == 0 {
		return 0, false, fmt.Errorf("empty")
	}
	switch b[0] {
	case 1:
		return 1, false, nil
	case 2:
		return 2, true, nil
	case 3:
		return 3, true, nil
	}
	return 0, false, fmt.Errorf("invalid prefix")
}

func (e *evilBLS) Init(parties []uint16, threshold int, sendMsg func(msg []byte, isBroadcast bool, to uint16)) {
	e.parties = parties
	e.t = threshold
	e.send = sendMsg
}

func (e *evilBLS) OnMsg(b []byte, from uint16, _ bool) {
	if len(b) == 0 {
		return
	}
	e.mu.Lock()
	defer e.mu.Unlock()
	switch b[0] {
	case 1:
		if _, ok := e.shares[from]; !ok {
			e.shares[from] = evilCurve.NewZrFromBytes(b[1:])
		}
	case 2:
		if _, ok := e.commits[from]; !ok {
			e.commits[from] = b[1:]
		}
	case 3:
		if _, ok := e.reveals[from]; !ok {
			e.reveals[from] = b[1:]
		}
	}
}

func (e *evilBLS) wait(ctx context.Context, cond func() bool) bool {
	for {
		e.mu.Lock()
		ok := cond()
		e.mu.Unlock()
		if ok {
			return true
		}
		select {
		case <-ctx.Done():
			return false
		case <-time.After(300 * time.Microsecond):
		}
	}
}

func enc(kind byte, payload []byte) []byte { return append([]byte{kind}, payload...) }

func (e *evilBLS) isVictim(p uint16) bool {
	for _, v := range e.plan.Victims {
		if uint16(v) == p {
			return true
		}
	}
	return false
}

// "broadcast" a possibly different payload to every party (through the point-to-point path: the receivers classify the payload
// themselves, so it still enters their reliable broadcast)
func (e *evilBLS) scatter(payloadFor func(p uint16) []byte) {
	for _, p := range e.parties {
		if int(p) == e.node {
			continue
		}
		if pl := payloadFor(p); pl != nil {
			e.send(pl, false, p)
		}
	}
}

func (e *evilBLS) KeyGen(ctx context.Context) ([]byte, error) {
	s := e.plan.Strategy
	n := len(e.parties)
	myIdx := 0
	for i, p := range e.parties {
		if int(p) == e.node {
			myIdx = i + 1
		}
	}
	// polynomial of degree t-1
	coeffs := make([]*math.Zr, e.t)
	for i := range coeffs {
		coeffs[i] = evilCurve.NewRandomZr(rand.Reader)
	}
	eval := func(x int) *math.Zr {
		sum := evilCurve.NewZrFromInt(0)
		xp := evilCurve.NewZrFromInt(1)
		for i := 0; i < len(coeffs); i++ {
			sum = sum.Plus(xp.Mul(coeffs[i]))
			xp = xp.Mul(evilCurve.NewZrFromInt(int64(x)))
		}
		sum.Mod(evilCurve.GroupOrder)
		return sum
	}
	one := evilCurve.NewZrFromInt(1)
	sendShares := func() {
		for i, p := range e.parties {
			if int(p) == e.node {
				continue
			}
			sh := eval(i + 1)
			switch {
			case s == "offpoly-share" && e.isVictim(p):
				sh = sh.Plus(one)
				sh.Mod(evilCurve.GroupOrder)
			case s == "withhold-share" && e.isVictim(p):
				continue
			case s == "malformed-share" && e.isVictim(p):
				e.send([]byte{1}, false, p) // a share with no bytes at all
				continue
			case s == "wrong-tag" && e.isVictim(p):
				e.send(enc(9, sh.Bytes()), false, p)
				continue
			case s == "empty-payload" && e.isVictim(p):
				e.send([]byte{}, false, p)
				continue
			}
			e.send(enc(1, sh.Bytes()), false, p)
			if s == "duplicate-share" && e.isVictim(p) {
				e.send(enc(1, sh.Plus(one).Bytes()), false, p)
			}
		}
	}
	commitOf := func(pk []byte) []byte { d := sha256.Sum256(pk); return d[:] }
	if s == "early-reveal" {
		// reveal (and commit) a key before any share has been exchanged
		pk := evilCurve.GenG2.Mul(eval(myIdx)).Bytes()
		e.send(enc(3, pk), true, 0)
		e.send(enc(2, commitOf(pk)), true, 0)
	}
	sendShares()
	if !e.wait(ctx, func() bool { return len(e.shares) >= n-1 }) {
		return nil, fmt.Errorf("deviating party: no shares")
	}
	sk := eval(myIdx)
	e.mu.Lock()
	for _, sh := range e.shares {
		sk = sk.Plus(sh)
	}
	e.mu.Unlock()
	sk.Mod(evilCurve.GroupOrder)
	pkPoint := evilCurve.GenG2.Mul(sk)
	pk := pkPoint.Bytes()
	other := evilCurve.GenG2.Mul(sk.Plus(one)).Bytes() // a valid key that is off the common polynomial
	revealed := pk
	committed := commitOf(pk)
	switch s {
	case "offpoly-reveal":
		revealed, committed = other, commitOf(other)
	case "reveal-mismatch":
		revealed = other
	}
	if s == "empty-commit-rush" {
		// a commitment without content first; the honest parties then hold "a commitment" of everybody and reveal; having seen
		// their keys the deviating party solves for the key that makes the threshold key one of its own choosing, commits to it
		// (a second commitment) and reveals it
		e.send([]byte{2}, true, 0)
		if !e.wait(ctx, func() bool { return len(e.reveals) >= n-1 }) {
			return nil, fmt.Errorf("deviating party: the honest parties did not reveal")
		}
		points := make([]int64, n)
		for i := range points {
			points[i] = int64(i + 1)
		}
		lag := func(i int64) *math.Zr {
			prod := evilCurve.NewZrFromInt(1)
			for _, j := range points {
				if j == i {
					continue
				}
				den := evilCurve.ModSub(evilCurve.NewZrFromInt(j), evilCurve.NewZrFromInt(i), evilCurve.GroupOrder)
				den.InvModP(evilCurve.GroupOrder)
				prod = prod.Mul(evilCurve.NewZrFromInt(j).Mul(den))
			}
			return prod
		}
		target := evilCurve.GenG2.Mul(evilCurve.NewRandomZr(rand.Reader)) // the key the deviating party wants everybody to end up with
		acc := target.Copy()
		e.mu.Lock()
		for i, p := range e.parties {
			if int(p) == e.node {
				continue
			}
			if pt, err := evilCurve.NewG2FromBytes(e.reveals[p]); err == nil {
				acc.Sub(pt.Mul(lag(int64(i + 1))))
			}
		}
		e.mu.Unlock()
		li := lag(int64(myIdx))
		li.InvModP(evilCurve.GroupOrder)
		chosen := acc.Mul(li).Bytes()
		e.send(enc(2, commitOf(chosen)), true, 0)
		e.send(enc(3, chosen), true, 0)
		return nil, fmt.Errorf("deviating party does not produce a key")
	}
	if s != "early-reveal" {
		switch s {
		case "equivocate-commit":
			e.scatter(func(p uint16) []byte {
				if e.isVictim(p) {
					return enc(2, commitOf(other))
				}
				return enc(2, committed)
			})
		case "withhold-commit":
			e.scatter(func(p uint16) []byte {
				if e.isVictim(p) {
					return nil
				}
				return enc(2, committed)
			})
		case "duplicate-commit":
			e.send(enc(2, committed), true, 0)
			e.send(enc(2, commitOf(other)), true, 0)
		case "rushing":
			// wait for the honest parties' reveals before committing (they never come: nobody reveals before all commitments)
			if !e.wait(ctx, func() bool { return len(e.reveals) >= n-1 }) {
				return nil, fmt.Errorf("deviating party: rushing failed")
			}
			e.send(enc(2, committed), true, 0)
		default:
			e.send(enc(2, committed), true, 0)
		}
	}
	if s == "reveal-before-commits" {
		e.send(enc(3, revealed), true, 0)
	}
	if !e.wait(ctx, func() bool { return len(e.commits) >= n-1 }) {
		return nil, fmt.Errorf("deviating party: no commitments")
	}
	if s != "early-reveal" && s != "reveal-before-commits" {
		switch s {
		case "equivocate-reveal":
			e.scatter(func(p uint16) []byte {
				if e.isVictim(p) {
					return enc(3, other)
				}
				return enc(3, pk)
			})
		case "withhold-reveal":
			e.scatter(func(p uint16) []byte {
				if e.isVictim(p) {
					return nil
				}
				return enc(3, revealed)
			})
		case "malformed-reveal":
			e.send(enc(3, []byte("this is not a curve point")), true, 0)
		case "truncated-reveal":
			e.send(enc(3, pk[:len(pk)/2]), true, 0)
		case "empty-reveal":
			e.send([]byte{3}, true, 0)
		case "duplicate-reveal":
			e.send(enc(3, revealed), true, 0)
			e.send(enc(3, other), true, 0)
		default:
			e.send(enc(3, revealed), true, 0)
		}
	}
	e.wait(ctx, func() bool { return len(e.reveals) >= n-1 })
	return nil, fmt.Errorf("deviating party does not produce a key")
}

// tamperPS is a PS participant that follows the protocol (a real ps.TPS) except that it alters what it sends: one component of
// the share dealt to each victim is moved off the polynomial.
type tamperPS struct {
	stash []byte
	inner tss.KeyGenerator
	plan  *byzPlan
}

type psXYs struct {
	X  []byte
	Ys [][]byte
}

func (t *tamperPS) ClassifyMsg(b []byte) (uint8, bool, error)  { return t.inner.ClassifyMsg(b) }
func (t *tamperPS) OnMsg(b []byte, from uint16, bc bool)       { t.inner.OnMsg(b, from, bc) }
func (t *tamperPS) KeyGen(ctx context.Context) ([]byte, error) { return t.inner.KeyGen(ctx) }
func (t *tamperPS) Init(parties []uint16, threshold int, sendMsg func(msg []byte, isBroadcast bool, to uint16)) {
	victim := func(p uint16) bool {
		for _, v := range t.plan.Victims {
			if uint16(v) == p {
				return true
			}
		}
		return false
	}
	bump := func(b []byte) []byte {
		z := evilCurve.NewZrFromBytes(b).Plus(evilCurve.NewZrFromInt(1))
		z.Mod(evilCurve.GroupOrder)
		return z.Bytes()
	}
	t.inner.Init(parties, threshold, func(msg []byte, isBroadcast bool, to uint16) {
		if len(msg) > 1 && msg[0] == 1 && victim(to) {
			var x psXYs
			if _, err := asn1.Unmarshal(msg[1:], &x); err == nil && len(x.Ys) > 0 {
				switch t.plan.Strategy {
				case "ps-offpoly-share-x":
					x.X = bump(x.X)
				case "ps-offpoly-share-y-first":
					x.Ys[0] = bump(x.Ys[0])
				case "ps-offpoly-share-y-last":
					x.Ys[len(x.Ys)-1] = bump(x.Ys[len(x.Ys)-1])
				}
				if b, err := asn1.Marshal(x); err == nil {
					msg = append([]byte{1}, b...)
				}
			}
		}
		// commitments must be binding: first-value-wins.  The participant first broadcasts an EMPTY commitment, and commits for real only
		// together with (just before) its reveal, i.e. after it has seen the keys of everybody else
		if t.plan.Strategy == "ps-empty-commit-then-real" || t.plan.Strategy == "ps-garbage-commit-then-real" {
			if len(msg) > 1 && msg[0] == 2 && isBroadcast {
				t.stash = append([]byte(nil), msg...)
				if t.plan.Strategy == "ps-empty-commit-then-real" {
					sendMsg([]byte{2}, true, to)
				} else {
					sendMsg(append([]byte{2}, make([]byte, 32)...), true, to)
				}
				return
			}
			if len(msg) > 1 && msg[0] == 3 && isBroadcast && t.stash != nil {
				sendMsg(t.stash, true, to)
				t.stash = nil
			}
		}
		sendMsg(msg, isBroadcast, to)
	})
}
