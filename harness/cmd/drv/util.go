package main

import (
	"bufio"
	"bytes"
	"encoding/json"
	"fmt"
	"io"
	"os"
	"os/exec"
	"strings"
	"sync"
	"syscall"
	"time"
)

func readJob(v interface{}) {
	data, err := io.ReadAll(os.Stdin)
	if err != nil {
		fatal("reading job: %v", err)
	}
	if err := json.Unmarshal(data, v); err != nil {
		fatal("parsing job: %v", err)
	}
}

func fatal(format string, a ...interface{}) {
	fmt.Fprintf(os.Stderr, "drv: "+format+"\n", a...)
	os.Exit(2)
}

type obj = map[string]interface{}

// emitter serialises ndjson lines to stdout.
type emitter struct {
	mu sync.Mutex
	w  *bufio.Writer
}

func newEmitter() *emitter { return &emitter{w: bufio.NewWriterSize(os.Stdout, 1<<20)} }

func (e *emitter) lines(ls []obj) {
	e.mu.Lock()
	defer e.mu.Unlock()
	for _, l := range ls {
		b, err := json.Marshal(l)
		if err != nil {
			fatal("marshal: %v", err)
		}
		e.w.Write(b)
		e.w.WriteByte('\n')
	}
}

func (e *emitter) flush() {
	e.mu.Lock()
	defer e.mu.Unlock()
	e.w.Flush()
}

func canon(v interface{}) string {
	b, _ := json.Marshal(v) // maps are marshalled with sorted keys
	return string(b)
}

// parallel runs f(i) for i in [0,n) on `workers` goroutines.
func parallel(n, workers int, f func(i int)) {
	if workers < 1 {
		workers = 1
	}
	var wg sync.WaitGroup
	ch := make(chan int)
	for w := 0; w < workers; w++ {
		wg.Add(1)
		go func() {
			defer wg.Done()
			for i := range ch {
				f(i)
			}
		}()
	}
	for i := 0; i < n; i++ {
		ch <- i
	}
	close(ch)
	wg.Wait()
}

// runInChildren executes items [0,n) in child processes (sub-command `child` of this binary), `chunk` items per child. Every item
// must produce lines {"t":<index>,"e":"reset"} ... {"t":<index>,"e":"end"}. If a child dies, the item that was running gets a
// synthetic {"e":"crash"} line followed by {"e":"end"}, and the remaining items of the chunk are run in a new child.
func runInChildren(child string, n, workers, chunk int, mkJob func(lo, hi int) interface{}, em *emitter) {
	type span struct{ lo, hi int }
	var mu sync.Mutex
	retried := map[int]bool{}
	queue := []span{}
	for lo := 0; lo < n; lo += chunk {
		hi := lo + chunk
		if hi > n {
			hi = n
		}
		queue = append(queue, span{lo, hi})
	}
	next := func() (span, bool) {
		mu.Lock()
		defer mu.Unlock()
		if len(queue) == 0 {
			return span{}, false
		}
		s := queue[0]
		queue = queue[1:]
		return s, true
	}
	var wg sync.WaitGroup
	for w := 0; w < workers; w++ {
		wg.Add(1)
		go func() {
			defer wg.Done()
			for {
				sp, ok := next()
				if !ok {
					return
				}
				for sp.lo < sp.hi {
					in, _ := json.Marshal(mkJob(sp.lo, sp.hi))
					// watchdog: a child that is wedged (e.g. a lock of the code under test that is never released) is killed
					cmd := exec.Command(os.Args[0], child)
					cmd.Stdin = bytes.NewReader(in)
					var out, errb bytes.Buffer
					cmd.Stdout = &out
					cmd.Stderr = &errb
					hung := false
					runErr := cmd.Start()
					if runErr == nil {
						waitCh := make(chan error, 1)
						go func() { waitCh <- cmd.Wait() }()
						select {
						case runErr = <-waitCh:
						case <-time.After(time.Duration(45+20*(sp.hi-sp.lo)) * time.Second):
							// wedged: ask the Go runtime for the stacks of all goroutines (SIGQUIT), then make sure it is gone
							hung = true
							cmd.Process.Signal(syscall.SIGQUIT)
							select {
							case runErr = <-waitCh:
							case <-time.After(5 * time.Second):
								cmd.Process.Kill()
								runErr = <-waitCh
							}
						}
					}
					// split the output into items
					done := sp.lo
					var cur []obj
					curT := -1
					for _, line := range strings.Split(out.String(), "\n") {
						if line == "" {
							continue
						}
						var o obj
						if json.Unmarshal([]byte(line), &o) != nil {
							continue
						}
						if o["e"] == "reset" {
							cur = nil
							curT = int(o["t"].(float64))
						}
						cur = append(cur, o)
						if o["e"] == "end" {
							em.lines(cur)
							cur = nil
							done = curT + 1
							curT = -1
						}
					}
					if runErr == nil && done >= sp.hi {
						break
					}
					// the child died while item `done` was running (or before it started it)
					t := done
					if hung && !lockWedge(errb.String()) {
						// a wedge may be the machine (an overloaded sandbox), not the code: the item is run once more, alone --
						// unless the goroutine dump shows code of the repository waiting for a lock for minutes (a deadlock)
						mu.Lock()
						again := !retried[t]
						retried[t] = true
						mu.Unlock()
						if again {
							fmt.Fprintf(os.Stderr, "WEDGE-RETRY child=%s item=%d\n%s\n", child, t, errb.String())
							mu.Lock()
							queue = append(queue, span{t + 1, sp.hi})
							mu.Unlock()
							sp = span{t, t + 1}
							continue
						}
					}
					if cur == nil {
						cur = []obj{{"t": t, "e": "reset"}}
					}
					tail := errb.String()
					if hung {
						// keep the interesting part of the goroutine dump: frames of the code under test and of the harness
						var keep []string
						for _, ln := range strings.Split(tail, "\n") {
							if strings.HasPrefix(ln, "goroutine ") || strings.Contains(ln, "/repo/") || strings.Contains(ln, "cmd/drv/") {
								keep = append(keep, strings.TrimSpace(ln))
							}
						}
						tail = "the child process was wedged and had to be killed; " + strings.Join(keep, " | ")
						if len(tail) > 12000 {
							tail = tail[:12000]
						}
					} else if len(tail) > 1500 {
						tail = tail[:1500]
					}
					cur = append(cur, obj{"t": t, "e": "crash", "hang": hung, "detail": tail}, obj{"t": t, "e": "end"})
					em.lines(cur)
					sp.lo = t + 1
				}
			}
		}()
	}
	wg.Wait()
}

// lockWedge: does the goroutine dump of a wedged child show a goroutine that has been waiting for a mutex for minutes with a
// frame of the code under test on its stack?
func lockWedge(dump string) bool {
	for _, block := range strings.Split(dump, "\n\n") {
		head := block
		if i := strings.IndexByte(block, '\n'); i >= 0 {
			head = block[:i]
		}
		if !strings.HasPrefix(head, "goroutine ") || !strings.Contains(head, "minutes]") {
			continue
		}
		if (strings.Contains(head, "Mutex.Lock") || strings.Contains(head, "Mutex.RLock") || strings.Contains(head, "semacquire")) && strings.Contains(block, "/repo/") {
			return true
		}
	}
	return false
}
