package main

import (
	"bufio"
	"encoding/json"
	"fmt"
	"io"
	"os"
	"sync"
)

func readJob(v interface{}) {
	data, err := io.ReadAll(os.Stdin)
	if err != nil {
		fatal("reading job: %v", err)
	}
	if err := json.Unmarshal(data, v); err != nil {
		fatal("parsing job: %v", err)
	}
}

func fatal(format string, a ...interface{}) {
	fmt.Fprintf(os.Stderr, "drv: "+format+"\n", a...)
	os.Exit(2)
}

type obj = map[string]interface{}

// emitter serialises ndjson lines to stdout.
type emitter struct {
	mu sync.Mutex
	w  *bufio.Writer
}

func newEmitter() *emitter { return &emitter{w: bufio.NewWriterSize(os.Stdout, 1<<20)} }

func (e *emitter) lines(ls []obj) {
	e.mu.Lock()
	defer e.mu.Unlock()
	for _, l := range ls {
		b, err := json.Marshal(l)
		if err != nil {
			fatal("marshal: %v", err)
		}
		e.w.Write(b)
		e.w.WriteByte('\n')
	}
}

func (e *emitter) flush() {
	e.mu.Lock()
	defer e.mu.Unlock()
	e.w.Flush()
}

func canon(v interface{}) string {
	b, _ := json.Marshal(v) // maps are marshalled with sorted keys
	return string(b)
}

// parallel runs f(i) for i in [0,n) on `workers` goroutines.
func parallel(n, workers int, f func(i int)) {
	if workers < 1 {
		workers = 1
	}
	var wg sync.WaitGroup
	ch := make(chan int)
	for w := 0; w < workers; w++ {
		wg.Add(1)
		go func() {
			defer wg.Done()
			for i := range ch {
				f(i)
			}
		}()
	}
	for i := 0; i < n; i++ {
		ch <- i
	}
	close(ch)
	wg.Wait()
}
