package main

import (
	"context"
	"encoding/asn1"
	"encoding/hex"
	"fmt"
	"math/rand"
	"sync"
	"time"

	"github.com/IBM/TSS/mpc/bls"
	"github.com/IBM/TSS/mpc/ps"
	math "github.com/IBM/mathlib"

	"verif/harness/internal/scripted"
)

// c10 entry points of the built-in schemes: DKG message classifiers / handlers in every phase, signing-request, signature and
// proof verification entry points. Valid inputs are produced by the library itself (an in-process DKG and a complete
// blind-sign / unblind / prove run) and then mutated along their structure.

type dkgParty interface {
	ClassifyMsg([]byte) (uint8, bool, error)
	Init(parties []uint16, threshold int, sendMsg func(msg []byte, isBroadcast bool, to uint16))
	OnMsg(msgBytes []byte, from uint16, broadcast bool)
	KeyGen(ctx context.Context) ([]byte, error)
}

type captured struct {
	kind int
	from uint16
	data []byte
}

// run an in-process DKG of three parties; returns the stored data of each and every message addressed to party 1
func runDKG(mk func(id uint16) dkgParty) (stored [][]byte, toOne []captured, parties []dkgParty, err error) {
	parties = []dkgParty{mk(1), mk(2), mk(3)}
	var mu sync.Mutex
	for i, p := range parties {
		from := uint16(i + 1)
		p.Init([]uint16{1, 2, 3}, 2, func(m []byte, bc bool, to uint16) {
			cp := append([]byte(nil), m...)
			for j, q := range parties {
				dst := uint16(j + 1)
				if dst == from || (!bc && dst != to) {
					continue
				}
				if dst == 1 {
					mu.Lock()
					toOne = append(toOne, captured{kind: int(cp[0]), from: from, data: cp})
					mu.Unlock()
				}
				q.OnMsg(cp, from, bc)
			}
		})
	}
	stored = make([][]byte, 3)
	var wg sync.WaitGroup
	errs := make([]error, 3)
	for i, p := range parties {
		wg.Add(1)
		go func(i int, p dkgParty) {
			defer wg.Done()
			ctx, cancel := context.WithTimeout(context.Background(), 20*time.Second)
			defer cancel()
			stored[i], errs[i] = p.KeyGen(ctx)
		}(i, p)
	}
	wg.Wait()
	for _, e := range errs {
		if e != nil {
			return nil, nil, nil, e
		}
	}
	return
}

func mkBLS(id uint16) dkgParty { return &bls.TBLS{Logger: scripted.Logger{}, Party: id} }
func mkPS(id uint16) dkgParty {
	return &ps.TPS{Logger: scripted.Logger{}, Party: id, Curve: math.Curves[1], MessageLength: 2}
}

// structure-aware mutations shared by the crypto entry points
func cryptoMutate(valid []byte, cls string, rng *rand.Rand, flips int) [][]byte {
	n := len(valid)
	bounds := []int{1, 2, 3, n / 4, n / 2, n - 1, n}
	switch cls {
	case "bad-curve-point":
		// keep the framing, destroy the payload: all zero, all 0xff, random bytes of the same length
		var res [][]byte
		for _, fill := range []int{0, 255, -1} {
			m := append([]byte(nil), valid...)
			for i := 1; i < len(m); i++ {
				if fill >= 0 {
					m[i] = byte(fill)
				} else {
					m[i] = byte(rng.Intn(256))
				}
			}
			res = append(res, m)
		}
		return res
	case "length-field-lies":
		// ASN.1: bump / shrink every plausible length octet
		var res [][]byte
		for i := 1; i < n && i < 40; i++ {
			for _, d := range []int{1, -1, 100} {
				m := append([]byte(nil), valid...)
				m[i] = byte(int(m[i]) + d)
				res = append(res, m)
			}
		}
		return res
	}
	return c10Mutate(valid, bounds, 0, cls, rng, flips)
}

// ASN.1 mirrors of the PS encodings
type xys struct {
	X  []byte
	Ys [][]byte
}
type rawBlindSig struct {
	CorrectFormProof []byte
	CM               []byte
	MPrime           []byte
	U                []byte
	A, B             [][]byte
}
type rawCorrectProof struct {
	X, Y [][]byte
	S    []byte
	Z    []byte
	D, F [][]byte
}
type rawSigPok struct{ Data [][]byte }
type rawPoK struct {
	X     [][]byte
	Y     []byte
	Gamma []byte
	Phi   []byte
}
type rawTPK struct {
	TPK        []byte
	PublicKeys [][]byte
}

func remarshal(v interface{}) []byte { b, _ := asn1.Marshal(v); return b }

// wrong component counts for every PS structure
func psWrongCounts(kind string, valid []byte) [][]byte {
	var res [][]byte
	drop := func(l [][]byte) [][]byte { return l[:len(l)-1] }
	add := func(l [][]byte) [][]byte { return append(append([][]byte(nil), l...), l[0]) }
	switch kind {
	case "share", "reveal", "key":
		var x xys
		if _, err := asn1.Unmarshal(valid, &x); err == nil && len(x.Ys) > 0 {
			for _, f := range []func([][]byte) [][]byte{drop, add, func([][]byte) [][]byte { return nil }} {
				res = append(res, remarshal(xys{X: x.X, Ys: f(x.Ys)}))
			}
		}
	case "request":
		var r rawBlindSig
		if _, err := asn1.Unmarshal(valid, &r); err == nil {
			for _, f := range []func([][]byte) [][]byte{drop, add, func([][]byte) [][]byte { return nil }} {
				a := r
				a.A = f(r.A)
				res = append(res, remarshal(a))
				b := r
				b.B = f(r.B)
				res = append(res, remarshal(b))
				var p rawCorrectProof
				if _, err := asn1.Unmarshal(r.CorrectFormProof, &p); err == nil {
					for fi := 0; fi < 4; fi++ {
						q := p
						switch fi {
						case 0:
							q.X = f(p.X)
						case 1:
							q.Y = f(p.Y)
						case 2:
							q.D = f(p.D)
						case 3:
							q.F = f(p.F)
						}
						c := r
						c.CorrectFormProof = remarshal(q)
						res = append(res, remarshal(c))
					}
				}
			}
		}
	case "proof":
		var r rawSigPok
		if _, err := asn1.Unmarshal(valid, &r); err == nil && len(r.Data) == 5 {
			res = append(res, remarshal(rawSigPok{Data: r.Data[:4]}), remarshal(rawSigPok{Data: r.Data[:1]}), remarshal(rawSigPok{Data: nil}),
				remarshal(rawSigPok{Data: append(append([][]byte(nil), r.Data...), r.Data[0])}))
			var p rawPoK
			if _, err := asn1.Unmarshal(r.Data[0], &p); err == nil && len(p.X) > 0 {
				for _, f := range []func([][]byte) [][]byte{drop, add, func(l [][]byte) [][]byte { return append(add(l), l[0], l[0], l[0]) }, func([][]byte) [][]byte { return nil }} {
					q := p
					q.X = f(p.X)
					d := append([][]byte{remarshal(q)}, r.Data[1:]...)
					res = append(res, remarshal(rawSigPok{Data: d}))
				}
			}
		}
	case "public-params":
		var r rawTPK
		if _, err := asn1.Unmarshal(valid, &r); err == nil && len(r.PublicKeys) > 0 {
			res = append(res, remarshal(rawTPK{TPK: r.TPK, PublicKeys: drop(r.PublicKeys)}), remarshal(rawTPK{TPK: r.TPK, PublicKeys: nil}),
				remarshal(rawTPK{TPK: nil, PublicKeys: r.PublicKeys}))
			for _, k := range psWrongCounts("key", r.TPK) {
				res = append(res, remarshal(rawTPK{TPK: k, PublicKeys: r.PublicKeys}))
			}
			for _, k := range psWrongCounts("key", r.PublicKeys[0]) {
				res = append(res, remarshal(rawTPK{TPK: r.TPK, PublicKeys: append([][]byte{k}, r.PublicKeys[1:]...)}))
			}
		}
	}
	return res
}

// ---- DKG handlers ---------------------------------------------------------------------------------------------------------

func c10DKG(scheme string) func(c10Cell, *rand.Rand, int) []obj {
	mk := mkBLS
	if scheme == "ps" {
		mk = mkPS
	}
	return func(cell c10Cell, rng *rand.Rand, flips int) []obj {
		_, toOne, _, err := runDKG(mk)
		if err != nil {
			return []obj{{"id": fmt.Sprint(cell.ID), "ep": cell.EP, "st": cell.St, "kind": cell.Kind, "cls": cell.Cls, "panic": "", "hung": false, "probe": true,
				"skipped": "fixture DKG failed: " + err.Error()}}
		}
		kindNo := map[string]int{"share": 1, "commit": 2, "reveal": 3}[cell.Kind]
		var valid []byte
		for _, m := range toOne {
			if m.kind == kindNo && m.from == 2 {
				valid = m.data
			}
		}
		var muts [][]byte
		if cell.Cls == "wrong-component-count" {
			if scheme == "ps" && cell.Kind != "commit" {
				for _, m := range psWrongCounts(cell.Kind, valid[1:]) {
					muts = append(muts, append([]byte{valid[0]}, m...))
				}
			}
		} else if cell.Cls == "length-field-lies" {
			if scheme == "ps" && cell.Kind != "commit" {
				for _, m := range cryptoMutate(valid[1:], cell.Cls, rng, flips) {
					muts = append(muts, append([]byte{valid[0]}, m...))
				}
			}
		} else if cell.Cls == "bad-curve-point" {
			if cell.Kind == "reveal" {
				muts = cryptoMutate(valid, cell.Cls, rng, flips)
			}
		} else {
			muts = cryptoMutate(valid, cell.Cls, rng, flips)
		}
		var res []obj
		for k, m := range muts {
			// a fresh victim (party 1) brought into the required phase by replaying the captured messages of a complete run
			v := mk(1)
			v.Init([]uint16{1, 2, 3}, 2, func([]byte, bool, uint16) {})
			ctx, cancel := context.WithTimeout(context.Background(), 1500*time.Millisecond)
			done := make(chan string, 1)
			start := func() {
				go func() {
					defer func() {
						if r := recover(); r != nil {
							done <- fmt.Sprint(r)
						}
					}()
					v.KeyGen(ctx)
					done <- ""
				}()
			}
			feed := func(upto int, skipFrom uint16) {
				for _, c := range toOne {
					if c.kind <= upto && c.from != skipFrom {
						v.OnMsg(c.data, c.from, c.kind != 1)
					}
				}
			}
			switch cell.St {
			case "initialised":
			case "after-shares":
				start()
				feed(1, 0)
			case "after-commits":
				start()
				feed(2, 0)
			case "finished":
				start()
				feed(3, 0)
				<-done
			}
			p, hung := guarded(func() {
				for _, from := range []uint16{2, 3, 99} {
					if _, bc, err := v.ClassifyMsg(m); err == nil {
						v.OnMsg(m, from, bc)
					}
				}
			})
			probe := true
			if p == "" && !hung {
				// the protocol goroutine must end (successfully or with an error) once everything valid arrived and the context ended
				if cell.St == "initialised" {
					start()
				}
				pp, ph := guarded(func() { feed(3, 0) })
				probe = pp == "" && !ph
				cancel()
				if cell.St != "finished" {
					select {
					case gp := <-done:
						if gp != "" {
							p = "KeyGen goroutine: " + gp
						}
					case <-time.After(4 * time.Second):
						hung = true
					}
				}
			}
			cancel()
			res = append(res, obj{"id": fmt.Sprintf("%d#%d", cell.ID, k), "ep": cell.EP, "st": cell.St, "kind": cell.Kind, "cls": cell.Cls, "panic": p, "hung": hung, "probe": probe,
				"input": hex.EncodeToString(m[:minInt(len(m), 48)])})
		}
		return res
	}
}

// ---- verification / signing entry points -----------------------------------------------------------------------------------

type psFixture struct {
	stored  [][]byte
	tpk     []byte
	request []byte
	sigs    [][]byte
	proof   []byte
	secret  *ps.UnblindingSecret
	err     error
}

var psFixOnce sync.Once
var psFix psFixture

func getPSFixture() *psFixture {
	psFixOnce.Do(func() {
		stored, _, parties, err := runDKG(mkPS)
		if err != nil {
			psFix.err = err
			return
		}
		psFix.stored = stored
		tpk, err := parties[0].(*ps.TPS).ThresholdPK()
		if err != nil {
			psFix.err = err
			return
		}
		psFix.tpk = tpk
		var prover ps.Prover
		if err := prover.Init(math.Curves[1], 2, tpk, []uint16{1, 2, 3}); err != nil {
			psFix.err = err
			return
		}
		req, secret := prover.Blind([][]byte{[]byte("first"), []byte("second")})
		psFix.request = req.Bytes()
		psFix.secret = &secret
		var ws []ps.SignatureWitness
		for i := 0; i < 2; i++ {
			s, err := parties[i].(*ps.TPS).Sign(context.Background(), psFix.request)
			if err != nil {
				psFix.err = err
				return
			}
			psFix.sigs = append(psFix.sigs, s)
			w, err := prover.UnBlind(uint16(i+1), s, &secret)
			if err != nil {
				psFix.err = err
				return
			}
			ws = append(ws, w)
		}
		pi := prover.ProveKnowledgeOfSignature(&secret, []uint16{1, 2}, ws)
		psFix.proof = pi.Bytes()
	})
	return &psFix
}

func cryptoCell(cell c10Cell, valid []byte, wrongKind string, rng *rand.Rand, flips int, run func(m []byte) error, probe func() bool) []obj {
	var muts [][]byte
	switch cell.Cls {
	case "wrong-component-count":
		muts = psWrongCounts(wrongKind, valid)
	default:
		muts = cryptoMutate(valid, cell.Cls, rng, flips)
	}
	var res []obj
	for k, m := range muts {
		p, hung := guarded(func() { run(m) })
		pr := true
		if p == "" && !hung {
			pp, ph := guarded(func() { pr = probe() })
			pr = pr && pp == "" && !ph
		}
		res = append(res, obj{"id": fmt.Sprintf("%d#%d", cell.ID, k), "ep": cell.EP, "st": cell.St, "kind": cell.Kind, "cls": cell.Cls, "panic": p, "hung": hung, "probe": pr,
			"input": hex.EncodeToString(m[:minInt(len(m), 48)])})
	}
	return res
}

func c10PSVerify(cell c10Cell, rng *rand.Rand, flips int) []obj {
	f := getPSFixture()
	if f.err != nil {
		return []obj{{"id": fmt.Sprint(cell.ID), "ep": cell.EP, "st": cell.St, "kind": cell.Kind, "cls": cell.Cls, "panic": "", "hung": false, "probe": true, "skipped": f.err.Error()}}
	}
	var v ps.Verifier
	if cell.St == "initialised" {
		v.Init(math.Curves[1], 2, f.tpk)
	}
	good := func() bool {
		var w ps.Verifier
		return w.Init(math.Curves[1], 2, f.tpk) == nil && w.Verify(f.proof) == nil
	}
	if cell.Kind == "public-params" {
		return cryptoCell(cell, f.tpk, "public-params", rng, flips, func(m []byte) error {
			var w ps.Verifier
			if err := w.Init(math.Curves[1], 2, m); err != nil {
				return err
			}
			return w.Verify(f.proof)
		}, good)
	}
	return cryptoCell(cell, f.proof, "proof", rng, flips, func(m []byte) error {
		if cell.St == "fresh" {
			var w ps.Verifier
			return w.Verify(m)
		}
		return v.Verify(m)
	}, good)
}

func c10PSSign(cell c10Cell, rng *rand.Rand, flips int) []obj {
	f := getPSFixture()
	if f.err != nil {
		return []obj{{"id": fmt.Sprint(cell.ID), "ep": cell.EP, "st": cell.St, "kind": cell.Kind, "cls": cell.Cls, "panic": "", "hung": false, "probe": true, "skipped": f.err.Error()}}
	}
	signer := mkPS(1).(*ps.TPS)
	signer.Init([]uint16{1, 2, 3}, 2, func([]byte, bool, uint16) {})
	signer.SetShareData(f.stored[0])
	return cryptoCell(cell, f.request, "request", rng, flips, func(m []byte) error {
		_, err := signer.Sign(context.Background(), m)
		return err
	}, func() bool {
		_, err := signer.Sign(context.Background(), f.request)
		return err == nil
	})
}

func c10PSProver(cell c10Cell, rng *rand.Rand, flips int) []obj {
	f := getPSFixture()
	if f.err != nil {
		return []obj{{"id": fmt.Sprint(cell.ID), "ep": cell.EP, "st": cell.St, "kind": cell.Kind, "cls": cell.Cls, "panic": "", "hung": false, "probe": true, "skipped": f.err.Error()}}
	}
	good := func() bool {
		var p ps.Prover
		if p.Init(math.Curves[1], 2, f.tpk, []uint16{1, 2, 3}) != nil {
			return false
		}
		_, err := p.UnBlind(1, f.sigs[0], f.secret)
		return err == nil
	}
	if cell.Kind == "public-params" {
		return cryptoCell(cell, f.tpk, "public-params", rng, flips, func(m []byte) error {
			var p ps.Prover
			if err := p.Init(math.Curves[1], 2, m, []uint16{1, 2, 3}); err != nil {
				return err
			}
			_, err := p.UnBlind(1, f.sigs[0], f.secret)
			return err
		}, good)
	}
	var pr ps.Prover
	pr.Init(math.Curves[1], 2, f.tpk, []uint16{1, 2, 3})
	return cryptoCell(cell, f.sigs[0], "none", rng, flips, func(m []byte) error {
		_, err := pr.UnBlind(1, m, f.secret)
		return err
	}, good)
}

type blsFixture struct {
	pp   []byte
	sigs [][]byte
	agg  []byte
	dig  []byte
	err  error
}

var blsFixOnce sync.Once
var blsFix blsFixture

func getBLSFixture() *blsFixture {
	blsFixOnce.Do(func() {
		stored, _, _, err := runDKG(mkBLS)
		if err != nil {
			blsFix.err = err
			return
		}
		blsFix.dig = sha([]byte("digest"))
		var v bls.Verifier
		for i := 0; i < 2; i++ {
			s := &bls.TBLS{Logger: scripted.Logger{}, Party: uint16(i + 1)}
			s.Init([]uint16{1, 2, 3}, 2, func([]byte, bool, uint16) {})
			s.SetShareData(stored[i])
			if i == 0 {
				blsFix.pp, _ = s.ThresholdPK()
				v.Init(blsFix.pp)
			}
			sig, _ := s.Sign(context.Background(), blsFix.dig)
			blsFix.sigs = append(blsFix.sigs, sig)
		}
		blsFix.agg, blsFix.err = v.AggregateSignatures(blsFix.sigs, []uint16{1, 2})
	})
	return &blsFix
}

func c10BLSVerify(cell c10Cell, rng *rand.Rand, flips int) []obj {
	f := getBLSFixture()
	if f.err != nil {
		return []obj{{"id": fmt.Sprint(cell.ID), "ep": cell.EP, "st": cell.St, "kind": cell.Kind, "cls": cell.Cls, "panic": "", "hung": false, "probe": true, "skipped": f.err.Error()}}
	}
	good := func() bool {
		var v bls.Verifier
		return v.Init(f.pp) == nil && v.Verify(f.dig, f.agg) == nil
	}
	var v bls.Verifier
	if cell.St == "initialised" {
		v.Init(f.pp)
	}
	switch cell.Kind {
	case "public-params":
		if cell.Cls == "wrong-component-count" {
			return nil
		}
		return cryptoCell(cell, f.pp, "none", rng, flips, func(m []byte) error {
			var w bls.Verifier
			if err := w.Init(m); err != nil {
				return err
			}
			// (aggregation takes the signers from the caller and rejects, by contract with a panic, signers the parameters do not
			// name; only the verification of a finished signature is exercised with foreign parameters)
			return w.Verify(f.dig, f.agg)
		}, good)
	case "signature":
		if cell.Cls == "wrong-component-count" {
			return nil
		}
		return cryptoCell(cell, f.agg, "none", rng, flips, func(m []byte) error {
			if cell.St == "fresh" {
				var w bls.Verifier
				return w.Verify(f.dig, m)
			}
			return v.Verify(f.dig, m)
		}, good)
	default: // a partial signature handed to the aggregation
		if cell.St == "fresh" || cell.Cls == "wrong-component-count" {
			return nil
		}
		return cryptoCell(cell, f.sigs[0], "none", rng, flips, func(m []byte) error {
			_, err := v.AggregateSignatures([][]byte{m, f.sigs[1]}, []uint16{1, 2})
			return err
		}, good)
	}
}

func init() {
	c10EntryPoints["blsdkg"] = c10DKG("bls")
	c10EntryPoints["psdkg"] = c10DKG("ps")
	c10EntryPoints["psverify"] = c10PSVerify
	c10EntryPoints["pssign"] = c10PSSign
	c10EntryPoints["psprover"] = c10PSProver
	c10EntryPoints["blsverify"] = c10BLSVerify
}
