package main

import (
	"bytes"
	"crypto/sha256"
	"fmt"
	"runtime"
	"sort"
	"strconv"
	"sync"
	"time"

	"github.com/IBM/TSS/msg"
	tss "github.com/IBM/TSS/types"

	"verif/harness/internal/scripted"
)

// box: replays TLC behaviours of spec/MsgBoxLS.tla (schedules at lock-step granularity) on a real msg.Box. Real goroutines
// are gated through the verifYield hook: a goroutine that reaches a parking yield point blocks until the scheduler
// releases it, so exactly one logical thread runs at a time and the interleaving is the one TLC chose.

type boxOp struct {
	K     string `json:"k"` // "recv" | "send" | "tick"
	ID    int    `json:"id"`
	Src   int    `json:"src"`
	Topic string `json:"topic"`
	Ack   bool   `json:"ack"` // the handler acknowledges this message: Box.Send on the same topic from inside the session lock
}

type boxScenario struct {
	GC      bool               `json:"gc"` // the collector takes part: GCExpire / GCSweep = 2, ticks through the virtual ticker
	Name    string             `json:"name"`
	Threads map[string][]boxOp `json:"threads"`
	Topics  []string           `json:"topics"`
	Paths   [][]string         `json:"paths"`
}

type boxJob struct {
	Scenarios []boxScenario `json:"scenarios"`
	Workers   int           `json:"workers"`
}

var boxPark = map[string]bool{"tick": true, "decide": true, "forward": true, "hlock": true, "send": true, "fwdsend": true, "next": true, "gcmark": true, "gcsweep": true}

// entry points of the public calls: logged by the model as part of the first step of the call
var boxPass = map[string]bool{"recv": true}

type boxThread struct {
	name   string
	wake   chan struct{}
	parked chan string
	done   chan struct{}
	at     string
	fin    bool
}

var boxRegistry sync.Map // goroutine id -> *boxThread

func goid() int64 {
	var buf [64]byte
	n := runtime.Stack(buf[:], false)
	// "goroutine 123 [running]:"
	b := buf[:n]
	b = b[len("goroutine "):]
	i := bytes.IndexByte(b, ' ')
	id, _ := strconv.ParseInt(string(b[:i]), 10, 64)
	return id
}

var boxHookOnce sync.Once

func installBoxHook() {
	boxHookOnce.Do(func() {
		msg.VerifYield = func(point string) {
			v, ok := boxRegistry.Load(goid())
			if !ok {
				return
			}
			t := v.(*boxThread)
			// a yield point the lock-step model does not know (a lock acquisition added to the Box) parks as well: the schedule then
			// interleaves the other threads at that point, the hand-off monitors judge the real log, and the trace validator reports the
			// unexplained step as drift
			if !boxPark[point] && boxPass[point] {
				return
			}
			t.parked <- point
			<-t.wake
		}
	})
}

func topicBytes(name string) []byte { h := sha256.Sum256([]byte("topic:" + name)); return h[:] }

func boxReplay(ti int, sc boxScenario, path []string) []obj {
	lines := []obj{{"t": ti, "e": "reset", "sc": sc.Name}}
	var mu sync.Mutex
	var handed []int
	var fsent []string
	topicName := map[string]string{}
	for _, tp := range sc.Topics {
		topicName[string(topicBytes(tp))] = tp
	}
	// the handler stands for the dispatcher of threshold.Scheme: for a message flagged "a" it takes the lock of the topic's session
	// (as threadSafeRBC does), records the message and acknowledges it with a Send on the same topic from inside the lock
	hlocks := map[string]*sync.Mutex{}
	for _, tp := range sc.Topics {
		hlocks[string(topicBytes(tp))] = &sync.Mutex{}
	}
	tick := make(chan time.Time)
	var box *msg.Box
	box = &msg.Box{
		Logger:                    scripted.Logger{},
		MaxInFlightTopicsBySender: 10000,
		GCSweep:                   20 * time.Second,
		GCExpire:                  2 * time.Minute,
		NewTicker:                 func(time.Duration) *time.Ticker { return &time.Ticker{C: tick} },
		ForwardSend: func(msgType uint8, topic []byte, m []byte, to ...tss.UniversalID) {
			mu.Lock()
			fsent = append(fsent, topicName[string(topic)])
			mu.Unlock()
		},
		MessageHandler: handlerFunc(func(m *tss.IncMessage) {
			id, ack := boxMsgID(string(m.Data))
			if !ack {
				mu.Lock()
				handed = append(handed, id)
				mu.Unlock()
				return
			}
			if f := msg.VerifYield; f != nil {
				f("hlock")
			}
			hl := hlocks[string(m.Topic)]
			hl.Lock()
			defer hl.Unlock()
			mu.Lock()
			handed = append(handed, id)
			mu.Unlock()
			box.Send(uint8(tss.MsgTypeMPC), m.Topic, []byte("ack"))
		}),
	}
	if sc.GC {
		box.GCSweep, box.GCExpire = time.Second, 2*time.Second
	}
	defer func() {
		defer func() { recover() }()
		box.Stop()
	}()
	threads := map[string]*boxThread{}
	names := []string{}
	for name := range sc.Threads {
		names = append(names, name)
	}
	sort.Strings(names)
	panics := make(chan string, len(names))
	for _, name := range names {
		name := name
		t := &boxThread{name: name, wake: make(chan struct{}), parked: make(chan string), done: make(chan struct{})}
		threads[name] = t
		ops := sc.Threads[name]
		go func() {
			id := goid()
			boxRegistry.Store(id, t)
			defer boxRegistry.Delete(id)
			defer close(t.done)
			defer func() {
				if r := recover(); r != nil {
					panics <- fmt.Sprintf("%s: %v", name, r)
				}
			}()
			for _, op := range ops {
				if op.K == "tick" {
					// one step of the epoch clock (a yield point of its own, then the clock goroutine of the Box does the increment)
					msg.VerifYield("tick")
					before := box.VerifSnapshot().Epoch
					tick <- time.Time{}
					for i := 0; i < 20000 && box.VerifSnapshot().Epoch == before; i++ {
						time.Sleep(50 * time.Microsecond)
					}
					continue
				}
				if op.K == "recv" {
					box.HandleMessage(&tss.IncMessage{Data: []byte(boxMsgData(op)), Source: uint16(op.Src), MsgType: uint8(tss.MsgTypeMPC), Topic: topicBytes(op.Topic)})
				} else {
					box.Send(uint8(tss.MsgTypeMPC), topicBytes(op.Topic), []byte("out"))
				}
			}
		}()
		// run to the first yield point
		select {
		case p := <-t.parked:
			t.at = p
		case <-t.done:
			t.fin = true
		case <-time.After(3 * time.Second):
			return append(lines, obj{"t": ti, "e": "end", "hung": true, "panic": "", "where": "start of " + name})
		}
	}
	var lastEpoch uint64
	snapshot := func() (pend, hand []obj, started []string, infl [][]interface{}) {
		s := box.VerifSnapshot()
		lastEpoch = s.Epoch
		for _, tp := range sc.Topics {
			l, ok := s.Pending[string(topicBytes(tp))]
			ids := []int{}
			for _, d := range l {
				id, _ := boxMsgID(d)
				ids = append(ids, id)
			}
			pend = append(pend, obj{"t": tp, "has": ok, "ids": ids})
			l, ok = s.HandOver[string(topicBytes(tp))]
			ids = []int{}
			for _, d := range l {
				id, _ := boxMsgID(d)
				ids = append(ids, id)
			}
			hand = append(hand, obj{"t": tp, "has": ok, "ids": ids})
			if _, ok := s.Started[string(topicBytes(tp))]; ok {
				started = append(started, tp)
			}
		}
		if started == nil {
			started = []string{}
		}
		infl = [][]interface{}{}
		var senders []int
		for k := range s.InFlight {
			senders = append(senders, int(k))
		}
		sort.Ints(senders)
		for _, sd := range senders {
			for _, tb := range s.InFlight[uint16(sd)] {
				infl = append(infl, []interface{}{sd, topicName[tb]})
			}
		}
		return
	}
	hung, panicked := false, ""
	step := func(name string) bool {
		t := threads[name]
		if t == nil || t.fin {
			lines = append(lines, obj{"t": ti, "e": "skip", "th": name})
			return true
		}
		pc := t.at
		t.wake <- struct{}{}
		next := ""
		select {
		case p := <-t.parked:
			t.at = p
			next = p
		case <-t.done:
			t.fin = true
			next = "done"
		case <-time.After(3 * time.Second):
			hung = true
			return false
		}
		select {
		case p := <-panics:
			panicked = p
		default:
		}
		pend, hand, started, infl := snapshot()
		mu.Lock()
		h := append([]int{}, handed...)
		f := append([]string{}, fsent...)
		mu.Unlock()
		lines = append(lines, obj{"t": ti, "e": "step", "th": name, "pc": pc, "next": next, "epoch": lastEpoch, "pend": pend, "hand": hand, "started": started, "infl": infl, "handed": h, "fsent": f})
		return true
	}
	for _, name := range path {
		if !step(name) {
			break
		}
	}
	// let every thread finish (round robin) so that the outcome is that of a complete run
	for !hung {
		progress := false
		for _, name := range names {
			if !threads[name].fin {
				progress = true
				if !step(name) {
					break
				}
			}
		}
		if !progress {
			break
		}
	}
	return append(lines, obj{"t": ti, "e": "end", "hung": hung, "panic": panicked, "where": ""})
}

func boxMsgData(op boxOp) string {
	if op.Ack {
		return strconv.Itoa(op.ID) + "a"
	}
	return strconv.Itoa(op.ID)
}

func boxMsgID(data string) (int, bool) {
	ack := len(data) > 0 && data[len(data)-1] == 'a'
	if ack {
		data = data[:len(data)-1]
	}
	id, _ := strconv.Atoi(data)
	return id, ack
}

type handlerFunc func(m *tss.IncMessage)

func (f handlerFunc) HandleMessage(m *tss.IncMessage) { f(m) }

func init() {
	commands["box"] = func() {
		var job boxJob
		readJob(&job)
		installBoxHook()
		em := newEmitter()
		defer em.flush()
		type item struct{ sc, p int }
		var items []item
		for si, sc := range job.Scenarios {
			for pi := range sc.Paths {
				items = append(items, item{si, pi})
			}
		}
		parallel(len(items), job.Workers, func(i int) {
			it := items[i]
			ls := boxReplay(i, job.Scenarios[it.sc], job.Scenarios[it.sc].Paths[it.p])
			ls[0]["sci"] = it.sc
			em.lines(ls)
		})
	}
}
