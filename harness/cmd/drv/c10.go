package main

import (
	"context"
	"crypto/hmac"
	"crypto/sha256"
	"encoding/hex"
	"fmt"
	"math/rand"
	"sync"
	"time"

	discovery "github.com/IBM/TSS/disc"
	"github.com/IBM/TSS/msg"
	"github.com/IBM/TSS/threshold"
	tss "github.com/IBM/TSS/types"

	"verif/harness/internal/scripted"
)

// c10: every cell of the state x input-class matrix (spec/Inputs.tla) is turned into concrete byte strings and fed to the real
// entry point in the required session state; afterwards an honest probe message must still be served.

type c10Cell struct {
	ID   int    `json:"id"`
	EP   string `json:"ep"`
	St   string `json:"st"`
	Kind string `json:"kind"`
	Cls  string `json:"cls"`
}

type c10Job struct {
	Cells   []c10Cell `json:"cells"`
	Seed    int64     `json:"seed"`
	Flips   int       `json:"flips"`
	Workers int       `json:"workers"`
	Base    int       `json:"base"`
}

// mutations of a valid byte string along its field boundaries
func c10Mutate(valid []byte, bounds []int, tagPos int, cls string, rng *rand.Rand, flips int) [][]byte {
	cp := func(b []byte) []byte { return append([]byte(nil), b...) }
	var res [][]byte
	switch cls {
	case "valid":
		res = append(res, cp(valid))
	case "empty":
		res = append(res, []byte{}, nil)
	case "one-byte":
		for _, b := range []byte{0, 1, 2, 3, 127, 128, 254, 255} {
			res = append(res, []byte{b})
		}
	case "truncate-at-boundary", "truncate-boundary-minus-1", "truncate-boundary-plus-1":
		d := map[string]int{"truncate-at-boundary": 0, "truncate-boundary-minus-1": -1, "truncate-boundary-plus-1": 1}[cls]
		for _, b := range bounds {
			n := b + d
			if n >= 0 && n <= len(valid) {
				res = append(res, cp(valid[:n]))
			}
		}
	case "extend-1":
		res = append(res, append(cp(valid), 0), append(cp(valid), 255))
	case "extend-100":
		ext := make([]byte, 100)
		rng.Read(ext)
		res = append(res, append(cp(valid), ext...))
	case "tag-byte-0", "tag-byte-255", "tag-byte-out-of-range":
		if tagPos < len(valid) {
			vals := map[string][]byte{"tag-byte-0": {0}, "tag-byte-255": {255}, "tag-byte-out-of-range": {4, 5, 127, 128, 200, 254}}[cls]
			for _, v := range vals {
				m := cp(valid)
				m[tagPos] = v
				res = append(res, m)
			}
		}
	case "seeded-byte-flips":
		for i := 0; i < flips && len(valid) > 0; i++ {
			m := cp(valid)
			p := rng.Intn(len(m))
			m[p] ^= byte(1 + rng.Intn(255))
			res = append(res, m)
		}
	}
	return res
}

type c10Result struct {
	panicked string
	hung     bool
	probe    bool
}

func guarded(f func()) (p string, hung bool) {
	done := make(chan string, 1)
	go func() {
		defer func() {
			if r := recover(); r != nil {
				done <- fmt.Sprint(r)
				return
			}
			done <- ""
		}()
		f()
	}()
	select {
	case p = <-done:
		return p, false
	case <-time.After(3 * time.Second):
		return "", true
	}
}

// ---- dispatcher -------------------------------------------------------------------------------------------------------

type c10Disp struct {
	sch     *threshold.Scheme
	be      *scripted.Backend
	topic   []byte
	cancel  context.CancelFunc
	release chan string
}

func newC10Disp(st string) (*c10Disp, error) {
	d := &c10Disp{release: make(chan string, 4)}
	membership := map[tss.UniversalID]tss.PartyID{11: 11, 12: 12, 13: 13}
	var mu sync.Mutex
	party := threshold.LoudScheme(11, scripted.Logger{},
		func(uint16) tss.KeyGenerator {
			mu.Lock()
			defer mu.Unlock()
			d.be = scripted.NewBackend(11)
			if st == "keygen-init" {
				d.be.InitDelay = 120 * time.Millisecond
				d.be.Strict = true
			} else if st == "keygen-sync2" {
				d.be.Strict = true
			}
			return d.be
		},
		func(uint16) tss.Signer { mu.Lock(); defer mu.Unlock(); d.be = scripted.NewBackend(11); return d.be },
		2, func(uint8, []byte, []byte, ...uint16) {}, func() map[tss.UniversalID]tss.PartyID { return membership })
	d.sch = party.(*threshold.Scheme)
	stage := 0
	d.sch.SyncFactory = func([]uint16, func([]byte), func([]byte, uint16)) tss.Synchronizer {
		return &scripted.StubSync{Plan: func(ctx context.Context, _ []byte, _ int) ([]uint16, error) {
			mu.Lock()
			stage++
			s := stage
			mu.Unlock()
			if (st == "keygen-sync" && s == 1) || (st == "keygen-sync2" && s == 2) {
				<-ctx.Done()
				return nil, ctx.Err()
			}
			return []uint16{11, 12, 13}, nil
		}}
	}
	ctx, cancel := context.WithCancel(context.Background())
	d.cancel = cancel
	d.topic = sha([]byte(tss.DkgTopicName))
	switch st {
	case "idle":
	case "keygen-sync":
		go d.sch.KeyGen(ctx, 3, 2)
		time.Sleep(5 * time.Millisecond)
	case "keygen-init":
		// the first synchronisation completes at once; the back end's Init then takes 120 ms: the inputs arrive inside that window
		go d.sch.KeyGen(ctx, 3, 2)
		time.Sleep(25 * time.Millisecond)
	case "keygen-sync2":
		go d.sch.KeyGen(ctx, 3, 2)
		for i := 0; i < 2000; i++ {
			mu.Lock()
			be, s2 := d.be, stage
			mu.Unlock()
			if be != nil && s2 >= 2 {
				if n, _, _, _ := be.Snapshot(); n > 0 {
					break
				}
			}
			time.Sleep(200 * time.Microsecond)
		}
	case "keygen-protocol", "finished":
		fin := make(chan struct{})
		go func() { d.sch.KeyGen(ctx, 3, 2); close(fin) }()
		for i := 0; i < 2000; i++ {
			mu.Lock()
			be := d.be
			mu.Unlock()
			if be != nil && be.WaitStarted(time.Millisecond) {
				break
			}
			if be == nil {
				time.Sleep(200 * time.Microsecond)
			}
		}
		if d.be == nil {
			return nil, fmt.Errorf("back end never started")
		}
		if st == "finished" {
			d.be.Release <- scripted.Result{Data: []byte("x")}
			<-fin
		}
	case "sign-protocol":
		d.topic = sha([]byte("T1"))
		d.sch.SetStoredData([]byte("share"))
		go d.sch.Sign(ctx, []byte("digest-of-32-bytes-0123456789abcd"), "T1")
		for i := 0; i < 2000; i++ {
			mu.Lock()
			be := d.be
			mu.Unlock()
			if be != nil && be.WaitStarted(time.Millisecond) {
				break
			}
			if be == nil {
				time.Sleep(200 * time.Microsecond)
			}
		}
		if d.be == nil {
			return nil, fmt.Errorf("back end never started")
		}
	}
	return d, nil
}

func c10Dispatcher(cell c10Cell, rng *rand.Rand, flips int) []obj {
	payload := append([]byte{255}, scripted.EncodePayload('P', 1, []byte("x"))...)
	ack := append([]byte{1, 0, 12}, sha(scripted.EncodePayload('B', 1, []byte("y")))...)
	type input struct {
		msgType uint8
		topic   []byte // nil: the live topic
		data    []byte
		note    string
	}
	var inputs []input
	base := map[string]input{
		"mpc-payload":  {msgType: uint8(tss.MsgTypeMPC), data: payload},
		"mpc-ack":      {msgType: uint8(tss.MsgTypeMPC), data: ack},
		"sync":         {msgType: uint8(tss.MsgTypeSync), data: []byte("synchroniser bytes")},
		"unknown-type": {msgType: 7, data: payload},
	}[cell.Kind]
	bounds := map[string][]int{"mpc-payload": {1, 2, 3}, "mpc-ack": {1, 3, 4, 11, 35}, "sync": {1, 9}, "unknown-type": {1}}[cell.Kind]
	switch cell.Cls {
	case "short-topic":
		for _, n := range []int{1, 2, 3, 4, 7, 8, 31} {
			in := base
			in.topic = make([]byte, n)
			inputs = append(inputs, in)
		}
	case "empty-topic":
		in := base
		in.topic = []byte{}
		inputs = append(inputs, in)
	case "long-topic":
		for _, n := range []int{33, 64} {
			in := base
			in.topic = make([]byte, n)
			inputs = append(inputs, in)
		}
	case "short-digest":
		if cell.Kind == "mpc-ack" {
			for n := 0; n <= 9; n++ {
				in := base
				in.data = append([]byte{1, 0, 12}, make([]byte, n)...)
				for i := 3; i < len(in.data); i++ {
					in.data[i] = byte(i)
				}
				inputs = append(inputs, in)
			}
		}
	default:
		for _, m := range c10Mutate(base.data, bounds, 0, cell.Cls, rng, flips) {
			in := base
			in.data = m
			inputs = append(inputs, in)
		}
		if cell.Kind == "mpc-ack" && cell.Cls == "valid" {
			// acknowledgements about every kind of sender: the receiver itself, the other participants, a node outside the session
			for _, about := range []byte{11, 13, 99, 0} {
				in := base
				in.data = append([]byte{1, 0, about}, sha(scripted.EncodePayload('B', 1, []byte("never sent")))...)
				inputs = append(inputs, in)
			}
		}
	}
	var res []obj
	for k, in := range inputs {
		d, err := newC10Disp(cell.St)
		if err != nil {
			res = append(res, obj{"id": fmt.Sprintf("%d#%d", cell.ID, k), "ep": cell.EP, "st": cell.St, "kind": cell.Kind, "cls": cell.Cls, "panic": "", "hung": false,
				"probe": true, "skipped": err.Error(), "input": ""})
			continue
		}
		topic := in.topic
		if topic == nil {
			topic = d.topic
		}
		for _, src := range []uint16{12, 13, 99} {
			p, hung := guarded(func() {
				d.sch.HandleMessage(&tss.IncMessage{MsgType: in.msgType, Topic: topic, Data: in.data, Source: src})
			})
			probe := true
			if p == "" && !hung && (cell.St == "keygen-protocol" || cell.St == "sign-protocol") {
				_, _, _, before := d.be.Snapshot()
				pp, ph := guarded(func() {
					d.sch.HandleMessage(&tss.IncMessage{MsgType: uint8(tss.MsgTypeMPC), Topic: d.topic, Source: 13,
						Data: append([]byte{255}, scripted.EncodePayload('P', 1, []byte("probe"))...)})
				})
				_, _, _, after := d.be.Snapshot()
				probe = pp == "" && !ph && len(after) == len(before)+1
			}
			res = append(res, obj{"id": fmt.Sprintf("%d#%d/%d", cell.ID, k, src), "ep": cell.EP, "st": cell.St, "kind": cell.Kind, "cls": cell.Cls, "panic": p, "hung": hung,
				"probe": probe, "input": fmt.Sprintf("type=%d topic=%s data=%s", in.msgType, hex.EncodeToString(topic), hex.EncodeToString(in.data[:minInt(len(in.data), 48)]))})
			if p != "" || hung {
				break
			}
		}
		d.cancel()
		if d.be != nil {
			select {
			case d.be.Release <- scripted.Result{Err: fmt.Errorf("end")}:
			default:
			}
		}
	}
	return res
}

func minInt(a, b int) int {
	if a < b {
		return a
	}
	return b
}

// ---- silent-mode buffer ---------------------------------------------------------------------------------------------------

func c10Buffer(cell c10Cell, rng *rand.Rand, flips int) []obj {
	type input struct {
		msgType uint8
		topic   []byte
		data    []byte
	}
	live := topicBytes("T")
	base := input{msgType: uint8(tss.MsgTypeMPC), topic: live, data: []byte("m")}
	if cell.Kind == "other-type" {
		base.msgType = 1
	}
	var inputs []input
	switch cell.Cls {
	case "short-topic":
		for _, n := range []int{1, 3, 7, 8, 31} {
			in := base
			in.topic = make([]byte, n)
			inputs = append(inputs, in)
		}
	case "empty-topic":
		in := base
		in.topic = []byte{}
		inputs = append(inputs, in)
	case "long-topic":
		in := base
		in.topic = make([]byte, 64)
		inputs = append(inputs, in)
	case "short-digest":
	default:
		for _, m := range c10Mutate(base.data, []int{1}, 0, cell.Cls, rng, flips) {
			in := base
			in.data = m
			inputs = append(inputs, in)
		}
	}
	var res []obj
	for k, in := range inputs {
		var mu sync.Mutex
		handed := 0
		maxTopics := 100
		if cell.St == "over-topic-limit" {
			maxTopics = 3
		}
		box := &msg.Box{Logger: scripted.Logger{}, MaxInFlightTopicsBySender: maxTopics, GCSweep: time.Second, GCExpire: 4 * time.Second,
			NewTicker:      func(time.Duration) *time.Ticker { return &time.Ticker{C: make(chan time.Time)} },
			ForwardSend:    func(uint8, []byte, []byte, ...tss.UniversalID) {},
			MessageHandler: handlerFunc(func(*tss.IncMessage) { mu.Lock(); handed++; mu.Unlock() })}
		p, hung := guarded(func() {
			switch cell.St {
			case "started":
				box.Send(uint8(tss.MsgTypeMPC), in.topic, []byte("out"))
			case "over-limit":
				for i := 0; i < 101; i++ {
					box.HandleMessage(&tss.IncMessage{MsgType: uint8(tss.MsgTypeMPC), Topic: in.topic, Data: []byte("fill"), Source: 12})
				}
			case "over-topic-limit":
				// the sender has more topics in flight than it is entitled to: its further topics are shed
				for i := 0; i < 7; i++ {
					box.HandleMessage(&tss.IncMessage{MsgType: uint8(tss.MsgTypeMPC), Topic: topicBytes(fmt.Sprintf("fill-%d", i)), Data: []byte("fill"), Source: 12})
				}
			}
			box.HandleMessage(&tss.IncMessage{MsgType: in.msgType, Topic: in.topic, Data: in.data, Source: 12})
			box.HandleMessage(&tss.IncMessage{MsgType: in.msgType, Topic: in.topic, Data: in.data, Source: 12})
		})
		probe := true
		if p == "" && !hung {
			pp, ph := guarded(func() {
				box.HandleMessage(&tss.IncMessage{MsgType: uint8(tss.MsgTypeMPC), Topic: topicBytes("probe"), Data: []byte("probe"), Source: 13})
				mu.Lock()
				before := handed
				mu.Unlock()
				box.Send(uint8(tss.MsgTypeMPC), topicBytes("probe"), []byte("out"))
				mu.Lock()
				probe = handed == before+1
				mu.Unlock()
			})
			probe = probe && pp == "" && !ph
		}
		func() { defer func() { recover() }(); box.Stop() }()
		res = append(res, obj{"id": fmt.Sprintf("%d#%d", cell.ID, k), "ep": cell.EP, "st": cell.St, "kind": cell.Kind, "cls": cell.Cls, "panic": p, "hung": hung, "probe": probe,
			"input": fmt.Sprintf("type=%d topic=%s data=%s", in.msgType, hex.EncodeToString(in.topic), hex.EncodeToString(in.data))})
	}
	return res
}

// ---- synchroniser -------------------------------------------------------------------------------------------------------

func c10Sync(cell c10Cell, rng *rand.Rand, flips int) []obj {
	topic := sha([]byte("sync-topic"))
	tagOf := func(id uint16) []byte {
		h := hmac.New(sha256.New, topic)
		h.Write([]byte{byte(id), byte(id >> 8)})
		return h.Sum(nil)
	}
	ty := map[string]uint8{"membership": 1, "query": 2, "response": 3}[cell.Kind]
	valid := discovery.VerifEncode(ty, tagOf(2), []uint16{1, 2, 3})
	var muts [][]byte
	if cell.Cls == "odd-view-length" {
		muts = [][]byte{append(append([]byte(nil), valid...), 7), valid[:len(valid)-1], valid[:34]}
	} else {
		muts = c10Mutate(valid, []int{1, 32, 33, 35, 37, 39}, 0, cell.Cls, rng, flips)
	}
	var res []obj
	for k, m := range muts {
		var mu sync.Mutex
		sent := 0
		// (a membership larger than the number of parties the synchronisation expects: more peers than expected may answer)
		mem := &discovery.Member{Membership: []uint16{1, 2, 3, 4, 5, 6, 7}, ID: 1, Logger: scripted.Logger{},
			Broadcast: func([]byte) { mu.Lock(); sent++; mu.Unlock() }, Send: func([]byte, uint16) { mu.Lock(); sent++; mu.Unlock() }}
		ctx, cancel := context.WithCancel(context.Background())
		switch cell.St {
		case "probing", "done":
			fin := make(chan struct{})
			go func() { mem.Synchronize(ctx, func([]uint16) {}, topic, 3, time.Hour); close(fin) }()
			// the registration cannot be observed directly: a query of peer 4 is answered once it has happened
			for i := 0; i < 20000; i++ {
				mem.HandleMessage(4, discovery.VerifEncode(2, tagOf(4), []uint16{4}))
				mu.Lock()
				ok := sent > 0
				mu.Unlock()
				if ok {
					break
				}
				time.Sleep(100 * time.Microsecond)
			}
			if cell.St == "done" {
				cancel()
				<-fin
			}
		}
		p, hung := guarded(func() {
			mem.HandleMessage(2, m)
			mem.HandleMessage(3, m)
			if cell.Cls == "valid" {
				// every other member sends the same kind of message under its own tag, twice
				for round := 0; round < 2; round++ {
					for id := uint16(2); id <= 7; id++ {
						mem.HandleMessage(id, discovery.VerifEncode(ty, tagOf(id), []uint16{1, 2, 3}))
					}
				}
			}
		})
		probe := true
		if p == "" && !hung && cell.St == "probing" {
			mu.Lock()
			before := sent
			mu.Unlock()
			pp, ph := guarded(func() { mem.HandleMessage(3, discovery.VerifEncode(2, tagOf(3), []uint16{1, 3})) })
			mu.Lock()
			probe = pp == "" && !ph && sent == before+1 // a query is answered
			mu.Unlock()
		}
		cancel()
		res = append(res, obj{"id": fmt.Sprintf("%d#%d", cell.ID, k), "ep": cell.EP, "st": cell.St, "kind": cell.Kind, "cls": cell.Cls, "panic": p, "hung": hung, "probe": probe,
			"input": hex.EncodeToString(m[:minInt(len(m), 60)])})
	}
	return res
}

var c10EntryPoints = map[string]func(c10Cell, *rand.Rand, int) []obj{
	"dispatcher": c10Dispatcher,
	"buffer":     c10Buffer,
	"sync":       c10Sync,
}

func init() {
	commands["c10-child"] = func() {
		var job c10Job
		readJob(&job)
		em := newEmitter()
		for i, cell := range job.Cells {
			t := job.Base + i
			lines := []obj{{"t": t, "e": "reset"}}
			f := c10EntryPoints[cell.EP]
			if f != nil {
				rng := rand.New(rand.NewSource(job.Seed + int64(cell.ID)))
				for _, r := range f(cell, rng, job.Flips) {
					r["t"] = t
					r["e"] = "result"
					lines = append(lines, r)
				}
			}
			lines = append(lines, obj{"t": t, "e": "end"})
			em.lines(lines)
			em.flush()
		}
	}
	commands["c10"] = func() {
		var job c10Job
		readJob(&job)
		em := newEmitter()
		defer em.flush()
		runInChildren("c10-child", len(job.Cells), job.Workers, 12, func(lo, hi int) interface{} {
			return c10Job{Cells: job.Cells[lo:hi], Seed: job.Seed, Flips: job.Flips, Base: lo}
		}, em)
	}
}
