package main

// Adapters engine driver (property C19): drives the tss-lib adapters mpc/binance/{ecdsa,eddsa} directly through their
// exported API (NewParty, Init, OnMsg, KeyGen, Sign, SetShareData, ThresholdPK, ClassifyMsg) with an in-process router.
//
//   - every message a back end emits is logged (`emit`: type URL + the ROUTING flag the library chose) and, at every receiver,
//     classified with the exported ClassifyMsg on the emitted bytes (`cls`); the flag handed to OnMsg is the receiver's own
//     classification (as threshold.Scheme does);
//   - the injected Logger is the observation point for what the adapter hands to the library (`handed`: attributed sender) and
//     for what it drops inside OnMsg;
//   - probes: a captured message of party a fed as coming from b (`replay`), a tss.MessageWrapper that EMBEDS sender a fed as
//     coming from b (`wrapped`), a captured message fed as coming from a non-participant (`outsider`);
//   - Sign results are verified with independent verifiers (crypto/ed25519, crypto/ecdsa) for the requested digest and for a
//     list of other digests.
//
// Only the standard library and the two adapters are imported (the protobuf envelopes are encoded/decoded by hand), so that
// harness/go.mod stays untouched.

import (
	"bytes"
	"context"
	"crypto/ecdsa"
	"crypto/ed25519"
	"crypto/x509"
	"encoding/hex"
	"encoding/json"
	"fmt"
	"math/rand"
	"os"
	"runtime"
	"runtime/debug"
	"strconv"
	"strings"
	"sync"
	"sync/atomic"
	"time"

	ecdsaad "github.com/IBM/TSS/mpc/binance/ecdsa"
	eddsaad "github.com/IBM/TSS/mpc/binance/eddsa"
)

// ---- job ---------------------------------------------------------------------------------------------------------

type adProbe struct {
	Kind string `json:"kind"` // "replay" | "wrapped" | "outsider" | "standin"
	At   int    `json:"at"`   // receiver
	URL  string `json:"url"`  // short type name (after "type.googleapis.com/binance.tsslib.")
	A    int    `json:"a"`    // party whose captured message is used (replay/outsider/standin) / embedded as sender (wrapped)
	B    int    `json:"b"`    // transport sender the probe is delivered as
	Flag bool   `json:"flag"` // broadcast flag handed to OnMsg with the probe
	// standin: a NON-member b sends, in place of member M, a message of type URL whose content was produced by another party a.
	// M's genuine message of that type is held back at the receiver; the probe is injected when it is the only message of its
	// library step (StepURLs) the receiver still lacks; M's genuine message is released once the receiver has been delivered every
	// message of the next step (NextURLs) from every other party (at once for the last step).  If the adapter filed the probe
	// under M's index the receiver would go on with foreign content in M's place.
	M        int      `json:"m"`
	StepURLs []string `json:"step_urls"`
	NextURLs []string `json:"next_urls"`
}

type adSign struct {
	Digest    string   `json:"digest"` // hex
	Others    []string `json:"others"` // hex: digests the returned signature is additionally verified against
	Probe     *adProbe `json:"probe"`
	TimeoutMs int      `json:"timeout_ms"`
	T         int      `json:"t"` // trace id
}

type adSession struct {
	Adapter     string   `json:"adapter"` // "ecdsa" | "eddsa"
	IDs         []int    `json:"ids"`
	Thr         int      `json:"thr"`
	Keygen      bool     `json:"keygen"`
	KeygenT     int      `json:"keygen_t"` // trace id of the key generation
	KeygenProbe *adProbe `json:"keygen_probe"`
	KeygenMs    int      `json:"keygen_timeout_ms"`
	SharesIn    string   `json:"shares_in"`  // file with {"<id>": "<share json as string>"} instead of a key generation
	SharesOut   string   `json:"shares_out"` // file the generated shares are written to
	Signs       []adSign `json:"signs"`
}

type adClassify struct {
	Adapter string `json:"adapter"`
	Kind    string `json:"kind"` // "table" | "unknown" | "garbage"
	URL     string `json:"url"`  // full type URL (table / unknown)
	Raw     string `json:"raw"`  // hex (garbage)
	Variant string `json:"variant"`
}

// adEncoding: one hand-crafted serialisation of the Any of message type T (items as in spec/Adapters.tla, section "encodings")
type adEncoding struct {
	Adapter string   `json:"adapter"`
	T       string   `json:"t"` // full type URL of the real type
	D       string   `json:"d"` // full type URL of the decoy
	Items   []string `json:"items"`
}

type adJob struct {
	Encodings []adEncoding `json:"encodings"`
	Fixture   string       `json:"fixture"` // stored ECDSA key: library oracle and genuine value bytes for the ECDSA adapter
	// MaxHung: once that many runs with a default deadline did not finish, the remaining sessions are skipped (a defect that
	// stalls every run must not turn the check into a sequence of deadlines)
	MaxHung   int          `json:"max_hung"`
	Sessions  []adSession  `json:"sessions"`
	Classify  []adClassify `json:"classify"`
	ClassifyT int          `json:"classify_t"`
	Workers   int          `json:"workers"`
}

// ---- the adapter API as used by threshold.Scheme -----------------------------------------------------------------------

type adParty interface {
	ClassifyMsg(msgBytes []byte) (uint8, bool, error)
	OnMsg(msgBytes []byte, from uint16, broadcast bool)
	Init(parties []uint16, threshold int, sendMsg func(msg []byte, isBroadcast bool, to uint16))
	KeyGen(ctx context.Context) ([]byte, error)
	Sign(ctx context.Context, msgHash []byte) ([]byte, error)
	SetShareData(shareData []byte) error
	ThresholdPK() ([]byte, error)
}

func adNewParty(ad string, id int, l *adLogger) adParty {
	if ad == "ecdsa" {
		return ecdsaad.NewParty(uint16(id), l)
	}
	return eddsaad.NewParty(uint16(id), l)
}

const adURLPrefix = "type.googleapis.com/binance.tsslib."

func adShort(url string) string {
	if strings.HasPrefix(url, adURLPrefix) {
		return url[len(adURLPrefix):]
	}
	return "?" + url
}

// ---- minimal protobuf (google.protobuf.Any, tss.MessageWrapper) ----------------------------------------------------------

func pbVarint(x uint64) []byte {
	var b []byte
	for x >= 0x80 {
		b = append(b, byte(x)|0x80)
		x >>= 7
	}
	return append(b, byte(x))
}

func pbLenField(field int, data []byte) []byte {
	b := pbVarint(uint64(field<<3 | 2))
	b = append(b, pbVarint(uint64(len(data)))...)
	return append(b, data...)
}

func pbAny(url string, value []byte) []byte {
	var b []byte
	if url != "" {
		b = append(b, pbLenField(1, []byte(url))...)
	}
	if len(value) > 0 {
		b = append(b, pbLenField(2, value)...)
	}
	return b
}

// pbAnyURL decodes the type URL of a serialised google.protobuf.Any independently of the code under test.
func pbAnyURL(b []byte) (string, bool) {
	url := ""
	i := 0
	readVarint := func() (uint64, bool) {
		var x uint64
		var s uint
		for i < len(b) {
			c := b[i]
			i++
			x |= uint64(c&0x7f) << s
			if c < 0x80 {
				return x, true
			}
			s += 7
			if s > 63 {
				return 0, false
			}
		}
		return 0, false
	}
	for i < len(b) {
		tag, ok := readVarint()
		if !ok {
			return "", false
		}
		switch tag & 7 {
		case 0:
			if _, ok := readVarint(); !ok {
				return "", false
			}
		case 1:
			i += 8
		case 5:
			i += 4
		case 2:
			n, ok := readVarint()
			if !ok || uint64(i)+n > uint64(len(b)) {
				return "", false
			}
			if tag>>3 == 1 {
				url = string(b[i : i+int(n)])
			}
			i += int(n)
		default:
			return "", false
		}
		if i > len(b) {
			return "", false
		}
	}
	return url, true
}

// pbWrapper serialises a tss.MessageWrapper{is_broadcast=1, from=3 {id=1, moniker=2, key=3}, message=10} that embeds a sender.
func pbWrapper(isBroadcast bool, from int, anyBytes []byte) []byte {
	var b []byte
	if isBroadcast {
		b = append(b, 0x08, 0x01)
	}
	var key []byte
	if from > 255 {
		key = []byte{byte(from >> 8), byte(from)}
	} else {
		key = []byte{byte(from)}
	}
	pid := append(pbLenField(1, []byte(strconv.Itoa(from))), pbLenField(3, key)...)
	b = append(b, pbLenField(3, pid)...)
	return append(b, pbLenField(10, anyBytes)...)
}

// ---- logger = observation point ------------------------------------------------------------------------------------------

type adLogger struct {
	run    *adRun
	p      int
	inCall int32 // 1 while the router is inside OnMsg / ClassifyMsg of this party
	drops  int32 // warnings issued on the OnMsg path during the current call
}

func adToInt(v interface{}) int {
	n, err := strconv.Atoi(strings.TrimSpace(fmt.Sprint(v)))
	if err != nil {
		return -1
	}
	return n
}

func (l *adLogger) Debugf(format string, a ...interface{}) {
	if strings.Contains(format, "Got message from") && len(a) >= 2 {
		l.run.log(obj{"e": "handed", "p": l.p, "from": adToInt(a[1])})
	}
}

func (l *adLogger) Warnf(format string, a ...interface{}) {
	k := "other"
	switch {
	case strings.Contains(format, "claimed to be from"):
		k = "claimed-mismatch"
	case strings.Contains(format, "Received invalid message"):
		k = "invalid"
	case strings.Contains(format, "invalid key"):
		k = "invalid-key"
	case strings.Contains(format, "updating party"):
		k = "lib-reject"
	case strings.Contains(format, "serializing message"), strings.Contains(format, "marshaling message"):
		k = "serialize"
	}
	if k != "lib-reject" && k != "serialize" && atomic.LoadInt32(&l.inCall) == 1 {
		atomic.AddInt32(&l.drops, 1)
	}
	txt := fmt.Sprintf(format, a...)
	if len(txt) > 160 {
		txt = txt[:160]
	}
	// "proto": issued by the protocol goroutine (e.g. the library rejected what it was handed); "onmsg": inside OnMsg/ClassifyMsg
	path := "proto"
	if k != "lib-reject" && k != "serialize" && (k != "other" || atomic.LoadInt32(&l.inCall) == 1) {
		path = "onmsg"
	}
	l.run.log(obj{"e": "warn", "p": l.p, "k": k, "path": path, "txt": txt})
}

func (l *adLogger) Errorf(format string, a ...interface{}) {
	txt := fmt.Sprintf(format, a...)
	if len(txt) > 160 {
		txt = txt[:160]
	}
	l.run.log(obj{"e": "warn", "p": l.p, "k": "error", "path": "proto", "txt": txt})
}

// ---- one protocol run (a key generation or a signing) -------------------------------------------------------------------------

type adDeliv struct {
	from int
	m    int
	data []byte
	tick bool
}

type adRx struct {
	id    int
	party adParty
	lg    *adLogger
	q     chan adDeliv
	held  []adDeliv
	done  bool // probe injected (or no probe for this receiver)
	// standin probes
	delivered map[string]bool // "<from>|<short url>" handed to OnMsg
	stage     int             // 0 waiting to inject, 1 injected (M's message still held), 2 finished
	heldM     *adDeliv
	src       []byte
	// probe runs: deliveries start only after the party's own first emission, i.e. once its protocol instance has been started
	// (tss-lib only stores a message that arrives before Start and does not act on it until the next message arrives; with a
	// held-back message that next message might never come)
	started int32
	pre     []adDeliv
}

type adRun struct {
	t     int
	ad    string
	ids   []int
	mu    sync.Mutex
	lines []obj
	nextM int
	first map[string][]byte // "<sender>|<short url>" -> first emission
	rx    map[int]*adRx
	probe *adProbe
	fired int32
}

func (r *adRun) log(o obj) {
	r.mu.Lock()
	o["t"] = r.t
	r.lines = append(r.lines, o)
	r.mu.Unlock()
}

func adBytesToInts(b []byte) []int {
	res := make([]int, len(b))
	for i, x := range b {
		res[i] = int(x)
	}
	return res
}

func (r *adRun) guard(p int, where string, f func()) {
	defer func() {
		if e := recover(); e != nil {
			st := string(debug.Stack())
			if len(st) > 1500 {
				st = st[:1500]
			}
			r.log(obj{"e": "panic", "p": p, "where": where, "what": fmt.Sprint(e), "stack": st})
		}
	}()
	f()
}

// sender returns the sendMsg callback of party s: logs the emission with the library's routing flag and routes it by
// (isBroadcast, to).
func (r *adRun) sender(s int) func(msg []byte, isBroadcast bool, to uint16) {
	return func(msg []byte, isBroadcast bool, to uint16) {
		data := append([]byte(nil), msg...)
		url, _ := pbAnyURL(data)
		su := adShort(url)
		r.mu.Lock()
		r.nextM++
		m := r.nextM
		key := fmt.Sprintf("%d|%s", s, su)
		if _, ok := r.first[key]; !ok {
			r.first[key] = data
		}
		dst := 0
		if !isBroadcast {
			dst = int(to)
		}
		r.lines = append(r.lines, obj{"t": r.t, "e": "emit", "m": m, "p": s, "url": su, "rb": isBroadcast, "to": dst})
		r.mu.Unlock()
		for _, id := range r.ids {
			if id == s {
				continue
			}
			if isBroadcast || int(to) == id {
				r.rx[id].q <- adDeliv{from: s, m: m, data: data}
			}
		}
		if r.probe != nil {
			if atomic.CompareAndSwapInt32(&r.rx[s].started, 0, 1) || (r.probe.A == r.probe.At && s == r.probe.At) {
				r.rx[s].q <- adDeliv{tick: true}
			}
		}
	}
}

func (r *adRun) classify(rx *adRx, d adDeliv) (bool, bool) {
	var round uint8
	var bc bool
	var err error
	url, _ := pbAnyURL(d.data)
	atomic.StoreInt32(&rx.lg.inCall, 1)
	ok := false
	r.guard(rx.id, "ClassifyMsg", func() {
		round, bc, err = rx.party.ClassifyMsg(d.data)
		ok = true
	})
	atomic.StoreInt32(&rx.lg.inCall, 0)
	if !ok {
		return false, false
	}
	r.log(obj{"e": "cls", "m": d.m, "p": rx.id, "from": d.from, "url": adShort(url), "r": int(round), "bc": bc, "err": err != nil})
	return bc, err == nil
}

func (r *adRun) onmsg(rx *adRx, data []byte, from int, bc bool, m int, emb int, probe string) {
	atomic.StoreInt32(&rx.lg.drops, 0)
	atomic.StoreInt32(&rx.lg.inCall, 1)
	r.guard(rx.id, "OnMsg", func() { rx.party.OnMsg(data, uint16(from), bc) })
	atomic.StoreInt32(&rx.lg.inCall, 0)
	url, _ := pbAnyURL(data)
	r.log(obj{"e": "on", "p": rx.id, "from": from, "bc": bc, "m": m, "emb": emb, "acc": atomic.LoadInt32(&rx.lg.drops) == 0,
		"prb": probe, "url": adShort(url)})
}

func (r *adRun) deliver(rx *adRx, d adDeliv) {
	bc, ok := r.classify(rx, d)
	if !ok {
		return // threshold.Scheme drops a message its classifier rejects
	}
	r.onmsg(rx, d.data, d.from, bc, d.m, 0, "")
}

// handle implements the receiver side incl. the hold-back that makes a probe's position deterministic: all messages of the
// probed type are held at the probed receiver until the captured message (of a) and the genuine message of b are available; then
// the probe is delivered, immediately followed by b's genuine message and the other held messages in arrival order.
func (r *adRun) handle(rx *adRx, d adDeliv) {
	if r.probe != nil {
		if atomic.LoadInt32(&rx.started) == 0 {
			if !d.tick {
				rx.pre = append(rx.pre, d)
			}
			return
		}
		if len(rx.pre) > 0 {
			pre := rx.pre
			rx.pre = nil
			for _, x := range pre {
				r.handle1(rx, x)
			}
		}
	}
	r.handle1(rx, d)
}

func (r *adRun) handle1(rx *adRx, d adDeliv) {
	pr := r.probe
	if pr == nil || pr.At != rx.id || rx.done {
		if !d.tick {
			r.deliver(rx, d)
		}
		return
	}
	if pr.Kind == "standin" {
		r.handleStandin(rx, d)
		return
	}
	if !d.tick {
		url, _ := pbAnyURL(d.data)
		if adShort(url) != pr.URL {
			r.deliver(rx, d)
			return
		}
		rx.held = append(rx.held, d)
	}
	var src []byte
	if pr.A == rx.id {
		r.mu.Lock()
		src = r.first[fmt.Sprintf("%d|%s", pr.A, pr.URL)]
		r.mu.Unlock()
	} else {
		for _, h := range rx.held {
			if h.from == pr.A {
				src = h.data
				break
			}
		}
	}
	bIdx := -1
	for i, h := range rx.held {
		if h.from == pr.B {
			bIdx = i
			break
		}
	}
	if src == nil || (bIdx < 0 && pr.Kind != "outsider") {
		return
	}
	rx.done = true
	atomic.StoreInt32(&r.fired, 1)
	switch pr.Kind {
	case "wrapped":
		r.onmsg(rx, pbWrapper(pr.Flag, pr.A, src), pr.B, pr.Flag, 0, pr.A, "wrapped")
	default:
		r.onmsg(rx, src, pr.B, pr.Flag, 0, 0, pr.Kind)
	}
	if bIdx >= 0 {
		r.deliver(rx, rx.held[bIdx])
	}
	for i, h := range rx.held {
		if i != bIdx {
			r.deliver(rx, h)
		}
	}
	rx.held = nil
}

func (r *adRun) handleStandin(rx *adRx, d adDeliv) {
	pr := r.probe
	if rx.delivered == nil {
		rx.delivered = map[string]bool{}
	}
	if !d.tick {
		url, _ := pbAnyURL(d.data)
		su := adShort(url)
		if d.from == pr.M && su == pr.URL && rx.heldM == nil {
			h := d
			rx.heldM = &h
		} else {
			if d.from == pr.A && su == pr.URL && rx.src == nil {
				rx.src = d.data
			}
			r.deliver(rx, d)
			rx.delivered[fmt.Sprintf("%d|%s", d.from, su)] = true
		}
	}
	if rx.src == nil && pr.A == rx.id {
		r.mu.Lock()
		rx.src = r.first[fmt.Sprintf("%d|%s", pr.A, pr.URL)]
		r.mu.Unlock()
	}
	have := func(urls []string, exceptM bool) bool {
		for _, q := range r.ids {
			if q == rx.id {
				continue
			}
			for _, u := range urls {
				if exceptM && q == pr.M && u == pr.URL {
					continue
				}
				if !rx.delivered[fmt.Sprintf("%d|%s", q, u)] {
					return false
				}
			}
		}
		return true
	}
	if rx.stage == 0 && rx.src != nil && have(pr.StepURLs, true) {
		rx.stage = 1
		atomic.StoreInt32(&r.fired, 1)
		r.onmsg(rx, rx.src, pr.B, pr.Flag, 0, 0, "standin")
	}
	if rx.stage == 1 && rx.heldM != nil && have(pr.NextURLs, false) {
		rx.stage = 2
		rx.done = true
		r.deliver(rx, *rx.heldM)
		rx.heldM = nil
	}
}

type adResult struct {
	p   int
	out []byte
	err error
	ok  bool // returned (did not panic)
}

// adRunPhase executes one key generation (digest == nil) or one signing with fresh party objects.
func adRunPhase(t int, ad string, ids []int, thr int, phase string, shares map[int][]byte, digest []byte, others [][]byte, probe *adProbe,
	timeout time.Duration) ([]obj, map[int][]byte, bool, bool) {
	r := &adRun{t: t, ad: ad, ids: ids, first: map[string][]byte{}, rx: map[int]*adRx{}, probe: probe}
	reset := obj{"e": "reset", "ad": ad, "ph": phase, "ids": ids, "thr": thr, "dg": adBytesToInts(digest),
		"pk": "", "pp": 0, "pa": 0, "pb": 0, "pf": false, "purl": "", "pm": 0}
	if probe != nil {
		reset["pk"], reset["pp"], reset["pa"], reset["pb"], reset["pf"], reset["purl"] = probe.Kind, probe.At, probe.A, probe.B, probe.Flag, probe.URL
		reset["pm"] = probe.M
	}
	r.log(reset)
	ids16 := make([]uint16, len(ids))
	for i, id := range ids {
		ids16[i] = uint16(id)
	}
	setupOK := true
	for _, id := range ids {
		lg := &adLogger{run: r, p: id}
		p := adNewParty(ad, id, lg)
		if phase == "sign" {
			if err := p.SetShareData(shares[id]); err != nil {
				r.log(obj{"e": "setup", "p": id, "err": err.Error()})
				setupOK = false
			}
		}
		r.rx[id] = &adRx{id: id, party: p, lg: lg, q: make(chan adDeliv, 8192)}
	}
	if !setupOK {
		r.log(obj{"e": "end", "hung": false, "setup": false, "fired": false})
		return r.lines, nil, false, false
	}
	stop := make(chan struct{})
	var rxWG sync.WaitGroup
	for _, id := range ids {
		rx := r.rx[id]
		rxWG.Add(1)
		go func() {
			defer rxWG.Done()
			for {
				select {
				case <-stop:
					return
				case d := <-rx.q:
					r.handle(rx, d)
				}
			}
		}()
	}
	for _, id := range ids {
		r.rx[id].party.Init(ids16, thr, r.sender(id))
	}
	ctx, cancel := context.WithCancel(context.Background())
	defer cancel()
	results := make(chan adResult, len(ids))
	for _, id := range ids {
		id := id
		go func() {
			res := adResult{p: id}
			r.guard(id, phase, func() {
				if phase == "keygen" {
					res.out, res.err = r.rx[id].party.KeyGen(ctx)
				} else {
					res.out, res.err = r.rx[id].party.Sign(ctx, digest)
				}
				res.ok = true
			})
			results <- res
		}()
	}
	got := map[int]adResult{}
	timer := time.NewTimer(timeout)
	timedOut := false
	hung := false
collect:
	for len(got) < len(ids) {
		select {
		case res := <-results:
			got[res.p] = res
		case <-timer.C:
			if timedOut {
				hung = true
				break collect
			}
			timedOut = true
			cancel()
			timer.Reset(20 * time.Second)
		}
	}
	timer.Stop()
	close(stop)
	rxWG.Wait()
	outs := map[int][]byte{}
	allOK := !hung
	for _, id := range ids {
		res, ok := got[id]
		if !ok {
			allOK = false
			continue
		}
		e := ""
		if res.err != nil {
			e = res.err.Error()
			if len(e) > 200 {
				e = e[:200]
			}
		}
		good := res.ok && res.err == nil
		r.log(obj{"e": "ret", "p": id, "op": phase, "ok": good, "err": e, "late": timedOut})
		if good {
			outs[id] = res.out
		} else {
			allOK = false
		}
	}
	// outcome
	if phase == "keygen" {
		for _, id := range ids {
			share, ok := outs[id]
			if !ok {
				continue
			}
			r.guard(id, "ThresholdPK", func() {
				p := adNewParty(ad, id, &adLogger{run: r, p: id})
				if err := p.SetShareData(share); err != nil {
					r.log(obj{"e": "pk", "p": id, "pkh": "", "err": err.Error()})
					return
				}
				pk, err := p.ThresholdPK()
				if err != nil {
					r.log(obj{"e": "pk", "p": id, "pkh": "", "err": err.Error()})
					return
				}
				r.log(obj{"e": "pk", "p": id, "pkh": hex.EncodeToString(pk), "err": ""})
			})
		}
	} else {
		for _, id := range ids {
			sig, ok := outs[id]
			if !ok {
				continue
			}
			r.guard(id, "verify", func() {
				pk, err := r.rx[id].party.ThresholdPK()
				if err != nil {
					r.log(obj{"e": "sig", "p": id, "vr": false, "oth": []obj{}, "err": err.Error(), "sigh": hex.EncodeToString(sig)})
					return
				}
				vr := adVerify(ad, pk, digest, sig)
				oth := []obj{}
				for _, o := range others {
					oth = append(oth, obj{"d": adBytesToInts(o), "v": adVerify(ad, pk, o, sig)})
				}
				r.log(obj{"e": "sig", "p": id, "vr": vr, "oth": oth, "err": "", "sigh": hex.EncodeToString(sig)})
			})
		}
	}
	r.log(obj{"e": "end", "hung": hung || timedOut, "setup": true, "fired": probe == nil || atomic.LoadInt32(&r.fired) == 1})
	return r.lines, outs, allOK, hung || timedOut
}

// adVerify: independent verifiers. EdDSA: ThresholdPK is the 32-byte Ed25519 key, the signature 64 bytes (RFC 8032), the message
// is the digest as given. ECDSA: PKIX key, ASN.1 signature, crypto/ecdsa maps the digest to an integer itself.
func adVerify(ad string, pk, digest, sig []byte) (ok bool) {
	defer func() {
		if recover() != nil {
			ok = false
		}
	}()
	if ad == "eddsa" {
		if len(pk) != ed25519.PublicKeySize || len(sig) != ed25519.SignatureSize {
			return false
		}
		return ed25519.Verify(ed25519.PublicKey(pk), digest, sig)
	}
	key, err := x509.ParsePKIXPublicKey(pk)
	if err != nil {
		return false
	}
	pub, isEC := key.(*ecdsa.PublicKey)
	if !isEC {
		return false
	}
	return ecdsa.VerifyASN1(pub, digest, sig)
}

func adDur(ms int, def time.Duration) time.Duration {
	if ms <= 0 {
		return def
	}
	return time.Duration(ms) * time.Millisecond
}

func adHex(s string) []byte {
	b, err := hex.DecodeString(s)
	if err != nil {
		fatal("bad hex %q", s)
	}
	if b == nil {
		b = []byte{}
	}
	return b
}

var adHungRuns int32

// adRetried summarises an unfinished first attempt: which parties returned successfully and how many messages each party
// emitted (a party that finished while others starve = lost messages; nobody finished = slowness or a stalled protocol).
func adRetried(t int, phase, ad string, lines []obj) obj {
	finished := []int{}
	emits := map[string]int{}
	handed := 0
	for _, l := range lines {
		switch l["e"] {
		case "ret":
			if ok, _ := l["ok"].(bool); ok {
				finished = append(finished, l["p"].(int))
			}
		case "emit":
			emits[strconv.Itoa(l["p"].(int))]++
		case "handed":
			handed++
		}
	}
	return obj{"e": "retried", "t": t, "ph": phase, "ad": ad, "finished": finished, "emits": emits, "handed": handed}
}

func adPanicked(lines []obj) bool {
	for _, l := range lines {
		if l["e"] == "panic" {
			return true
		}
	}
	return false
}

func adSessionExec(s adSession, em *emitter, maxHung int) {
	var shares map[int][]byte
	skipFrom := func(i int) {
		for _, sg := range s.Signs[i:] {
			em.lines([]obj{{"e": "skipped", "t": sg.T}})
		}
	}
	if int(atomic.LoadInt32(&adHungRuns)) >= maxHung {
		if s.Keygen {
			em.lines([]obj{{"e": "skipped", "t": s.KeygenT}})
		}
		skipFrom(0)
		return
	}
	if s.Keygen {
		em.lines([]obj{{"e": "begin", "t": s.KeygenT}})
		em.flush()
		def := 12 * time.Second // typical: 0.05 .. 0.3 s
		if s.Adapter == "ecdsa" {
			def = 10 * time.Minute // typical: 12 .. 20 s (safe primes)
		}
		lines, outs, ok, late := adRunPhase(s.KeygenT, s.Adapter, s.IDs, s.Thr, "keygen", nil, nil, nil, s.KeygenProbe, adDur(s.KeygenMs, def))
		if late && s.KeygenMs <= 0 && !adPanicked(lines) {
			// a run that does not finish is repeated once (before the repair "messages queued by the protocol are still sent
			// when the protocol ends" the adapter lost the last messages of a party that finished in a burst under load);
			// the engine reports how often this was needed
			em.lines([]obj{adRetried(s.KeygenT, "keygen", s.Adapter, lines)})
			lines, outs, ok, late = adRunPhase(s.KeygenT, s.Adapter, s.IDs, s.Thr, "keygen", nil, nil, nil, s.KeygenProbe, adDur(s.KeygenMs, def))
		}
		em.lines(lines)
		em.flush()
		if late && s.KeygenMs <= 0 {
			atomic.AddInt32(&adHungRuns, 1)
		}
		if !ok {
			skipFrom(0)
			return
		}
		shares = outs
		if s.SharesOut != "" {
			m := map[string]string{}
			for id, sh := range outs {
				m[strconv.Itoa(id)] = string(sh)
			}
			b, _ := json.Marshal(m)
			if err := os.WriteFile(s.SharesOut, b, 0o600); err != nil {
				fatal("writing shares: %v", err)
			}
		}
	} else {
		b, err := os.ReadFile(s.SharesIn)
		if err != nil {
			fatal("reading shares: %v", err)
		}
		m := map[string]string{}
		if err := json.Unmarshal(b, &m); err != nil {
			fatal("parsing shares: %v", err)
		}
		shares = map[int][]byte{}
		for k, v := range m {
			id, _ := strconv.Atoi(k)
			shares[id] = []byte(v)
		}
	}
	for i, sg := range s.Signs {
		if int(atomic.LoadInt32(&adHungRuns)) >= maxHung {
			skipFrom(i)
			return
		}
		em.lines([]obj{{"e": "begin", "t": sg.T}})
		em.flush()
		var others [][]byte
		for _, o := range sg.Others {
			others = append(others, adHex(o))
		}
		def := 12 * time.Second // typical: 0.03 .. 0.2 s
		if s.Adapter == "ecdsa" {
			def = 40 * time.Second // typical: 1 .. 2 s
		}
		lines, _, _, late := adRunPhase(sg.T, s.Adapter, s.IDs, s.Thr, "sign", shares, adHex(sg.Digest), others, sg.Probe, adDur(sg.TimeoutMs, def))
		if late && sg.TimeoutMs <= 0 && !adPanicked(lines) {
			em.lines([]obj{adRetried(sg.T, "sign", s.Adapter, lines)})
			lines, _, _, late = adRunPhase(sg.T, s.Adapter, s.IDs, s.Thr, "sign", shares, adHex(sg.Digest), others, sg.Probe, adDur(sg.TimeoutMs, def))
		}
		em.lines(lines)
		em.flush()
		if late && sg.TimeoutMs <= 0 {
			atomic.AddInt32(&adHungRuns, 1)
		}
	}
}

// adClassifyExec: ClassifyMsg on hand-built google.protobuf.Any envelopes (every URL of the table, unknown URLs) and on garbage.
func adClassifyExec(job adJob, em *emitter) {
	if len(job.Classify) == 0 {
		return
	}
	t := job.ClassifyT
	r := &adRun{t: t, first: map[string][]byte{}, rx: map[int]*adRx{}}
	r.log(obj{"e": "reset", "ad": "both", "ph": "table", "ids": []int{1}, "thr": 0, "dg": []int{}, "pk": "", "pp": 0, "pa": 0, "pb": 0, "pf": false, "purl": "", "pm": 0})
	rng := rand.New(rand.NewSource(adSeed()))
	// the receiver classifies from the bytes ALONE: every case is put to the same adapter in each state a receiver can be in --
	// freshly constructed, initialised for a session, and holding a stored key share (a second key generation / a signer)
	parties := map[string][]*adRx{}
	states := map[string][]string{}
	for _, ad := range []string{"ecdsa", "eddsa"} {
		add := func(st string, prep func(p adParty) bool) {
			lg := &adLogger{run: r, p: 1}
			p := adNewParty(ad, 1, lg)
			ok := false
			r.guard(1, "classify-setup", func() { ok = prep(p) })
			if ok {
				parties[ad] = append(parties[ad], &adRx{id: 1, party: p, lg: lg})
				states[ad] = append(states[ad], st)
			}
		}
		nop := func([]byte, bool, uint16) {}
		add("fresh", func(adParty) bool { return true })
		add("init", func(p adParty) bool { p.Init([]uint16{1, 2, 3}, 1, nop); return true })
		fixture := ""
		if ad == "ecdsa" {
			fixture = job.Fixture
		}
		if ad == "eddsa" || fixture != "" {
			if sh, err := afShares(ad, []int{1, 2, 3}, 1, fixture); err == nil && len(sh[1]) > 0 {
				add("share", func(p adParty) bool { return p.SetShareData(sh[1]) == nil })
				add("share+init", func(p adParty) bool {
					if p.SetShareData(sh[1]) != nil {
						return false
					}
					p.Init([]uint16{1, 2, 3}, 1, nop)
					return true
				})
			}
		}
	}
	for i, c := range job.Classify {
		if parties[c.Adapter] == nil {
			fatal("classify case %d: unknown adapter %q", i, c.Adapter)
		}
		var data []byte
		switch c.Kind {
		case "garbage":
			data = adHex(c.Raw)
		default:
			val := make([]byte, 1+rng.Intn(40))
			rng.Read(val)
			switch c.Variant {
			case "empty-value":
				data = pbAny(c.URL, nil)
			case "value-first":
				data = append(pbLenField(2, val), pbLenField(1, []byte(c.URL))...)
			default:
				data = pbAny(c.URL, val)
			}
		}
		for si, rx := range parties[c.Adapter] {
			var round uint8
			var bc bool
			var err error
			done := false
			r.guard(1, "ClassifyMsg", func() {
				round, bc, err = rx.party.ClassifyMsg(data)
				done = true
			})
			if !done {
				continue
			}
			url := c.URL
			if c.Kind == "garbage" {
				url = ""
			}
			r.log(obj{"e": "tcls", "i": i, "ad": c.Adapter, "k": c.Kind, "var": c.Variant, "url": adShort(url), "r": int(round), "bc": bc, "err": err != nil,
				"st": states[c.Adapter][si]})
		}
	}
	adEncodingExec(job, r)
	r.log(obj{"e": "end", "hung": false, "setup": true, "fired": true})
	em.lines(r.lines)
	em.flush()
}

// ---- hand-crafted encodings: does the receiver's classification follow what the library processes the bytes as? ---------------

// pbAnyValue returns the value field (2) of a serialised Any (last occurrence)
func pbAnyValue(b []byte) []byte {
	var val []byte
	i := 0
	for i < len(b) {
		tag := uint64(0)
		sh := uint(0)
		for i < len(b) {
			c := b[i]
			i++
			tag |= uint64(c&0x7f) << sh
			if c < 0x80 {
				break
			}
			sh += 7
		}
		if tag&7 != 2 {
			return val
		}
		n := uint64(0)
		sh = 0
		for i < len(b) {
			c := b[i]
			i++
			n |= uint64(c&0x7f) << sh
			if c < 0x80 {
				break
			}
			sh += 7
		}
		if uint64(i)+n > uint64(len(b)) {
			return val
		}
		if tag>>3 == 2 {
			val = b[i : i+int(n)]
		}
		i += int(n)
	}
	return val
}

func pbLenFieldNonMinimal(field int, data []byte) []byte {
	b := pbVarint(uint64(field<<3 | 2))
	l := pbVarint(uint64(len(data)))
	l[len(l)-1] |= 0x80 // one more (empty) group of seven bits: a longer spelling of the same number
	l = append(l, 0x00)
	b = append(b, l...)
	return append(b, data...)
}

// adBuildEncoding turns the abstract items into bytes
func adBuildEncoding(items []string, real, decoy string, v, w []byte) []byte {
	var b []byte
	for _, it := range items {
		switch it {
		case "Ur":
			b = append(b, pbLenField(1, []byte(real))...)
		case "Ud":
			b = append(b, pbLenField(1, []byte(decoy))...)
		case "Urn":
			b = append(b, pbLenFieldNonMinimal(1, []byte(real))...)
		case "Udn":
			b = append(b, pbLenFieldNonMinimal(1, []byte(decoy))...)
		case "Ue":
			b = append(b, pbLenField(1, nil)...)
		case "Uu":
			b = append(b, pbLenField(1, []byte(adURLPrefix+"nosuch.Message"))...)
		case "V":
			b = append(b, pbLenField(2, v)...)
		case "Vn":
			b = append(b, pbLenFieldNonMinimal(2, v)...)
		case "W":
			b = append(b, pbLenField(2, w)...)
		case "Xv":
			b = append(b, 15<<3|0, 0x96, 0x01)
		case "Xl":
			b = append(b, pbLenField(14, []byte("extra"))...)
		case "X5":
			b = append(b, 13<<3|5, 1, 2, 3, 4)
		case "X1":
			b = append(b, 12<<3|1, 1, 2, 3, 4, 5, 6, 7, 8)
		case "G":
			b = append(b, 0x0a, 0x7f, 0x41) // a field that announces 127 bytes and has one
		}
	}
	return b
}

// adOracleLogger reads, from what the adapter logs, what the LIBRARY made of a message: a message of a non-participant is
// rejected by tss-lib with "received msg with an invalid sender: Type: <proto name>, From: ..." -- the type it parsed the bytes as.
type adOracleLogger struct {
	ch      chan string
	dropped int32
}

func (l *adOracleLogger) Debugf(string, ...interface{}) {}
func (l *adOracleLogger) Errorf(string, ...interface{}) {}
func (l *adOracleLogger) Warnf(format string, a ...interface{}) {
	if strings.Contains(format, "updating party") {
		select {
		case l.ch <- fmt.Sprintf(format, a...):
		default:
		}
		return
	}
	atomic.AddInt32(&l.dropped, 1)
}

type adOracle struct {
	party  adParty
	lg     *adOracleLogger
	cancel context.CancelFunc
}

func adNewOracle(ad string, fixture string) *adOracle {
	lg := &adOracleLogger{ch: make(chan string, 64)}
	ctx, cancel := context.WithCancel(context.Background())
	o := &adOracle{lg: lg, cancel: cancel}
	if ad == "eddsa" {
		p := eddsaad.NewParty(1, lg)
		p.Init([]uint16{1, 2}, 1, func([]byte, bool, uint16) {})
		go func() {
			defer func() { recover() }()
			p.KeyGen(ctx)
		}()
		o.party = p
		return o
	}
	sh, err := afShares("ecdsa", []int{1, 2, 3}, 1, fixture)
	if fixture == "" || err != nil {
		cancel()
		return nil
	}
	p := ecdsaad.NewParty(1, lg)
	if p.SetShareData(sh[1]) != nil {
		cancel()
		return nil
	}
	p.Init([]uint16{1, 2, 3}, 1, func([]byte, bool, uint16) {})
	go func() {
		defer func() { recover() }()
		p.Sign(ctx, []byte("oracle digest oracle digest 0123"))
	}()
	o.party = p
	return o
}

// ask: hands the bytes to OnMsg as coming from a non-participant; returns (observed, rejected, short type)
func (o *adOracle) ask(data []byte, bc bool) (bool, bool, string) {
	for len(o.lg.ch) > 0 {
		<-o.lg.ch
	}
	atomic.StoreInt32(&o.lg.dropped, 0)
	paniced := false
	func() {
		defer func() {
			if recover() != nil {
				paniced = true
			}
		}()
		o.party.OnMsg(data, 40000, bc)
	}()
	if paniced {
		return false, false, ""
	}
	if atomic.LoadInt32(&o.lg.dropped) > 0 {
		return true, true, "" // OnMsg could not parse it: the library never sees it
	}
	select {
	case txt := <-o.lg.ch:
		i := strings.Index(txt, "Type: ")
		if i < 0 {
			return false, false, ""
		}
		rest := txt[i+6:]
		if j := strings.IndexAny(rest, ", "); j >= 0 {
			rest = rest[:j]
		}
		return true, false, strings.TrimPrefix(rest, "binance.tsslib.")
	case <-time.After(3 * time.Second):
		return false, false, ""
	}
}

// adCaptureValues: genuine value bytes per message type from honest runs (EdDSA key generation + signing, ECDSA signing from the
// stored key)
func adCaptureValues(fixture string) map[string][]byte {
	res := map[string][]byte{}
	run := func(ad string, ids []int, thr int, phase string, shares map[int][]byte) map[int][]byte {
		s := afNewSession(ad, ids, nil)
		s.capture = map[string][]byte{}
		if shares != nil {
			for _, id := range ids {
				if s.parties[id].SetShareData(shares[id]) != nil {
					return nil
				}
			}
		}
		s.start(thr)
		ctx, cancel := context.WithTimeout(context.Background(), 30*time.Second)
		defer cancel()
		var wg sync.WaitGroup
		var mu sync.Mutex
		outs := map[int][]byte{}
		for _, id := range ids {
			id := id
			wg.Add(1)
			go func() {
				defer wg.Done()
				defer func() { recover() }()
				var out []byte
				var err error
				if phase == "keygen" {
					out, err = s.parties[id].KeyGen(ctx)
				} else {
					out, err = s.parties[id].Sign(ctx, []byte("capture digest capture digest 01"))
				}
				if err == nil {
					mu.Lock()
					outs[id] = out
					mu.Unlock()
				}
			}()
		}
		wg.Wait()
		s.close()
		s.mu.Lock()
		for u, d := range s.capture {
			res[u] = pbAnyValue(d)
		}
		s.mu.Unlock()
		return outs
	}
	if sh := run("eddsa", []int{1, 2}, 1, "keygen", nil); len(sh) == 2 {
		run("eddsa", []int{1, 2}, 1, "sign", sh)
	}
	if fixture != "" {
		if sh, err := afShares("ecdsa", []int{1, 2, 3}, 1, fixture); err == nil {
			run("ecdsa", []int{1, 2, 3}, 1, "sign", sh)
		}
	}
	return res
}

func adEncodingExec(job adJob, r *adRun) {
	if len(job.Encodings) == 0 {
		return
	}
	values := adCaptureValues(job.Fixture)
	classifiers := map[string]adParty{}
	oracles := map[string]*adOracle{}
	for _, ad := range []string{"ecdsa", "eddsa"} {
		classifiers[ad] = adNewParty(ad, 1, &adLogger{run: &adRun{t: -1}, p: 1})
		oracles[ad] = adNewOracle(ad, job.Fixture)
	}
	defer func() {
		for _, o := range oracles {
			if o != nil {
				o.cancel()
			}
		}
	}()
	for i, e := range job.Encodings {
		ts := adShort(e.T)
		v, genuine := values[ts]
		if !genuine || len(v) == 0 {
			v = pbLenField(1, []byte{byte(i), 0xAB, 0xCD, 0xEF}) // a well-formed message body with one bytes field
		}
		w := append([]byte(nil), v...)
		w[len(w)-1] ^= 1 // a conflicting message of the same type and shape
		data := adBuildEncoding(e.Items, e.T, e.D, v, w)
		var round uint8
		var bc bool
		var err error
		done := false
		r.guard(1, "ClassifyMsg", func() {
			round, bc, err = classifiers[e.Adapter].ClassifyMsg(data)
			done = true
		})
		if !done {
			continue
		}
		lobs, lrej, lt := false, false, ""
		if o := oracles[e.Adapter]; o != nil {
			lobs, lrej, lt = o.ask(data, bc)
		}
		r.log(obj{"e": "enc", "i": i, "ad": e.Adapter, "ty": ts, "dc": adShort(e.D), "items": e.Items, "r": int(round), "bc": bc, "err": err != nil,
			"lobs": lobs, "lrej": lrej, "lt": lt, "gen": genuine})
	}
}

func adSeed() int64 {
	n, err := strconv.ParseInt(os.Getenv("VERIF_SEED"), 10, 64)
	if err != nil {
		return 1
	}
	return n
}

func init() {
	commands["adapters"] = func() {
		var job adJob
		readJob(&job)
		em := newEmitter()
		defer em.flush()
		// the hand-built envelopes / encodings run while the sessions do
		var cwg sync.WaitGroup
		cwg.Add(1)
		go func() {
			defer cwg.Done()
			adClassifyExec(job, em)
		}()
		defer cwg.Wait()
		maxHung := job.MaxHung
		if maxHung <= 0 {
			maxHung = 3
		}
		parallel(len(job.Sessions), job.Workers, func(i int) {
			adSessionExec(job.Sessions[i], em, maxHung)
		})
	}
}

// =====================================================================================================================
// Fault catalogue at the adapter level (property C11, sub-command `adfault`): KeyGen / Sign of the real adapters called
// directly while a peer goes silent after its k-th outgoing message, a single message is withheld, a context is
// cancelled or has already expired, or the stored share data are unusable.  Recorded per party call: when its context
// ended, when the call returned and with what; afterwards a fresh honest session is run in the same process (probe).
// Every case runs in a child process (a panic in a goroutine of the code under test kills the child, not the driver).
// =====================================================================================================================

type afCase struct {
	Adapter    string `json:"adapter"`
	IDs        []int  `json:"ids"`
	Thr        int    `json:"thr"`
	Phase      string `json:"phase"` // "keygen" | "sign"
	Fault      string `json:"fault"` // "none" | "vanish" | "withhold" | "cancel" | "expired" | "baddata"
	P          int    `json:"p"`     // vanish: the peer that goes silent; cancel / expired / baddata: the party concerned (0: every party; cancel, expired)
	K          int    `json:"k"`     // vanish: number of outgoing messages of P that still go out
	WS         int    `json:"ws"`    // withhold: sender, type, receiver of the withheld message
	WU         string `json:"wu"`
	WR         int    `json:"wr"`
	AtMs       int    `json:"at_ms"`   // cancel: when P's context is cancelled
	Variant    string `json:"variant"` // baddata: "empty" | "truncated" | "garbage" | "emptyobj" | "foreign" | "other-party" | "nodata"
	DeadlineMs int    `json:"deadline_ms"`
	BoundMs    int    `json:"bound_ms"` // a call has to return this long after its context ended, at the latest
	HardMs     int    `json:"hard_ms"`  // how long the harness waits after the last context end before it calls a call blocked
	SharesIn   string `json:"shares_in"`
	Digest     string `json:"digest"`
	Probe      bool   `json:"probe"`
}

type afJob struct {
	Cases   []afCase `json:"cases"`
	Base    int      `json:"base"`
	Workers int      `json:"workers"`
	Chunk   int      `json:"chunk"`
}

type afLogger struct{}

func (afLogger) Debugf(string, ...interface{}) {}
func (afLogger) Warnf(string, ...interface{})  {}
func (afLogger) Errorf(string, ...interface{}) {}

func afNewParty(ad string, id int) adParty {
	if ad == "ecdsa" {
		return ecdsaad.NewParty(uint16(id), afLogger{})
	}
	return eddsaad.NewParty(uint16(id), afLogger{})
}

// afSession: n real parties on an in-process router with the fault filters of one case.
type afSession struct {
	ad      string
	ids     []int
	parties map[int]adParty
	q       map[int]chan adDeliv
	stop    chan struct{}
	wg      sync.WaitGroup
	mu      sync.Mutex
	sent    map[int]int // outgoing messages per party (sendMsg calls)
	c       *afCase
	dropped int
	wdone   bool
	panics  []string
	capture map[string][]byte // short type URL -> first message of that type (when non-nil)
}

func afNewSession(ad string, ids []int, c *afCase) *afSession {
	s := &afSession{ad: ad, ids: ids, parties: map[int]adParty{}, q: map[int]chan adDeliv{}, stop: make(chan struct{}), sent: map[int]int{}, c: c}
	for _, id := range ids {
		s.parties[id] = afNewParty(ad, id)
		s.q[id] = make(chan adDeliv, 8192)
	}
	return s
}

func (s *afSession) notePanic(where string, e interface{}) {
	st := string(debug.Stack())
	if len(st) > 1200 {
		st = st[:1200]
	}
	s.mu.Lock()
	s.panics = append(s.panics, fmt.Sprintf("%s: %v | %s", where, e, st))
	s.mu.Unlock()
}

func (s *afSession) start(thr int) {
	ids16 := make([]uint16, len(s.ids))
	for i, id := range s.ids {
		ids16[i] = uint16(id)
	}
	for _, id := range s.ids {
		id := id
		s.wg.Add(1)
		go func() {
			defer s.wg.Done()
			for {
				select {
				case <-s.stop:
					return
				case d := <-s.q[id]:
					func() {
						defer func() {
							if e := recover(); e != nil {
								s.notePanic("OnMsg/ClassifyMsg", e)
							}
						}()
						_, bc, err := s.parties[id].ClassifyMsg(d.data)
						if err != nil {
							return
						}
						s.parties[id].OnMsg(d.data, uint16(d.from), bc)
					}()
				}
			}
		}()
	}
	for _, id := range s.ids {
		from := id
		s.parties[id].Init(ids16, thr, func(msg []byte, isBroadcast bool, to uint16) {
			data := append([]byte(nil), msg...)
			url, _ := pbAnyURL(data)
			su := adShort(url)
			s.mu.Lock()
			s.sent[from]++
			n := s.sent[from]
			c := s.c
			if s.capture != nil {
				if _, ok := s.capture[su]; !ok {
					s.capture[su] = data
				}
			}
			silent := c != nil && c.Fault == "vanish" && c.P == from && n > c.K
			s.mu.Unlock()
			if silent {
				s.mu.Lock()
				s.dropped++
				s.mu.Unlock()
				return
			}
			for _, r := range s.ids {
				if r == from || !(isBroadcast || int(to) == r) {
					continue
				}
				if c != nil && c.Fault == "withhold" && c.WS == from && c.WR == r && c.WU == su {
					s.mu.Lock()
					first := !s.wdone
					s.wdone = true
					if first {
						s.dropped++
					}
					s.mu.Unlock()
					if first {
						continue
					}
				}
				s.q[r] <- adDeliv{from: from, data: data}
			}
		})
	}
}

func (s *afSession) close() {
	close(s.stop)
	s.wg.Wait()
}

var afShareCache = map[string]map[int][]byte{}

// afShares: share data for a signing case: a stored key (ECDSA) or an honest key generation in this process (EdDSA).
func afShares(ad string, ids []int, thr int, path string) (map[int][]byte, error) {
	key := fmt.Sprintf("%s|%v|%d|%s", ad, ids, thr, path)
	if sh, ok := afShareCache[key]; ok {
		return sh, nil
	}
	shares := map[int][]byte{}
	if path != "" {
		b, err := os.ReadFile(path)
		if err != nil {
			return nil, err
		}
		m := map[string]string{}
		if err := json.Unmarshal(b, &m); err != nil {
			return nil, err
		}
		for k, v := range m {
			id, _ := strconv.Atoi(k)
			shares[id] = []byte(v)
		}
	} else {
		for attempt := 0; attempt < 3 && len(shares) < len(ids); attempt++ {
			s := afNewSession(ad, ids, nil)
			s.start(thr)
			ctx, cancel := context.WithTimeout(context.Background(), 20*time.Second)
			var mu sync.Mutex
			var wg sync.WaitGroup
			got := map[int][]byte{}
			for _, id := range ids {
				id := id
				wg.Add(1)
				go func() {
					defer wg.Done()
					out, err := s.parties[id].KeyGen(ctx)
					if err == nil {
						mu.Lock()
						got[id] = out
						mu.Unlock()
					}
				}()
			}
			wg.Wait()
			cancel()
			s.close()
			if len(got) == len(ids) {
				shares = got
			}
		}
		if len(shares) < len(ids) {
			return nil, fmt.Errorf("honest key generation for the set-up did not complete")
		}
	}
	afShareCache[key] = shares
	return shares, nil
}

type afRet struct {
	p     int
	at    int64
	out   []byte
	err   error
	panic string
}

func afExec(t int, c afCase) []obj {
	var lines []obj
	log := func(o obj) {
		o["t"] = t
		lines = append(lines, o)
	}
	log(obj{"e": "reset", "fk": c.Fault, "ad": c.Adapter, "ph": c.Phase, "ids": c.IDs, "thr": c.Thr, "fp": c.P, "k": c.K, "ws": c.WS, "wu": c.WU, "wr": c.WR,
		"at": c.AtMs, "var": c.Variant, "dl": c.DeadlineMs, "bound": c.BoundMs, "probe": c.Probe})
	fail := func(why string) []obj {
		log(obj{"e": "setupfail", "why": why})
		log(obj{"e": "end", "g0": 0, "g1": 0, "dropped": 0})
		return lines
	}
	digest := adHex(c.Digest)
	var shares map[int][]byte
	if c.Phase == "sign" {
		var err error
		shares, err = afShares(c.Adapter, c.IDs, c.Thr, c.SharesIn)
		if err != nil {
			return fail(err.Error())
		}
	}
	g0 := runtime.NumGoroutine()
	s := afNewSession(c.Adapter, c.IDs, &c)
	// stored share data (the unusable variants for party P)
	if c.Phase == "sign" {
		for _, id := range c.IDs {
			data := shares[id]
			skip := false
			if c.Fault == "baddata" && id == c.P {
				switch c.Variant {
				case "empty":
					data = []byte{}
				case "truncated":
					data = data[:len(data)*2/3]
				case "garbage":
					data = []byte("\x00\xff not json at all")
				case "emptyobj":
					data = []byte("{}")
				case "null":
					data = []byte("null")
				case "other-party":
					for _, o := range c.IDs {
						if o != id {
							data = shares[o]
							break
						}
					}
				case "foreign":
					// share data of a DIFFERENT committee (same adapter): an honest key generation of another id set
					other := []int{}
					for _, o := range c.IDs {
						x := o ^ 8 // another identifier, still a valid 16-bit one
						if x == 0 {
							x = 9
						}
						other = append(other, x)
					}
					if c.Adapter == "ecdsa" {
						// no second ECDSA key available without safe primes: the stored document with the key identifiers of another
						// committee (numbers kept verbatim: json.Number)
						var doc map[string]interface{}
						dec := json.NewDecoder(bytes.NewReader(data))
						dec.UseNumber()
						if dec.Decode(&doc) == nil {
							ks := []json.Number{}
							for _, o := range other {
								ks = append(ks, json.Number(strconv.Itoa(o)))
							}
							doc["Ks"] = ks
							if b, err := json.Marshal(doc); err == nil {
								data = b
							}
						}
					} else {
						fs, err := afShares(c.Adapter, other, c.Thr, "")
						if err != nil {
							return fail(err.Error())
						}
						data = fs[other[0]]
					}
				case "nodata":
					skip = true
				}
			}
			if skip {
				log(obj{"e": "setdata", "p": id, "called": false, "err": false, "panic": ""})
				continue
			}
			var err error
			pan := ""
			func() {
				defer func() {
					if e := recover(); e != nil {
						pan = fmt.Sprint(e)
					}
				}()
				err = s.parties[id].SetShareData(data)
			}()
			log(obj{"e": "setdata", "p": id, "called": true, "err": err != nil, "panic": pan})
		}
	}
	s.start(c.Thr)
	t0 := time.Now()
	ms := func() int64 { return time.Since(t0).Milliseconds() }
	rets := make(chan afRet, len(c.IDs))
	ctxEnd := map[int]int64{}
	var cancels []context.CancelFunc
	for _, id := range c.IDs {
		id := id
		var ctx context.Context
		var cancel context.CancelFunc
		switch {
		case c.Fault == "expired" && (c.P == 0 || c.P == id):
			ctx, cancel = context.WithDeadline(context.Background(), time.Now().Add(-time.Second))
			ctxEnd[id] = 0
			log(obj{"e": "ctxend", "p": id, "at": 0, "why": "expired"})
		case c.Fault == "cancel" && (c.P == id || c.P == 0):
			ctx, cancel = context.WithCancel(context.Background())
			at := int64(c.AtMs)
			ctxEnd[id] = at
			cf := cancel
			time.AfterFunc(time.Duration(c.AtMs)*time.Millisecond, cf)
			log(obj{"e": "ctxend", "p": id, "at": at, "why": "cancel"})
		default:
			ctx, cancel = context.WithTimeout(context.Background(), time.Duration(c.DeadlineMs)*time.Millisecond)
			ctxEnd[id] = int64(c.DeadlineMs)
			log(obj{"e": "ctxend", "p": id, "at": c.DeadlineMs, "why": "deadline"})
		}
		cancels = append(cancels, cancel)
		go func() {
			r := afRet{p: id}
			func() {
				defer func() {
					if e := recover(); e != nil {
						st := string(debug.Stack())
						if len(st) > 1200 {
							st = st[:1200]
						}
						r.panic = fmt.Sprintf("%v | %s", e, st)
					}
				}()
				if c.Phase == "keygen" {
					r.out, r.err = s.parties[id].KeyGen(ctx)
				} else {
					r.out, r.err = s.parties[id].Sign(ctx, digest)
				}
			}()
			r.at = ms()
			rets <- r
		}()
	}
	last := int64(0)
	for _, e := range ctxEnd {
		if e > last {
			last = e
		}
	}
	hard := time.NewTimer(time.Duration(last+int64(c.HardMs)) * time.Millisecond)
	got := map[int]afRet{}
wait:
	for len(got) < len(c.IDs) {
		select {
		case r := <-rets:
			got[r.p] = r
		case <-hard.C:
			break wait
		}
	}
	hard.Stop()
	for _, cf := range cancels {
		cf()
	}
	// outcomes
	okOut := map[int][]byte{}
	for _, id := range c.IDs {
		r, ok := got[id]
		if !ok {
			log(obj{"e": "noret", "p": id, "waited": ms()})
			continue
		}
		if r.panic != "" {
			log(obj{"e": "panic", "p": id, "where": c.Phase, "what": r.panic})
			continue
		}
		et := ""
		if r.err != nil {
			et = r.err.Error()
			if len(et) > 160 {
				et = et[:160]
			}
		} else {
			okOut[id] = r.out
		}
		log(obj{"e": "ret", "p": id, "at": r.at, "err": r.err != nil, "txt": et, "good": false})
	}
	// was a result that came without an error a real result?
	good := map[int]bool{}
	if c.Phase == "keygen" {
		pks := map[string]int{}
		pkOf := map[int]string{}
		for id, out := range okOut {
			func() {
				defer func() { recover() }()
				p := afNewParty(c.Adapter, id)
				if p.SetShareData(out) != nil {
					return
				}
				pk, err := p.ThresholdPK()
				if err == nil && len(pk) > 0 {
					pkOf[id] = hex.EncodeToString(pk)
					pks[pkOf[id]]++
				}
			}()
		}
		for id := range okOut {
			good[id] = pkOf[id] != "" && len(pks) == 1
		}
	} else {
		for id, sig := range okOut {
			func() {
				defer func() { recover() }()
				ref := afNewParty(c.Adapter, id)
				if ref.SetShareData(shares[id]) != nil {
					return
				}
				pk, err := ref.ThresholdPK()
				if err == nil {
					good[id] = adVerify(c.Adapter, pk, digest, sig)
				}
			}()
		}
	}
	for i := range lines {
		if lines[i]["e"] == "ret" {
			if id, ok := lines[i]["p"].(int); ok && good[id] {
				lines[i]["good"] = true
			}
		}
	}
	s.mu.Lock()
	for _, p := range s.panics {
		log(obj{"e": "panic", "p": 0, "where": "router", "what": p})
	}
	dropped := s.dropped
	s.mu.Unlock()
	s.close()
	// goroutines of the dead session should be gone after a short grace
	g1 := runtime.NumGoroutine()
	for i := 0; i < 20 && g1 > g0 && len(got) == len(c.IDs); i++ {
		time.Sleep(25 * time.Millisecond)
		g1 = runtime.NumGoroutine()
	}
	// probe: a fresh honest session in the same process
	if c.Probe {
		ok := false
		took := int64(0)
		func() {
			defer func() {
				if e := recover(); e != nil {
					log(obj{"e": "panic", "p": 0, "where": "probe", "what": fmt.Sprint(e)})
				}
			}()
			p0 := time.Now()
			if c.Adapter == "eddsa" {
				ps := afNewSession("eddsa", []int{1, 2}, nil)
				ps.start(1)
				ctx, cancel := context.WithTimeout(context.Background(), 20*time.Second)
				var wg sync.WaitGroup
				var n int32
				for _, id := range []int{1, 2} {
					id := id
					wg.Add(1)
					go func() {
						defer wg.Done()
						defer func() { recover() }()
						if _, err := ps.parties[id].KeyGen(ctx); err == nil {
							atomic.AddInt32(&n, 1)
						}
					}()
				}
				wg.Wait()
				cancel()
				ps.close()
				ok = n == 2
			} else {
				sh, err := afShares("ecdsa", c.IDs, c.Thr, c.SharesIn)
				if err == nil {
					ps := afNewSession("ecdsa", c.IDs, nil)
					for _, id := range c.IDs {
						if ps.parties[id].SetShareData(sh[id]) != nil {
							return
						}
					}
					ps.start(c.Thr)
					ctx, cancel := context.WithTimeout(context.Background(), 60*time.Second)
					var wg sync.WaitGroup
					var n int32
					pd := []byte("probe digest probe digest 012345")
					for _, id := range c.IDs {
						id := id
						wg.Add(1)
						go func() {
							defer wg.Done()
							defer func() { recover() }()
							if _, err := ps.parties[id].Sign(ctx, pd); err == nil {
								atomic.AddInt32(&n, 1)
							}
						}()
					}
					wg.Wait()
					cancel()
					ps.close()
					ok = int(n) == len(c.IDs)
				}
			}
			took = time.Since(p0).Milliseconds()
		}()
		log(obj{"e": "probe", "ok": ok, "took": took})
	}
	log(obj{"e": "end", "g0": g0, "g1": g1, "dropped": dropped})
	return lines
}

func init() {
	commands["adfault-child"] = func() {
		var job afJob
		readJob(&job)
		em := newEmitter()
		for i, c := range job.Cases {
			em.lines(afExec(job.Base+i, c))
			em.flush()
		}
	}
	commands["adfault"] = func() {
		var job afJob
		readJob(&job)
		em := newEmitter()
		defer em.flush()
		chunk := job.Chunk
		if chunk <= 0 {
			chunk = 4
		}
		runInChildren("adfault-child", len(job.Cases), job.Workers, chunk, func(lo, hi int) interface{} {
			return afJob{Cases: job.Cases[lo:hi], Base: lo}
		}, em)
	}
}
