package main

import (
	"fmt"
	"runtime"
	"sort"
	"strconv"
	"strings"
	"sync"
	"time"

	"github.com/IBM/TSS/msg"
	tss "github.com/IBM/TSS/types"

	"verif/harness/internal/scripted"
)

// boxseq: sequential histories (Recv bursts, Send, Tick of the injected ticker) on a real msg.Box with the real constants;
// the projected state is logged after every operation (spec/MsgBoxAt.tla, property C15).

type seqOp struct {
	E string `json:"e"` // "recv" | "send" | "tick" | "mark"
	S int    `json:"s"`
	T string `json:"t"`
	N int    `json:"n"`
	L string `json:"label"`
}

type seqJob struct {
	MaxTopics int       `json:"maxtopics"`
	Epochs    int       `json:"epochs"`
	Topics    []string  `json:"topics"`
	Histories [][]seqOp `json:"histories"`
	Workers   int       `json:"workers"`
}

func seqReplay(ti int, job *seqJob, ops []seqOp) []obj {
	lines := []obj{{"t": ti, "e": "reset"}}
	var mu sync.Mutex
	handed := 0
	tick := make(chan time.Time)
	topicName := map[string]string{}
	for _, tp := range job.Topics {
		topicName[string(topicBytes(tp))] = tp
	}
	box := &msg.Box{
		Logger:                    scripted.Logger{},
		MaxInFlightTopicsBySender: job.MaxTopics,
		GCSweep:                   time.Second,
		GCExpire:                  time.Duration(job.Epochs) * time.Second,
		NewTicker:                 func(time.Duration) *time.Ticker { return &time.Ticker{C: tick} },
		ForwardSend:               func(uint8, []byte, []byte, ...tss.UniversalID) {},
		MessageHandler: handlerFunc(func(m *tss.IncMessage) {
			mu.Lock()
			handed++
			mu.Unlock()
		}),
	}
	box.VerifSnapshot() // initialises the box (starts the clock goroutine)
	defer func() {
		defer func() { recover() }()
		box.Stop()
	}()
	nid := 0
	snapshot := func() obj {
		s := box.VerifSnapshot()
		pend := []obj{}
		for _, tp := range job.Topics {
			l, ok := s.Pending[string(topicBytes(tp))]
			msgs := [][]int{}
			for _, d := range l {
				parts := strings.SplitN(d, ":", 2)
				a, _ := strconv.Atoi(parts[0])
				b, _ := strconv.Atoi(parts[1])
				msgs = append(msgs, []int{a, b})
			}
			pend = append(pend, obj{"t": tp, "on": ok, "msgs": msgs})
		}
		started := []obj{}
		for _, tp := range job.Topics {
			if e, ok := s.Started[string(topicBytes(tp))]; ok {
				started = append(started, obj{"t": tp, "at": int(e)})
			}
		}
		infl := []obj{}
		var senders []int
		for k := range s.InFlight {
			senders = append(senders, int(k))
		}
		sort.Ints(senders)
		for _, sd := range senders {
			ts := []string{}
			for _, tb := range s.InFlight[uint16(sd)] {
				ts = append(ts, topicName[tb])
			}
			sort.Strings(ts)
			infl = append(infl, obj{"s": sd, "ts": ts})
		}
		return obj{"pend": pend, "started": started, "infl": infl, "epoch": int(s.Epoch), "lastgc": int(s.LastGC)}
	}
	for _, op := range ops {
		panicked := ""
		func() {
			defer func() {
				if r := recover(); r != nil {
					panicked = fmt.Sprint(r)
				}
			}()
			switch op.E {
			case "recv":
				for i := 0; i < op.N; i++ {
					nid++
					func() {
						defer func() {
							if r := recover(); r != nil {
								panicked = fmt.Sprint(r)
							}
						}()
						box.HandleMessage(&tss.IncMessage{Data: []byte(fmt.Sprintf("%d:%d", op.S, nid)), Source: uint16(op.S), MsgType: uint8(tss.MsgTypeMPC), Topic: topicBytes(op.T)})
					}()
				}
			case "send":
				box.Send(uint8(tss.MsgTypeMPC), topicBytes(op.T), []byte("out"))
			case "tick":
				before := box.VerifSnapshot().Epoch
				select {
				case tick <- time.Now():
				case <-time.After(2 * time.Second):
					panicked = "clock goroutine does not accept ticks"
				}
				for i := 0; i < 2000000 && box.VerifSnapshot().Epoch == before; i++ {
					runtime.Gosched()
				}
			}
		}()
		mu.Lock()
		h := handed
		mu.Unlock()
		l := obj{"t": ti, "e": op.E, "s": op.S, "tp": op.T, "n": op.N, "label": op.L, "snap": snapshot(), "handed": h, "panic": panicked}
		lines = append(lines, l)
	}
	return append(lines, obj{"t": ti, "e": "end"})
}

func init() {
	commands["boxseq"] = func() {
		var job seqJob
		readJob(&job)
		em := newEmitter()
		defer em.flush()
		parallel(len(job.Histories), job.Workers, func(i int) {
			em.lines(seqReplay(i, &job, job.Histories[i]))
		})
	}
}
