package main

// algebra: binding of spec/Algebra.tla (property C18) to the real secret-sharing code of mpc/bls and mpc/ps.
//
//   choose  real chooseKoutOfN callback sequence (verif-tag wrapper VerifChoose), both copies
//   lag     real lagrangeCoefficient(i, S) (VerifLagrange): compared with TLC's exact rational num/den modulo the group order, and
//           converted back to a rational (rational reconstruction) so that TLC itself can decide the equality
//   rec     shares dealt by the real SSS.Gen (VerifGen; crypto/rand, a seeded reader, and a reader that yields small coefficients
//           so that TLC can recompute the shares exactly) and interpolated by the real Shares.reconstruct (VerifReconstruct)
//   dkg     PUBLIC API ONLY: real DKGs in one process (TBLS / TPS wired through Init/OnMsg/KeyGen with an in-memory router);
//           optionally the harness plays one party itself, speaking the wire format, and reveals a key that matches its commitment
//           but is off the common polynomial.  Afterwards every requested subset of partial signatures is aggregated and verified
//           under the reported threshold key (bls.Verifier / ps.Prover + ps.Verifier).
//
// The driver only records what the real code did; every expected value and every verdict is computed by TLC from
// spec/AlgebraTrace.tla on the emitted ndjson.

import (
	"bytes"
	"context"
	crand "crypto/rand"
	"crypto/sha256"
	"encoding/asn1"
	"encoding/binary"
	"fmt"
	"io"
	"math/big"
	mrand "math/rand"
	"sort"
	"sync"
	"sync/atomic"
	"time"

	"github.com/IBM/TSS/mpc/bls"
	"github.com/IBM/TSS/mpc/ps"
	math "github.com/IBM/mathlib"
)

type algChooseCase struct {
	N int `json:"n"`
	K int `json:"k"`
}

type algLagCase struct {
	Pts []int64 `json:"pts"`
	I   int64   `json:"i"`
	Num int64   `json:"num"`
	Den int64   `json:"den"`
}

type algRecCase struct {
	Pkg  string    `json:"pkg"`
	Mode string    `json:"mode"` // crypto | seeded | small
	N    int       `json:"n"`
	T    int       `json:"t"`
	Subs [][]int64 `json:"subs"`
	Exh  bool      `json:"exh"`
	Seed int64     `json:"seed"`
	Cmax int64     `json:"cmax"` // small mode: coefficients are drawn from 1..cmax
}

type algDkgCase struct {
	Scheme string   `json:"scheme"` // bls | ps
	N      int      `json:"n"`
	T      int      `json:"t"`
	Pos    int      `json:"pos"` // position (1..n) of the party played by the harness, 0: all parties are real
	Off    bool     `json:"off"` // the harness party reveals a key off the common polynomial
	Comp   int      `json:"comp"`
	Expect string   `json:"expect"`
	Ids    []uint16 `json:"ids"`
	Subs   [][]int  `json:"subs"` // subsets of positions whose partial signatures are aggregated
	Exh    bool     `json:"exh"`
	MsgLen int      `json:"msglen"`
	Seed   int64    `json:"seed"`
	Big    bool     `json:"big"`
	TimeMs int      `json:"time_ms"` // deadline override (large DKGs take seconds, not milliseconds)
	Probe  bool     `json:"probe"`   // exploratory run: a timeout is an observation, not a sign of an overloaded machine
}

type algJob struct {
	Workers   int             `json:"workers"`
	Seed      int64           `json:"seed"`
	TimeoutMs int             `json:"timeout_ms"`
	Choose    []algChooseCase `json:"choose"`
	Lag       []algLagCase    `json:"lag"`
	Rec       []algRecCase    `json:"rec"`
	Dkg       []algDkgCase    `json:"dkg"`
	BLag      []algBigLagCase `json:"blag"`
	BChoose   []algChooseCase `json:"bchoose"`
	BDeal     []algBigDeal    `json:"bdeal"`
	Seq       []algSeqCase    `json:"seq"`
}

// large sets of evaluation points (sizes up to 256, identifiers up to 65535)
type algBigLagCase struct {
	Cls  string  `json:"cls"`
	Pts  []int64 `json:"pts"`
	Seed int64   `json:"seed"`
}

// large dealings in trusted-dealer mode: real SSS.Gen, real reconstruct, partial signatures of real instances loaded with the dealt
// shares, aggregated and verified through the public API
type algBigDeal struct {
	Scheme  string    `json:"scheme"`
	N       int       `json:"n"`
	T       int       `json:"t"`
	Mode    string    `json:"mode"` // crypto | seeded
	Classes []string  `json:"classes"`
	Subs    [][]int64 `json:"subs"`
	MsgLen  int       `json:"msglen"`
	Seed    int64     `json:"seed"`
	Ids     []uint16  `json:"ids"` // identifiers of the parties (ascending); default 1..n
}

type algLog struct{}

func (algLog) Debugf(string, ...interface{}) {}
func (algLog) Infof(string, ...interface{})  {}
func (algLog) Warnf(string, ...interface{})  {}
func (algLog) Errorf(string, ...interface{}) {}

var algCurve = math.Curves[1]

func algOrder() *big.Int { return new(big.Int).SetBytes(algCurve.GroupOrder.Bytes()) }

func algCatch(f func()) (p string) {
	defer func() {
		if r := recover(); r != nil {
			p = fmt.Sprint(r)
			if len(p) > 300 {
				p = p[:300]
			}
			if p == "" {
				p = "panic"
			}
		}
	}()
	f()
	return ""
}

func algPar(n, workers int, f func(i int)) {
	if workers < 1 {
		workers = 1
	}
	var wg sync.WaitGroup
	ch := make(chan int)
	for w := 0; w < workers; w++ {
		wg.Add(1)
		go func() {
			defer wg.Done()
			for i := range ch {
				f(i)
			}
		}()
	}
	for i := 0; i < n; i++ {
		ch <- i
	}
	close(ch)
	wg.Wait()
}

type algPkg struct {
	choose      func(n, k int) [][]int64
	lagrange    func(i int64, pts []int64) []byte
	reconstruct func(shares [][]byte, pts []int64) []byte
	gen         func(n, t int, rnd interface{ Read([]byte) (int, error) }) ([][]byte, [][]byte)
}

var algPkgs = map[string]algPkg{
	"bls": {bls.VerifChoose, bls.VerifLagrange, bls.VerifReconstruct, bls.VerifGen},
	"ps":  {ps.VerifChoose, ps.VerifLagrange, ps.VerifReconstruct, ps.VerifGen},
}

// ---------------------------------------------------------------------------------------------------------------------------
// choose

func algChoose(pkg string, c algChooseCase) obj {
	var seq [][]int64
	p := algCatch(func() { seq = algPkgs[pkg].choose(c.N, c.K) })
	out := make([][]int64, 0, len(seq))
	for _, s := range seq {
		if s == nil {
			s = []int64{}
		}
		out = append(out, s)
	}
	return obj{"k": "choose", "pkg": pkg, "n": c.N, "kk": c.K, "seq": out, "panic": p}
}

// ---------------------------------------------------------------------------------------------------------------------------
// lagrange

const algRatBound = 40320 // 8!

// algRational finds the unique num/den with |num|, |den| <= bound and num = a * den (mod m), if there is one (Wang's algorithm).
func algRational(a, m *big.Int, bound int64) (num, den int64, ok bool) {
	b := big.NewInt(bound)
	r0, r1 := new(big.Int).Set(m), new(big.Int).Mod(a, m)
	t0, t1 := big.NewInt(0), big.NewInt(1)
	for r1.Cmp(b) > 0 {
		q := new(big.Int).Div(r0, r1)
		r0, r1 = r1, new(big.Int).Sub(r0, new(big.Int).Mul(q, r1))
		t0, t1 = t1, new(big.Int).Sub(t0, new(big.Int).Mul(q, t1))
	}
	if t1.Sign() == 0 || new(big.Int).Abs(t1).Cmp(b) > 0 {
		return 0, 0, false
	}
	n, d := r1.Int64(), t1.Int64()
	if d < 0 {
		n, d = -n, -d
	}
	// verify
	lhs := new(big.Int).Mod(new(big.Int).Mul(new(big.Int).Mod(a, m), big.NewInt(d)), m)
	rhs := new(big.Int).Mod(big.NewInt(n), m)
	if lhs.Cmp(rhs) != 0 {
		return 0, 0, false
	}
	g := new(big.Int).GCD(nil, nil, new(big.Int).Abs(big.NewInt(n)), big.NewInt(d)).Int64()
	if g > 1 {
		n, d = n/g, d/g
	}
	return n, d, true
}

func algLag(pkg string, c algLagCase, order string, pts []int64) obj {
	r := algOrder()
	var raw []byte
	p := algCatch(func() { raw = algPkgs[pkg].lagrange(c.I, pts) })
	res := obj{"k": "lag", "pkg": pkg, "pts": pts, "i": c.I, "order": order, "panic": p, "vnum": c.Num, "vden": c.Den,
		"num": 0, "den": 0, "ok": false, "match": false, "hex": ""}
	if p != "" {
		return res
	}
	lam := new(big.Int).Mod(new(big.Int).SetBytes(raw), r)
	res["hex"] = lam.Text(16)
	// (a) TLC's rational, evaluated in the real field
	den := new(big.Int).Mod(big.NewInt(c.Den), r)
	if den.Sign() != 0 {
		want := new(big.Int).Mul(new(big.Int).Mod(big.NewInt(c.Num), r), new(big.Int).ModInverse(den, r))
		want.Mod(want, r)
		res["match"] = want.Cmp(lam) == 0
	}
	// (b) the real value as a rational, for TLC
	if n, d, ok := algRational(lam, r, algRatBound); ok {
		res["num"], res["den"], res["ok"] = n, d, true
	}
	return res
}

// ---------------------------------------------------------------------------------------------------------------------------
// reconstruct

// algSmallReader makes crypto/rand.Int (used by mathlib's NewRandomZr) return the given small values: rand.Int reads 32 bytes per
// attempt for the 254-bit group order, masks the two top bits and accepts every value below the order.
type algSmallReader struct {
	vals []int64
	at   int
	buf  []byte
}

func (s *algSmallReader) Read(p []byte) (int, error) {
	n := 0
	for n < len(p) {
		if len(s.buf) == 0 {
			v := int64(1)
			if s.at < len(s.vals) {
				v = s.vals[s.at]
			}
			s.at++
			s.buf = make([]byte, 32)
			binary.BigEndian.PutUint64(s.buf[24:], uint64(v))
		}
		c := copy(p[n:], s.buf)
		s.buf = s.buf[c:]
		n += c
	}
	return n, nil
}

func algEval(poly []*big.Int, x int64, r *big.Int) *big.Int {
	acc := new(big.Int)
	bx := big.NewInt(x)
	for i := len(poly) - 1; i >= 0; i-- {
		acc.Mul(acc, bx)
		acc.Add(acc, poly[i])
		acc.Mod(acc, r)
	}
	return acc
}

func algSmallInt(v *big.Int) int64 {
	if v.IsInt64() && v.Int64() >= 0 && v.Int64() < 1<<30 {
		return v.Int64()
	}
	return -1
}

func algRec(c algRecCase) obj {
	r := algOrder()
	pk := algPkgs[c.Pkg]
	rng := mrand.New(mrand.NewSource(c.Seed))
	var rd io.Reader
	var want []int64
	switch c.Mode {
	case "crypto":
		rd = crand.Reader
	case "seeded":
		rd = rng
	default:
		cmax := c.Cmax
		if cmax < 1 {
			cmax = 999
		}
		for i := 0; i < c.T; i++ {
			want = append(want, 1+rng.Int63n(cmax))
		}
		rd = &algSmallReader{vals: want}
	}
	res := obj{"k": "rec", "pkg": c.Pkg, "mode": c.Mode, "n": c.N, "t": c.T, "subs": c.Subs, "exh": c.Exh, "seed": c.Seed,
		"poly": []int64{}, "shares": []int64{}, "recs": []int64{}, "eqs": []bool{}, "panic": "", "sharesok": false, "honoured": true, "polylen": 0}
	var polyB, sharesB [][]byte
	if p := algCatch(func() { polyB, sharesB = pk.gen(c.N, c.T, rd) }); p != "" {
		res["panic"] = "Gen: " + p
		return res
	}
	res["polylen"] = len(polyB)
	if len(polyB) == 0 || len(sharesB) != c.N {
		res["panic"] = fmt.Sprintf("Gen returned %d coefficients and %d shares for t=%d n=%d", len(polyB), len(sharesB), c.T, c.N)
		return res
	}
	poly := make([]*big.Int, len(polyB))
	for i, b := range polyB {
		poly[i] = new(big.Int).Mod(new(big.Int).SetBytes(b), r)
	}
	// independent evaluation of the dealt polynomial at 1..n
	sharesok := true
	shares := make([]*big.Int, len(sharesB))
	for x := 1; x <= c.N; x++ {
		shares[x-1] = new(big.Int).Mod(new(big.Int).SetBytes(sharesB[x-1]), r)
		if algEval(poly, int64(x), r).Cmp(shares[x-1]) != 0 {
			sharesok = false
		}
	}
	res["sharesok"] = sharesok
	if c.Mode == "small" {
		pi := make([]int64, len(poly))
		honoured := true
		if len(poly) != len(want) {
			honoured = false
		}
		for i := range poly {
			pi[i] = algSmallInt(poly[i])
			if pi[i] < 0 || (i < len(want) && pi[i] != want[i]) {
				honoured = false
			}
		}
		si := make([]int64, len(shares))
		for i := range shares {
			si[i] = algSmallInt(shares[i])
		}
		res["poly"], res["shares"], res["honoured"] = pi, si, honoured
	}
	eqs := make([]bool, len(c.Subs))
	recs := make([]int64, len(c.Subs))
	for m, pts := range c.Subs {
		var out []byte
		if p := algCatch(func() { out = pk.reconstruct(sharesB, pts) }); p != "" {
			res["panic"] = fmt.Sprintf("reconstruct%v: %s", pts, p)
			recs[m] = -1
			continue
		}
		v := new(big.Int).Mod(new(big.Int).SetBytes(out), r)
		eqs[m] = v.Cmp(poly[0]) == 0
		recs[m] = algSmallInt(v)
	}
	res["eqs"] = eqs
	if c.Mode == "small" {
		res["recs"] = recs
	}
	return res
}

// ---------------------------------------------------------------------------------------------------------------------------
// DKG through the public API

type algParty interface {
	Init(parties []uint16, threshold int, sendMsg func(msg []byte, isBroadcast bool, to uint16))
	OnMsg(msgBytes []byte, from uint16, broadcast bool)
	KeyGen(ctx context.Context) ([]byte, error)
	ThresholdPK() ([]byte, error)
	SetShareData(shareData []byte) error
	Sign(ctx context.Context, msg []byte) ([]byte, error)
}

type algWire struct {
	from uint16
	data []byte
}

func algNewParty(scheme string, id uint16, msgLen int) algParty {
	if scheme == "bls" {
		return &bls.TBLS{Logger: algLog{}, Party: id}
	}
	return &ps.TPS{Logger: algLog{}, Party: id, Curve: algCurve, MessageLength: msgLen}
}

func algZrBytes(v *big.Int) []byte {
	b := v.Bytes()
	return append(make([]byte, 32-len(b)), b...)
}

func algRandScalar(rng *mrand.Rand, r *big.Int) *big.Int {
	buf := make([]byte, 40)
	rng.Read(buf)
	return new(big.Int).Mod(new(big.Int).SetBytes(buf), r)
}

// algPSG2 extracts the G2 generator of the PS public parameters through the exported API (PP.Bytes: asn1 RawPP, first element).
func algPSG2(msgLen int) (*math.G2, error) {
	pp := ps.Setup(algCurve, msgLen)
	var raw ps.RawPP
	if _, err := asn1.Unmarshal(pp.Bytes(), &raw); err != nil {
		return nil, err
	}
	if len(raw.Data) == 0 {
		return nil, fmt.Errorf("empty public parameters")
	}
	return algCurve.NewG2FromBytes(raw.Data[0])
}

// algPlayer is the party the harness plays itself.
type algPlayer struct {
	scheme  string
	id      uint16
	pos     int // 1-based position = evaluation point
	n, t    int
	off     bool
	comp    int
	nsec    int // number of secret scalars per party (1 for BLS, message length + 2 for PS)
	inbox   chan algWire
	r       *big.Int
	g2      *math.G2
	sk      []*big.Int
	pkBytes []byte
	err     string
}

func (h *algPlayer) encodeShare(vals []*big.Int) []byte {
	if h.scheme == "bls" {
		return append([]byte{1}, algZrBytes(vals[0])...)
	}
	x := ps.XYs{X: algZrBytes(vals[0])}
	for _, v := range vals[1:] {
		x.Ys = append(x.Ys, algZrBytes(v))
	}
	b, err := asn1.Marshal(x)
	if err != nil {
		panic(err)
	}
	return append([]byte{1}, b...)
}

func (h *algPlayer) decodeShare(b []byte) ([]*big.Int, error) {
	if h.scheme == "bls" {
		return []*big.Int{new(big.Int).Mod(new(big.Int).SetBytes(b), h.r)}, nil
	}
	var x ps.XYs
	if _, err := asn1.Unmarshal(b, &x); err != nil {
		return nil, err
	}
	if len(x.Ys) != h.nsec-1 {
		return nil, fmt.Errorf("share with %d components, want %d", len(x.Ys)+1, h.nsec)
	}
	res := []*big.Int{new(big.Int).Mod(new(big.Int).SetBytes(x.X), h.r)}
	for _, y := range x.Ys {
		res = append(res, new(big.Int).Mod(new(big.Int).SetBytes(y), h.r))
	}
	return res, nil
}

func (h *algPlayer) publicKey() []byte {
	pts := make([]*math.G2, h.nsec)
	for i, s := range h.sk {
		pts[i] = h.g2.Mul(algCurve.NewZrFromBytes(algZrBytes(s)))
	}
	if h.off {
		// still a well-formed key that matches the commitment, but one component is moved by the generator: off the polynomial
		pts[h.comp%h.nsec].Add(h.g2)
	}
	if h.scheme == "bls" {
		return pts[0].Bytes()
	}
	x := ps.XYs{X: pts[0].Bytes()}
	for _, p := range pts[1:] {
		x.Ys = append(x.Ys, p.Bytes())
	}
	b, err := asn1.Marshal(x)
	if err != nil {
		panic(err)
	}
	return b
}

// run follows the protocol order of an honest party: shares out, all shares in, commit, all commitments in, reveal.
func (h *algPlayer) run(ctx context.Context, rng *mrand.Rand, parties []uint16, send func(msg []byte, broadcast bool, to uint16)) {
	polys := make([][]*big.Int, h.nsec)
	for s := range polys {
		polys[s] = make([]*big.Int, h.t)
		for i := range polys[s] {
			polys[s][i] = algRandScalar(rng, h.r)
		}
	}
	h.sk = make([]*big.Int, h.nsec)
	for j := 1; j <= h.n; j++ {
		vals := make([]*big.Int, h.nsec)
		for s := range polys {
			vals[s] = algEval(polys[s], int64(j), h.r)
		}
		if j == h.pos {
			copy(h.sk, vals)
			continue
		}
		send(h.encodeShare(vals), false, parties[j-1])
	}
	got := map[byte]map[uint16][]byte{1: {}, 2: {}, 3: {}}
	wait := func(tag byte) bool {
		for len(got[tag]) < h.n-1 {
			select {
			case m := <-h.inbox:
				if len(m.data) == 0 || m.data[0] < 1 || m.data[0] > 3 {
					continue
				}
				if _, dup := got[m.data[0]][m.from]; !dup {
					got[m.data[0]][m.from] = m.data[1:]
				}
			case <-ctx.Done():
				h.err = fmt.Sprintf("harness party timed out waiting for messages of type %d (%d of %d)", tag, len(got[tag]), h.n-1)
				return false
			}
		}
		return true
	}
	if !wait(1) {
		return
	}
	for from, b := range got[1] {
		vals, err := h.decodeShare(b)
		if err != nil {
			h.err = fmt.Sprintf("share from %d: %v", from, err)
			return
		}
		for s := range h.sk {
			h.sk[s] = new(big.Int).Mod(new(big.Int).Add(h.sk[s], vals[s]), h.r)
		}
	}
	h.pkBytes = h.publicKey()
	digest := sha256.Sum256(h.pkBytes)
	send(append([]byte{2}, digest[:]...), true, 0)
	if !wait(2) {
		return
	}
	send(append([]byte{3}, h.pkBytes...), true, 0)
	wait(3)
}

// shareData builds the stored share of the harness party so that a real instance can sign with it (public API: SetShareData).
func (h *algPlayer) shareData(publicKeys [][]byte, tpk []byte) ([]byte, error) {
	if h.scheme == "bls" {
		return asn1.Marshal(bls.StoredData{Sk: algZrBytes(h.sk[0]), PublicKeys: publicKeys, ThresholdPK: tpk})
	}
	x := ps.XYs{X: algZrBytes(h.sk[0])}
	for _, v := range h.sk[1:] {
		x.Ys = append(x.Ys, algZrBytes(v))
	}
	skb, err := asn1.Marshal(x)
	if err != nil {
		return nil, err
	}
	return asn1.Marshal(ps.StoredData{Sk: skb, PublicKeys: publicKeys, ThresholdPK: tpk})
}

// algTimeouts counts DKG runs that hit the (very generous) deadline; after a few of them the remaining runs are skipped, so that a
// tree on which every DKG hangs costs minutes, not hours (skipped and timed-out runs are "unusable", never a verdict).
var algTimeouts int32

func algDkg(c algDkgCase, timeout time.Duration) obj {
	return algDkgOn(c, timeout, func(id uint16, msgLen int) algParty { return algNewParty(c.Scheme, id, msgLen) })
}

// algDkgOn runs one key generation; `get` supplies the real instance of a party (a fresh one, or -- for sequences of key
// generations -- the instance that already ran earlier key generations).
func algDkgOn(c algDkgCase, timeout time.Duration, get func(id uint16, msgLen int) algParty) obj {
	res := obj{"k": "dkg", "material": false, "matwhy": "", "tpkhex": "", "panictxt": "", "scheme": c.Scheme, "n": c.N, "t": c.T, "pos": c.Pos, "off": c.Off, "comp": c.Comp, "expect": c.Expect,
		"ids": []uint16{}, "seed": c.Seed, "exh": c.Exh, "errs": []bool{}, "panics": []bool{}, "agree": false, "timeout": false, "subs": [][]int{},
		"oks": []bool{}, "errtxt": "", "harness": "", "signed": false, "ms": 0}
	res["big"] = c.Big
	if c.TimeMs > 0 {
		timeout = time.Duration(c.TimeMs) * time.Millisecond
	}
	if atomic.LoadInt32(&algTimeouts) >= 3 {
		res["timeout"], res["harness"] = true, "skipped after repeated timeouts"
		return res
	}
	t0 := time.Now()
	rng := mrand.New(mrand.NewSource(c.Seed))
	parties := c.Ids
	if len(parties) != c.N {
		parties = make([]uint16, c.N)
		for i := range parties {
			parties[i] = uint16(i + 1)
		}
	}
	res["ids"] = parties
	msgLen := c.MsgLen
	if msgLen < 1 {
		msgLen = 1
	}
	inst := map[uint16]algParty{}
	var player *algPlayer
	for i, id := range parties {
		if i+1 == c.Pos {
			player = &algPlayer{scheme: c.Scheme, id: id, pos: c.Pos, n: c.N, t: c.T, off: c.Off, comp: c.Comp, nsec: 1,
				inbox: make(chan algWire, 8*c.N+8), r: algOrder(), g2: algCurve.GenG2.Copy()}
			if c.Scheme == "ps" {
				player.nsec = msgLen + 2
				g2, err := algPSG2(msgLen)
				if err != nil {
					res["harness"] = "cannot read the PS generator: " + err.Error()
					return res
				}
				player.g2 = g2
			}
			continue
		}
		inst[id] = get(id, msgLen)
	}
	var revMu sync.Mutex
	reveals := map[uint16][]byte{} // the key every party announced in THIS key generation, as seen on the wire
	deliver := func(from, to uint16, msg []byte, bcast bool) {
		cp := append([]byte(nil), msg...)
		if p, ok := inst[to]; ok {
			p.OnMsg(cp, from, bcast)
		} else if player != nil && to == player.id {
			select {
			case player.inbox <- algWire{from, cp}:
			default:
			}
		}
	}
	sender := func(from uint16) func(msg []byte, bcast bool, to uint16) {
		return func(msg []byte, bcast bool, to uint16) {
			if bcast && len(msg) > 1 && msg[0] == 3 {
				revMu.Lock()
				if _, dup := reveals[from]; !dup {
					reveals[from] = append([]byte(nil), msg[1:]...)
				}
				revMu.Unlock()
			}
			if bcast {
				for _, p := range parties {
					if p != from {
						deliver(from, p, msg, true)
					}
				}
				return
			}
			deliver(from, to, msg, false)
		}
	}
	honest := []uint16{}
	for _, id := range parties {
		if p, ok := inst[id]; ok {
			p.Init(append([]uint16(nil), parties...), c.T, sender(id))
			honest = append(honest, id)
		}
	}
	ctx, cancel := context.WithTimeout(context.Background(), timeout)
	defer cancel()
	type kg struct {
		data  []byte
		err   error
		panic string
	}
	out := make([]kg, len(honest))
	var wg sync.WaitGroup
	for i, id := range honest {
		wg.Add(1)
		go func(i int, p algParty) {
			defer wg.Done()
			out[i].panic = algCatch(func() { out[i].data, out[i].err = p.KeyGen(ctx) })
		}(i, inst[id])
	}
	if player != nil {
		wg.Add(1)
		go func() {
			defer wg.Done()
			if p := algCatch(func() { player.run(ctx, rng, parties, sender(player.id)) }); p != "" {
				player.err = "panic: " + p
			}
		}()
	}
	wg.Wait()
	res["ms"] = time.Since(t0).Milliseconds()
	if ctx.Err() != nil {
		res["timeout"] = true
		if !c.Probe {
			atomic.AddInt32(&algTimeouts, 1)
		}
	}
	if player != nil && player.err != "" {
		res["harness"] = player.err
	}
	errs := make([]bool, len(honest))
	panics := make([]bool, len(honest))
	allok := true
	for i := range honest {
		errs[i] = out[i].err != nil
		panics[i] = out[i].panic != ""
		if errs[i] || panics[i] {
			allok = false
			if res["errtxt"] == "" {
				if out[i].err != nil {
					res["errtxt"] = out[i].err.Error()
				} else {
					res["errtxt"] = "panic: " + out[i].panic
				}
				if s := res["errtxt"].(string); len(s) > 200 {
					res["errtxt"] = s[:200]
				}
			}
		}
	}
	res["errs"], res["panics"] = errs, panics
	for i := range honest {
		if out[i].panic != "" {
			res["panictxt"] = fmt.Sprintf("party %d: %s", honest[i], out[i].panic)
			break
		}
	}
	if !allok {
		return res
	}
	// all real parties completed: reported threshold keys
	var tpk []byte
	agree := true
	for i, id := range honest {
		var b []byte
		var err error
		if p := algCatch(func() { b, err = inst[id].ThresholdPK() }); p != "" || err != nil {
			agree = false
			break
		}
		if i == 0 {
			tpk = b
		} else if !bytes.Equal(tpk, b) {
			agree = false
		}
	}
	res["agree"] = agree
	if agree {
		// the reported public material must be a function of the keys announced in this key generation only
		res["tpkhex"] = fmt.Sprintf("%x", sha256.Sum256(tpk))
		if !c.Off {
			var why string
			if p := algCatch(func() { why = algMaterial(c.Scheme, c.T, parties, reveals, tpk) }); p != "" {
				why = "panic: " + p
			}
			res["material"], res["matwhy"] = why == "", why
		}
	}
	if !agree || c.Off || len(c.Subs) == 0 {
		return res
	}
	// partial signatures of every party (the harness party signs through a real instance loaded with its share)
	signers := map[uint16]algParty{}
	for _, id := range honest {
		signers[id] = inst[id]
	}
	if player != nil {
		hp := algNewParty(c.Scheme, player.id, msgLen)
		var pks [][]byte
		var rawTPK []byte
		if c.Scheme == "bls" {
			var sd bls.StoredData
			if _, err := asn1.Unmarshal(out[0].data, &sd); err != nil {
				res["harness"] = "stored data: " + err.Error()
				return res
			}
			pks, rawTPK = sd.PublicKeys, sd.ThresholdPK
		} else {
			var sd ps.StoredData
			if _, err := asn1.Unmarshal(out[0].data, &sd); err != nil {
				res["harness"] = "stored data: " + err.Error()
				return res
			}
			pks, rawTPK = sd.PublicKeys, sd.ThresholdPK
		}
		sd, err := player.shareData(pks, rawTPK)
		if err != nil {
			res["harness"] = "share data: " + err.Error()
			return res
		}
		hp.Init(append([]uint16(nil), parties...), c.T, func([]byte, bool, uint16) {})
		if err := hp.SetShareData(sd); err != nil {
			res["harness"] = "SetShareData: " + err.Error()
			return res
		}
		signers[player.id] = hp
	}
	subs := c.Subs
	oks := make([]bool, len(subs))
	var perr string
	if c.Scheme == "bls" {
		perr = algCatch(func() { algSignBLS(rng, parties, signers, tpk, subs, oks) })
	} else {
		perr = algCatch(func() { algSignPS(rng, parties, signers, tpk, subs, oks, msgLen) })
	}
	if perr != "" {
		res["errtxt"] = "signing: " + perr
	}
	res["subs"], res["oks"], res["signed"] = subs, oks, true
	res["ms"] = time.Since(t0).Milliseconds()
	return res
}

// algLagrangeAt0 is the harness's own Lagrange coefficient (math/big) of point i among the points 1..t.
func algLagrangeAt0(i, t int, r *big.Int) *big.Int {
	num, den := big.NewInt(1), big.NewInt(1)
	for j := 1; j <= t; j++ {
		if j == i {
			continue
		}
		num.Mul(num, big.NewInt(int64(j)))
		num.Mod(num, r)
		den.Mul(den, big.NewInt(int64(j-i)))
		den.Mod(den, r)
	}
	return num.Mul(num, den.ModInverse(den, r)).Mod(num, r)
}

// algMaterial compares the public material an instance reports after a key generation (per-party keys, threshold key) with what
// follows from the keys announced on the wire in that key generation: reported key i = announced key i, threshold key = the first
// t announced keys interpolated at zero (independent arithmetic: math/big + mathlib).  "" if it matches.
func algMaterial(scheme string, t int, parties []uint16, reveals map[uint16][]byte, reported []byte) string {
	r := algOrder()
	var pks [][]byte
	var tpk []byte
	if scheme == "bls" {
		var pp bls.PublicParams
		if _, err := asn1.Unmarshal(reported, &pp); err != nil {
			return "unparsable public parameters: " + err.Error()
		}
		if len(pp.Parties) != len(parties) {
			return fmt.Sprintf("%d parties reported, %d took part", len(pp.Parties), len(parties))
		}
		for i, p := range pp.Parties {
			if uint16(p) != parties[i] {
				return fmt.Sprintf("party %d reported at position %d, expected %d", p, i+1, parties[i])
			}
		}
		pks, tpk = pp.PublicKeys, pp.ThresholdPK
	} else {
		var pp ps.ThresholdPK
		if _, err := asn1.Unmarshal(reported, &pp); err != nil {
			return "unparsable threshold key: " + err.Error()
		}
		pks, tpk = pp.PublicKeys, pp.TPK
	}
	if len(pks) != len(parties) {
		return fmt.Sprintf("%d public keys reported for %d parties", len(pks), len(parties))
	}
	for i, id := range parties {
		if !bytes.Equal(pks[i], reveals[id]) {
			return fmt.Sprintf("the reported key of party %d is not the key it announced in this key generation", id)
		}
	}
	// components of a key: one G2 point (BLS) or X, Y1.. (PS)
	comps := func(b []byte) ([]*math.G2, error) {
		if scheme == "bls" {
			g, err := algCurve.NewG2FromBytes(b)
			return []*math.G2{g}, err
		}
		var x ps.XYs
		if _, err := asn1.Unmarshal(b, &x); err != nil {
			return nil, err
		}
		var res []*math.G2
		for _, raw := range append([][]byte{x.X}, x.Ys...) {
			g, err := algCurve.NewG2FromBytes(raw)
			if err != nil {
				return nil, err
			}
			res = append(res, g)
		}
		return res, nil
	}
	want, err := comps(tpk)
	if err != nil {
		return "unparsable threshold key: " + err.Error()
	}
	var sum []*math.G2
	for i := 1; i <= t; i++ {
		cs, err := comps(reveals[parties[i-1]])
		if err != nil || len(cs) != len(want) {
			return fmt.Sprintf("announced key of party %d does not parse", parties[i-1])
		}
		l := algCurve.NewZrFromBytes(algZrBytes(algLagrangeAt0(i, t, r)))
		for j := range cs {
			term := cs[j].Mul(l)
			if i == 1 {
				sum = append(sum, term)
			} else {
				sum[j].Add(term)
			}
		}
	}
	for j := range want {
		if !bytes.Equal(sum[j].Bytes(), want[j].Bytes()) {
			return "the reported threshold key is not the interpolation of the keys announced in this key generation"
		}
	}
	return ""
}

// a sequence of key generations on the SAME instances (Init + KeyGen again): committees of different sizes drawn from one universe
// of identifiers, honest and deviating runs interleaved.  A party played by the harness in a run simply does not use its real
// instance in that run.
type algSeqCase struct {
	Scheme   string       `json:"scheme"`
	Plan     []int        `json:"plan"`
	Universe []uint16     `json:"universe"`
	Runs     []algDkgCase `json:"runs"`
	MsgLen   int          `json:"msglen"`
	Seed     int64        `json:"seed"`
	Kind     string       `json:"kind"` // "seq" (default) or "seqprobe" (exploratory: does the tree support re-keying at all?)
}

func algSeq(c algSeqCase, timeout time.Duration) obj {
	pool := map[uint16]algParty{}
	used := map[uint16]int{}
	get := func(id uint16, msgLen int) algParty {
		if _, ok := pool[id]; !ok {
			pool[id] = algNewParty(c.Scheme, id, msgLen)
		}
		used[id]++
		return pool[id]
	}
	runs := make([]obj, 0, len(c.Runs))
	seen := map[string]bool{}
	for k, rc := range c.Runs {
		rc.Scheme, rc.MsgLen = c.Scheme, c.MsgLen
		if len(rc.Ids) != rc.N {
			rc.Ids = append([]uint16(nil), c.Universe[:rc.N]...)
		}
		r := algDkgOn(rc, timeout, get)
		r["run"] = k + 1
		fresh := true
		if h, _ := r["tpkhex"].(string); h != "" {
			fresh = !seen[h] // fresh randomness in every key generation: the same threshold key twice means stale state
			seen[h] = true
		}
		r["fresh"] = fresh
		reused := 0
		for _, id := range rc.Ids {
			if used[id] > 1 {
				reused++
			}
		}
		r["reused"] = reused
		runs = append(runs, r)
		if r["timeout"] == true {
			break // instances may be wedged; the rest of the sequence would only time out as well
		}
	}
	kind := c.Kind
	if kind == "" {
		kind = "seq"
	}
	return obj{"k": kind, "scheme": c.Scheme, "plan": c.Plan, "universe": c.Universe, "seed": c.Seed, "runs": runs, "planned": len(c.Runs)}
}

func algSignBLS(rng *mrand.Rand, parties []uint16, signers map[uint16]algParty, tpk []byte, subs [][]int, oks []bool) {
	digest := make([]byte, 32)
	rng.Read(digest)
	sigs := map[uint16][]byte{}
	for id, p := range signers {
		s, err := p.Sign(context.Background(), digest)
		if err != nil {
			panic(fmt.Sprintf("party %d cannot sign: %v", id, err))
		}
		sigs[id] = s
	}
	var v bls.Verifier
	if err := v.Init(tpk); err != nil {
		panic(fmt.Sprintf("verifier rejects the reported public parameters: %v", err))
	}
	for m, sub := range subs {
		order := append([]int(nil), sub...)
		if m%3 == 2 { // the order in which the signers are listed must not matter
			rng.Shuffle(len(order), func(a, b int) { order[a], order[b] = order[b], order[a] })
		}
		var ss [][]byte
		var who []uint16
		for _, pos := range order {
			who = append(who, parties[pos-1])
			ss = append(ss, sigs[parties[pos-1]])
		}
		ok := false
		algCatch(func() {
			agg, err := v.AggregateSignatures(ss, who)
			if err != nil {
				return
			}
			ok = v.Verify(digest, agg) == nil
		})
		oks[m] = ok
	}
}

func algSignPS(rng *mrand.Rand, parties []uint16, signers map[uint16]algParty, tpk []byte, subs [][]int, oks []bool, msgLen int) {
	var prover ps.Prover
	prover.Logger = algLog{}
	if err := prover.Init(algCurve, msgLen, tpk, parties); err != nil {
		panic(fmt.Sprintf("prover rejects the reported threshold key: %v", err))
	}
	msg := make([][]byte, msgLen)
	for i := range msg {
		msg[i] = make([]byte, 1+rng.Intn(40))
		rng.Read(msg[i])
	}
	blind, secret := prover.Blind(msg)
	req := blind.Bytes()
	wit := map[uint16]ps.SignatureWitness{}
	for id, p := range signers {
		s, err := p.Sign(context.Background(), req)
		if err != nil {
			panic(fmt.Sprintf("party %d cannot sign: %v", id, err))
		}
		w, err := prover.UnBlind(id, s, &secret)
		if err != nil {
			panic(fmt.Sprintf("cannot unblind the signature of party %d: %v", id, err))
		}
		wit[id] = w
	}
	var v ps.Verifier
	if err := v.Init(algCurve, msgLen, tpk); err != nil {
		panic(fmt.Sprintf("verifier rejects the reported threshold key: %v", err))
	}
	for m, sub := range subs {
		order := append([]int(nil), sub...)
		if m%3 == 2 {
			rng.Shuffle(len(order), func(a, b int) { order[a], order[b] = order[b], order[a] })
		}
		var who []uint16
		var ws []ps.SignatureWitness
		for _, pos := range order {
			who = append(who, parties[pos-1])
			ws = append(ws, wit[parties[pos-1]])
		}
		ok := false
		algCatch(func() {
			proof := prover.ProveKnowledgeOfSignature(&secret, who, ws)
			ok = v.Verify(proof.Bytes()) == nil
		})
		oks[m] = ok
	}
}

// ---------------------------------------------------------------------------------------------------------------------------
// large sets: the laws of spec/Algebra.tla evaluated on the real coefficients modulo the group order

const algChainBound = 131072

func algBigLag(pkg string, c algBigLagCase) obj {
	r := algOrder()
	pk := algPkgs[pkg]
	rng := mrand.New(mrand.NewSource(c.Seed))
	pts := c.Pts
	s := len(pts)
	res := obj{"k": "blag", "pkg": pkg, "cls": c.Cls, "size": s, "pts": pts, "seed": c.Seed, "panic": "", "moments": []bool{}, "nfail": 0,
		"firstfail": -1, "nonzero": false, "recon": false, "permsame": false, "chains": []obj{}}
	lag := func(i int64, p []int64) *big.Int {
		return new(big.Int).Mod(new(big.Int).SetBytes(pk.lagrange(i, p)), r)
	}
	lam := make([]*big.Int, s)
	if p := algCatch(func() {
		for m := range pts {
			lam[m] = lag(pts[m], pts)
		}
	}); p != "" {
		res["panic"] = "lagrangeCoefficient: " + p
		return res
	}
	// moment law: sum_m lam[m] * pts[m]^k = [k = 0] for 0 <= k < s
	pw := make([]*big.Int, s)
	for m := range pw {
		pw[m] = big.NewInt(1)
	}
	moments := make([]bool, s)
	nfail, first := 0, -1
	nonzero := true
	for m := range lam {
		if lam[m].Sign() == 0 {
			nonzero = false
		}
	}
	for k := 0; k < s; k++ {
		sum := new(big.Int)
		for m := range lam {
			sum.Add(sum, new(big.Int).Mul(lam[m], pw[m]))
			pw[m] = new(big.Int).Mod(new(big.Int).Mul(pw[m], big.NewInt(pts[m])), r)
		}
		sum.Mod(sum, r)
		want := int64(0)
		if k == 0 {
			want = 1
		}
		moments[k] = sum.Cmp(big.NewInt(want)) == 0
		if !moments[k] {
			nfail++
			if first < 0 {
				first = k
			}
		}
	}
	res["moments"], res["nfail"], res["firstfail"], res["nonzero"] = moments, nfail, first, nonzero
	// the coefficients reconstruct P(0) for a polynomial of degree < s (dealt by the harness at the given points, interpolated by
	// the real Shares.reconstruct, which indexes the shares by evaluation point - 1)
	poly := make([]*big.Int, s)
	for i := range poly {
		poly[i] = algRandScalar(rng, r)
	}
	shares := make([][]byte, pts[s-1])
	zero := algZrBytes(new(big.Int))
	for i := range shares {
		shares[i] = zero
	}
	for _, x := range pts {
		shares[x-1] = algZrBytes(algEval(poly, x, r))
	}
	if p := algCatch(func() {
		out := new(big.Int).Mod(new(big.Int).SetBytes(pk.reconstruct(shares, pts)), r)
		res["recon"] = out.Cmp(poly[0]) == 0
	}); p != "" {
		res["panic"] = "reconstruct: " + p
		return res
	}
	// the order in which the points are listed must not matter
	perm := append([]int64(nil), pts...)
	rng.Shuffle(len(perm), func(a, b int) { perm[a], perm[b] = perm[b], perm[a] })
	permsame := true
	picks := []int{0, s / 2, s - 1}
	if p := algCatch(func() {
		for _, m := range picks {
			if lag(pts[m], perm).Cmp(lam[m]) != 0 {
				permsame = false
			}
		}
	}); p != "" {
		res["panic"] = "lagrangeCoefficient (permuted): " + p
		return res
	}
	res["permsame"] = permsame
	// increment law: lambda_i(S + {m}) / lambda_i(S) as a reduced rational, along the chain that adds the other points in ascending order
	var chains []obj
	seen := map[int]bool{}
	for _, m := range picks {
		if seen[m] {
			continue
		}
		seen[m] = true
		i := pts[m]
		cur := []int64{i}
		prev := big.NewInt(1)
		steps := make([][]int64, 0, s-1)
		end := false
		if p := algCatch(func() {
			for _, o := range pts {
				if o == i {
					continue
				}
				cur = append(cur, o)
				v := lag(i, cur)
				step := []int64{0, 0}
				if prev.Sign() != 0 {
					ratio := new(big.Int).Mul(v, new(big.Int).ModInverse(prev, r))
					if n, d, ok := algRational(ratio.Mod(ratio, r), r, algChainBound); ok {
						step = []int64{n, d}
					}
				}
				steps = append(steps, step)
				prev = v
			}
			end = prev.Cmp(lam[m]) == 0
		}); p != "" {
			res["panic"] = "lagrangeCoefficient (chain): " + p
			return res
		}
		chains = append(chains, obj{"i": i, "steps": steps, "end": end})
	}
	res["chains"] = chains
	return res
}

func algBigChoose(pkg string, c algChooseCase) obj {
	res := obj{"k": "bchoose", "pkg": pkg, "n": c.N, "kk": c.K, "count": 0, "valid": false, "distinct": false, "lexinc": false,
		"first": []int64{}, "last": []int64{}, "panic": ""}
	var seq [][]int64
	if p := algCatch(func() { seq = algPkgs[pkg].choose(c.N, c.K) }); p != "" {
		res["panic"] = p
		return res
	}
	valid, lexinc := true, true
	for m, sub := range seq {
		if len(sub) != c.K {
			valid = false
		}
		for j, x := range sub {
			if x < 1 || x > int64(c.N) || (j > 0 && sub[j-1] >= x) {
				valid = false // every subset ascending, inside 1..n (so it is a k-subset)
			}
		}
		if m > 0 && !algLexLess(seq[m-1], sub) {
			lexinc = false
		}
	}
	distinct := lexinc // strictly increasing in lexicographic order implies pairwise distinct
	if !lexinc && len(seq) <= 4000000 {
		set := make(map[string]struct{}, len(seq))
		for _, sub := range seq {
			cp := append([]int64(nil), sub...)
			sort.Slice(cp, func(a, b int) bool { return cp[a] < cp[b] })
			set[fmt.Sprint(cp)] = struct{}{}
		}
		distinct = len(set) == len(seq)
	}
	res["count"], res["valid"], res["distinct"], res["lexinc"] = len(seq), valid, distinct, lexinc
	if len(seq) > 0 {
		f, l := seq[0], seq[len(seq)-1]
		if f == nil {
			f = []int64{}
		}
		if l == nil {
			l = []int64{}
		}
		res["first"], res["last"] = f, l
	}
	return res
}

func algLexLess(a, b []int64) bool {
	for i := 0; i < len(a) && i < len(b); i++ {
		if a[i] != b[i] {
			return a[i] < b[i]
		}
	}
	return len(a) < len(b)
}

func algBigDealRun(c algBigDeal) obj {
	r := algOrder()
	pk := algPkgs[c.Scheme]
	rng := mrand.New(mrand.NewSource(c.Seed))
	res := obj{"k": "bdeal", "scheme": c.Scheme, "n": c.N, "t": c.T, "mode": c.Mode, "classes": c.Classes, "subs": c.Subs, "seed": c.Seed,
		"eqs": []bool{}, "oks": []bool{}, "sharesok": false, "polylen": 0, "panic": "", "errtxt": ""}
	msgLen := c.MsgLen
	if msgLen < 1 {
		msgLen = 1
	}
	nsec := 1
	g2 := algCurve.GenG2.Copy()
	if c.Scheme == "ps" {
		nsec = msgLen + 2
		g, err := algPSG2(msgLen)
		if err != nil {
			res["panic"] = "cannot read the PS generator: " + err.Error()
			return res
		}
		g2 = g
	}
	var rd io.Reader = crand.Reader
	if c.Mode == "seeded" {
		rd = rng
	}
	// deal every secret scalar with the real SSS.Gen
	polys := make([][][]byte, nsec)
	shares := make([][][]byte, nsec)
	for sidx := 0; sidx < nsec; sidx++ {
		if p := algCatch(func() { polys[sidx], shares[sidx] = pk.gen(c.N, c.T, rd) }); p != "" {
			res["panic"] = "Gen: " + p
			return res
		}
		if len(polys[sidx]) == 0 || len(shares[sidx]) != c.N {
			res["panic"] = fmt.Sprintf("Gen returned %d coefficients and %d shares for t=%d n=%d", len(polys[sidx]), len(shares[sidx]), c.T, c.N)
			return res
		}
	}
	res["polylen"] = len(polys[0])
	sharesok := true
	for sidx := 0; sidx < nsec; sidx++ {
		poly := make([]*big.Int, len(polys[sidx]))
		for i, b := range polys[sidx] {
			poly[i] = new(big.Int).Mod(new(big.Int).SetBytes(b), r)
		}
		for x := 1; x <= c.N; x++ {
			if algEval(poly, int64(x), r).Cmp(new(big.Int).Mod(new(big.Int).SetBytes(shares[sidx][x-1]), r)) != 0 {
				sharesok = false
			}
		}
	}
	res["sharesok"] = sharesok
	// reconstruct over every requested subset (first secret scalar)
	secret := new(big.Int).Mod(new(big.Int).SetBytes(polys[0][0]), r)
	eqs := make([]bool, len(c.Subs))
	for m, pts := range c.Subs {
		if p := algCatch(func() {
			out := new(big.Int).Mod(new(big.Int).SetBytes(pk.reconstruct(shares[0], pts)), r)
			eqs[m] = out.Cmp(secret) == 0
		}); p != "" {
			res["panic"] = fmt.Sprintf("reconstruct (%d points): %s", len(pts), p)
			return res
		}
	}
	res["eqs"] = eqs
	// public material: key of every share, key of the secret
	zr := func(b []byte) *math.Zr { return algCurve.NewZrFromBytes(algZrBytes(new(big.Int).Mod(new(big.Int).SetBytes(b), r))) }
	key := func(at func(sidx int) []byte) []byte {
		ptsG := make([]*math.G2, nsec)
		for sidx := range ptsG {
			ptsG[sidx] = g2.Mul(zr(at(sidx)))
		}
		if c.Scheme == "bls" {
			return ptsG[0].Bytes()
		}
		x := ps.XYs{X: ptsG[0].Bytes()}
		for _, p := range ptsG[1:] {
			x.Ys = append(x.Ys, p.Bytes())
		}
		b, err := asn1.Marshal(x)
		if err != nil {
			panic(err)
		}
		return b
	}
	parties := make([]uint16, c.N)
	ints := make([]int, c.N)
	pks := make([][]byte, c.N)
	for i := range parties {
		parties[i], ints[i] = uint16(i+1), i+1
		if len(c.Ids) == c.N {
			parties[i], ints[i] = c.Ids[i], int(c.Ids[i])
		}
		pks[i] = key(func(sidx int) []byte { return shares[sidx][i] })
	}
	res["ids"] = parties
	rawTPK := key(func(sidx int) []byte { return polys[sidx][0] })
	var tpk []byte
	var err error
	if c.Scheme == "bls" {
		tpk, err = asn1.Marshal(bls.PublicParams{Parties: ints, PublicKeys: pks, ThresholdPK: rawTPK})
	} else {
		tpk, err = asn1.Marshal(ps.ThresholdPK{TPK: rawTPK, PublicKeys: pks})
	}
	if err != nil {
		res["panic"] = "public parameters: " + err.Error()
		return res
	}
	// real instances loaded with the dealt shares (only the parties that occur in a subset)
	need := map[int64]bool{}
	for _, sub := range c.Subs {
		for _, x := range sub {
			need[x] = true
		}
	}
	signers := map[uint16]algParty{}
	for x := range need {
		i := int(x - 1)
		var sd []byte
		if c.Scheme == "bls" {
			sd, err = asn1.Marshal(bls.StoredData{Sk: algZrBytes(new(big.Int).Mod(new(big.Int).SetBytes(shares[0][i]), r)), PublicKeys: pks, ThresholdPK: rawTPK})
		} else {
			xy := ps.XYs{X: shares[0][i]}
			for sidx := 1; sidx < nsec; sidx++ {
				xy.Ys = append(xy.Ys, shares[sidx][i])
			}
			var skb []byte
			if skb, err = asn1.Marshal(xy); err == nil {
				sd, err = asn1.Marshal(ps.StoredData{Sk: skb, PublicKeys: pks, ThresholdPK: rawTPK})
			}
		}
		if err != nil {
			res["panic"] = "share data: " + err.Error()
			return res
		}
		p := algNewParty(c.Scheme, parties[i], msgLen)
		p.Init(append([]uint16(nil), parties...), c.T, func([]byte, bool, uint16) {})
		if err := p.SetShareData(sd); err != nil {
			res["panic"] = "SetShareData: " + err.Error()
			return res
		}
		signers[parties[i]] = p
	}
	subs := make([][]int, len(c.Subs))
	for m, sub := range c.Subs {
		for _, x := range sub {
			subs[m] = append(subs[m], int(x))
		}
	}
	oks := make([]bool, len(subs))
	var perr string
	if c.Scheme == "bls" {
		perr = algCatch(func() { algSignBLS(rng, parties, signers, tpk, subs, oks) })
	} else {
		perr = algCatch(func() { algSignPS(rng, parties, signers, tpk, subs, oks, msgLen) })
	}
	if perr != "" {
		res["errtxt"] = "signing: " + perr
	}
	res["oks"] = oks
	return res
}

// ---------------------------------------------------------------------------------------------------------------------------

func init() {
	commands["algebra"] = func() {
		var job algJob
		readJob(&job)
		em := newEmitter()
		defer em.flush()
		if job.Workers < 1 {
			job.Workers = 8
		}
		timeout := time.Duration(job.TimeoutMs) * time.Millisecond
		if timeout <= 0 {
			timeout = 120 * time.Second
		}
		rng := mrand.New(mrand.NewSource(job.Seed))
		pkgs := []string{"bls", "ps"}
		var recs []obj
		for _, pkg := range pkgs {
			for _, c := range job.Choose {
				recs = append(recs, algChoose(pkg, c))
			}
		}
		for _, pkg := range pkgs {
			for _, c := range job.Lag {
				sorted := append([]int64(nil), c.Pts...)
				sort.Slice(sorted, func(a, b int) bool { return sorted[a] < sorted[b] })
				recs = append(recs, algLag(pkg, c, "sorted", sorted))
				perm := append([]int64(nil), sorted...)
				rng.Shuffle(len(perm), func(a, b int) { perm[a], perm[b] = perm[b], perm[a] })
				recs = append(recs, algLag(pkg, c, "seeded", perm))
			}
		}
		rr := make([]obj, len(job.Rec))
		algPar(len(job.Rec), job.Workers, func(i int) { rr[i] = algRec(job.Rec[i]) })
		recs = append(recs, rr...)
		dr := make([]obj, len(job.Dkg))
		algPar(len(job.Dkg), job.Workers, func(i int) { dr[i] = algDkg(job.Dkg[i], timeout) })
		recs = append(recs, dr...)
		bl := make([]obj, 2*len(job.BLag))
		algPar(len(bl), job.Workers, func(i int) { bl[i] = algBigLag(pkgs[i/len(job.BLag)], job.BLag[i%len(job.BLag)]) })
		recs = append(recs, bl...)
		bc := make([]obj, 2*len(job.BChoose))
		algPar(len(bc), 2, func(i int) { bc[i] = algBigChoose(pkgs[i/len(job.BChoose)], job.BChoose[i%len(job.BChoose)]) })
		recs = append(recs, bc...)
		bd := make([]obj, len(job.BDeal))
		algPar(len(bd), job.Workers, func(i int) { bd[i] = algBigDealRun(job.BDeal[i]) })
		recs = append(recs, bd...)
		sq := make([]obj, len(job.Seq))
		algPar(len(sq), job.Workers, func(i int) { sq[i] = algSeq(job.Seq[i], timeout) })
		recs = append(recs, sq...)
		for i := range recs {
			recs[i]["id"] = i + 1
		}
		em.lines(recs)
	}
}
