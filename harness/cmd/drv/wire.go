package main

import (
	"bytes"
	"crypto/sha256"
	"fmt"

	discovery "github.com/IBM/TSS/disc"
	"github.com/IBM/TSS/threshold"
)

// wire: byte-level binding of spec/Wire.tla to the real encoders/decoders (through the verif-tag wrappers).
// For EVERY identifier: the real round trip must be the identity (property C13); a difference to the bytes the
// specification computes is reported separately (layout drift, not a violation).

type wireJob struct {
	All    [][]int `json:"all"`    // index s -> [hi, lo] as computed by TLC for every identifier
	Rounds []int   `json:"rounds"` // rounds to combine with
	Views  [][]int `json:"views"`  // views (lists of identifiers) for the synchroniser encoding
}

func safely(f func()) (p string) {
	defer func() {
		if r := recover(); r != nil {
			p = fmt.Sprint(r)
		}
	}()
	f()
	return ""
}

func init() {
	commands["wire"] = func() {
		var job wireJob
		readJob(&job)
		em := newEmitter()
		defer em.flush()
		digest := sha256.Sum256([]byte("payload"))
		tag := make([]byte, 32)
		for i := range tag {
			tag[i] = byte(i + 1)
		}
		checked, bad, layout := 0, 0, 0
		report := func(kind string, s int, what string, violation bool) {
			if violation {
				bad++
			} else {
				layout++
			}
			if bad+layout <= 40 {
				em.lines([]obj{{"e": "mismatch", "kind": kind, "id": s, "what": what, "violation": violation}})
			}
		}
		for s, hl := range job.All {
			for _, r := range job.Rounds {
				checked++
				var enc []byte
				if p := safely(func() { enc = threshold.VerifEncodeAck(string(digest[:]), uint16(s), uint8(r)) }); p != "" {
					report("ack-encode", s, "panic: "+p, true)
					continue
				}
				want := append([]byte{byte(r), byte(hl[0]), byte(hl[1])}, digest[:]...)
				if !bytes.Equal(enc, want) {
					report("ack-layout", s, fmt.Sprintf("round %d: code %x, spec %x", r, enc[:min(len(enc), 4)], want[:4]), false)
				}
				var d []byte
				var sender uint16
				var round uint8
				var err error
				if p := safely(func() { d, sender, round, err = threshold.VerifDecodeAck(enc) }); p != "" {
					report("ack-decode", s, "panic: "+p, true)
					continue
				}
				if err != nil || !bytes.Equal(d, digest[:]) || int(sender) != s || int(round) != r {
					report("ack-roundtrip", s, fmt.Sprintf("round %d decoded as sender=%d round=%d digestOK=%v err=%v", r, sender, round, bytes.Equal(d, digest[:]), err), true)
				}
				// the specification's bytes must decode to the same values as well (peers running the specified format)
				if p := safely(func() { d, sender, round, err = threshold.VerifDecodeAck(want) }); p == "" {
					if err != nil || int(sender) != s || int(round) != r {
						report("ack-decode-spec-bytes", s, fmt.Sprintf("spec bytes %x decoded as sender=%d round=%d", want[:3], sender, round), false)
					}
				}
			}
			// synchroniser message with this identifier in first, middle and last position
			for _, view := range [][]int{{s}, {1, s, 65535}, {s, 2}, {0, s}} {
				checked++
				v16 := make([]uint16, len(view))
				want := append([]byte{2}, tag...)
				for i, x := range view {
					v16[i] = uint16(x)
					h := job.All[x]
					want = append(want, byte(h[1]), byte(h[0]))
				}
				var enc []byte
				if p := safely(func() { enc = discovery.VerifEncode(2, tag, v16) }); p != "" {
					report("sync-encode", s, "panic: "+p, true)
					continue
				}
				if !bytes.Equal(enc, want) {
					report("sync-layout", s, fmt.Sprintf("view %v: code %x, spec %x", view, enc[33:], want[33:]), false)
				}
				var t uint8
				var tg []byte
				var peers []uint16
				var err error
				if p := safely(func() { t, tg, peers, err = discovery.VerifDecode(enc) }); p != "" {
					report("sync-decode", s, "panic: "+p, true)
					continue
				}
				ok := err == nil && t == 2 && bytes.Equal(tg, tag) && len(peers) == len(view)
				for i := 0; ok && i < len(view); i++ {
					ok = int(peers[i]) == view[i]
				}
				if !ok {
					report("sync-roundtrip", s, fmt.Sprintf("view %v decoded as %v (type %d, err %v)", view, peers, t, err), true)
				}
			}
			// topic derived from a member list: distinct lists must give distinct topics, the same list the same topic
			checked++
			t1 := threshold.VerifSyncTopic([]uint16{uint16(s), 1})
			h := job.All[s]
			pre := sha256.Sum256([]byte{byte(h[1]), byte(h[0]), 1, 0})
			if !bytes.Equal(t1, pre[:]) {
				report("topic-layout", s, "topic differs from SHA-256 of the specified pre-image", false)
			}
			other := (s + 256) % 65536
			if bytes.Equal(t1, threshold.VerifSyncTopic([]uint16{uint16(other), 1})) || bytes.Equal(t1, threshold.VerifSyncTopic([]uint16{uint16(s ^ 1), 1})) ||
				!bytes.Equal(t1, threshold.VerifSyncTopic([]uint16{uint16(s), 1})) {
				report("topic-injective", s, fmt.Sprintf("lists [%d 1] and [%d 1] / [%d 1] collide", s, other, s^1), true)
			}
		}
		em.lines([]obj{{"e": "summary", "checked": checked, "violations": bad, "layout": layout}})
	}
}

func min(a, b int) int {
	if a < b {
		return a
	}
	return b
}
