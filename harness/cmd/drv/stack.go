package main

import (
	"context"
	"crypto/sha256"
	"encoding/asn1"
	"encoding/hex"
	"fmt"
	"math/rand"
	"runtime"
	"sort"
	"strings"
	"sync"
	"time"

	"crypto/ed25519"

	eddsa "github.com/IBM/TSS/mpc/binance/eddsa"
	"github.com/IBM/TSS/mpc/bls"
	"github.com/IBM/TSS/mpc/ps"
	"github.com/IBM/TSS/threshold"
	tss "github.com/IBM/TSS/types"
	math "github.com/IBM/mathlib"

	"verif/harness/internal/scripted"
)

// stack: n real threshold Schemes (loud or silent mode) with the real synchroniser, reliable broadcast, silent-mode buffer and the
// real BLS / PS back ends in one process, on a simulated network with per-link FIFO queues and a seeded scheduler; optional
// faults (a peer that goes silent after its k-th message, single withheld messages) and one deviating participant.
// (spec/DKG.tla; properties C01, C05, C11, C13 part)

type stackFault struct {
	SilentPeer  int `json:"silent_peer"` // node that stops sending after its After-th outgoing message (0: none)
	After       int `json:"after"`
	WithholdIdx int `json:"withhold_idx"` // global index of a single message that is dropped (-1: none)
}

type stackCase struct {
	Scheme     string     `json:"scheme"` // "bls" | "ps"
	Mode       string     `json:"mode"`   // "loud" | "silent"
	N          int        `json:"n"`
	T          int        `json:"t"`
	IDs        []int      `json:"ids"`
	Seed       int64      `json:"seed"`
	Policy     string     `json:"policy"`
	DeadlineMs int        `json:"deadline_ms"`
	Fault      stackFault `json:"fault"`
	Byz        *byzPlan   `json:"byz"`
	MsgLen     int        `json:"msglen"`
	Sign       bool       `json:"sign"`      // exercise every subset of size >= t afterwards
	Cancel     int        `json:"cancel_ms"` // cancel (not expire) every context after that many ms (0: never)
	Cfg        int        `json:"cfg"`
	SlowInit   int        `json:"slow_init"` // node whose back-end initialisation takes SlowMs (0: none)
	SlowMs     int        `json:"slow_ms"`
	Late       []int      `json:"late"`    // nodes that call KeyGen LateMs after the others (the start-up barrier, spec/Barrier.tla)
	LateMs     int        `json:"late_ms"`
	Signers    []int      `json:"signers"` // orchestrated signing: the nodes that call Sign (default: all; must be threshold+1 of them)
	// every context is cancelled at a protocol point instead of a time: when node CancelNode's back end emits (CancelEvent "send") or is
	// handed (CancelEvent "recv") its CancelK-th message (from inside that call); afterwards everybody is silent
	CancelNode  int    `json:"cancel_node"`
	CancelEvent string `json:"cancel_event"`
	CancelK     int    `json:"cancel_k"`
	// a transport that blocks: every Send towards StallPeer blocks until the run is over (a peer that stopped reading); deliveries
	// then run in one goroutine per link, like the connection handlers of a real transport
	StallPeer  int `json:"stall_peer"`
	StallAfter int `json:"stall_after"` // the peer reads that many messages before it stops
}

type stackJob struct {
	Cases   []stackCase `json:"cases"`
	Workers int         `json:"workers"`
	Base    int         `json:"base"`
}

type netMsg struct {
	from, to int
	m        *tss.IncMessage
}

type stackRun struct {
	c       stackCase
	t       int
	mu      sync.Mutex
	links   map[[2]int][]netMsg
	order   [][2]int
	lines   []obj
	sentBy  map[int]int
	total   int
	parties map[int]tss.MpcParty
	inited  map[int]bool
	early   int                      // protocol messages that arrived before the receiver had registered the session
	evCount   map[[2]int]int         // (node, 0 = send / 1 = recv) -> back-end events so far
	cancelAll func()
	release   chan struct{}          // closed at the end of the run: blocked Sends return
	workers   map[[2]int]chan *tss.IncMessage
	closed    bool
	silentAll bool // after the protocol-point cancellation: nothing is delivered any more, nothing new is accepted
	stallSeen int  // messages the stalling peer has read so far
	direct  map[int]tss.KeyGenerator // mode "direct": the back ends wired without orchestrator, synchroniser and reliable broadcast
}

func (r *stackRun) log(o obj) {
	r.mu.Lock()
	if !r.closed {
		o["t"] = r.t
		r.lines = append(r.lines, o)
	}
	r.mu.Unlock()
}

func (r *stackRun) send(from int, msgType uint8, topic []byte, data []byte, to ...uint16) {
	if r.c.StallPeer != 0 && from != r.c.StallPeer {
		r.mu.Lock()
		stalled := r.stallSeen >= r.c.StallAfter
		r.mu.Unlock()
		for _, d := range to {
			if stalled && int(d) == r.c.StallPeer {
				<-r.release // the peer stopped reading: the transport blocks
				return
			}
		}
	}
	r.mu.Lock()
	defer r.mu.Unlock()
	if r.silentAll {
		return
	}
	for _, d := range to {
		if int(d) == from {
			continue
		}
		r.sentBy[from]++
		idx := r.total
		r.total++
		if r.c.Fault.SilentPeer == from && r.sentBy[from] > r.c.Fault.After {
			continue
		}
		if r.c.Fault.WithholdIdx == idx {
			continue
		}
		k := [2]int{from, int(d)}
		if _, ok := r.links[k]; !ok {
			r.order = append(r.order, k)
		}
		r.links[k] = append(r.links[k], netMsg{from: from, to: int(d), m: &tss.IncMessage{MsgType: msgType, Topic: append([]byte(nil), topic...),
			Data: append([]byte(nil), data...), Source: uint16(from)}})
	}
}

// a logger that counts the warnings by which the dispatcher reports traffic it had to drop because the session's handlers were
// not (yet) registered: in a fault-free run the two synchronisation barriers must make that impossible
// (only drops BEFORE the node's back end was initialised count: the reliable-broadcast instance is registered before Init, so later
// drops can only be traffic that arrives after the session has finished, which is legitimate)
type countingLogger struct {
	scripted.Logger
	r    *stackRun
	node int
}

func (l countingLogger) Warnf(format string, a ...interface{}) {
	if strings.Contains(format, "no RBC instance expects it") || strings.Contains(format, "no classifier for it") {
		l.r.mu.Lock()
		if !l.r.inited[l.node] {
			l.r.early++
		}
		l.r.mu.Unlock()
	}
}

// recording decorator around a real key generator
type recGen struct {
	inner tss.KeyGenerator
	r     *stackRun
	node  int
}

func kindOf(b []byte) int {
	if len(b) == 0 {
		return -1
	}
	return int(b[0])
}

func (g *recGen) ClassifyMsg(b []byte) (uint8, bool, error) { return g.inner.ClassifyMsg(b) }
func (g *recGen) Init(parties []uint16, threshold int, sendMsg func(msg []byte, isBroadcast bool, to uint16)) {
	ps := make([]int, len(parties))
	for i, p := range parties {
		ps[i] = int(p)
	}
	if g.r.c.SlowInit == g.node && g.r.c.SlowMs > 0 {
		// a back end whose initialisation is slow: the barrier of the orchestrator must still hold
		time.Sleep(time.Duration(g.r.c.SlowMs) * time.Millisecond)
	}
	g.r.log(obj{"e": "init", "node": g.node, "parties": ps, "threshold": threshold})
	g.r.mu.Lock()
	g.r.inited[g.node] = true
	g.r.mu.Unlock()
	g.inner.Init(parties, threshold, func(msg []byte, isBroadcast bool, to uint16) {
		g.r.log(obj{"e": "bsend", "node": g.node, "kind": kindOf(msg), "bc": isBroadcast, "to": int(to)})
		sendMsg(msg, isBroadcast, to)
		g.r.protocolPoint(g.node, 0)
	})
}
func (g *recGen) OnMsg(b []byte, from uint16, broadcast bool) {
	// what a commitment commits to / what a reveal hashes to (first 8 bytes, hex): lets the trace specification check the binding
	h := ""
	if len(b) > 0 && b[0] == 2 {
		h = hex.EncodeToString(b[1:minInt(len(b), 9)])
	} else if len(b) > 0 && b[0] == 3 {
		d := sha256.Sum256(b[1:])
		h = hex.EncodeToString(d[:8])
	}
	g.r.log(obj{"e": "onmsg", "node": g.node, "kind": kindOf(b), "from": int(from), "bc": broadcast, "h": h})
	g.inner.OnMsg(b, from, broadcast)
	g.r.protocolPoint(g.node, 1)
}

// deliver hands a message to its receiver: inline (the scheduler's order is the delivery order), or, when the transport of the run
// can block, through one goroutine per link -- like the connection handlers of a real transport, so that a handler stuck in a
// blocked Send holds up its own connection only
func (r *stackRun) deliver(m *netMsg) {
	if r.c.StallPeer == 0 {
		r.parties[m.to].HandleMessage(m.m)
		return
	}
	k := [2]int{m.from, m.to}
	r.mu.Lock()
	if m.to == r.c.StallPeer {
		if r.stallSeen >= r.c.StallAfter {
			r.mu.Unlock()
			return
		}
		r.stallSeen++
	}
	if r.workers == nil {
		r.workers = map[[2]int]chan *tss.IncMessage{}
	}
	ch, ok := r.workers[k]
	if !ok {
		ch = make(chan *tss.IncMessage, 1<<14)
		r.workers[k] = ch
		party := r.parties[m.to]
		go func() {
			for x := range ch {
				party.HandleMessage(x)
			}
		}()
	}
	r.mu.Unlock()
	select {
	case ch <- m.m:
	default:
	}
}

// protocolPoint: the node's back end has just emitted (kind 0) / been handed (kind 1) a message; cancels every context at the
// configured point
func (r *stackRun) protocolPoint(node, kind int) {
	c := r.c
	if c.CancelNode != node || (c.CancelEvent == "send") != (kind == 0) {
		return
	}
	r.mu.Lock()
	r.evCount[[2]int{node, kind}]++
	hit := r.evCount[[2]int{node, kind}] == c.CancelK
	f := r.cancelAll
	if hit {
		// from now on everybody is silent: nothing that is in flight arrives, so nothing will wake up a waiting call again
		r.silentAll = true
		for k := range r.links {
			r.links[k] = nil
		}
	}
	r.mu.Unlock()
	if hit && f != nil {
		f()
		// the caller (for a send: the goroutine of KeyGen itself) stays away from its next wait long enough for everything that
		// reacts to the cancellation to have run: the cancellation falls strictly BETWEEN two waits
		time.Sleep(5 * time.Millisecond)
	}
}
func (g *recGen) KeyGen(ctx context.Context) ([]byte, error) { return g.inner.KeyGen(ctx) }

func stackExec(t int, c stackCase) []obj {
	threshold.SyncInterval = 2 * time.Millisecond
	rng := rand.New(rand.NewSource(c.Seed))
	r := &stackRun{c: c, t: t, links: map[[2]int][]netMsg{}, sentBy: map[int]int{}, parties: map[int]tss.MpcParty{}, inited: map[int]bool{},
		evCount: map[[2]int]int{}, release: make(chan struct{})}
	defer close(r.release)
	r.lines = append(r.lines, obj{"t": t, "e": "reset", "cfg": c.Cfg, "scheme": c.Scheme, "mode": c.Mode, "n": c.N, "th": c.T, "ids": c.IDs, "seed": c.Seed,
		"policy": c.Policy, "fault": c.Fault, "byz": c.Byz != nil, "nsigners": len(c.Signers)})
	if c.Byz != nil {
		r.lines[0]["byznode"] = c.Byz.Node
		r.lines[0]["strategy"] = c.Byz.Strategy
	}
	if c.Cancel > 0 {
		r.lines[0]["cancel"] = c.Cancel
	}
	if c.CancelNode != 0 {
		r.lines[0]["cancel"] = 1
		r.lines[0]["cancel_at"] = fmt.Sprintf("%s %d of node %d", c.CancelEvent, c.CancelK, c.CancelNode)
	}
	if c.StallPeer != 0 {
		r.lines[0]["stall"] = c.StallPeer
	}
	ids := append([]int(nil), c.IDs...)
	sort.Ints(ids)
	membership := map[tss.UniversalID]tss.PartyID{}
	all16 := []uint16{}
	for _, id := range ids {
		membership[tss.UniversalID(id)] = tss.PartyID(id)
		all16 = append(all16, uint16(id))
	}
	msgLen := c.MsgLen
	if msgLen == 0 {
		msgLen = 2
	}
	for _, id := range ids {
		id := id
		kgf := func(party uint16) tss.KeyGenerator {
			var inner tss.KeyGenerator
			if c.Byz != nil && c.Byz.Node == id && c.Scheme == "ps" {
				inner = &tamperPS{inner: &ps.TPS{Logger: scripted.Logger{}, Party: party, Curve: math.Curves[1], MessageLength: msgLen}, plan: c.Byz}
			} else if c.Byz != nil && c.Byz.Node == id {
				inner = newEvilBLS(r, id, c.Byz)
			} else if c.Scheme == "eddsa" {
				inner = eddsa.NewParty(party, scripted.Logger{})
			} else if c.Scheme == "ps" {
				inner = &ps.TPS{Logger: scripted.Logger{}, Party: party, Curve: math.Curves[1], MessageLength: msgLen}
			} else {
				inner = &bls.TBLS{Logger: scripted.Logger{}, Party: party}
			}
			return &recGen{inner: inner, r: r, node: id}
		}
		if c.Mode == "direct" {
			g := kgf(uint16(id))
			g.Init(all16, c.T, func(m []byte, bc bool, to uint16) {
				dst := []uint16{to}
				if bc {
					dst = all16
				}
				flag := byte(0)
				if bc {
					flag = 1
				}
				r.send(id, uint8(tss.MsgTypeMPC), []byte{flag}, m, dst...)
			})
			if r.direct == nil {
				r.direct = map[int]tss.KeyGenerator{}
			}
			r.direct[id] = g
			continue
		}
		send := func(msgType uint8, topic []byte, m []byte, to ...uint16) { r.send(id, msgType, topic, m, to...) }
		mf := func() map[tss.UniversalID]tss.PartyID { return membership }
		var sf tss.SignerFactory
		if c.Scheme == "eddsa" {
			sf = func(party uint16) tss.Signer { return eddsa.NewParty(party, scripted.Logger{}) }
		}
		if c.Mode == "silent" {
			// silent mode: the application tells who takes part; a signing session among a subset is announced as that subset
			r.parties[id] = threshold.SilentScheme(uint16(id), countingLogger{r: r, node: id}, kgf, sf, c.T, send, mf,
				func(_ []byte, expected int) []uint16 {
					if len(c.Signers) > 0 && expected == len(c.Signers) && expected < len(all16) {
						res := make([]uint16, len(c.Signers))
						for i, x := range c.Signers {
							res[i] = uint16(x)
						}
						return res
					}
					return all16
				})
		} else {
			r.parties[id] = threshold.LoudScheme(uint16(id), countingLogger{r: r, node: id}, kgf, sf, c.T, send, mf)
		}
	}
	deadline := time.Duration(c.DeadlineMs) * time.Millisecond
	type kgres struct {
		node int
		data []byte
		err  error
	}
	results := make(chan kgres, len(ids))
	var cancels []context.CancelFunc
	start := time.Now()
	ctxs := map[int]context.Context{}
	for _, id := range ids {
		ctx, cancel := context.WithTimeout(context.Background(), deadline)
		ctxs[id] = ctx
		cancels = append(cancels, cancel)
	}
	kgCancels := append([]context.CancelFunc(nil), cancels...)
	r.mu.Lock()
	r.cancelAll = func() {
		for _, cf := range kgCancels {
			cf()
		}
	}
	r.mu.Unlock()
	for _, id := range ids {
		id := id
		ctx := ctxs[id]
		late := false
		for _, x := range c.Late {
			late = late || x == id
		}
		go func() {
			if late && c.LateMs > 0 {
				time.Sleep(time.Duration(c.LateMs) * time.Millisecond)
			}
			r.log(obj{"e": "call", "node": id})
			if c.Mode == "direct" {
				data, err := r.direct[id].KeyGen(ctx)
				results <- kgres{id, data, err}
				return
			}
			data, err := r.parties[id].KeyGen(ctx, c.N, c.T)
			results <- kgres{id, data, err}
		}()
	}
	if c.Cancel > 0 {
		go func() {
			time.Sleep(time.Duration(c.Cancel) * time.Millisecond)
			for _, cf := range cancels {
				cf()
			}
		}()
	}
	got := map[int]kgres{}
	hard := start.Add(deadline + 4*time.Second)
	steps := 0
	pump := func(done func() bool, poll func()) {
		for !done() && time.Now().Before(hard) {
			r.mu.Lock()
			var nonEmpty [][2]int
			for _, k := range r.order {
				if len(r.links[k]) > 0 {
					nonEmpty = append(nonEmpty, k)
				}
			}
			var m *netMsg
			if len(nonEmpty) > 0 {
				k := nonEmpty[rng.Intn(len(nonEmpty))]
				x := r.links[k][0]
				r.links[k] = r.links[k][1:]
				m = &x
			}
			r.mu.Unlock()
			if m != nil {
				r.deliver(m)
			} else {
				time.Sleep(200 * time.Microsecond)
			}
			poll()
		}
	}
	for len(got) < len(ids) && time.Now().Before(hard) {
		r.mu.Lock()
		var nonEmpty [][2]int
		for _, k := range r.order {
			if len(r.links[k]) > 0 {
				nonEmpty = append(nonEmpty, k)
			}
		}
		var m *netMsg
		if len(nonEmpty) > 0 {
			steps++
			k := nonEmpty[rng.Intn(len(nonEmpty))]
			switch c.Policy {
			case "newest":
				if rng.Intn(10) < 7 {
					k = nonEmpty[len(nonEmpty)-1]
				}
			case "oldest":
				if rng.Intn(10) < 7 {
					k = nonEmpty[0]
				}
			case "starve":
				// starve the links of the smallest node for a while
				if steps < 400 {
					var alt [][2]int
					for _, x := range nonEmpty {
						if x[0] != ids[0] {
							alt = append(alt, x)
						}
					}
					if len(alt) > 0 {
						k = alt[rng.Intn(len(alt))]
					}
				}
			}
			x := r.links[k][0]
			r.links[k] = r.links[k][1:]
			m = &x
		}
		r.mu.Unlock()
		if m != nil {
			if c.Mode == "direct" {
				// the receiver classifies the payload itself, as the orchestrator would
				g := r.direct[m.to]
				if _, bc, err := g.ClassifyMsg(m.m.Data); err == nil {
					g.OnMsg(m.m.Data, uint16(m.from), bc)
				}
			} else {
				r.deliver(m)
			}
		} else {
			select {
			case res := <-results:
				got[res.node] = res
			case <-time.After(200 * time.Microsecond):
			}
			continue
		}
		select {
		case res := <-results:
			got[res.node] = res
		default:
		}
		if steps%8 == 0 {
			runtime.Gosched()
		}
	}
	elapsed := time.Since(start)
	for _, cf := range cancels {
		cf()
	}
	// grace period: background goroutines of calls that returned must not crash the process
	if c.Fault.SilentPeer != 0 || c.Fault.WithholdIdx >= 0 || c.Byz != nil || c.Cancel > 0 {
		time.Sleep(60 * time.Millisecond)
	}
	for _, id := range ids {
		res, ok := got[id]
		if !ok {
			r.log(obj{"e": "kgret", "node": id, "returned": false, "ok": false, "err": "did not return", "pub": ""})
			continue
		}
		es := ""
		if res.err != nil {
			es = res.err.Error()
		}
		r.log(obj{"e": "kgret", "node": id, "returned": true, "ok": res.err == nil && len(res.data) > 0, "err": es, "pub": publicPart(c.Scheme, res.data)})
	}
	// orchestrated signing (tss-lib adapter): every party of the signing session must obtain a signature for the requested digest
	if c.Scheme == "eddsa" && len(got) == len(ids) {
		allOK := true
		for _, id := range ids {
			if got[id].err != nil || len(got[id].data) == 0 {
				allOK = false
			}
		}
		if allOK {
			for _, id := range ids {
				r.parties[id].SetStoredData(got[id].data)
			}
			pk, perr := r.parties[ids[0]].ThresholdPK()
			digest := make([]byte, 32)
			rng.Read(digest)
			if c.Seed%3 == 0 {
				digest[0] = 0 // a digest with a leading zero byte
			}
			type sgres struct {
				node int
				sig  []byte
				err  error
			}
			signIDs := ids
			if len(c.Signers) > 0 {
				signIDs = c.Signers
			}
			sres := make(chan sgres, len(signIDs))
			hard = time.Now().Add(deadline + 4*time.Second)
			for _, id := range signIDs {
				id := id
				ctx, cancel := context.WithTimeout(context.Background(), deadline)
				cancels = append(cancels, cancel)
				late := false
				for _, x := range c.Late {
					late = late || x == id
				}
				go func() {
					if late && c.LateMs > 0 {
						time.Sleep(time.Duration(c.LateMs) * time.Millisecond)
					}
					sig, err := r.parties[id].Sign(ctx, digest, fmt.Sprintf("topic-%d", c.Seed))
					sres <- sgres{id, sig, err}
				}()
			}
			sgot := map[int]sgres{}
			pump(func() bool { return len(sgot) == len(signIDs) }, func() {
				select {
				case x := <-sres:
					sgot[x.node] = x
				default:
				}
			})
			for _, id := range signIDs {
				x, ok := sgot[id]
				es := ""
				verified := false
				if ok && x.err != nil {
					es = x.err.Error()
				}
				if ok && x.err == nil && perr == nil && len(pk) == ed25519.PublicKeySize {
					verified = ed25519.Verify(ed25519.PublicKey(pk), digest, x.sig)
				}
				r.log(obj{"e": "sgret", "node": id, "returned": ok, "ok": ok && x.err == nil, "verified": verified, "err": es})
			}
		}
	}
	// exercise the stored shares: every subset of size >= t, several digests
	if c.Sign && c.Scheme == "bls" {
		okNodes := []int{}
		for _, id := range ids {
			if res, ok := got[id]; ok && res.err == nil && len(res.data) > 0 && (c.Byz == nil || c.Byz.Node != id) {
				okNodes = append(okNodes, id)
			}
		}
		if len(okNodes) >= c.T && len(okNodes) > 0 {
			total, bad, perr := blsExercise(c, ids, okNodes, got[okNodes[0]].data, func(id int) []byte { return got[id].data }, rng)
			r.log(obj{"e": "signcheck", "subsets": total, "bad": bad, "panic": perr})
		}
	}
	if c.Sign && c.Scheme == "ps" {
		okNodes := []int{}
		for _, id := range ids {
			if res, ok := got[id]; ok && res.err == nil && len(res.data) > 0 && (c.Byz == nil || c.Byz.Node != id) {
				okNodes = append(okNodes, id)
			}
		}
		if len(okNodes) >= c.T {
			total, bad, perr := psExercise(c, ids, okNodes, msgLen, func(id int) []byte { return got[id].data }, rng)
			r.log(obj{"e": "signcheck", "subsets": total, "bad": bad, "panic": perr})
		}
	}
	// goroutines of calls that have returned may still be logging: the record of the run is closed under the lock, and what is
	// returned does not share its backing array with the live record
	r.mu.Lock()
	defer r.mu.Unlock()
	r.closed = true
	return append(append([]obj(nil), r.lines...), obj{"t": t, "e": "end", "elapsed_ms": int(elapsed / time.Millisecond), "messages": r.total, "early": r.early})
}

// the public part of the stored data (threshold key and per-party keys), hex of a digest to keep lines short
func publicPart(scheme string, data []byte) string {
	if len(data) == 0 {
		return ""
	}
	if scheme == "ps" {
		var sd ps.StoredData
		if _, err := asn1.Unmarshal(data, &sd); err != nil {
			return "unparsable"
		}
		h := sha256.New()
		h.Write(sd.ThresholdPK)
		for _, p := range sd.PublicKeys {
			h.Write([]byte{0})
			h.Write(p)
		}
		return hex.EncodeToString(h.Sum(nil))
	}
	var sd bls.StoredData
	if _, err := asn1.Unmarshal(data, &sd); err != nil {
		return "unparsable"
	}
	h := sha256.New()
	h.Write(sd.ThresholdPK)
	for _, p := range sd.PublicKeys {
		h.Write([]byte{0})
		h.Write(p)
	}
	return hex.EncodeToString(h.Sum(nil))
}

func subsetsOf(items []int, min int) [][]int {
	var res [][]int
	n := len(items)
	for mask := 1; mask < 1<<uint(n); mask++ {
		var s []int
		for i := 0; i < n; i++ {
			if mask&(1<<uint(i)) != 0 {
				s = append(s, items[i])
			}
		}
		if len(s) >= min {
			res = append(res, s)
		}
	}
	return res
}

// every subset of the parties that completed x digests: partial signatures from the stored shares, aggregated and verified under
// the public parameters reported by EVERY completing party
func blsExercise(c stackCase, ids, okNodes []int, _ []byte, dataOf func(int) []byte, rng *rand.Rand) (total int, bad []string, perr string) {
	defer func() {
		if p := recover(); p != nil {
			perr = fmt.Sprint(p)
		}
	}()
	parties := make([]uint16, len(ids))
	for i, id := range ids {
		parties[i] = uint16(id)
	}
	signers := map[int]*bls.TBLS{}
	verifiers := map[int]*bls.Verifier{}
	for _, id := range okNodes {
		s := &bls.TBLS{Logger: scripted.Logger{}, Party: uint16(id)}
		s.Init(parties, c.T, func([]byte, bool, uint16) {})
		if err := s.SetShareData(dataOf(id)); err != nil {
			return 0, []string{fmt.Sprintf("SetShareData(%d): %v", id, err)}, ""
		}
		pp, err := s.ThresholdPK()
		if err != nil {
			return 0, []string{fmt.Sprintf("ThresholdPK(%d): %v", id, err)}, ""
		}
		v := &bls.Verifier{}
		if err := v.Init(pp); err != nil {
			return 0, []string{fmt.Sprintf("Verifier.Init(%d): %v", id, err)}, ""
		}
		signers[id] = s
		verifiers[id] = v
	}
	rnd := make([]byte, 32)
	rng.Read(rnd)
	kib := make([]byte, 1024)
	rng.Read(kib)
	digests := [][]byte{{}, {7}, sha([]byte("digest")), kib, rnd}
	subsets := subsetsOf(okNodes, c.T)
	for _, sub := range subsets {
		for di, d := range digests {
			if len(subsets) > 12 && di > 1 && di != 4 {
				continue // many subsets: three digests each
			}
			total++
			sigs := [][]byte{}
			who := []uint16{}
			// signer order is shuffled: the aggregation must not depend on it
			perm := rng.Perm(len(sub))
			for _, i := range perm {
				sig, err := signers[sub[i]].Sign(context.Background(), d)
				if err != nil {
					bad = append(bad, fmt.Sprintf("Sign(%d): %v", sub[i], err))
					continue
				}
				sigs = append(sigs, sig)
				who = append(who, uint16(sub[i]))
			}
			for _, vid := range okNodes {
				agg, err := verifiers[vid].AggregateSignatures(sigs, who)
				if err != nil {
					bad = append(bad, fmt.Sprintf("aggregate %v at %d: %v", sub, vid, err))
					continue
				}
				if err := verifiers[vid].Verify(d, agg); err != nil {
					bad = append(bad, fmt.Sprintf("subset %v digest#%d under the key reported by %d: %v", sub, di, vid, err))
				}
			}
		}
	}
	if len(bad) > 6 {
		bad = append(bad[:6], fmt.Sprintf("... %d more", len(bad)-6))
	}
	if bad == nil {
		bad = []string{}
	}
	return
}

func init() {
	commands["stack-child"] = func() {
		var job stackJob
		readJob(&job)
		em := newEmitter()
		for i, c := range job.Cases {
			em.lines(stackExec(job.Base+i, c))
			em.flush()
		}
	}
	commands["stack"] = func() {
		var job stackJob
		readJob(&job)
		em := newEmitter()
		defer em.flush()
		runInChildren("stack-child", len(job.Cases), job.Workers, 6, func(lo, hi int) interface{} {
			return stackJob{Cases: job.Cases[lo:hi], Base: lo}
		}, em)
	}
}

// PS: for every subset of the completers of size >= t: blind a message vector, sign with each member's stored share, unblind each
// partial signature under that member's published key, prove knowledge for the subset and verify under the threshold key
func psExercise(c stackCase, ids, okNodes []int, msgLen int, dataOf func(int) []byte, rng *rand.Rand) (total int, bad []string, perr string) {
	defer func() {
		if p := recover(); p != nil {
			perr = fmt.Sprint(p)
		}
	}()
	bad = []string{}
	parties := make([]uint16, len(ids))
	for i, id := range ids {
		parties[i] = uint16(id)
	}
	signers := map[int]*ps.TPS{}
	var tpk []byte
	for _, id := range okNodes {
		s := &ps.TPS{Logger: scripted.Logger{}, Party: uint16(id), Curve: math.Curves[1], MessageLength: msgLen}
		s.Init(parties, c.T, func([]byte, bool, uint16) {})
		if err := s.SetShareData(dataOf(id)); err != nil {
			return 0, []string{fmt.Sprintf("SetShareData(%d): %v", id, err)}, ""
		}
		pk, err := s.ThresholdPK()
		if err != nil {
			return 0, []string{fmt.Sprintf("ThresholdPK(%d): %v", id, err)}, ""
		}
		if tpk == nil {
			tpk = pk
		}
		signers[id] = s
	}
	var prover ps.Prover
	if err := prover.Init(math.Curves[1], msgLen, tpk, parties); err != nil {
		return 0, []string{"Prover.Init: " + err.Error()}, ""
	}
	var verifier ps.Verifier
	if err := verifier.Init(math.Curves[1], msgLen, tpk); err != nil {
		return 0, []string{"Verifier.Init: " + err.Error()}, ""
	}
	msg := make([][]byte, msgLen)
	for i := range msg {
		switch rng.Intn(4) {
		case 0:
			msg[i] = []byte{}
		case 1:
			msg[i] = []byte("same entry")
		default:
			msg[i] = make([]byte, 1+rng.Intn(40))
			rng.Read(msg[i])
		}
	}
	req, secret := prover.Blind(msg)
	reqBytes := req.Bytes()
	witness := map[int]ps.SignatureWitness{}
	for _, id := range okNodes {
		sig, err := signers[id].Sign(context.Background(), reqBytes)
		if err != nil {
			bad = append(bad, fmt.Sprintf("Sign(%d): %v", id, err))
			continue
		}
		w, err := prover.UnBlind(uint16(id), sig, &secret)
		if err != nil {
			bad = append(bad, fmt.Sprintf("UnBlind(%d): %v", id, err))
			continue
		}
		witness[id] = w
	}
	for _, sub := range subsetsOf(okNodes, c.T) {
		total++
		var who []uint16
		var ws []ps.SignatureWitness
		complete := true
		for _, id := range sub {
			w, ok := witness[id]
			if !ok {
				complete = false
				break
			}
			who = append(who, uint16(id))
			ws = append(ws, w)
		}
		if !complete {
			continue
		}
		pi := prover.ProveKnowledgeOfSignature(&secret, who, ws)
		if err := verifier.Verify(pi.Bytes()); err != nil {
			bad = append(bad, fmt.Sprintf("subset %v: %v", sub, err))
		}
	}
	if len(bad) > 6 {
		bad = append(bad[:6], fmt.Sprintf("... %d more", len(bad)-6))
	}
	return
}
